----------------------------- MODULE XlSyntax -----------------------------
(***************************************************************************)
(* Formula syntax: abstract syntax trees, their concrete rendering as the  *)
(* text Excel stores, the declarative grammar (Climb) and the tree a text  *)
(* denotes (C01, C02).                                                     *)
(*                                                                         *)
(* AST nodes (records tagged by k):                                        *)
(*   num   [txt]            numeric literal as written: 2  0.5  50%  5E-1  *)
(*   str   [v]              string literal content (code points)           *)
(*   bool  [v]    err [v]   TRUE/FALSE, error literal                      *)
(*   ref   [sheet, col, row, ac, ar]      sheet = "" when unqualified      *)
(*   range [sheet, c1, r1, a1, b1, c2, r2, a2, b2]   (a,b = $ flags)       *)
(*   rows  [sheet, r1, r2]  whole rows  1:1  2:5                           *)
(*   name  [v]              defined name                                   *)
(*   call  [f, at, args]    function call, at = leading @                  *)
(*   bin   [op, l, r]   neg [x]   pct [x]   paren [x]                      *)
(***************************************************************************)
EXTENDS XlValues, XlNames

Prec(op) == CASE op = "^" -> 5
              [] op \in {"*", "/"} -> 4
              [] op \in {"+", "-"} -> 3
              [] op = "&" -> 2
              [] OTHER -> 1            \* = <> < > <= >=

NumLit(txt)  == [k |-> "num", txt |-> txt]
StrLit(v)    == [k |-> "str", v |-> v]
BoolLit(b)   == [k |-> "bool", v |-> b]
ErrLit(c)    == [k |-> "err", v |-> c]
Ref(sh, c, r, ac, ar) == [k |-> "ref", sheet |-> sh, col |-> c, row |-> r, ac |-> ac, ar |-> ar]
RelRef(c, r) == Ref("", c, r, FALSE, FALSE)
Rows(sh, r1, r2) == [k |-> "rows", sheet |-> sh, r1 |-> r1, r2 |-> r2]
Rng(sh, c1, r1, c2, r2) == [k |-> "range", sheet |-> sh, c1 |-> c1, r1 |-> r1, a1 |-> FALSE, b1 |-> FALSE,
                            c2 |-> c2, r2 |-> r2, a2 |-> FALSE, b2 |-> FALSE]
NameRef(n)   == [k |-> "name", v |-> n]
CallN(f, args) == [k |-> "call", f |-> f, at |-> FALSE, args |-> args]
Bin(op, l, r) == [k |-> "bin", op |-> op, l |-> l, r |-> r]
Neg(x)   == [k |-> "neg", x |-> x]
Pct(x)   == [k |-> "pct", x |-> x]
Paren(x) == [k |-> "paren", x |-> x]

(* ---------------------------------------------------------------------- *)
(* value of a numeric literal as written                                   *)
(* ---------------------------------------------------------------------- *)
CPPct == 37
LitValue(txt) ==
    IF Len(txt) > 0 /\ txt[Len(txt)] = CPPct
    THEN LET r == TextToNum(SubSeq(txt, 1, Len(txt) - 1)) IN
         IF r.t = "num" THEN RDiv(r, Whole(100)) ELSE Open
    ELSE LET r == TextToNum(txt) IN IF r.t = "num" THEN r ELSE Open

(* ---------------------------------------------------------------------- *)
(* Erase: the tree a text denotes has no node for redundant parentheses    *)
(* and none for a leading @                                                *)
(* ---------------------------------------------------------------------- *)
RECURSIVE Erase(_)
Erase(a) ==
    CASE a.k = "paren" -> Erase(a.x)
      [] a.k = "bin"   -> [a EXCEPT !.l = Erase(a.l), !.r = Erase(a.r)]
      [] a.k \in {"neg", "pct"} -> [a EXCEPT !.x = Erase(a.x)]
      [] a.k = "call"  -> [k |-> "call", f |-> a.f, at |-> FALSE,
                           args |-> [i \in 1..Len(a.args) |-> Erase(a.args[i])]]
      [] OTHER -> a

(* ---------------------------------------------------------------------- *)
(* Canon: the tree a text denotes, in the form parse results are compared  *)
(* in - parentheses erased, numeric literals by value (a percent sign      *)
(* written directly after a literal is part of the literal), $ flags and   *)
(* the leading @ dropped                                                   *)
(* ---------------------------------------------------------------------- *)
RECURSIVE Canon(_)
Canon(a) ==
    CASE a.k = "num" -> [k |-> "num", v |-> LitValue(a.txt)]
      [] a.k = "paren" -> Canon(a.x)
      [] a.k = "bin" -> [k |-> "bin", op |-> a.op, l |-> Canon(a.l), r |-> Canon(a.r)]
      [] a.k = "neg" -> [k |-> "neg", x |-> Canon(a.x)]
      \* a percent sign written directly after a numeric literal is part of the literal; after anything else
      \* (a parenthesis included) it is the postfix operator
      [] a.k = "pct" -> LET x == Canon(a.x) IN
                        IF a.x.k = "num" THEN [k |-> "num", v |-> IF x.v.t = "num" THEN RDiv(x.v, Whole(100)) ELSE Open]
                        ELSE [k |-> "pct", x |-> x]
      [] a.k = "call" -> [k |-> "call", f |-> a.f, at |-> FALSE, args |-> [i \in 1..Len(a.args) |-> Canon(a.args[i])]]
      [] a.k = "ref" -> [a EXCEPT !.ac = FALSE, !.ar = FALSE]
      [] a.k = "range" -> [a EXCEPT !.a1 = FALSE, !.b1 = FALSE, !.a2 = FALSE, !.b2 = FALSE]
      [] OTHER -> a

RECURSIVE HasOpen(_)
HasOpen(a) ==
    CASE a.k = "num" -> a.v.t # "num"
      [] a.k = "bin" -> HasOpen(a.l) \/ HasOpen(a.r)
      [] a.k \in {"neg", "pct"} -> HasOpen(a.x)
      [] a.k = "call" -> \E i \in 1..Len(a.args) : HasOpen(a.args[i])
      [] OTHER -> FALSE

RECURSIVE Size(_)
RECURSIVE SumSizes(_)
SumSizes(xs) == IF Len(xs) = 0 THEN 0 ELSE Size(xs[1]) + SumSizes(Tail(xs))
Size(a) ==
    CASE a.k \in {"paren", "neg", "pct"} -> 1 + Size(a.x)
      [] a.k = "bin"  -> 1 + Size(a.l) + Size(a.r)
      [] a.k = "call" -> 1 + SumSizes(a.args)
      [] OTHER -> 1

(* ---------------------------------------------------------------------- *)
(* rendering                                                               *)
(* style: gaps (code-point tuples of blanks / newlines) per token class    *)
(*   lead, trail   before the first / after the last token                 *)
(*   opl, opr      before / after a binary operator                        *)
(*   po, pc        after "(" / before ")"                                  *)
(*   cb, ca        before / after an argument separator                    *)
(*   eq            leading "="                                             *)
(* ---------------------------------------------------------------------- *)
NoGap == <<>>
Style0 == [lead |-> NoGap, trail |-> NoGap, opl |-> NoGap, opr |-> NoGap, po |-> NoGap, pc |-> NoGap,
           cb |-> NoGap, ca |-> NoGap, eq |-> TRUE]
GapClasses == {"lead", "trail", "opl", "opr", "po", "pc", "cb", "ca"}

RECURSIVE ColCodes(_)
ColCodes(c) == \* bijective base 26: 1 -> A, 26 -> Z, 27 -> AA
    IF c <= 26 THEN <<64 + c>>
    ELSE LET r == ((c - 1) % 26) + 1 IN Append(ColCodes((c - r) \div 26), 64 + r)

DOLLAR == 36   BANG == 33   QUOTE == 39   DQ == 34   LP == 40   RP == 41   COMMA == 44   COLON == 58   AT == 64

CellCodes(c, r, ac, ar) ==
    (IF ac THEN <<DOLLAR>> ELSE <<>>) \o ColCodes(c) \o (IF ar THEN <<DOLLAR>> ELSE <<>>) \o NatToCodes(r)

IsPlainSheetChar(c) == (c >= 48 /\ c <= 57) \/ (c >= 65 /\ c <= 90) \/ (c >= 97 /\ c <= 122) \/ c = 95
\* Excel quotes a sheet name that contains anything but letters, digits and _ , or that starts with a digit
NeedsQuote(s) == (\E i \in 1..Len(s) : ~IsPlainSheetChar(s[i])) \/ (Len(s) > 0 /\ IsDigit(s[1]))
RECURSIVE DoubleQ(_, _)
DoubleQ(s, q) == IF Len(s) = 0 THEN <<>>
                 ELSE (IF s[1] = q THEN <<q, q>> ELSE <<s[1]>>) \o DoubleQ(Tail(s), q)

\* sheet prefix; q = "always" quotes even a plain name (Excel accepts that)
SheetCodes(sh, q) ==
    IF sh = "" THEN <<>>
    ELSE LET s == NameCodes(sh) IN
         (IF NeedsQuote(s) \/ q THEN <<QUOTE>> \o DoubleQ(s, QUOTE) \o <<QUOTE>> ELSE s) \o <<BANG>>

RECURSIVE Render(_, _)
RECURSIVE RenderArgs(_, _)
RenderArgs(xs, st) ==
    IF Len(xs) = 0 THEN <<>>
    ELSE IF Len(xs) = 1 THEN Render(xs[1], st)
    ELSE Render(xs[1], st) \o st.cb \o <<COMMA>> \o st.ca \o RenderArgs(Tail(xs), st)
Render(a, st) ==
    CASE a.k = "num"  -> a.txt
      [] a.k = "str"  -> <<DQ>> \o DoubleQ(a.v, DQ) \o <<DQ>>
      [] a.k = "bool" -> IF a.v THEN TRUEcodes ELSE FALSEcodes
      [] a.k = "err"  -> NameCodes(a.v)
      [] a.k = "ref"  -> SheetCodes(a.sheet, FALSE) \o CellCodes(a.col, a.row, a.ac, a.ar)
      [] a.k = "range" -> SheetCodes(a.sheet, FALSE) \o CellCodes(a.c1, a.r1, a.a1, a.b1) \o <<COLON>>
                          \o CellCodes(a.c2, a.r2, a.a2, a.b2)
      [] a.k = "rows" -> SheetCodes(a.sheet, FALSE) \o NatToCodes(a.r1) \o <<COLON>> \o NatToCodes(a.r2)
      [] a.k = "name" -> NameCodes(a.v)
      [] a.k = "call" -> (IF a.at THEN <<AT>> ELSE <<>>) \o NameCodes(a.f) \o <<LP>> \o st.po
                         \o RenderArgs(a.args, st) \o st.pc \o <<RP>>
      [] a.k = "bin"  -> Render(a.l, st) \o st.opl \o NameCodes(a.op) \o st.opr \o Render(a.r, st)
      [] a.k = "neg"  -> <<CPMinus>> \o Render(a.x, st)
      [] a.k = "pct"  -> Render(a.x, st) \o <<CPPct>>
      [] a.k = "paren" -> <<LP>> \o st.po \o Render(a.x, st) \o st.pc \o <<RP>>

Formula(a, st) == (IF st.eq THEN <<61>> ELSE <<>>) \o st.lead \o Render(a, st) \o st.trail

(* ---------------------------------------------------------------------- *)
(* minimal parentheses: Excel's grammar as a statement about trees.        *)
(* All binary operators associate to the left; unary minus and % bind      *)
(* tighter than every binary operator (unary minus tightest).              *)
(* ---------------------------------------------------------------------- *)
IsAtom(a) == a.k \in {"num", "str", "bool", "err", "ref", "range", "rows", "name", "call", "paren"}

\* must child c of a binary node with operator op on side sd ("l"/"r") be parenthesised?
NeedsParen(c, op, sd) ==
    c.k = "bin" /\ (Prec(c.op) < Prec(op) \/ (Prec(c.op) = Prec(op) /\ sd = "r"))

RECURSIVE MinParen(_)
MinParen(a) == \* insert exactly the parentheses the grammar requires (input: paren-free tree)
    CASE a.k = "bin" ->
           LET l == MinParen(a.l)  r == MinParen(a.r) IN
           [a EXCEPT !.l = IF NeedsParen(a.l, a.op, "l") THEN Paren(l) ELSE l,
                     !.r = IF NeedsParen(a.r, a.op, "r") THEN Paren(r) ELSE r]
      [] a.k = "neg" -> [a EXCEPT !.x = IF a.x.k = "bin" THEN Paren(MinParen(a.x)) ELSE MinParen(a.x)]
      [] a.k = "pct" -> [a EXCEPT !.x = IF a.x.k \in {"bin", "neg"} THEN Paren(MinParen(a.x)) ELSE MinParen(a.x)]
      [] a.k = "call" -> [a EXCEPT !.args = [i \in 1..Len(a.args) |-> MinParen(a.args[i])]]
      [] OTHER -> a

RECURSIVE FullParen(_)
FullParen(a) == \* redundant parentheses around every operator node and every operand
    CASE a.k = "bin" -> Paren([a EXCEPT !.l = FullParen(a.l), !.r = FullParen(a.r)])
      [] a.k = "neg" -> Paren([a EXCEPT !.x = FullParen(a.x)])
      [] a.k = "pct" -> [a EXCEPT !.x = Paren(FullParen(a.x))]
      [] a.k = "call" -> [a EXCEPT !.args = [i \in 1..Len(a.args) |-> Paren(FullParen(a.args[i]))]]
      [] OTHER -> Paren(a)

(* ---------------------------------------------------------------------- *)
(* Climb: the declarative grammar of a parenthesis-free run                *)
(*   run = <<operand, op, operand, op, ..., operand>>                      *)
(* The tree of a run is bin(op_k, Climb(left), Climb(right)) for the       *)
(* RIGHTMOST operator k of LOWEST precedence.                              *)
(* ---------------------------------------------------------------------- *)
RECURSIVE Climb(_)
Climb(run) ==
    IF Len(run) = 1 THEN run[1]
    ELSE LET ops  == {i \in 1..Len(run) : i % 2 = 0}
             minp == CHOOSE p \in {Prec(run[i]) : i \in ops} : \A j \in ops : p <= Prec(run[j])
             k    == CHOOSE i \in ops : Prec(run[i]) = minp /\ \A j \in ops : Prec(run[j]) = minp => j <= i
         IN Bin(run[k], Climb(SubSeq(run, 1, k - 1)), Climb(SubSeq(run, k + 1, Len(run))))

RECURSIVE Flatten(_)
Flatten(a) == \* in-order run of a tree rendered WITHOUT any parentheses
    IF a.k = "bin" THEN Flatten(a.l) \o <<a.op>> \o Flatten(a.r) ELSE <<a>>

(* ---------------------------------------------------------------------- *)
(* The shunting-yard design (what the implementation does), parameterised  *)
(* by a precedence / associativity table so that TLC can show the shipped  *)
(* table equals Climb and that plausible wrong tables do not.              *)
(*   table[op] = [p |-> precedence, ra |-> right-associative]              *)
(* One step per token; operands go to the output (a stack of trees).       *)
(* ---------------------------------------------------------------------- *)
ReduceTop(out, op) == \* pop two trees, push bin
    LET n == Len(out) IN Append(SubSeq(out, 1, n - 2), Bin(op, out[n - 1], out[n]))

RECURSIVE PopWhile(_, _, _, _)
PopWhile(out, stack, o1, table) == \* returns <<out, stack>>
    IF Len(stack) = 0 THEN <<out, stack>>
    ELSE LET o2 == stack[Len(stack)] IN
         IF (~table[o1].ra /\ table[o1].p <= table[o2].p) \/ (table[o1].ra /\ table[o1].p < table[o2].p)
         THEN PopWhile(ReduceTop(out, o2), SubSeq(stack, 1, Len(stack) - 1), o1, table)
         ELSE <<out, stack>>

RECURSIVE Drain(_, _)
Drain(out, stack) == IF Len(stack) = 0 THEN out
                     ELSE Drain(ReduceTop(out, stack[Len(stack)]), SubSeq(stack, 1, Len(stack) - 1))

RECURSIVE SYRun(_, _, _, _, _)
SYRun(run, i, out, stack, table) ==
    IF i > Len(run) THEN Drain(out, stack)[1]
    ELSE IF i % 2 = 1 THEN SYRun(run, i + 1, Append(out, run[i]), stack, table)
    ELSE LET ps == PopWhile(out, stack, run[i], table) IN
         SYRun(run, i + 1, ps[1], Append(ps[2], run[i]), table)

ShuntingYard(run, table) == SYRun(run, 1, <<>>, <<>>, table)

ExcelTable == [op \in BinOps |-> [p |-> Prec(op), ra |-> FALSE]]
=============================================================================

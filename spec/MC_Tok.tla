------------------------------ MODULE MC_Tok ------------------------------
(***************************************************************************)
(* Bounded instance of the tokenizer machine (XlTokenizer).                *)
(*                                                                         *)
(*   raw    every string over each alphabet of Alphabets, of length <= its *)
(*          bound + MaxLen (MaxLen = 0 quick, 1 thorough), with and without*)
(*          the leading "=": the machine on arbitrary text,                *)
(*          malformed formulas included - it terminates, keeps its stack   *)
(*          discipline and either finishes or fails the way the code does  *)
(*   ast    the well-formed formulas of MC_C02 (every family), rendered    *)
(*          under their style: the finished token list must be the token   *)
(*          list the tree denotes (Lex), whatever the white space - the    *)
(*          machine refines the syntax specification (C02)                 *)
(***************************************************************************)
EXTENDS XlSyntax, XlTokenizer

CONSTANTS Families, StrLen, Alphabets, MaxLen

VARIABLES case, res
vars == <<case, res, src, off, tok, mode, stack, out, phase, und>>

C2 == INSTANCE MC_C02

(* ---------------------------------------------------------------------- *)
(* Lex: the token list a tree denotes                                      *)
(* ---------------------------------------------------------------------- *)
BareSheet(sh) == IF sh = "" THEN <<>> ELSE NameCodes(sh) \o <<BANG>>          \* the tokenizer drops the quotes
OpSubtype(op) == IF op \in {"=", "<>", "<", ">", "<=", ">="} THEN "logical" ELSE IF op = "&" THEN "concatenate" ELSE "math"
EndsPct(txt) == Len(txt) > 0 /\ txt[Len(txt)] = CPPct

RECURSIVE Lex(_)
RECURSIVE LexArgs(_)
LexArgs(xs) == IF Len(xs) = 0 THEN <<>>
               ELSE IF Len(xs) = 1 THEN Lex(xs[1])
               ELSE Lex(xs[1]) \o <<TT(<<cComma>>, "argument", "")>> \o LexArgs(Tail(xs))
Lex(a) ==
    CASE a.k = "num"  -> IF EndsPct(a.txt) THEN <<Tok(LitValue(a.txt), "operand", "number")>>
                         ELSE <<TT(a.txt, "operand", "number")>>
      [] a.k = "str"  -> <<TT(a.v, "operand", "text")>>
      [] a.k = "bool" -> <<TT(IF a.v THEN TRUEcodes ELSE FALSEcodes, "operand", "logical")>>
      [] a.k = "err"  -> <<TT(NameCodes(a.v), "operand", "error")>>
      [] a.k = "ref"  -> <<TT(BareSheet(a.sheet) \o CellCodes(a.col, a.row, a.ac, a.ar), "operand", "range")>>
      [] a.k = "range" -> <<TT(BareSheet(a.sheet) \o CellCodes(a.c1, a.r1, a.a1, a.b1) \o <<COLON>>
                               \o CellCodes(a.c2, a.r2, a.a2, a.b2), "operand", "range")>>
      [] a.k = "name" -> <<TT(NameCodes(a.v), "operand", "range")>>
      [] a.k = "call" -> <<Start(NameCodes(a.f), "function")>> \o LexArgs(a.args) \o <<Stop("function")>>
      [] a.k = "bin"  -> Lex(a.l) \o <<TT(NameCodes(a.op), "operator-infix", OpSubtype(a.op))>> \o Lex(a.r)
      [] a.k = "neg"  -> <<TT(<<CPMinus>>, "operator-prefix", "")>> \o Lex(a.x)
      \* a percent sign directly after a numeric literal (not itself a percent literal) folds into the literal
      [] a.k = "pct"  -> IF a.x.k = "num" /\ ~EndsPct(a.x.txt)
                         THEN <<Tok(LitValue(Append(a.x.txt, CPPct)), "operand", "number")>>
                         ELSE Lex(a.x) \o <<TT(<<cStar>>, "operator-infix", "math"), Tok(Hundredth, "operand", "number")>>
      [] a.k = "paren" -> <<Start(<<>>, "subexpression")>> \o Lex(a.x) \o <<Stop("subexpression")>>

(* ---------------------------------------------------------------------- *)
\* an alphabet is written in the configuration as a set of code points plus ONE element 1000 + n: its length bound
\* (configuration files have no records)
AlphaChars(A) == {c \in A : c < 1000}
AlphaLen(A) == (CHOOSE k \in A : k >= 1000) - 1000
RawCase(s, eq) == [kind |-> "raw", tree |-> [k |-> "none"], text |-> (IF eq THEN <<cEq>> ELSE <<>>) \o s]

InitCase ==
    \/ /\ "raw" \in Families
       /\ \E A \in Alphabets : \E n \in 0..(AlphaLen(A) + MaxLen) :
             \E s \in [1..n -> AlphaChars(A)] : \E eq \in BOOLEAN : case = RawCase(s, eq)
    \/ C2!InitCase

Init == InitCase /\ res = C2!Pending /\ TokInit(case.text)
Next == TokNext /\ UNCHANGED <<case, res>>
Spec == Init /\ [][Next]_vars

\* the machine refines the syntax specification: well-formed text gives the token list its tree denotes
Comparable(a, b) == \* token values: a number the bounded arithmetic cannot hold is not compared
    /\ Len(a) = Len(b)
    /\ \A i \in 1..Len(a) : /\ a[i].ty = b[i].ty /\ a[i].sub = b[i].sub
                            /\ (a[i].v.t = "open" \/ b[i].v.t = "open" \/ a[i].v = b[i].v)
RefinesSyntax == (phase = "done" /\ case.kind # "raw" /\ ~und) => Comparable(out, Lex(MinParen(case.tree)))
WellFormedNeverFails == case.kind # "raw" => phase # "fail"
WellFormedNoUnknown == (phase = "done" /\ case.kind # "raw") => \A i \in 1..Len(out) : out[i].ty # "unknown"
\* a finished well-formed formula leaves nothing open
WellFormedBalanced == (phase = "done" /\ case.kind # "raw") => stack = <<>> /\ mode = "normal"
ProgressM == [][(phase = "scan" /\ phase' = "scan") => off' > off]_vars
=============================================================================

----------------------------- MODULE XlRegistry -----------------------------
(***************************************************************************)
(* The function registry and evaluator namespaces (C08): xl.register adds  *)
(* (or replaces) a function in the global registry; an Evaluator copies    *)
(* the registry when it is created.  A function registered BEFORE an       *)
(* evaluator was created is callable through it - in the version that was  *)
(* current at that moment - case-insensitively, with or without an _xlfn.  *)
(* prefix, with the usual argument coercion; whether a (re-)registration   *)
(* made AFTERWARDS is visible is left open; an unregistered name never     *)
(* yields a value.  Versions: registering a name again replaces it.        *)
(***************************************************************************)
EXTENDS Integers, Sequences, FiniteSets, TLC

(* All evaluators of a history share ONE model: the formula that calls f is  *)
(* one cell, evaluated by whichever evaluator the call names.  Bind selects *)
(* where the name is resolved:                                              *)
(*   "per-call"  in the calling evaluator's table, at every evaluation (the *)
(*               shipped design)                                            *)
(*   "per-node"  once, when the formula's node is first evaluated - the     *)
(*               function stays bound to the syntax tree of the shared      *)
(*               model (a plausible optimisation; violates CallUsesOwnTable)*)
CONSTANTS FNames, Evs, MaxLen, MaxVer, Bind
VARIABLES registry, ns, hist, bound
vars == <<registry, ns, hist, bound>>

Init == registry = [f \in FNames |-> 0] /\ ns = [e \in {} |-> registry] /\ hist = <<>> /\ bound = [f \in FNames |-> 0]

Register(f) == /\ Len(hist) < MaxLen /\ registry[f] < MaxVer
               /\ registry' = [registry EXCEPT ![f] = registry[f] + 1] /\ UNCHANGED <<ns, bound>>
               /\ hist' = Append(hist, [op |-> "register", f |-> f, e |-> 0, res |-> "none", ver |-> registry[f] + 1])
NewEvaluator(e) == /\ Len(hist) < MaxLen /\ e \notin DOMAIN ns
                   /\ ns' = [x \in DOMAIN ns \cup {e} |-> IF x = e THEN registry ELSE ns[x]]      \* snapshot
                   /\ UNCHANGED <<registry, bound>>
                   /\ hist' = Append(hist, [op |-> "new", f |-> "", e |-> e, res |-> "none", ver |-> 0])
\* "value": the snapshot version is also the current one; "open": registered or re-registered after the evaluator was
\* created (either version may answer - or none); "no-value": never registered
Outcome(e, f) == IF ns[e][f] > 0 /\ ns[e][f] = registry[f] THEN "value"
                 ELSE IF registry[f] > 0 THEN "open" ELSE "no-value"
\* the version that answers the call
Used(e, f) == IF Bind = "per-node" /\ bound[f] > 0 THEN bound[f] ELSE ns[e][f]
CallF(e, f) == /\ Len(hist) < MaxLen /\ e \in DOMAIN ns
               /\ hist' = Append(hist, [op |-> "call", f |-> f, e |-> e, res |-> Outcome(e, f), ver |-> Used(e, f)])
               /\ bound' = IF Bind = "per-node" /\ bound[f] = 0 /\ ns[e][f] > 0 THEN [bound EXCEPT ![f] = ns[e][f]] ELSE bound
               /\ UNCHANGED <<registry, ns>>
Next == (\E f \in FNames : Register(f)) \/ (\E e \in Evs : NewEvaluator(e)) \/ (\E e \in Evs, f \in FNames : CallF(e, f))
Spec == Init /\ [][Next]_vars

\* whichever evaluator evaluated the shared formula before: a call is answered from the calling evaluator's own table
CallUsesOwnTable == \A i \in 1..Len(hist) : hist[i].op = "call" => hist[i].ver = ns[hist[i].e][hist[i].f]
\* refinement: this machine (with its exported history) is an instance of XlRegistryCore, whose SnapshotInv Apalache proves inductive
Core == INSTANCE XlRegistryCore WITH ns <- [e \in Evs |-> IF e \in DOMAIN ns THEN ns[e] ELSE [f \in FNames |-> 0]],
                                    live <- DOMAIN ns, perNode <- (Bind = "per-node")
RefinesCore == Core!Spec
CoreInv == Core!SnapshotInv
SnapshotWithinRegistry == \A e \in DOMAIN ns, f \in FNames : ns[e][f] <= registry[f]
CallsAfterCreation == \A i \in 1..Len(hist) : hist[i].op = "call" => \E j \in 1..(i - 1) : hist[j].op = "new" /\ hist[j].e = hist[i].e
VisibleIfRegisteredBefore == \A i \in 1..Len(hist) : (hist[i].op = "call" /\ hist[i].res = "value") =>
    \E j \in 1..(i - 1), k \in 1..(i - 1) : j < k /\ hist[j].op = "register" /\ hist[j].f = hist[i].f /\ hist[j].ver = hist[i].ver
                                             /\ hist[k].op = "new" /\ hist[k].e = hist[i].e
=============================================================================

----------------------------- MODULE XlRegistry -----------------------------
(***************************************************************************)
(* The function registry and evaluator namespaces (C08): xl.register adds  *)
(* a function to the global registry; an Evaluator copies the registry     *)
(* when it is created.  A function registered BEFORE an evaluator was      *)
(* created is callable through it (case-insensitively, with or without an  *)
(* _xlfn. prefix, with the usual argument coercion); whether one           *)
(* registered AFTERWARDS is visible is left open; an unregistered name     *)
(* never yields a value.                                                   *)
(***************************************************************************)
EXTENDS Integers, Sequences, FiniteSets, TLC

CONSTANTS FNames, Evs, MaxLen
VARIABLES registry, ns, hist
vars == <<registry, ns, hist>>

Init == registry = {} /\ ns = [e \in {} |-> {}] /\ hist = <<>>

Register(f) == /\ Len(hist) < MaxLen /\ f \notin registry
               /\ registry' = registry \cup {f} /\ UNCHANGED ns
               /\ hist' = Append(hist, [op |-> "register", f |-> f, e |-> 0, res |-> "none"])
NewEvaluator(e) == /\ Len(hist) < MaxLen /\ e \notin DOMAIN ns
                   /\ ns' = [x \in DOMAIN ns \cup {e} |-> IF x = e THEN registry ELSE ns[x]]      \* snapshot
                   /\ UNCHANGED registry
                   /\ hist' = Append(hist, [op |-> "new", f |-> "", e |-> e, res |-> "none"])
Outcome(e, f) == IF f \in ns[e] THEN "value" ELSE IF f \in registry THEN "open" ELSE "no-value"
CallF(e, f) == /\ Len(hist) < MaxLen /\ e \in DOMAIN ns
               /\ hist' = Append(hist, [op |-> "call", f |-> f, e |-> e, res |-> Outcome(e, f)])
               /\ UNCHANGED <<registry, ns>>
Next == (\E f \in FNames : Register(f)) \/ (\E e \in Evs : NewEvaluator(e)) \/ (\E e \in Evs, f \in FNames : CallF(e, f))
Spec == Init /\ [][Next]_vars

\* visibility is monotone: what an evaluator could call it can still call
SnapshotWithinRegistry == \A e \in DOMAIN ns : ns[e] \subseteq registry
CallsAfterCreation == \A i \in 1..Len(hist) : hist[i].op = "call" => \E j \in 1..(i - 1) : hist[j].op = "new" /\ hist[j].e = hist[i].e
VisibleIfRegisteredBefore == \A i \in 1..Len(hist) : (hist[i].op = "call" /\ hist[i].res = "value") =>
    \E j \in 1..(i - 1), k \in 1..(i - 1) : j < k /\ hist[j].op = "register" /\ hist[j].f = hist[i].f /\ hist[k].op = "new" /\ hist[k].e = hist[i].e
=============================================================================

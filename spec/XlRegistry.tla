----------------------------- MODULE XlRegistry -----------------------------
(***************************************************************************)
(* The function registry and evaluator namespaces (C08): xl.register adds  *)
(* (or replaces) a function in the global registry; an Evaluator copies    *)
(* the registry when it is created.  A function registered BEFORE an       *)
(* evaluator was created is callable through it - in the version that was  *)
(* current at that moment - case-insensitively, with or without an _xlfn.  *)
(* prefix, with the usual argument coercion; whether a (re-)registration   *)
(* made AFTERWARDS is visible is left open; an unregistered name never     *)
(* yields a value.  Versions: registering a name again replaces it.        *)
(***************************************************************************)
EXTENDS Integers, Sequences, FiniteSets, TLC

CONSTANTS FNames, Evs, MaxLen, MaxVer
VARIABLES registry, ns, hist
vars == <<registry, ns, hist>>

Init == registry = [f \in FNames |-> 0] /\ ns = [e \in {} |-> registry] /\ hist = <<>>

Register(f) == /\ Len(hist) < MaxLen /\ registry[f] < MaxVer
               /\ registry' = [registry EXCEPT ![f] = registry[f] + 1] /\ UNCHANGED ns
               /\ hist' = Append(hist, [op |-> "register", f |-> f, e |-> 0, res |-> "none", ver |-> registry[f] + 1])
NewEvaluator(e) == /\ Len(hist) < MaxLen /\ e \notin DOMAIN ns
                   /\ ns' = [x \in DOMAIN ns \cup {e} |-> IF x = e THEN registry ELSE ns[x]]      \* snapshot
                   /\ UNCHANGED registry
                   /\ hist' = Append(hist, [op |-> "new", f |-> "", e |-> e, res |-> "none", ver |-> 0])
\* "value": the snapshot version is also the current one; "open": registered or re-registered after the evaluator was
\* created (either version may answer - or none); "no-value": never registered
Outcome(e, f) == IF ns[e][f] > 0 /\ ns[e][f] = registry[f] THEN "value"
                 ELSE IF registry[f] > 0 THEN "open" ELSE "no-value"
CallF(e, f) == /\ Len(hist) < MaxLen /\ e \in DOMAIN ns
               /\ hist' = Append(hist, [op |-> "call", f |-> f, e |-> e, res |-> Outcome(e, f), ver |-> ns[e][f]])
               /\ UNCHANGED <<registry, ns>>
Next == (\E f \in FNames : Register(f)) \/ (\E e \in Evs : NewEvaluator(e)) \/ (\E e \in Evs, f \in FNames : CallF(e, f))
Spec == Init /\ [][Next]_vars

SnapshotWithinRegistry == \A e \in DOMAIN ns, f \in FNames : ns[e][f] <= registry[f]
CallsAfterCreation == \A i \in 1..Len(hist) : hist[i].op = "call" => \E j \in 1..(i - 1) : hist[j].op = "new" /\ hist[j].e = hist[i].e
VisibleIfRegisteredBefore == \A i \in 1..Len(hist) : (hist[i].op = "call" /\ hist[i].res = "value") =>
    \E j \in 1..(i - 1), k \in 1..(i - 1) : j < k /\ hist[j].op = "register" /\ hist[j].f = hist[i].f /\ hist[j].ver = hist[i].ver
                                             /\ hist[k].op = "new" /\ hist[k].e = hist[i].e
=============================================================================

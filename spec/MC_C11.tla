------------------------------ MODULE MC_C11 ------------------------------
(***************************************************************************)
(* Bounded instance for C11.  Every state is one abstract WORKBOOK plus an *)
(* ignore set (pending) and then the expected loaded model (done).  The    *)
(* dump of the done states is the replay table: the harness writes each    *)
(* workbook as .xlsx bytes, loads it with the real reader and compares.    *)
(*   pair    every storage form at 3 positions x every form as neighbour   *)
(*   shared  1x3 / 3x1 / 2x2 blocks, master at each corner, 9 kinds of     *)
(*           master formula (relative, mixed, absolute, cross-sheet, range) *)
(*   ignore  1-4 sheets (names needing quotes), every subset ignored       *)
(*   names   names of cells / ranges / unstored cells, on ignored sheets   *)
(***************************************************************************)
EXTENDS XlReader

CONSTANTS Thorough,    \* more positions / orders
          EvalAbs      \* evaluate formulas with $-references (C03 territory) or leave them open

VARIABLES case, res
vars == <<case, res>>

SheetNames == <<"S1", "Data 2", "O'x", "Σ">>
NameSet == {SheetNames[i] : i \in 1..4}
\* the qualifier as Excel spells it in a formula
Q(name) == CASE name = "S1" -> "S1!" [] name = "Data 2" -> "'Data 2'!"
             [] name = "O'x" -> "'O''x'!" [] name = "Σ" -> "Σ!"
             [] name = "S10" -> "S10!" [] name = "Data" -> "Data!"        \* names that are PREFIXES of other sheet names
NameNum(name) == CASE name = "S1" -> 1 [] name = "Data 2" -> 2 [] name = "O'x" -> 3 [] name = "Σ" -> 4
                   [] name = "S10" -> 5 [] name = "Data" -> 6
PrefixOrders == { <<"S1", "S10", "Data 2">>, <<"Data", "Data 2", "S1">>, <<"S10", "S1", "Data">> }
QRef(name, col, row) == Ref(Q(name), name, col, row, FALSE, FALSE)

Cell(sh, col, row, form) == [sh |-> sh, col |-> col, row |-> row, form |-> form]
N(v) == [f |-> "n", v |-> v]
S(v) == [f |-> "s", v |-> v]
FC(toks, cached) == [f |-> "fc", toks |-> toks, cached |-> cached]
SM(si, ref, toks, cached) == [f |-> "sm", si |-> si, ref |-> ref, toks |-> toks, cached |-> cached]
SX(si, cached) == [f |-> "sx", si |-> si, cached |-> cached]
RefText(c1, r1, c2, r2) == ColName(c1) \o ToString(r1) \o ":" \o ColName(c2) \o ToString(r2)

WB(kind, sheets, cells, names, ignore) ==
    [kind |-> kind, sheets |-> sheets, cells |-> cells, names |-> names, ignore |-> ignore]

(* ------------------------------- pair ---------------------------------- *)
RD4 == Rel(4, 4)
RData == QRef("Data 2", 1, 1)
PairForms(slot) == <<
    N(Whole(7)), N(Rat(-5, 2)), N(Whole(0)),
    S(Txt(<<97, 98>>)), S(Txt(<<32, 97, 60, 38, 34, 39, 233, 32>>)), S(Txt(<<>>)),
    [f |-> "inlineStr", v |-> Txt(<<105, 110>>)],
    [f |-> "str", v |-> Txt(<<115, 116>>)],
    [f |-> "b", v |-> Bool(TRUE)], [f |-> "b", v |-> Bool(FALSE)],
    [f |-> "e", v |-> Err("#DIV/0!")], [f |-> "e", v |-> Err("#N/A")],
    [f |-> "d", v |-> Date(44000)], [f |-> "iso", v |-> Date(44000)],
    [f |-> "d", v |-> DateT(44000, 9, 16)], [f |-> "iso", v |-> DateT(44000, 9, 16)],      \* a date with a time of day (13:30)
    FC(<<Lit("_xlfn.CONCAT("), RD4, Lit(",\"x\")")>>, Blank),                \* a function Excel stores with its _xlfn. prefix, no cached value
    FC(<<Lit("_xlfn.CONCAT("), RD4, Lit(",\"x\")")>>, Txt(<<111, 108, 100>>)),  \* ... and with a stale cached text
    FC(<<RD4, Lit("+"), NumTok(1)>>, Whole(99)),                          \* stale cached number
    FC(<<RData>>, Txt(<<99, 115>>)),                                       \* cached text (t="str")
    FC(<<RD4, Lit("+"), RData>>, Bool(TRUE)),                              \* cached boolean
    FC(<<Lit("SUM("), RD4, Lit(":"), RD4, Lit(")")>>, Err("#N/A")),        \* cached error
    FC(<<RD4>>, Blank),                                                    \* no cached value
    FC(<<RD4, Lit("+"), RD4>>, Rat(3, 2)),
    SM(slot, "", <<RD4, Lit("+"), NumTok(2)>>, Whole(7)),                   \* a master on its own
    SX(5, Whole(3)), SX(5, Blank) >>                                       \* members of the fixed group 5
NForms == Len(PairForms(1))

PairFixed == <<
    Cell("S1", 1, 1, SM(5, "A1:D3", <<Ref("", "", 4, 4, TRUE, TRUE), Lit("+"), Rel(3, 4)>>, Whole(1))),
    Cell("S1", 4, 4, N(Whole(5))),
    Cell("Data 2", 1, 1, N(Whole(10))) >>

Positions == {<<2, 1>>, <<2, 2>>, <<3, 3>>}              \* <<col, row>>
Neighbours == IF Thorough THEN {<<1, 0>>, <<0, 1>>} ELSE {<<1, 0>>}

(* ------------------------------ shared --------------------------------- *)
Shapes == {<<1, 3>>, <<3, 1>>, <<2, 2>>} \cup (IF Thorough THEN {<<3, 3>>, <<2, 3>>} ELSE {})   \* <<h, w>>
Corners(h, w) == {<<2, 2>>, <<2, 1 + w>>, <<1 + h, 2>>, <<1 + h, 1 + w>>}       \* <<row, col>>
Kinds == 1..9
MasterToks(kind, mr, mc, other) ==
    CASE kind = 1 -> <<Rel(mc - 1, mr - 1)>>
      [] kind = 2 -> <<Ref("", "", 1, mr - 1, TRUE, FALSE), Lit("+"), NumTok(1)>>
      [] kind = 3 -> <<Ref("", "", mc - 1, 1, FALSE, TRUE)>>
      [] kind = 4 -> <<Ref("", "", 1, 1, TRUE, TRUE), Lit("+"), Rel(mc - 1, mr - 1)>>
      [] kind = 5 -> <<QRef(other, mc, mr)>>
      [] kind = 6 -> <<Ref(Q(other), other, 2, mr, TRUE, FALSE), Lit("+"), Rel(mc - 1, mr - 1)>>
      [] kind = 7 -> <<Lit("SUM("), Ref("", "", 1, mr, TRUE, FALSE), Lit(":"), Rel(mc - 1, mr), Lit(")")>>
      [] kind = 8 -> <<Lit("SUM("), QRef(other, mc - 1, mr - 1), Lit(":"), Rel(mc, mr), Lit(")")>>
      [] kind = 9 -> <<Rel(mc - 1, mr - 1), Lit("&\"B2\"")>>     \* text that looks like a reference stays

GridSeq(sh, n, base, excl) == \* numbers base + 10*row + col on an n x n grid, without the cells in excl
    SelectSeq([k \in 1..(n * n) |->
                 LET r == ((k - 1) \div n) + 1  c == ((k - 1) % n) + 1
                 IN Cell(sh, c, r, N(Whole(base + 10 * r + c)))],
              LAMBDA x : <<x.row, x.col>> \notin excl)

BlockSeq(sh, h, w, mr, mc, kind, other) ==
    [k \in 1..(h * w) |->
        LET r == 2 + ((k - 1) \div w)  c == 2 + ((k - 1) % w)
        IN Cell(sh, c, r,
                IF r = mr /\ c = mc
                THEN SM(0, RefText(2, 2, 1 + w, 1 + h), MasterToks(kind, mr, mc, other), Whole(1000 + 10 * r + c))
                ELSE IF r > mr \/ (r = mr /\ c > mc)       \* the group: the block cells after the master in
                THEN SX(0, Whole(1000 + 10 * r + c))       \* document order (Excel writes the text on the first one)
                ELSE N(Whole(10 * r + c)))]
BlockSet(h, w) == {<<r, c>> : r \in 2..(1 + h), c \in 2..(1 + w)}

(* ------------------------------ ignore --------------------------------- *)
SheetContent(name, next) == <<
    Cell(name, 1, 1, N(Whole(10 * NameNum(name)))),
    Cell(name, 2, 1, S(Txt(<<120, 48 + NameNum(name)>>))),
    Cell(name, 1, 2, FC(<<Rel(1, 1), Lit("+"), NumTok(1)>>, Whole(77))),
    Cell(name, 2, 2, FC(<<QRef(next, 1, 1), Lit("+"), QRef(name, 1, 1)>>, Whole(88))),
    Cell(name, 3, 1, FC(<<QRef(next, 2, 2)>>, Txt(<<99>>))),
    \* an unqualified range: denotes cells of the sheet the formula is on
    Cell(name, 4, 1, FC(<<Lit("SUM("), Rel(1, 1), Lit(":"), Rel(1, 2), Lit(")")>>, Whole(66))) >>
RECURSIVE Contents(_, _)
Contents(s, i) == IF i > Len(s) THEN <<>>
                  ELSE SheetContent(s[i], s[(i % Len(s)) + 1]) \o Contents(s, i + 1)
InjSeqs(n) == {s \in [1..n -> NameSet] : \A i, j \in 1..n : i # j => s[i] # s[j]}
FourOrders == IF Thorough THEN InjSeqs(4)
              ELSE {SheetNames, <<"Σ", "O'x", "Data 2", "S1">>}

(* ------------------------------- names --------------------------------- *)
NSheet(name) == <<
    Cell(name, 1, 1, N(Whole(10 * NameNum(name)))),
    Cell(name, 2, 1, N(Whole(10 * NameNum(name) + 1))),
    Cell(name, 1, 2, FC(<<QRef(name, 1, 1), Lit("+"), QRef(name, 2, 1)>>, Whole(55))),
    Cell(name, 3, 1, S(Txt(<<116>>))),
    Cell(name, 4, 3, FC(<<Lit("SUM("), Lit("nm"), Lit(")")>>, Blank)) >>     \* a formula that USES the defined name
Targets == << <<1, 1, 1, 1>>,      \* A1 a constant
              <<1, 2, 1, 2>>,      \* A2 a formula cell
              <<2, 2, 2, 2>>,      \* B2: nothing stored there
              <<3, 1, 3, 1>>,      \* C1 a text
              <<1, 1, 2, 1>>,      \* A1:B1
              <<1, 1, 2, 2>>,      \* A1:B2 contains an unstored cell
              <<1, 1, 1, 2>> >>    \* A1:A2 contains a formula cell
NM(name, sh, t) == [name |-> name, sh |-> sh, c1 |-> t[1], r1 |-> t[2], c2 |-> t[3], r2 |-> t[4]]

(* ----------------------------------------------------------------------- *)
InitCase ==
  \/ \E p \in Positions, d \in Neighbours, i \in 1..NForms, j \in 1..NForms :
        case = WB("pair", <<"S1", "Data 2">>,
                  PairFixed \o <<Cell("S1", p[1], p[2], PairForms(1)[i]),
                                 Cell("S1", p[1] + d[1], p[2] + d[2], PairForms(2)[j])>>,
                  <<>>, {})
  \/ \E sh \in {"S1", "O'x"}, hw \in Shapes, kind \in Kinds :
     \E m \in Corners(hw[1], hw[2]) :
        case = WB("shared", <<sh, "Data 2">>,
                  GridSeq(sh, 4, 0, BlockSet(hw[1], hw[2]))
                    \o BlockSeq(sh, hw[1], hw[2], m[1], m[2], kind, "Data 2")
                    \o GridSeq("Data 2", 5, 100, {}),
                  <<>>, {})
  \/ \E n \in 1..3 : \E s \in InjSeqs(n) : \E ig \in SUBSET {s[i] : i \in 1..n} :
        case = WB("ignore", s, Contents(s, 1), <<>>, ig)
  \/ \E s \in PrefixOrders : \E ig \in SUBSET {s[i] : i \in 1..3} :      \* a sheet whose name is a prefix of another one's
        case = WB("ignore", s, Contents(s, 1), <<>>, ig)
  \/ \E s \in FourOrders, ig \in SUBSET NameSet :
        case = WB("ignore", s, Contents(s, 1), <<>>, ig)
  \/ \E a \in NameSet : \E b \in NameSet \ {a} : \E t \in 1..Len(Targets), on \in {a, b}, ig \in {{}, {a}, {b}} :
        case = WB("names", <<a, b>>, NSheet(a) \o NSheet(b),
                  <<NM("nm", on, Targets[t]), NM("zz", b, Targets[1])>>, ig)

Pending == [t |-> "pending"]

Init == InitCase /\ res = Pending
Call == /\ res.t = "pending"
        /\ res' = LET l == Load(case, case.ignore, EvalAbs)
                   IN [t |-> "done", cells |-> l.cells, names |-> l.names]
        /\ UNCHANGED case
Next == Call
Spec == Init /\ [][Next]_vars

Done == res.t = "done"
CC == case.cells
FormulaIdx == {i \in 1..Len(CC) : CC[i].form.f \in {"fc", "sm"}}
MemberIdx == {i \in 1..Len(CC) : CC[i].form.f = "sx"}
D1 == -1..1
D2 == -2..2

\* --- the laws the property states, as invariants of the done states ---
LawShiftZero == \* translating by (0,0) is the identity
    Done => \A i \in FormulaIdx : Shift(CC[i].form.toks, 0, 0) = CC[i].form.toks
LawShiftAdd == \* translations compose additively
    Done => \A i \in FormulaIdx : \A a \in D1, b \in D1, c \in D1, d \in D1 :
              Shift(Shift(CC[i].form.toks, a, b), c, d) = Shift(CC[i].form.toks, a + c, b + d)
LawShiftAbs == \* $-parts are fixed, relative parts move by exactly the distance, nothing else changes
    Done => \A i \in FormulaIdx : \A dr \in D2, dc \in D2 :
              LET t == CC[i].form.toks  u == Shift(t, dr, dc) IN
              /\ Len(u) = Len(t)
              /\ \A j \in 1..Len(t) :
                    IF t[j].k # "ref" THEN u[j] = t[j]
                    ELSE /\ u[j].col = (IF t[j].absc THEN t[j].col ELSE t[j].col + dc)
                         /\ u[j].row = (IF t[j].absr THEN t[j].row ELSE t[j].row + dr)
                         /\ u[j].q = t[j].q /\ u[j].absc = t[j].absc /\ u[j].absr = t[j].absr
LawMemberBack == \* moving a member's formula back by its distance gives the master's formula
    Done => \A i \in MemberIdx :
              LET t == ToksOf(CC, CC[i])  M == MasterIdx(CC, CC[i]) IN
              t.t = "toks" =>
                 LET m == CC[CHOOSE k \in M : TRUE]
                 IN Shift(t.v, m.row - CC[i].row, m.col - CC[i].col) = m.form.toks
Core(x) == [sh |-> x.sh, addr |-> x.addr, value |-> x.value, formula |-> x.formula]
LawIgnoreRestrict == \* loading with an ignore set = loading everything, then dropping the ignored sheets
    Done => LET full == Load(case, {}, EvalAbs)
                keep == SelectSeq(full.cells, LAMBDA x : x.sh \notin case.ignore)
            IN /\ Len(keep) = Len(res.cells)
               /\ \A i \in 1..Len(keep) : Core(keep[i]) = Core(res.cells[i])
               /\ \A i \in 1..Len(case.names) :
                     case.names[i].sh \notin case.ignore => res.names[i] = full.names[i]
LawOneCellPerStored == \* one cell per stored cell of the sheets not ignored, none of an ignored sheet
    Done => /\ Len(res.cells) = Cardinality({i \in 1..Len(CC) : CC[i].sh \notin case.ignore})
            /\ \A i, j \in 1..Len(res.cells) : i # j => res.cells[i].addr # res.cells[j].addr
            /\ \A i \in 1..Len(res.cells) : res.cells[i].sh \notin case.ignore
LawValueAndFormula == \* a constant has no formula; a formula cell holds its text and its cached result
    Done => LET kept == Kept(case, case.ignore) IN
            \A i \in 1..Len(kept) :
               IF kept[i].form.f \in FormulaForms
               THEN res.cells[i].value = kept[i].form.cached /\ res.cells[i].formula.t \in {"ftxt", "open"}
               ELSE res.cells[i].value = kept[i].form.v /\ res.cells[i].formula = None
LawMasterOwnText == \* a master shows its own text
    Done => LET kept == Kept(case, case.ignore) IN
            \A i \in 1..Len(kept) :
               kept[i].form.f \in {"fc", "sm"} => res.cells[i].formula = FText(Render(kept[i].form.toks))
=============================================================================

---------------------------- MODULE Trace_Local ----------------------------
(***************************************************************************)
(* Local consistency of recorded evaluations (code -> spec).  One ndjson   *)
(* event per return of Evaluator.evaluate(), nested evaluations included   *)
(* (harness/evalrec.py):                                                   *)
(*   ast    the formula of the evaluated cell (harness's own parser)       *)
(*   sheet  the sheet of that cell                                         *)
(*   cells  <<[sheet, col, row, v]>> the values the model stores for the   *)
(*          cells the formula mentions directly, read when the call returns*)
(*   names  <<[n, ast]>> the defined names the formula mentions            *)
(*   res    the projected return value                                     *)
(*   stored (optional) what get_cell_value returns right after the call    *)
(* Events of the randomized workbook driver (checks/wbdrive.py) carry the   *)
(* WHOLE dependency closure instead - constants with the values the driver  *)
(* has set, formula cells as [sheet, col, row, ast] - so that Eval is the   *)
(* value of a freshly compiled workbook holding the current inputs (C04).   *)
(* The specification's Eval of the formula over exactly those values must  *)
(* agree with res wherever it determines the value: the value of a formula *)
(* cell is a function of the cells it addresses (C03), of their CURRENT    *)
(* values (C04), whatever the history (C05).                               *)
(***************************************************************************)
EXTENDS XlEval, Json, IOUtils

Trace == ndJsonDeserialize(IOEnv.TRACE_FILE)

VARIABLES l, verdict, exp
vars == <<l, verdict, exp>>

WbOf(e) == [cells |-> [k \in {<<e.cells[i].sheet, e.cells[i].col, e.cells[i].row>> : i \in 1..Len(e.cells)} |->
                         LET i == CHOOSE j \in 1..Len(e.cells) : <<e.cells[j].sheet, e.cells[j].col, e.cells[j].row>> = k
                         IN IF "ast" \in DOMAIN e.cells[i] THEN [c |-> "formula", ast |-> Erase(e.cells[i].ast)]
                            ELSE [c |-> "const", v |-> e.cells[i].v]],
            names |-> [n \in {e.names[i].n : i \in 1..Len(e.names)} |->
                         LET i == CHOOSE j \in 1..Len(e.names) : e.names[j].n = n IN e.names[i].ast]]

\* (the JSON reader nests at most 255 levels: a long operator chain a op b op c ... arrives flat and is folded to the left here)
RECURSIVE ChainL(_, _, _)
ChainL(op, xs, n) == IF n = 1 THEN xs[1] ELSE [k |-> "bin", op |-> op, l |-> ChainL(op, xs, n - 1), r |-> xs[n]]
AstOf(e) == IF e.ast.k = "chainl" THEN ChainL(e.ast.op, e.ast.xs, Len(e.ast.xs)) ELSE e.ast

\* an operator applied to two scalar values returns a value or an error value even where the specification leaves open
\* which (C07: "never raise a Python exception") - e.g. a concatenation longer than any cell of Excel holds
ScalarT == {"num", "txt", "bool", "blank", "date", "err"}
\* (numbers outside the short rationals - "float" - count for & and the comparisons, which cannot leave the double range)
ScalarFor(op) == IF op \in {"&", "=", "<>", "<", ">", "<=", ">="} THEN ScalarT \cup {"float"} ELSE ScalarT
TotalOp(e) == LET a == Erase(AstOf(e)) IN
              /\ a.k = "bin"
              /\ Eval(a.l, e.sheet, WbOf(e)).t \in ScalarFor(a.op)
              /\ Eval(a.r, e.sheet, WbOf(e)).t \in ScalarFor(a.op)
Verdict(e, x) ==
    IF x.t \in {"open", "ref"} THEN (IF e.res.t = "exc" /\ TotalOp(e) THEN "python-exception" ELSE "open")
    ELSE IF Agrees(e.res, x) THEN (IF "stored" \in DOMAIN e /\ ~Agrees(e.stored, x) THEN "stored-value-differs" ELSE "ok")
    ELSE IF e.res.t = "exc" THEN "python-exception"
    ELSE IF x.t \in {"err", "anyerr"} THEN "error-expected"
    ELSE IF e.res.t = "err" THEN "unexpected-error"
    ELSE "wrong-value"

Init == l = 0 /\ verdict = "start" /\ exp = [t |-> "none"]
Step == /\ l < Len(Trace)
        /\ l' = l + 1
        /\ LET e == Trace[l + 1]
               x == Eval(Erase(AstOf(e)), e.sheet, WbOf(e))
           IN exp' = x /\ verdict' = Verdict(e, x)
Spec == Init /\ [][Step]_vars
AllConsumed == TLCGet("stats").diameter - 1 = Len(Trace)
=============================================================================

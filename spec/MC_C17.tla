------------------------------ MODULE MC_C17 ------------------------------
(***************************************************************************)
(* Bounded instance for C17: every text over a 6-symbol alphabet up to     *)
(* MaxLen, every position / count from below 1 to beyond the end, every    *)
(* replacement.  Each case is a two-state behaviour pending -> done; the   *)
(* laws of the property are invariants of the done states; the dump of the *)
(* done states is the replay table for the implementation.                 *)
(***************************************************************************)
EXTENDS XlText

CONSTANTS MaxLen,      \* longest text enumerated
          MaxLenRep    \* longest text for REPLACE (4 parameters)

VARIABLES case, res
vars == <<case, res>>

Alpha == {97, 98, 65, 32, 34, 233}            \* a b A blank " e-acute
RECURSIVE TextsUpTo(_)
TextsUpTo(k) == IF k = 0 THEN {<<>>}
                ELSE TextsUpTo(k - 1) \cup {Append(s, c) : s \in {t \in TextsUpTo(k - 1) : Len(t) = k - 1}, c \in Alpha}
Texts  == TextsUpTo(MaxLen)
TextsR == TextsUpTo(MaxLenRep)
Short  == TextsUpTo(2)
Needles == {<<>>} \cup {<<c>> : c \in {97, 98, 65}} \cup {<<c, d>> : c \in {97, 98, 65}, d \in {97, 98, 65}}
Blanky == {s \in [1..5 -> {97, 32}] : TRUE} \cup {s \in [1..4 -> {97, 32}] : TRUE}
\* white space that is NOT the blank: TRIM (and every other function) leaves tab, no-break space and line feed alone
Whitey == UNION {[1..k -> {97, 32, 160, 9, 10}] : k \in 1..3} \cup {<<c, 97, 98, d>> : c, d \in {32, 160, 9, 10, 12288}}
Repl   == {<<>>, <<88>>, <<97, 98>>, <<34>>}
NonText == {Whole(0), Whole(123), Whole(-45), Rat(3, 2), Rat(-1, 4), Bool(TRUE), Bool(FALSE), Blank}

C(f, a) == [f |-> f, args |-> a]

InitCase ==
  \/ \E f \in {"LEN", "UPPER", "LOWER", "TRIM"}, s \in Texts : case = C(f, <<Txt(s)>>)
  \/ \E s \in Blanky : case = C("TRIM", <<Txt(s)>>)
  \/ \E f \in {"TRIM", "LEN", "UPPER", "LOWER"}, s \in Whitey : case = C(f, <<Txt(s)>>)
  \/ \E f \in {"LEFT", "RIGHT"}, s \in Whitey : case = C(f, <<Txt(s), Whole(1)>>)
  \/ \E f \in {"LEFT", "RIGHT"}, s \in Texts : case = C(f, <<Txt(s)>>)
  \/ \E f \in {"LEFT", "RIGHT"}, s \in Texts, n \in -2..(MaxLen + 2) : case = C(f, <<Txt(s), Whole(n)>>)
  \/ \E s \in Texts, p \in -1..(MaxLen + 2), n \in -1..(MaxLen + 2) : case = C("MID", <<Txt(s), Whole(p), Whole(n)>>)
  \/ \E t \in Needles, s \in Texts : case = C("FIND", <<Txt(t), Txt(s)>>)
  \/ \E t \in Needles, s \in Texts, p \in -1..(MaxLen + 2) : case = C("FIND", <<Txt(t), Txt(s), Whole(p)>>)
  \/ \E s \in TextsR, p \in -1..(MaxLenRep + 2), k \in -1..(MaxLenRep + 1), r \in Repl :
        case = C("REPLACE", <<Txt(s), Whole(p), Whole(k), Txt(r)>>)
  \/ \E s \in Short, t \in Short : case = C("EXACT", <<Txt(s), Txt(t)>>)
  \/ \E f \in {"CONCAT", "CONCATENATE"}, s \in Short, t \in Short : case = C(f, <<Txt(s), Txt(t)>>)
  \/ \E f \in {"CONCAT", "CONCATENATE"}, s \in {<<>>, <<97>>}, x \in NonText : case = C(f, <<Txt(s), x, Txt(s)>>)
  \* numbers and booleans passed as text are first converted to their text form
  \/ \E f \in {"LEN", "UPPER", "LOWER", "TRIM"}, x \in NonText : case = C(f, <<x>>)
  \/ \E f \in {"LEFT", "RIGHT"}, x \in NonText, n \in 0..3 : case = C(f, <<x, Whole(n)>>)
  \/ \E x \in NonText, p \in 1..3, n \in 0..2 : case = C("MID", <<x, Whole(p), Whole(n)>>)
  \/ \E x \in {Whole(2), Whole(23), Bool(TRUE)}, y \in {Whole(123), Txt(<<84, 82, 85, 69>>), Bool(TRUE)} : case = C("FIND", <<x, y>>)
  \/ \E x \in NonText, y \in NonText \cup {Txt(<<48>>), Txt(TRUEcodes), Txt(<<>>)} : case = C("EXACT", <<x, y>>)
  \/ \E x \in NonText, y \in NonText : case = C("REPLACE", <<x, Whole(2), Whole(1), y>>)

Pending == [t |-> "pending"]

Init == InitCase /\ res = Pending
Call == res = Pending /\ res' = TextCall(case.f, case.args) /\ UNCHANGED case
Next == Call
Spec == Init /\ [][Next]_vars

Done == res # Pending
A == case.args
TxtCase == \A i \in 1..Len(A) : A[i].t \in {"txt", "num"}

\* --- the consequences stated by the property, as invariants of the spec ---
LawLeftRight == \* LEFT(s,n) & RIGHT(s, LEN(s)-n) = s
    (Done /\ case.f = "LEFT" /\ Len(A) = 2 /\ A[1].t = "txt" /\ A[2].n >= 0 /\ A[2].n <= Len(A[1].v))
    => LET s == A[1]  n == A[2]
           r == TextCall("RIGHT", <<s, OpSub(TextCall("LEN", <<s>>), n)>>)
       IN OpConcat(res, r) = s
LawMidLeft == \* MID(s,1,n) = LEFT(s,n)
    (Done /\ case.f = "MID" /\ A[1].t = "txt" /\ A[2] = Whole(1))
    => res = TextCall("LEFT", <<A[1], A[3]>>)
LawLenConcat == \* LEN(a&b) = LEN(a)+LEN(b)
    (Done /\ case.f = "CONCAT" /\ Len(A) = 2 /\ A[1].t = "txt" /\ A[2].t = "txt")
    => TextCall("LEN", <<res>>) = OpAdd(TextCall("LEN", <<A[1]>>), TextCall("LEN", <<A[2]>>))
       /\ res = OpConcat(A[1], A[2])
LawReplace == \* REPLACE(s,p,k,t) = LEFT(s,p-1) & t & MID(s,p+k,LEN(s))
    (Done /\ case.f = "REPLACE" /\ A[1].t = "txt" /\ A[4].t = "txt" /\ A[2].n >= 1 /\ A[3].n >= 0)
    => res = OpConcat(OpConcat(TextCall("LEFT", <<A[1], OpSub(A[2], Whole(1))>>), A[4]),
                      TextCall("MID", <<A[1], OpAdd(A[2], A[3]), TextCall("LEN", <<A[1]>>)>>))
LawFindFirst == \* FIND(t,s,p) is the first position >= p at which t occurs
    (Done /\ case.f = "FIND" /\ A[1].t = "txt" /\ A[2].t = "txt" /\ res.t = "num")
    => LET p == IF Len(A) = 3 THEN A[3].n ELSE 1 IN
       /\ res.n >= p
       /\ TextCall("MID", <<A[2], res, TextCall("LEN", <<A[1]>>)>>) = A[1]
       /\ \A q \in p..(res.n - 1) : TextCall("MID", <<A[2], Whole(q), TextCall("LEN", <<A[1]>>)>>) # A[1]
LawFindAbsent ==
    (Done /\ case.f = "FIND" /\ A[1].t = "txt" /\ A[2].t = "txt" /\ res.t = "anyerr")
    => LET p == IF Len(A) = 3 THEN A[3].n ELSE 1 IN
       p < 1 \/ p > Len(A[2].v) + 1
       \/ \A q \in p..(Len(A[2].v) + 1) : TextCall("MID", <<A[2], Whole(q), TextCall("LEN", <<A[1]>>)>>) # A[1]
LawExact == (Done /\ case.f = "EXACT" /\ A[1].t = "txt" /\ A[2].t = "txt") => res = Bool(A[1].v = A[2].v)
LawTrimIdem == (Done /\ case.f = "TRIM" /\ res.t = "txt") => TextCall("TRIM", <<res>>) = res
LawCount0 == (Done /\ case.f \in {"LEFT", "RIGHT"} /\ Len(A) = 2 /\ A[2] = Whole(0) /\ A[1].t = "txt") => res = Txt(<<>>)
LawResultType == Done => res.t \in {"txt", "num", "bool", "anyerr", "err", "open"}
=============================================================================

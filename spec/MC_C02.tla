------------------------------ MODULE MC_C02 ------------------------------
(***************************************************************************)
(* Bounded instance for C02: every well-formed formula parses to the tree  *)
(* its text denotes.  TLC enumerates abstract syntax trees by families,    *)
(* renders each to the text Excel would store (XlSyntax!Formula) under a   *)
(* style, and states the expected tree: the AST with parentheses erased    *)
(* and numeric literals taken by value.                                    *)
(*   nest    every atom in every context in every context (two levels)     *)
(*   str     every string of length <= 2 over the delimiter alphabet in    *)
(*           four contexts                                                 *)
(*   ref     every reference spelling ($ variants x sheet qualification)   *)
(*           as operand, as argument and as range corner                   *)
(*   call    arities 0..4, nested calls, leading @                         *)
(*   gap     each gap class x each gap kind, and all gaps, on skeletons    *)
(***************************************************************************)
EXTENDS XlSyntax

CONSTANTS Families, StrLen

VARIABLES case, res
vars == <<case, res>>

N(s)  == NumLit(s)
A1 == RelRef(1, 1)
Sheets == <<"", "Sheet2", "S 2", "O'x", "2024", "1st Q", "TRUE1">>

Atoms == << N(<<50>>), N(<<48, 46, 53>>), N(<<53, 48, 37>>), N(<<49, 69, 43, 50>>), N(<<49, 50, 51, 52, 53>>),
            StrLit(<<97, 32, 98>>), StrLit(<<34>>), StrLit(<<>>), BoolLit(TRUE), BoolLit(FALSE),
            ErrLit("#N/A"), ErrLit("#DIV/0!"), ErrLit("#REF!"), ErrLit("#NAME?"), ErrLit("#NULL!"), ErrLit("#VALUE!"), ErrLit("#NUM!"),
            A1, Ref("", 2, 2, TRUE, TRUE), Ref("Sheet2", 3, 3, FALSE, FALSE), Ref("S 2", 27, 10, FALSE, TRUE), Ref("2024", 1, 1, FALSE, FALSE),
            Rng("", 1, 1, 2, 2), Rng("O'x", 1, 1, 2, 3),
            CallN("PI", <<>>), CallN("SUM", <<N(<<49>>), A1>>) >>
NAtoms == Len(Atoms)

S1 == StrLit(<<115>>)
\* contexts: a tree with a hole
Ctx(i, x) ==
    CASE i = 1  -> x
      [] i = 2  -> CallN("LEN", <<x>>)
      [] i = 3  -> CallN("SUM", <<N(<<49>>), x>>)
      [] i = 4  -> CallN("IF", <<x, N(<<49>>), N(<<50>>)>>)
      [] i = 5  -> Bin("+", x, N(<<49>>))
      [] i = 6  -> Bin("*", N(<<49>>), x)
      [] i = 7  -> Neg(x)
      [] i = 8  -> Pct(x)
      [] i = 9  -> Paren(x)
      [] i = 10 -> CallN("ABS", <<CallN("SUM", <<x>>)>>)
      [] i = 11 -> Bin("&", x, S1)
      [] i = 12 -> Bin("^", N(<<50>>), x)
      [] i = 13 -> CallN("CHOOSE", <<N(<<49>>), x, CallN("NA", <<>>), x>>)
      [] i = 14 -> Bin("<=", x, x)
      [] i = 15 -> Bin("-", Bin("-", x, N(<<49>>)), x)
NCtx == 15

RECURSIVE HasNegPct(_)
HasNegPct(a) == \* -x% : which of unary minus and % applies first is not compared (same value)
    CASE a.k = "neg" -> a.x.k = "pct" \/ HasNegPct(a.x)
      [] a.k = "pct" -> a.x.k = "neg" \/ HasNegPct(a.x)
                        \/ (a.x.k = "num" /\ a.x.txt[Len(a.x.txt)] = CPPct)      \* 50%% : left open
      [] a.k = "paren" -> HasNegPct(a.x)
      [] a.k = "bin" -> HasNegPct(a.l) \/ HasNegPct(a.r)
      [] a.k = "call" -> \E i \in 1..Len(a.args) : HasNegPct(a.args[i])
      [] OTHER -> FALSE

RECURSIVE Norm(_)
Norm(a) == \* expected tree: numeric literals by value
    CASE a.k = "num" -> [k |-> "num", v |-> LitValue(a.txt)]
      [] a.k = "bin" -> [a EXCEPT !.l = Norm(a.l), !.r = Norm(a.r)]
      [] a.k \in {"neg", "pct", "paren"} -> [a EXCEPT !.x = Norm(a.x)]
      [] a.k = "call" -> [a EXCEPT !.args = [i \in 1..Len(a.args) |-> Norm(a.args[i])]]
      [] OTHER -> a

Gap(g) == CASE g = 1 -> <<32>> [] g = 2 -> <<32, 32>> [] g = 3 -> <<10>>
OneGap(cls, g) == [Style0 EXCEPT ![cls] = Gap(g)]
AllGaps(g) == [lead |-> Gap(g), trail |-> Gap(g), opl |-> Gap(g), opr |-> Gap(g), po |-> Gap(g), pc |-> Gap(g),
               cb |-> Gap(g), ca |-> Gap(g), eq |-> TRUE]
NoEq == [Style0 EXCEPT !.eq = FALSE]

Mk(kind, tree, st) == [kind |-> kind, tree |-> tree, text |-> Formula(MinParen(tree), st)]

\* the delimiter alphabet of the tokenizer plus ordinary characters
StrAlpha == {34, 39, 33, 35, 37, 40, 41, 44, 58, 59, 91, 93, 123, 125, 32, 97, 65, 49, 233, 61, 43, 45}
RECURSIVE Strs(_)
Strs(k) == IF k = 0 THEN {<<>>} ELSE Strs(k - 1) \cup {Append(s, c) : s \in {t \in Strs(k - 1) : Len(t) = k - 1}, c \in StrAlpha}

StrCtx(i, s) ==
    CASE i = 1 -> StrLit(s)
      [] i = 2 -> CallN("LEN", <<StrLit(s)>>)
      [] i = 3 -> Bin("&", StrLit(s), A1)
      [] i = 4 -> Bin("&", A1, StrLit(s))
      [] i = 5 -> CallN("CONCAT", <<A1, StrLit(s), StrLit(s)>>)
      [] i = 6 -> Bin("=", StrLit(s), StrLit(<<120>>))

Skeletons == << CallN("IF", <<Bin(">", A1, N(<<49>>)), CallN("SUM", <<Rng("", 1, 1, 2, 2), N(<<50>>)>>), Neg(Paren(Bin("+", A1, N(<<49>>))))>>),
                Bin("*", Paren(Bin("+", A1, Ref("Sheet2", 2, 1, FALSE, FALSE))), Bin("^", N(<<50>>), Neg(N(<<49>>)))),
                CallN("CONCAT", <<StrLit(<<97, 44, 32, 40>>), CallN("LEFT", <<StrLit(<<32>>), N(<<49>>)>>), BoolLit(TRUE)>>),
                Bin("<>", CallN("PI", <<>>), Bin("&", ErrLit("#N/A"), Ref("S 2", 1, 1, TRUE, TRUE))) >>

InitCase ==
  \/ /\ "nest" \in Families
     /\ \E i \in 1..NCtx, j \in 1..NCtx, a \in 1..NAtoms, g \in {0, 1} :
          LET t == Ctx(i, Ctx(j, Atoms[a])) IN
          /\ ~HasNegPct(t)
          /\ case = Mk("nest", t, IF g = 0 THEN Style0 ELSE AllGaps(1))
  \/ /\ "str" \in Families
     /\ \E s \in Strs(StrLen), i \in 1..6 : case = Mk("str", StrCtx(i, s), Style0)
  \/ /\ "ref" \in Families
     /\ \E sh \in 1..7, c \in {1, 26, 27, 703}, r \in {1, 10, 1048576}, ac \in BOOLEAN, ar \in BOOLEAN, i \in {1, 2, 3, 5, 7, 11} :
          case = Mk("ref", Ctx(i, Ref(Sheets[sh], c, r, ac, ar)), Style0)
  \/ /\ "ref" \in Families
     /\ \E sh \in 1..7, a1 \in BOOLEAN, b1 \in BOOLEAN, a2 \in BOOLEAN, b2 \in BOOLEAN, i \in {1, 2, 3} :
          case = Mk("range", Ctx(i, [k |-> "range", sheet |-> Sheets[sh], c1 |-> 2, r1 |-> 3, a1 |-> a1, b1 |-> b1,
                                     c2 |-> 28, r2 |-> 12, a2 |-> a2, b2 |-> b2]), Style0)
  \/ /\ "call" \in Families
     /\ \E n \in 0..4, at \in BOOLEAN, inner \in 0..4, i \in {1, 3, 5, 7} :
          LET arg(k) == IF k = inner THEN CallN("MAX", [m \in 1..n |-> N(<<48 + m>>)]) ELSE N(<<48 + k>>)
              t == [k |-> "call", f |-> "SUM", at |-> at, args |-> [k \in 1..n |-> arg(k)]]
          IN case = Mk("call", Ctx(i, t), Style0)
  \/ /\ "gap" \in Families
     /\ \E k \in 1..Len(Skeletons), cls \in GapClasses, g \in 1..3 : case = Mk("gap", Skeletons[k], OneGap(cls, g))
  \/ /\ "gap" \in Families
     /\ \E k \in 1..Len(Skeletons), g \in 1..3, eq \in BOOLEAN : case = Mk("gap-all", Skeletons[k], [AllGaps(g) EXCEPT !.eq = eq])
  \/ /\ "gap" \in Families
     /\ \E k \in 1..Len(Skeletons) : case = Mk("noeq", Skeletons[k], NoEq)

Pending == [t |-> "pending"]
Init == InitCase /\ res = Pending
Parse == res = Pending /\ res' = Canon(case.tree) /\ UNCHANGED case
Next == Parse
Spec == Init /\ [][Next]_vars

\* laws: erasing parentheses commutes with inserting the required ones; size bound
LawEraseMin == Erase(MinParen(Erase(case.tree))) = Erase(case.tree)
LawOneNodePerConstruct == res # Pending => Size(Erase(case.tree)) <= Size(MinParen(case.tree))
=============================================================================

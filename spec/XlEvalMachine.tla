--------------------------- MODULE XlEvalMachine ---------------------------
(***************************************************************************)
(* Small-step model of how the evaluator walks the dependency graph (C06): *)
(* a stack of frames, one per cell whose evaluation is in progress, each   *)
(* with its own context memo; a cell is entered when a frame needs a       *)
(* reference that its context has not evaluated yet.                       *)
(*                                                                         *)
(* The graph is abstract: cell c refers to refs[c] (a sequence - a cell    *)
(* may be mentioned several times) and its value is w(c) plus the sum of   *)
(* the values of its references; fail[c] marks a cell whose own formula    *)
(* raises (unknown function, Python-level error).                          *)
(*                                                                         *)
(* SeenScope selects the cycle check:                                      *)
(*   "path"     the cells on the stack (evaluation in progress) - shipped  *)
(*   "context"  only what the current frame has seen (the original code:   *)
(*              never fires, recursion without bound)                      *)
(*   "visited"  every cell entered so far (flags diamonds as cycles)       *)
(***************************************************************************)
EXTENDS Integers, Sequences, FiniteSets, TLC

CONSTANTS Cells, MaxRefs, SeenScope, FailModes
VARIABLES refs, fail, entry, stack, visited, outcome, val, steps
vars == <<refs, fail, entry, stack, visited, outcome, val, steps>>

RECURSIVE Pow2(_)
Pow2(k) == IF k = 0 THEN 1 ELSE 2 * Pow2(k - 1)
W(c) == Pow2(c - 1)

SeqsUpTo(n) == UNION {[1..k -> Cells] : k \in 0..n}
Frame(c) == [cell |-> c, idx |-> 1, acc |-> W(c), memo |-> <<>>]

Init == /\ refs \in [Cells -> SeqsUpTo(MaxRefs)]
        /\ fail \in {f \in [Cells -> BOOLEAN] : Cardinality({c \in Cells : f[c]}) \in FailModes}
        /\ entry \in Cells
        /\ stack = <<Frame(entry)>>
        /\ visited = {entry}
        /\ outcome = "running" /\ val = 0 /\ steps = 0

Top == stack[Len(stack)]
OnPath(c) == \E i \in 1..Len(stack) : stack[i].cell = c
CycleCheck(c) == CASE SeenScope = "path" -> OnPath(c)
                   [] SeenScope = "visited" -> c \in visited
                   [] OTHER -> FALSE

\* the formula of the top cell raises before looking at any reference
RaiseOwn == /\ outcome = "running" /\ fail[Top.cell] /\ Top.idx = 1
            /\ outcome' = "error" /\ steps' = steps + 1
            /\ UNCHANGED <<refs, fail, entry, stack, visited, val>>
\* all references consumed: the cell's value is known; hand it to the parent frame
Return == /\ outcome = "running" /\ ~(fail[Top.cell] /\ Top.idx = 1) /\ Top.idx > Len(refs[Top.cell])
          /\ steps' = steps + 1
          /\ IF Len(stack) = 1
             THEN outcome' = "value" /\ val' = Top.acc /\ UNCHANGED stack
             ELSE LET p == stack[Len(stack) - 1]
                      p2 == [p EXCEPT !.idx = p.idx + 1, !.acc = p.acc + Top.acc,
                                      !.memo = [c \in DOMAIN p.memo \cup {Top.cell} |-> IF c = Top.cell THEN Top.acc ELSE p.memo[c]]]
                  IN stack' = Append(SubSeq(stack, 1, Len(stack) - 2), p2) /\ UNCHANGED <<outcome, val>>
          /\ UNCHANGED <<refs, fail, entry, visited>>
\* the next reference was already evaluated in this context
MemoHit == /\ outcome = "running" /\ ~(fail[Top.cell] /\ Top.idx = 1) /\ Top.idx <= Len(refs[Top.cell])
           /\ refs[Top.cell][Top.idx] \in DOMAIN Top.memo
           /\ stack' = [stack EXCEPT ![Len(stack)] = [Top EXCEPT !.idx = Top.idx + 1, !.acc = Top.acc + Top.memo[refs[Top.cell][Top.idx]]]]
           /\ steps' = steps + 1
           /\ UNCHANGED <<refs, fail, entry, visited, outcome, val>>
\* the next reference is a cell whose evaluation is in progress
RaiseCycle == /\ outcome = "running" /\ ~(fail[Top.cell] /\ Top.idx = 1) /\ Top.idx <= Len(refs[Top.cell])
              /\ refs[Top.cell][Top.idx] \notin DOMAIN Top.memo
              /\ CycleCheck(refs[Top.cell][Top.idx])
              /\ outcome' = "cycle" /\ steps' = steps + 1
              /\ UNCHANGED <<refs, fail, entry, stack, visited, val>>
Enter == /\ outcome = "running" /\ ~(fail[Top.cell] /\ Top.idx = 1) /\ Top.idx <= Len(refs[Top.cell])
         /\ LET r == refs[Top.cell][Top.idx] IN
            /\ r \notin DOMAIN Top.memo /\ ~CycleCheck(r)
            /\ stack' = Append(stack, Frame(r))
            /\ visited' = visited \cup {r}
         /\ steps' = steps + 1
         /\ UNCHANGED <<refs, fail, entry, outcome, val>>

Next == RaiseOwn \/ Return \/ MemoHit \/ RaiseCycle \/ Enter
Spec == Init /\ [][Next]_vars /\ WF_vars(Next)

(* ---- the graph-theoretic statement of the property, independent of the machine ---- *)
Edge(a, b) == \E i \in 1..Len(refs[a]) : refs[a][i] = b
RECURSIVE ReachN(_, _)
ReachN(S, n) == IF n = 0 THEN S ELSE ReachN(S \cup {b \in Cells : \E a \in S : Edge(a, b)}, n - 1)
ReachFrom(c) == ReachN({c}, Cardinality(Cells))                      \* c and everything it depends on
Succ(c) == {b \in Cells : Edge(c, b)}
OnCycle(c) == \E b \in Succ(c) : c \in ReachFrom(b)
\* what a depth-first walk that stops at failing cells can touch
RECURSIVE LiveN(_, _)
LiveN(S, n) == IF n = 0 THEN S ELSE LiveN(S \cup {b \in Cells : \E a \in S : ~fail[a] /\ Edge(a, b)}, n - 1)
Live == LiveN({entry}, Cardinality(Cells))
CyclicLive == \E c \in Live : ~fail[c] /\ \E b \in Succ(c) : b \in Live /\ c \in LiveN({b}, Cardinality(Cells))
FailLive == \E c \in Live : fail[c]

RECURSIVE BigStep(_)
BigStep(c) == \* defined on the acyclic part
    LET RECURSIVE Sum(_, _)
        Sum(s, i) == IF i > Len(s) THEN 0 ELSE BigStep(s[i]) + Sum(s, i + 1)
    IN W(c) + Sum(refs[c], 1)

StackBound == Len(stack) <= Cardinality(Cells)
StepBound == steps <= 4 * Cardinality(Cells) * (MaxRefs + 1) * Cardinality(Cells) + 4
CycleOnlyIfCyclic == outcome = "cycle" => CyclicLive                \* acyclic sharing is never flagged
ValueOnlyIfAcyclic == outcome = "value" => (~CyclicLive /\ ~FailLive)
ErrorOnlyIfFailing == outcome = "error" => FailLive
Refines == outcome = "value" => val = BigStep(entry)
\* a cyclic graph without failing cells is reported as a cycle (with a failing cell the walk may hit that first)
CycleReported == (outcome # "running" /\ CyclicLive /\ ~FailLive) => outcome = "cycle"
Terminates == <>(outcome # "running")
=============================================================================

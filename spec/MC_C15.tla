------------------------------ MODULE MC_C15 ------------------------------
(***************************************************************************)
(* Bounded instance for C15: every column of numbers and texts up to       *)
(* MaxCol cells x every criterion (each operator prefix x numeric - also   *)
(* negative, decimal - and text operands, plain values), COUNTIFS / SUMIFS *)
(* with 1-3 criteria columns, exact MATCH with the key at every position,  *)
(* absent and duplicated, approximate MATCH on every ascending vector with *)
(* keys at, between, below and above the data, VLOOKUP on 3x3 (and 2x4,    *)
(* 4x2) tables with every column index, CHOOSE with every index.           *)
(* Each case is a two-state behaviour pending -> done; the laws of the     *)
(* property are invariants of the done states; the dump of the done states *)
(* is the replay table for the implementation.                             *)
(***************************************************************************)
EXTENDS XlCrit

CONSTANTS MaxCol,      \* longest column for COUNTIF / exact MATCH
          Mod,         \* columns of length 4 and three-column COUNTIFS are sampled: 1 case in Mod (1 = all)
          MaxAsc,      \* longest ascending vector for approximate MATCH
          Rows2        \* rows of the full two-column COUNTIFS enumeration

VARIABLES case, res
vars == <<case, res>>

a_ == 97  b_ == 98  c_ == 99
ABC  == <<65, 66, 67>>
abc  == <<97, 98, 99>>

V  == {Whole(-5), Whole(0), Whole(1), Whole(10), Txt(abc), Txt(ABC), Txt(<<b_>>)}
V2 == {Whole(1), Whole(-5), Txt(<<b_>>)}
V3 == {Whole(-5), Whole(1), Txt(abc), Txt(<<b_>>)}

Prefixes == {<<>>, <<61>>, <<60, 62>>, <<60>>, <<60, 61>>, <<62>>, <<62, 61>>}
Operands == {<<49>>, <<45, 53>>, <<48, 46, 53>>, abc, <<b_>>, <<48>>}   \* 1  -5  0.5  abc  b  0 (a zero operand is an operand)
Crits == {Txt(p \o o) : p \in Prefixes, o \in Operands} \cup {Whole(1), Whole(-5), Rat(1, 2), Whole(0)}

\* numeric operands in exponent notation (the spelling the library itself produces for small / large numbers): 1e1  5E-1  1E+1
ExpOperands == {<<49, 101, 49>>, <<53, 69, 45, 49>>, <<49, 69, 43, 49>>}
ExpCrits == {Txt(p \o o) : p \in Prefixes, o \in ExpOperands}
VE == {Whole(10), Rat(1, 2), Whole(0), Whole(11), Txt(<<49, 101, 49>>), Txt(abc)}

\* text operands with brackets are plain text (no character classes): a[b]
BrText == <<97, 91, 98, 93>>
BrCrits == {Txt(p \o BrText) : p \in {<<>>, <<61>>, <<60, 62>>}}
VB == {Txt(BrText), Txt(<<97, 98>>), Txt(<<97>>), Whole(1)}

\* a few criteria for the multi-column functions:  >0  <>abc  b  <=1  1  <b  <-1
CF  == {Txt(<<62, 48>>), Txt(<<60, 62>> \o abc), Txt(<<b_>>), Txt(<<60, 61, 49>>), Whole(1),
        Txt(<<60, b_>>), Txt(<<60, 45, 49>>)}
CF3 == {Txt(<<62, 48>>), Txt(<<b_>>), Txt(<<60, 62, 49>>)}                \* >0  b  <>1

ColArr(c) == Arr([i \in 1..Len(c) |-> <<c[i]>>])

\* cheap deterministic hash for sampling the longest columns in the quick tier
HV(x) == IF x.t = "num" THEN x.n + 7 ELSE 3 * Len(x.v) + x.v[1]
RECURSIVE HSeq(_, _)
HSeq(s, i) == IF i > Len(s) THEN 0 ELSE (i * i + 1) * s[i] + HSeq(s, i + 1)
HC(cr) == IF cr.t = "num" THEN cr.n + 11 * cr.d ELSE HSeq(cr.v, 1)
Keep(c, x) == Mod = 1 \/ (HSeq([i \in 1..Len(c) |-> HV(c[i])], 1) + HC(x)) % Mod = 0

\* ascending vectors and keys for approximate MATCH
NV == {Whole(-5), Whole(0), Whole(1), Whole(10), Whole(12)}
NK == {Whole(-6), Whole(-5), Whole(-2), Whole(0), Rat(1, 2), Whole(1), Whole(5), Whole(10), Whole(11),
       Whole(12), Whole(20)}
TV == {Txt(abc), Txt(ABC), Txt(<<b_>>), Txt(<<c_>>)}
TK == {Txt(<<a_>>), Txt(abc), Txt(ABC), Txt(<<b_>>), Txt(<<b_, b_>>), Txt(<<c_>>), Txt(<<100>>)}

\* VLOOKUP tables: a key column plus payload columns of both types
KV == {Whole(1), Whole(10), Txt(abc), Txt(ABC)}
LK == KV \cup {Txt(<<b_>>), Whole(5)}
Pay(i, j) == IF j % 2 = 0 THEN Txt(<<114, 48 + i, 48 + j>>) ELSE Whole(100 * i + j)
Table(kc, w) == Arr([i \in 1..Len(kc) |-> [j \in 1..w |-> IF j = 1 THEN kc[i] ELSE Pay(i, j)]])

\* numbers that agree in their first nine digits are different keys (1999999998 / 1999999999 / 2000000000)
KN == {Whole(1999999998), Whole(1999999999), Whole(2000000000)}

\* numbers whose doubles take 16 or 17 digits to write down: a key or a criterion is the number, not a rendering of it
KF == {Rat(1, 3), Rat(2, 3), Rat(3, 10), Rat(1, 7)}

MV == {Whole(1), Whole(10), Txt(abc), Txt(<<b_>>), Bool(TRUE)}

Triples == {<<Txt(<<a_>>), Whole(2), Bool(TRUE)>>, <<Whole(10), Whole(20), Whole(30)>>,
            <<Txt(abc), Txt(<<b_>>), Rat(1, 2)>>}

C(f, a) == [f |-> f, args |-> a]

InitCase ==
  \* --- COUNTIF: every column x every criterion
  \/ \E k \in 1..MaxCol : \E c \in [1..k -> V], cr \in Crits :
        (k < 4 \/ Keep(c, cr)) /\ case = C("COUNTIF", <<ColArr(c), cr>>)
  \/ \E k \in 1..2 : \E c \in [1..k -> VE], cr \in ExpCrits : case = C("COUNTIF", <<ColArr(c), cr>>)
  \/ \E k \in 1..3 : \E c \in [1..k -> VB], cr \in BrCrits : case = C("COUNTIF", <<ColArr(c), cr>>)
  \/ \E c \in [1..4 -> V2], cr \in Crits :
        case = C("COUNTIF", <<Arr(<<<<c[1], c[2]>>, <<c[3], c[4]>>>>), cr>>)
  \* --- COUNTIFS with 1, 2, 3 criteria columns
  \/ \E k \in 1..3 : \E c \in [1..k -> V3], cr \in CF : case = C("COUNTIFS", <<ColArr(c), cr>>)
  \/ \E k \in 1..Rows2 : \E c1 \in [1..k -> V3], c2 \in [1..k -> V3], cr1 \in CF, cr2 \in CF :
        case = C("COUNTIFS", <<ColArr(c1), cr1, ColArr(c2), cr2>>)
  \/ \E c1 \in [1..3 -> {Whole(1), Txt(<<b_>>)}], c2 \in [1..3 -> {Whole(-5), Txt(abc)}], cr1 \in CF, cr2 \in CF :
        case = C("COUNTIFS", <<ColArr(c1), cr1, ColArr(c2), cr2>>)
  \/ \E c1 \in [1..2 -> V2], c2 \in [1..2 -> V2], c3 \in [1..2 -> V2], cr1 \in CF3, cr2 \in CF3, cr3 \in CF3 :
        Keep(c1 \o c2 \o c3, cr2) /\ case = C("COUNTIFS", <<ColArr(c1), cr1, ColArr(c2), cr2, ColArr(c3), cr3>>)
  \* --- SUMIF / SUMIFS (compared only where the installed pandas supports them)
  \/ \E k \in 1..3 : \E c \in [1..k -> {Whole(-5), Whole(1), Rat(1, 2), Txt(<<b_>>)}], cr \in CF :
        case = C("SUMIF", <<ColArr(c), cr>>)
  \/ \E k \in 1..2 : \E c \in [1..k -> V3], s \in [1..k -> {Whole(1), Whole(10), Rat(1, 2)}], cr \in CF :
        case = C("SUMIF", <<ColArr(c), cr, ColArr(s)>>)
  \/ \E k \in 1..2 : \E c \in [1..k -> V3], s \in [1..k -> {Whole(1), Whole(10)}], cr \in CF :
        case = C("SUMIFS", <<ColArr(s), ColArr(c), cr>>)
  \/ \E s \in [1..2 -> {Whole(1), Whole(10)}], c1 \in [1..2 -> V2], c2 \in [1..2 -> V2], cr1 \in CF3, cr2 \in CF3 :
        case = C("SUMIFS", <<ColArr(s), ColArr(c1), cr1, ColArr(c2), cr2>>)
  \* --- MATCH exact: key at every position, duplicated, absent
  \/ \E k \in 1..MaxCol : \E c \in [1..k -> V], key \in V \cup {Whole(5), Txt(<<122, 122>>)} :
        (k < 4 \/ Keep(c, key)) /\ case = C("MATCH", <<key, ColArr(c), Whole(0)>>)
  \/ \E k \in 1..3 : \E c \in [1..k -> V3 \cup {Whole(10)}], key \in V3 \cup {Whole(10), Whole(5)} :     \* exact, the match type spelt FALSE
        case = C("MATCH", <<key, ColArr(c), Bool(FALSE)>>)
  \/ \E k \in 1..3 : \E c \in [1..k -> KN], key \in KN : case = C("MATCH", <<key, ColArr(c), Whole(0)>>)
  \/ \E kc \in [1..2 -> KN], key \in KN, ci \in 1..2 : case = C("VLOOKUP", <<key, Table(kc, 2), Whole(ci), Bool(FALSE)>>)
  \/ \E c \in [1..2 -> KN], key \in KN : case = C("COUNTIF", <<ColArr(c), key>>)
  \/ \E c \in [1..2 -> KF], key \in KF : \/ case = C("COUNTIF", <<ColArr(c), key>>)
                                          \/ case = C("MATCH", <<key, ColArr(c), Whole(0)>>)
                                          \/ case = C("COUNTIFS", <<ColArr(c), key, ColArr(c), Txt(<<62, 48>>)>>)
  \* --- MATCH approximate (match_type 1 or omitted) on ascending data
  \/ \E k \in 1..MaxAsc : \E c \in [1..k -> NV], key \in NK :
        /\ Ascending(c)
        /\ \/ case = C("MATCH", <<key, ColArr(c), Whole(1)>>)
           \/ case = C("MATCH", <<key, ColArr(c)>>)
  \/ \E k \in 1..4 : \E c \in [1..k -> TV], key \in TK :
        /\ Ascending(c)
        /\ \/ case = C("MATCH", <<key, ColArr(c), Whole(1)>>)
           \/ case = C("MATCH", <<key, ColArr(c)>>)
  \* ... and on ascending columns of mixed types: the position counts the cells of every type
  \/ \E k \in 2..4 : \E c \in [1..k -> MV], key \in MV \cup {Whole(0), Whole(5), Txt(<<122, 122>>), Bool(FALSE)} :
        /\ Ascending(c) /\ \E i \in 1..k : Rank(c[i]) # Rank(c[1])
        /\ \/ case = C("MATCH", <<key, ColArr(c), Whole(1)>>)
           \/ case = C("MATCH", <<key, ColArr(c)>>)
  \* --- VLOOKUP exact: 3x3 tables, every key column, every column index
  \/ \E kc \in [1..3 -> KV], key \in LK, ci \in -1..4, rl \in {Bool(FALSE), Whole(0)} :
        case = C("VLOOKUP", <<key, Table(kc, 3), Whole(ci), rl>>)
  \/ \E kc \in [1..2 -> KV], key \in LK, ci \in 0..5 :
        case = C("VLOOKUP", <<key, Table(kc, 4), Whole(ci), Bool(FALSE)>>)
  \/ \E kc \in [1..4 -> {Whole(1), Whole(10), Txt(abc)}], key \in {Whole(1), Txt(ABC), Whole(5)}, ci \in 0..3 :
        case = C("VLOOKUP", <<key, Table(kc, 2), Whole(ci), Bool(FALSE)>>)
  \/ \E kc \in [1..2 -> KV], key \in LK :                       \* approximate / fractional: open
        \/ case = C("VLOOKUP", <<key, Table(kc, 3), Whole(2)>>)
        \/ case = C("VLOOKUP", <<key, Table(kc, 3), Rat(3, 2), Bool(FALSE)>>)
  \* --- CHOOSE: every index from below 1 to beyond n
  \/ \E i \in -1..5, vs \in Triples, n \in 1..3 : case = C("CHOOSE", <<Whole(i)>> \o SubSeq(vs, 1, n))
  \/ \E i \in 0..4, vs \in Triples : case = C("CHOOSE", <<Txt(<<48 + i>>)>> \o vs)
  \/ \E i \in {Rat(1, 2), Rat(3, 2), Rat(7, 2)}, vs \in Triples : case = C("CHOOSE", <<i>> \o vs)

Pending == [t |-> "pending"]

Init == InitCase /\ res = Pending
Call == res = Pending /\ res' = CritCall(case.f, case.args) /\ UNCHANGED case
Next == Call
Spec == Init /\ [][Next]_vars

Done == res # Pending
A == case.args
F == case.f
Count(r, cr) == CritCall("COUNTIF", <<r, cr>>)

\* --- the consequences stated by the property, as invariants of the spec ---

\* counting is the size of the set of positions at which every criterion holds
LawCountIsHitSet ==
    (Done /\ F \in {"COUNTIF", "COUNTIFS"} /\ res.t = "num")
    => res.n = Cardinality(Hits(PairRanges(A, 1), PairCrits(A, 1)))

\* = and <> split the range; < = > split the cells of the operand's own type
\* (an ordering criterion never matches a cell of the other type); <= is < or =
LawCountPartition ==
    (Done /\ F = "COUNTIF" /\ A[2].t = "txt" /\ OpPrefix(A[2].v) = "=" /\ res.t = "num")
    => LET o  == SubSeq(A[2].v, 2, Len(A[2].v))
           cr == CritOf(A[2])
           n(p) == Count(A[1], Txt(p \o o)).n
           own == Cardinality({i \in 1..Len(Cells(A[1])) : Rank(Cells(A[1])[i]) = Rank(cr.v)})
       IN /\ res.n + n(<<60, 62>>) = Len(Cells(A[1]))
          /\ n(<<60>>) + res.n + n(<<62>>) = own
          /\ n(<<60, 61>>) = n(<<60>>) + res.n
          /\ n(<<62, 61>>) = n(<<62>>) + res.n

\* a plain value is an equality test with that value
LawPlainIsEq ==
    (Done /\ F = "COUNTIF" /\ res.t = "num")
    => /\ (A[2].t = "txt" /\ OpPrefix(A[2].v) = "") => res = Count(A[1], Txt(<<61>> \o A[2].v))
       /\ (A[2].t = "num" /\ SafeNum(A[2]) /\ NumToText(A[2]).t = "txt") => res = Count(A[1], Txt(<<61>> \o NumToText(A[2]).v))

\* text is matched case-insensitively (operand and cells)
LawCaseInsensitive ==
    (Done /\ F = "COUNTIF" /\ A[2].t = "txt" /\ res.t = "num")
    => /\ res = Count(A[1], Txt(UpperSeq(A[2].v)))
       /\ res = Count(Arr([i \in 1..Len(A[1].v) |->
                           [j \in 1..Len(A[1].v[i]) |->
                              LET x == A[1].v[i][j] IN IF x.t = "txt" THEN Txt(LowerSeq(x.v)) ELSE x]]), A[2])

\* a negative operand is a number: "<-5" never matches a text, "=-5" matches the number -5
LawNegativeOperand ==
    (Done /\ F = "COUNTIF" /\ A[2].t = "txt" /\ Len(A[2].v) >= 2 /\ A[2].v[Len(A[2].v) - 1] = 45
          /\ \A i \in 1..Len(A[2].v) : A[2].v[i] \notin {69, 101})          \* (not the sign of an exponent)
    => CritOf(A[2]).v = Whole(-5) /\ CritOf(A[2]).ok

LawCountifsSingle ==
    (Done /\ F = "COUNTIFS" /\ Len(A) = 2) => res = Count(A[1], A[2])

\* several criteria: conjunction position by position
LawCountifsConj ==
    (Done /\ F = "COUNTIFS" /\ Len(A) >= 4 /\ res.t = "num")
    => LET K == Len(A) \div 2
           H(k) == Hits(<<Cells(A[2 * k - 1])>>, <<CritOf(A[2 * k])>>)
       IN /\ res.n = Cardinality({i \in 1..Len(Cells(A[1])) : \A k \in 1..K : i \in H(k)})
          /\ \A k \in 1..K : res.n <= Count(A[2 * k - 1], A[2 * k]).n
          /\ res = CritCall("COUNTIFS", <<A[3], A[4], A[1], A[2]>> \o SubSeq(A, 5, Len(A)))

\* summing ones counts; = and <> split the sum; SUMIFS with one pair is SUMIF
LawSumif ==
    (Done /\ F = "SUMIF" /\ Len(A) = 3 /\ res.t = "num")
    => /\ (\A i \in 1..Len(Cells(A[3])) : Cells(A[3])[i] = Whole(1)) => res = Count(A[1], A[2])
       /\ res = CritCall("SUMIFS", <<A[3], A[1], A[2]>>)
       /\ (A[2].t = "txt" /\ OpPrefix(A[2].v) = "<")
             => LET ge == CritCall("SUMIF", <<A[1], Txt(<<62, 61>> \o SubSeq(A[2].v, 2, Len(A[2].v))), A[3]>>)
                    own == {i \in 1..Len(Cells(A[1])) : Rank(Cells(A[1])[i]) = Rank(CritOf(A[2]).v)}
                    all == CritCall("SUMIFS", <<A[3], A[3], Txt(<<60, 62, 122>>)>>)   \* <>z : every cell
                IN (own = 1..Len(Cells(A[1]))) => RAdd(res, ge) = all
LawSumifNoSumRange ==
    (Done /\ F = "SUMIF" /\ Len(A) = 2) => res = CritCall("SUMIF", <<A[1], A[2], A[1]>>)

\* exact MATCH: the first position whose cell equals the key, #N/A when none
LawMatchExact ==
    (Done /\ F = "MATCH" /\ Len(A) = 3 /\ A[3] = Whole(0))
    => LET col == Column(A[2], 1) IN
       /\ res.t \in {"num", "err"}
       /\ res.t = "num" => /\ Cmp3(col[res.n], A[1]) = 0
                           /\ \A j \in 1..(res.n - 1) : Cmp3(col[j], A[1]) # 0
       /\ res.t = "err" => res = Err("#N/A") /\ \A j \in 1..Len(col) : Cmp3(col[j], A[1]) # 0

\* approximate MATCH on ascending data: the last position whose value does not exceed the key
LawMatchApprox ==
    (Done /\ F = "MATCH" /\ (Len(A) = 2 \/ A[3] = Whole(1)) /\ res.t # "open")
    => LET col == Column(A[2], 1)  n == Len(col) IN
       /\ res.t \in {"num", "err"}
       /\ res.t = "num" => /\ Cmp3(col[res.n], A[1]) <= 0
                           /\ res.n = n \/ Cmp3(col[res.n + 1], A[1]) > 0
       /\ res.t = "err" => res = Err("#N/A") /\ Cmp3(col[1], A[1]) > 0
       /\ res = CritCall("MATCH", <<A[1], A[2], Whole(1)>>)
       \* where the key occurs, the approximate match is an occurrence at or after the first one
       /\ LET e == CritCall("MATCH", <<A[1], A[2], Whole(0)>>) IN
          e.t = "num" => res.t = "num" /\ e.n <= res.n /\ Cmp3(col[res.n], A[1]) = 0

\* VLOOKUP is the requested column of the row exact MATCH finds in the first column
LawVlookup ==
    (Done /\ F = "VLOOKUP" /\ res.t # "open")
    => LET tab == A[2]  ci == A[3].n
           m == CritCall("MATCH", <<A[1], ColArr(Column(tab, 1)), Whole(0)>>)
       IN IF ci < 1 \/ ci > Width(tab) THEN res = AnyErr
          ELSE IF m.t = "err" THEN res = Err("#N/A")
          ELSE res = tab.v[m.n][ci]

LawChoose ==
    (Done /\ F = "CHOOSE" /\ A[1].t = "num" /\ IsWhole(A[1]))
    => IF A[1].n >= 1 /\ A[1].n <= Len(A) - 1 THEN res = A[A[1].n + 1] ELSE res = Err("#VALUE!")

LawResultType == Done => res.t \in {"txt", "num", "bool", "anyerr", "err", "open"}
=============================================================================

------------------------------ MODULE MC_C10 ------------------------------
(***************************************************************************)
(* Bounded instance for C10.  Cells A1..D1 hold a truth assignment; E1 is  *)
(* absent (blank); the formula under test lives in Z1.                     *)
(*   if     conditions x branches (constants, references, SPY, nested IF,  *)
(*          poisoned branches) incl. the two-argument form                 *)
(*   junc   AND / OR of arity 1..3 over all assignments of                 *)
(*          {TRUE, FALSE, 0, 1, blank, error, range of 2, SPY}             *)
(*   not    NOT over the scalar set                                        *)
(***************************************************************************)
EXTENDS XlLogic

VARIABLES case, res
vars == <<case, res>>

N(k) == NumLit(NatToCodes(k))
Spy(k) == CallN("SPY", <<N(k)>>)
A1 == RelRef(1, 1)  B1 == RelRef(2, 1)  C1 == RelRef(3, 1)  D1 == RelRef(4, 1)  E1 == RelRef(5, 1)
\* (the formula under test lives in Z1: a reference to Z1, or a range containing it, is a circular reference as well)
Poison == << CallN("NOSUCHFUNC", <<>>), RelRef(CycCol, 1), Bin("/", N(1), N(0)),
            Bin("+", RelRef(OwnCol, 1), N(1)), CallN("SUM", <<Rng("", OwnCol - 1, 1, OwnCol, 1)>>) >>

\* assignments to A1..D1
Assign == << <<Bool(TRUE), Bool(FALSE), Whole(0), Whole(2)>>,
             <<Bool(FALSE), Bool(TRUE), Whole(3), Whole(0)>>,
             <<Whole(1), Whole(0), Bool(TRUE), Blank>>,
             <<Blank, Whole(-1), Bool(FALSE), Bool(TRUE)>>,
             <<Bool(TRUE), Err("#N/A"), Whole(1), Bool(TRUE)>>,        \* an error VALUE in a cell (B1): inside the range A1:B1
             \* numbers far below 1E-15 are numbers other than zero: TRUE as a condition
             <<[t |-> "float", v |-> "1e-16"], [t |-> "float", v |-> "-3e-17"], [t |-> "float", v |-> "4e-300"], Whole(0)>> >>
WbOfA(asg) == [cells |-> [k \in {<<"Sheet1", i, 1>> : i \in {j \in 1..4 : asg[j].t # "blank"}} |-> [c |-> "const", v |-> asg[k[2]]]],
               names |-> <<>>]

Conds == << BoolLit(TRUE), BoolLit(FALSE), N(1), N(0), NumLit(<<50, 46, 53>>), E1, A1, B1, C1, D1,
            Bin(">", C1, N(1)), Bin("=", A1, B1), CallN("AND", <<A1, D1>>), CallN("OR", <<B1, C1>>), CallN("NOT", <<A1>>),
            CallN("IF", <<A1, BoolLit(FALSE), BoolLit(TRUE)>>), ErrLit("#N/A"), Bin("/", N(1), C1) >>
Branches == << N(7), StrLit(<<121>>), C1, Spy(1), CallN("IF", <<B1, Spy(2), Spy(3)>>), Bin("+", Spy(4), N(1)) >>

JArgs == << BoolLit(TRUE), BoolLit(FALSE), N(0), N(1), E1, ErrLit("#DIV/0!"), Rng("", 1, 1, 2, 1), Rng("", 3, 1, 5, 1),
            Spy(1), Spy(0), A1, Bin("=", C1, D1), CallN("NOSUCHFUNC", <<>>) >>
NJ == Len(JArgs)
\* spies in AND/OR lists get distinct ids by position
Sp(i, x) == IF x.k = "call" /\ x.f = "SPY" THEN CallN("SPY", <<N(10 * i + LitValue(x.args[1].txt).n)>>) ELSE x

Mk(kind, ast, asg) == [kind |-> kind, ast |-> ast, text |-> Formula(MinParen(ast), Style0), asg |-> asg]

InitCase ==
  \/ \E c \in 1..Len(Conds), x \in 1..Len(Branches), y \in 1..Len(Branches), g \in 1..Len(Assign) :
        case = Mk("if3", CallN("IF", <<Conds[c], Branches[x], Branches[y]>>), g)
  \/ \E c \in 1..Len(Conds), x \in 1..Len(Branches), g \in 1..Len(Assign) :
        case = Mk("if2", CallN("IF", <<Conds[c], Branches[x]>>), g)
  \/ \E c \in 1..Len(Conds), p \in 1..Len(Poison), x \in {1, 4}, side \in BOOLEAN, g \in 1..Len(Assign) :
        case = Mk("if-poison", CallN("IF", IF side THEN <<Conds[c], Poison[p], Branches[x]>> ELSE <<Conds[c], Branches[x], Poison[p]>>), g)
  \/ \E f \in {"AND", "OR"}, i \in 1..NJ, g \in {1, 3, 5} : case = Mk("junc1", CallN(f, <<Sp(1, JArgs[i])>>), g)
  \/ \E f \in {"AND", "OR"}, i \in 1..NJ, j \in 1..NJ, g \in {1, 4, 5} : case = Mk("junc2", CallN(f, <<Sp(1, JArgs[i]), Sp(2, JArgs[j])>>), g)
  \/ \E f \in {"AND", "OR"}, i \in 1..NJ, j \in 1..NJ, k \in {1, 2, 5, 6, 9, 13} :
        case = Mk("junc3", CallN(f, <<Sp(1, JArgs[i]), Sp(2, JArgs[j]), Sp(3, JArgs[k])>>), 2)
  \/ \E c \in 1..Len(Conds), g \in 1..Len(Assign) : case = Mk("not", CallN("NOT", <<Conds[c]>>), g)
  \/ \E c \in {7, 8, 9, 10}, sw \in BOOLEAN :
        case = Mk("if-tiny", CallN("IF", IF sw THEN <<Conds[c], Spy(1), Spy(2)>> ELSE <<Conds[c], Spy(1)>>), 6)
  \/ \E c \in {7, 8, 9, 10} : case = Mk("not-tiny", CallN("NOT", <<Conds[c]>>), 6)
  \/ \E f \in {"AND", "OR"}, c \in {7, 8, 9, 10}, j \in {1, 2, 4, 7, 8} :
        case = Mk("junc-tiny", CallN(f, <<Conds[c], Sp(2, JArgs[j])>>), 6)
  \/ \E f \in {"AND", "OR"}, j \in {7, 8} : case = Mk("junc-tiny", CallN(f, <<JArgs[j]>>), 6)
  \/ \E c \in 1..Len(Conds), f \in {"AND", "OR"}, g \in {1, 2} :
        case = Mk("nested", CallN("IF", <<CallN(f, <<Conds[c], Spy(5)>>), Spy(6), CallN("IF", <<Conds[c], Spy(7), Poison[1]>>)>>), g)

Pending == {[v |-> [t |-> "pending"], log |-> <<>>]}
Init == InitCase /\ res = Pending
Evaluate == res = Pending /\ res' = Outs(case.ast, [sheet |-> "Sheet1", wb |-> WbOfA(Assign[case.asg])]) /\ UNCHANGED case
Next == Evaluate
Spec == Init /\ [][Next]_vars

Done == res # Pending
\* laws
LawSomeOutcome == Done => res # {}
\* IF is deterministic: exactly one admissible outcome unless a nested AND/OR leaves a choice
LawIfDeterministic == (Done /\ case.kind \in {"if3", "if2", "if-poison"} /\ case.ast.args[1].k # "call") => Cardinality(res) = 1
\* IF never forces the unselected branch: a poisoned unselected branch leaves value and log untouched
LawIfPoisonIgnored == (Done /\ case.kind = "if-poison") =>
    LET c == Eval(case.ast.args[1], "Sheet1", WbOfA(Assign[case.asg])) IN
    \A o \in res : (Truth(c) \in {"t", "f"} /\ case.ast.args[1].k # "call")
        => LET sel == IF Truth(c) = "t" THEN case.ast.args[2] ELSE case.ast.args[3]
               poisonSel == \E p \in 1..Len(Poison) : sel = Poison[p]
           IN ~poisonSel => (o.v # Exc /\ o.v # Err("#DIV/0!"))
\* De Morgan on error-free, fully determined arguments: NOT(AND(a,b)) = OR(NOT a, NOT b) at the level of values
LawJunctionValues == (Done /\ case.kind \in {"junc1", "junc2", "junc3"}) =>
    \A o \in res : o.v.t \in {"bool", "err", "open", "pyexc"}
=============================================================================

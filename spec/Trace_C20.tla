----------------------------- MODULE Trace_C20 -----------------------------
(***************************************************************************)
(* Trace specification for recorded calls of the financial functions       *)
(* (code -> spec).  Each line of the ndjson file $TRACE_FILE is one public *)
(* call of the real library at its return:                                 *)
(*   {"f": name, "args": [...], "res": observed, "path": ..., "aux": {...}}*)
(* One step consumes one line and yields a TOTAL verdict:                  *)
(*   "open"  the arguments are outside the quantifier domain (FinDomain)   *)
(*   "ok"    the observed result agrees with the exact expected value, or, *)
(*           where 32-bit rationals cannot evaluate the defining equation, *)
(*           the residual measured by the harness is within the bound      *)
(*   "cmp"   exp is the exact expected value and the observed double is    *)
(*           not literally equal: the harness compares within tolerance    *)
(*   anything else: the name of the violated clause.                       *)
(* aux (computed by the harness from the defining equation, see c20.py):   *)
(*   err   relative distance of res from the reference, in units of 1e-12  *)
(*   slo, shi   for IRR/XIRR: sign of NPV/XNPV of the same flows at        *)
(*              res - 1e-6 and res + 1e-6 (the unique root of flows in     *)
(*              FinDomain lies within 1e-6 of res iff slo >= 0 >= shi)     *)
(*   s10   for IRR/XIRR: sign of NPV/XNPV of the flows at rate 10           *)
(*   ref, formula   which reference was used (logged, not interpreted)     *)
(***************************************************************************)
EXTENDS XlFin, Json, IOUtils

Trace == ndJsonDeserialize(IOEnv.TRACE_FILE)

VARIABLES l, verdict, exp
vars == <<l, verdict, exp>>

Tol == 1000        \* 1e-9, in units of 1e-12
\* the annuity closed forms divide (1+r)^n - 1 by r: evaluated in doubles at a tiny non-zero rate they lose about log10(1/|r|) of
\* their 16 digits, whatever the implementation (2.2e-16 / |r|, with a factor 10 in hand: 2e-3 / |r| in units of 1e-12).  The
\* property equates the functions with the closed forms; how well doubles can evaluate them is not its subject
TolFor(e) == IF e.f \in {"PMT", "PV"} /\ Len(e.args) >= 1 /\ e.args[1].t = "num" /\ e.args[1].n # 0
             THEN Tol + (e.args[1].d \div 500) \div Abs(e.args[1].n)
             ELSE Tol

Call(f, a) == FinCall(f, a)

\* the root is itself a rate of the property: rates range over (-0.9, 10].  For
\* flows in FinDomain NPV is positive below the root, so the root exceeds 10
\* iff NPV at rate 10 is still positive (aux.s10, re-derived here where exact)
NpvAt10(e) == IF e.f = "IRR" THEN Npv0V(Whole(10), Flat(e.args[1]))
              ELSE XnpvV(Whole(10), Flat(e.args[1]), Serials(Flat(e.args[2])))
AuxConsistent(e) == LET v == NpvAt10(e) IN v.t = "num" => RSign(v) = e.aux.s10

Verdict(e, x) ==
    IF ~FinDomain(e.f, e.args) THEN "open"
    ELSE IF e.f \in {"IRR", "XIRR"} /\ ~AuxConsistent(e) THEN "aux-mismatch"
    ELSE IF e.f \in {"IRR", "XIRR"} /\ e.aux.s10 > 0 THEN "open"
    ELSE IF e.res.t = "exc" THEN "python-exception"
    ELSE IF e.res.t = "err" THEN "unexpected-error"
    ELSE IF e.res.t \notin {"num", "float"} THEN "wrong-type"
    ELSE IF e.f \in {"IRR", "XIRR"} THEN
            IF ~(e.aux.slo >= 0 /\ e.aux.shi <= 0) THEN "not-the-root"
            ELSE IF x.t = "num" THEN "cmp" ELSE "ok"
    ELSE IF x.t = "num" THEN (IF Agrees(e.res, x) THEN "ok" ELSE "cmp")
    ELSE IF e.aux.err <= TolFor(e) THEN "ok"
    ELSE "wrong-value"

Init == l = 0 /\ verdict = "start" /\ exp = [t |-> "none"]
Step == /\ l < Len(Trace)
        /\ l' = l + 1
        /\ LET e == Trace[l + 1]
               x == Call(e.f, e.args)
           IN exp' = x /\ verdict' = Verdict(e, x)
Spec == Init /\ [][Step]_vars

AllConsumed == TLCGet("stats").diameter - 1 = Len(Trace)
=============================================================================

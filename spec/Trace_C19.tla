---------------------------- MODULE Trace_C19 ----------------------------
(***************************************************************************)
(* Trace specification for recorded base-conversion calls (C19; a copy of   *)
(* Trace_Calls over XlBits).  Each                                         *)
(* line of the ndjson file $TRACE_FILE is one public call of the real      *)
(* library at its return: {"f": name, "args": [...], "res": observed}.     *)
(* One step consumes one line and yields a TOTAL verdict (the run goes on  *)
(* after a disagreement): "ok", "open" (the property leaves the result     *)
(* undetermined) or the name of the violated clause.                       *)
(***************************************************************************)
EXTENDS XlBits, Json, IOUtils

Call(f, a) == BitsCall(f, a)

Trace == ndJsonDeserialize(IOEnv.TRACE_FILE)

VARIABLES l, verdict, exp
vars == <<l, verdict, exp>>

Verdict(e, x) ==
    IF x.t = "open" THEN "open"
    ELSE IF Agrees(e.res, x) THEN "ok"
    ELSE IF e.res.t = "exc" THEN "python-exception"
    ELSE IF x.t \in {"err", "anyerr"} THEN "error-expected"
    ELSE IF e.res.t = "err" THEN "unexpected-error"
    ELSE "wrong-value"

Init == l = 0 /\ verdict = "start" /\ exp = [t |-> "none"]
Step == /\ l < Len(Trace)
        /\ l' = l + 1
        /\ LET e == Trace[l + 1]
               x == Call(e.f, e.args)
           IN exp' = x /\ verdict' = Verdict(e, x)
Spec == Init /\ [][Step]_vars

AllConsumed == TLCGet("stats").diameter - 1 = Len(Trace)
=============================================================================

----------------------------- MODULE MC_Parse -----------------------------
(***************************************************************************)
(* The front end as two composed machines: the tokenizer machine runs on   *)
(* the text, hands its finished token list to the parser machine           *)
(* (Handover), which runs the shunting yard and builds the tree.           *)
(*                                                                         *)
(*   ast    the well-formed formulas of MC_C02: the tree the parser        *)
(*          machine builds must be the tree the formula denotes            *)
(*          (RefinesTree) - token for token, argument for argument; the    *)
(*          reverse polish list is a post-order of that tree (RpnIsPost-   *)
(*          Order).  Formulas in which a postfix % on a non-literal sits   *)
(*          where the code's "* 0.01" encoding associates differently are  *)
(*          excluded here (known finding F-C02-01).                        *)
(*   raw    every short string over each alphabet: the composed machine    *)
(*          terminates, keeps its frame discipline, and finishes or fails  *)
(*          the way the code does (replayed by the harness)                *)
(***************************************************************************)
EXTENDS XlSyntax, XlParser

CONSTANTS Families, StrLen, Alphabets, MaxLen

VARIABLES case, res
vars == <<case, res, src, off, tok, mode, stack, out, phase, und, ptoks, pi, pout, pstack, wv, ac, bstack, pphase, pund>>

T == INSTANCE MC_Tok

(* ---------------------------------------------------------------------- *)
(* the tree a formula denotes, over tokens                                 *)
(* ---------------------------------------------------------------------- *)
Hundredth2 == Tok(Hundredth, "operand", "number")
RECURSIVE SynTree(_)
SynTree(a) ==
    CASE a.k = "call" -> FnNode(TT(NameCodes(a.f), "function", ""), [i \in 1..Len(a.args) |-> SynTree(a.args[i])])
      [] a.k = "bin"  -> OpNode(TT(NameCodes(a.op), "operator-infix", T!OpSubtype(a.op)), SynTree(a.l), SynTree(a.r))
      [] a.k = "neg"  -> OpNode(TT(<<CPMinus>>, "operator-prefix", ""), Nil, SynTree(a.x))
      [] a.k = "pct"  -> IF a.x.k = "num" /\ ~T!EndsPct(a.x.txt) THEN Leaf(T!Lex(a)[1])
                         ELSE OpNode(TT(<<cStar>>, "operator-infix", "math"), SynTree(a.x), Leaf(Hundredth2))
      [] a.k = "paren" -> SynTree(a.x)
      [] OTHER -> Leaf(T!Lex(a)[1])

\* F-C02-01: x% on a non-literal is encoded as x * 0.01 with the precedence of *
IsPctOp(a) == a.k = "pct" /\ ~(a.x.k = "num" /\ ~T!EndsPct(a.x.txt))
RECURSIVE Bare(_)
Bare(a) == IF a.k = "paren" THEN Bare(a.x) ELSE a
RECURSIVE RiskyPct(_)
RiskyPct(a) ==
    CASE a.k = "bin" -> \/ (a.op = "^" /\ (IsPctOp(a.l) \/ IsPctOp(a.r)))
                        \/ (a.op \in {"*", "/"} /\ IsPctOp(a.r))
                        \/ RiskyPct(a.l) \/ RiskyPct(a.r)
      [] a.k \in {"neg", "pct", "paren"} -> RiskyPct(a.x)
      [] a.k = "call" -> \E i \in 1..Len(a.args) : RiskyPct(a.args[i])
      [] OTHER -> FALSE

RECURSIVE SameTree(_, _)
SameTok(a, b) == a.ty = b.ty /\ a.sub = b.sub /\ (a.v.t = "open" \/ b.v.t = "open" \/ a.v = b.v)
SameTree(x, y) ==
    /\ x.k = y.k
    /\ CASE x.k = "leaf" -> SameTok(x.tok, y.tok)
         [] x.k = "op"   -> SameTok(x.tok, y.tok) /\ SameTree(x.l, y.l) /\ SameTree(x.r, y.r)
         [] x.k = "fn"   -> SameTok(x.tok, y.tok) /\ Len(x.args) = Len(y.args) /\ \A i \in 1..Len(x.args) : SameTree(x.args[i], y.args[i])
         [] OTHER -> TRUE

RECURSIVE PostOrder(_)
RECURSIVE PostOrderSeq(_)
PostOrderSeq(xs) == IF Len(xs) = 0 THEN <<>> ELSE PostOrder(xs[1]) \o PostOrderSeq(Tail(xs))
PostOrder(x) ==
    CASE x.k = "leaf" -> <<QNode(x.tok, 0)>>
      [] x.k = "op"   -> (IF x.l = Nil THEN <<>> ELSE PostOrder(x.l)) \o PostOrder(x.r) \o <<QNode(x.tok, 0)>>
      [] x.k = "fn"   -> PostOrderSeq(x.args) \o <<QNode(x.tok, Len(x.args))>>

(* ---------------------------------------------------------------------- *)
Idle == "idle"
Init == /\ (T!InitCase) /\ res = T!C2!Pending /\ TokInit(case.text)
        /\ ptoks = <<>> /\ pi = 1 /\ pout = <<>> /\ pstack = <<>> /\ wv = <<>> /\ ac = <<>> /\ bstack = <<>>
        /\ pphase = Idle /\ pund = FALSE

TokStep == pphase = Idle /\ TokNext /\ UNCHANGED <<case, res>> /\ UNCHANGED pvars
Handover == /\ pphase = Idle /\ phase \in {"done", "fail"}
            /\ IF phase = "fail" THEN pphase' = "fail" /\ UNCHANGED ptoks        \* the tokenizer's exception is the parse's
               ELSE pphase' = "prepare" /\ ptoks' = out
            /\ UNCHANGED <<case, res, pi, pout, pstack, wv, ac, bstack, pund>> /\ UNCHANGED tvars
ParseStep == pphase # Idle /\ ParseNext /\ UNCHANGED <<case, res>> /\ UNCHANGED tvars
Next == TokStep \/ Handover \/ ParseStep
Spec == Init /\ [][Next]_vars

\* the token-level refinement of MC_Tok, checked in the same run
TokRefinesSyntax == T!RefinesSyntax
TokWellFormedNeverFails == T!WellFormedNeverFails
TokWellFormedNoUnknown == T!WellFormedNoUnknown
TokProgress == [][(phase = "scan" /\ phase' = "scan") => off' > off]_vars

WellFormed == case.kind # "raw"
Comparable == WellFormed /\ pphase = "done" /\ ~und /\ ~pund /\ ~RiskyPct(case.tree)
RefinesTree == Comparable => SameTree(ParseTree, SynTree(MinParen(case.tree)))
RpnIsPostOrder == (WellFormed /\ pphase = "done") => pout = PostOrder(ParseTree)
OneTreeLeft == (WellFormed /\ pphase = "done") => Len(bstack) = 1
WellFormedParses == WellFormed => pphase # "fail"
NothingLeftOpen == (WellFormed /\ pphase \in {"build", "done"}) => pstack = <<>> /\ wv = <<>> /\ ac = <<>>
=============================================================================

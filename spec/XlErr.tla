------------------------------- MODULE XlErr -------------------------------
(***************************************************************************)
(* Errors as values (C07): how an Excel error among the arguments of an    *)
(* operator or function determines the result, and the error-inspecting    *)
(* information functions.                                                  *)
(***************************************************************************)
EXTENDS XlFuncs, XlSig

RECURSIVE FlatArgs(_)
FlatArgs(args) == IF Len(args) = 0 THEN <<>>
                  ELSE (IF args[1].t = "arr" THEN ArrElems(args[1]) ELSE <<args[1]>>) \o FlatArgs(Tail(args))

\* a strict function hands on the leftmost error among its scalar arguments and the elements of its range
\* arguments (row-major); functions in ErrorOpaque inspect / count / evaluate lazily and are described elsewhere
StrictResult(f, args) ==
    LET fe == FirstErr(FlatArgs(args)) IN
    \* AND / OR evaluate their arguments on demand, but ONE argument (a whole range included) is evaluated as a whole:
    \* an error among its elements is the result
    IF f \in {"AND", "OR"} /\ Len(args) = 1 THEN (IF fe.t = "err" THEN fe ELSE Open)
    ELSE IF f \in ErrorOpaque THEN Open
    ELSE IF fe.t = "err" THEN fe
    ELSE Open

\* expected result of a call when the argument list contains an error / for the information functions;
\* for operators the full semantics of XlValues applies (type matrix: never a Python exception)
ErrCall(f, a) ==
    IF f \in InfoFuncs THEN InfoCall(f, a)
    ELSE IF f \in OpFuncs THEN (LET r == OpCall(f, a) IN IF r.t = "open" THEN NoExc ELSE r)
    ELSE StrictResult(f, a)
=============================================================================

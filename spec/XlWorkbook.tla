----------------------------- MODULE XlWorkbook -----------------------------
(***************************************************************************)
(* The API-level state machine of a compiled model with evaluators         *)
(* (C04, C05): set_cell_value / get_cell_value / evaluate on a workbook    *)
(* whose formulas are fixed and whose input cells change.                  *)
(*                                                                         *)
(*   inp      input cell -> current constant; content = shape + inp        *)
(*   stored   cell -> value        what get_cell_value returns             *)
(*   evald    formula cells evaluated so far (need_update = FALSE)         *)
(*   gmemo    address-keyed memo that survives calls (variant only)        *)
(*   obs      the response of the last call                                *)
(*   hist     history of calls with responses (exported for replay)        *)
(*   leak     entries held by a memo that is never released (variant only) *)
(*                                                                         *)
(* Evaluate is defined by the MECHANISM the constant Mech selects:         *)
(*   "recompute"    every evaluation recomputes from the constants (the    *)
(*                  shipped design)                                        *)
(*   "need_update"  a formula cell evaluated before returns its stored     *)
(*                  value (a plausible optimisation; violates NoStale)     *)
(*   "global_memo"  values memoised by address across calls (ditto)        *)
(*   "leaky"        recompute, but every call leaves memo entries behind   *)
(*                  (the class-level lru_cache; violates Footprint)        *)
(* while the properties are stated against Fresh: the big-step value in a  *)
(* workbook holding the current constants and formula texts only.          *)
(***************************************************************************)
EXTENDS XlEval

CONSTANTS Mech, MaxLen, ShapeIds,
          NSet,     \* how many of SetVals the instance uses
          Ops,      \* subset of {"set", "setname", "evaluate", "get"}: which calls the instance explores
          NEval     \* number of Evaluator instances sharing the model
VARIABLES shape, inp, stored, evald, gmemo, obs, hist, leak
vars == <<shape, inp, stored, evald, gmemo, obs, hist, leak>>

(* ---- shapes: small acyclic models exercising chains, diamonds, ranges, names, sheets ---- *)
A(s, c, r) == <<s, c, r>>
Kc(n) == [c |-> "const", v |-> Whole(n)]
Fm(a) == [c |-> "formula", ast |-> a]
N1 == NumLit(<<49>>)   N2 == NumLit(<<50>>)   N3 == NumLit(<<51>>)   N10 == NumLit(<<49, 48>>)

DeepLen == 120
ShapeDef(i) ==
  CASE i = "chain" ->
        [cells |-> ( A("S1", 1, 1) :> Kc(1) @@ A("S1", 4, 1) :> Kc(1)
                  @@ A("S1", 2, 1) :> Fm(Bin("+", RelRef(1, 1), N1))
                  @@ A("S1", 3, 1) :> Fm(Bin("*", RelRef(2, 1), Bin("+", N2, RelRef(4, 1)))) ),
         names |-> <<>>, inputs |-> {A("S1", 1, 1), A("S1", 4, 1)}]
    [] i = "diamond" ->
        [cells |-> ( A("S1", 1, 1) :> Kc(1)
                  @@ A("S1", 2, 1) :> Fm(Bin("+", RelRef(1, 1), N1))
                  @@ A("S1", 3, 1) :> Fm(Bin("*", RelRef(1, 1), N3))
                  @@ A("S1", 4, 1) :> Fm(Bin("+", Bin("+", RelRef(2, 1), RelRef(3, 1)), RelRef(2, 1))) ),
         names |-> <<>>, inputs |-> {A("S1", 1, 1)}]
    [] i = "range" ->
        [cells |-> ( A("S1", 1, 1) :> Kc(1) @@ A("S1", 1, 2) :> Kc(1)
                  @@ A("S1", 1, 3) :> Fm(Bin("*", RelRef(1, 1), N10))
                  @@ A("S1", 2, 1) :> Fm(CallN("SUM", <<Rng("", 1, 1, 1, 3)>>))
                  @@ A("S1", 3, 1) :> Fm(Bin("+", RelRef(2, 1), RelRef(1, 2))) ),
         names |-> <<>>, inputs |-> {A("S1", 1, 1), A("S1", 1, 2)}]
    [] i = "overlap" ->      \* two overlapping range addresses over the same inputs
        [cells |-> ( A("S1", 1, 1) :> Kc(1) @@ A("S1", 1, 2) :> Kc(1) @@ A("S1", 1, 3) :> Kc(1)
                  @@ A("S1", 2, 1) :> Fm(CallN("SUM", <<Rng("", 1, 1, 1, 3)>>))
                  @@ A("S1", 3, 1) :> Fm(Bin("+", CallN("SUM", <<Rng("", 1, 1, 1, 2)>>), CallN("SUM", <<Rng("", 1, 2, 1, 3), RelRef(2, 1)>>)))
                  @@ A("S1", 4, 1) :> Fm(Bin("+", CallN("COUNTA", <<Rng("", 1, 1, 1, 3)>>), RelRef(1, 3))) ),
         names |-> <<>>, inputs |-> {A("S1", 1, 1), A("S1", 1, 2)}]
    [] i = "kinds" ->        \* every kind of constant and of computed result (C12)
        [cells |-> ( A("S1", 1, 1) :> Kc(1)
                  @@ A("S1", 1, 2) :> [c |-> "const", v |-> Txt(<<104, 233, 108, 108, 111, 32, 931>>)]
                  @@ A("S1", 1, 3) :> [c |-> "const", v |-> [t |-> "float", v |-> "1e+300"]]
                  @@ A("S1", 1, 4) :> [c |-> "const", v |-> [t |-> "float", v |-> "5e-324"]]
                  @@ A("S1", 1, 5) :> [c |-> "const", v |-> Bool(TRUE)]
                  @@ A("S1", 1, 6) :> [c |-> "const", v |-> DateT(43890, 1, 2)]
                  @@ A("S1", 1, 7) :> [c |-> "const", v |-> Rat(5, 2)]
                  @@ A("S1", 1, 8) :> [c |-> "const", v |-> [t |-> "float", v |-> "9007199254740993"]]   \* a whole number no double holds
                  @@ A("S1", 1, 9) :> [c |-> "const", v |-> Txt(<<>>)]          \* an empty text that no range covers
                  @@ A("S1", 1, 10) :> [c |-> "const", v |-> DateT(43890, 1, 8192)]  \* 00:00:10.546875 - microseconds that are no whole milliseconds
                  @@ A("S1", 1, 11) :> [c |-> "const", v |-> Txt(<<73, 110, 102, 105, 110, 105, 116, 121>>)]   \* the TEXT "Infinity" (a token of some number formats)
                  @@ A("S 2", 1, 1) :> Kc(1)
                  @@ A("S1", 2, 8) :> Fm(Bin("&", RelRef(1, 11), StrLit(<<45, 73, 110, 102, 105, 110, 105, 116, 121, 32, 78, 97, 78>>)))   \* ... & "-Infinity NaN"
                  @@ A("S1", 2, 1) :> Fm(Bin("/", N1, Bin("-", RelRef(1, 1), N1)))
                  @@ A("S1", 2, 2) :> Fm(Bin("&", RelRef(1, 2), StrLit(<<120>>)))
                  @@ A("S1", 2, 3) :> Fm(Bin(">", RelRef(1, 1), N1))
                  @@ A("S1", 2, 4) :> Fm(Bin("+", CallN("SUM", <<Rng("", 1, 1, 1, 1), Ref("S 2", 1, 1, FALSE, FALSE)>>), NameRef("Rate")))
                  @@ A("S1", 2, 5) :> Fm(CallN("SUM", <<Rng("", 1, 1, 1, 1), ErrLit("#N/A")>>))
                  @@ A("S1", 2, 6) :> Fm(CallN("MAX", <<ErrLit("#REF!"), Rng("", 1, 1, 1, 1)>>))
                  @@ A("S1", 2, 7) :> Fm(Bin("+", RelRef(1, 8), N1))          \* ... and a computed one

                  @@ A("S 2", 2, 1) :> Fm(Bin("*", RelRef(1, 1), Ref("S1", 1, 7, TRUE, TRUE))) ),
         names |-> ("Rate" :> Ref("S1", 1, 1, TRUE, TRUE)), inputs |-> {A("S1", 1, 1), A("S 2", 1, 1)}]
    [] i = "twin" ->         \* the SAME formula text, with unqualified references, on two sheets holding different data
        [cells |-> ( A("S1", 1, 1) :> Kc(1) @@ A("S 2", 1, 1) :> Kc(5)
                  @@ A("S1", 2, 1) :> Fm(Bin("+", Bin("*", RelRef(1, 1), N2), N1))
                  @@ A("S 2", 2, 1) :> Fm(Bin("+", Bin("*", RelRef(1, 1), N2), N1))
                  @@ A("S1", 3, 1) :> Fm(Bin("+", RelRef(2, 1), Ref("S 2", 2, 1, FALSE, FALSE)))
                  @@ A("S 2", 3, 1) :> Fm(Bin("-", RelRef(2, 1), Ref("S1", 2, 1, TRUE, TRUE))) ),
         names |-> <<>>, inputs |-> {A("S1", 1, 1), A("S 2", 1, 1)}]
    [] i = "named2" ->       \* two defined names standing for the same cell, both used by one formula
        [cells |-> ( A("S1", 1, 1) :> Kc(1) @@ A("S1", 1, 2) :> Kc(1)
                  @@ A("S1", 2, 2) :> Fm(Bin("+", NameRef("Rate"), NameRef("total_1")))
                  @@ A("S1", 3, 1) :> Fm(Bin("*", RelRef(2, 2), CallN("COUNTA", <<Rng("", 1, 1, 1, 2)>>)))
                  \* a name spelt letters-then-digits that is no cell address (its "column" lies beyond XFD)
                  @@ A("S1", 3, 2) :> Fm(Bin("+", NameRef("GROWTH2024"), N1)) ),
         names |-> ("Rate" :> Ref("S1", 1, 2, TRUE, TRUE) @@ "total_1" :> Ref("S1", 1, 2, TRUE, TRUE)
                    @@ "GROWTH2024" :> Ref("S1", 1, 1, TRUE, TRUE)),
         inputs |-> {A("S1", 1, 1), A("S1", 1, 2)}]
    [] i = "named" ->
        [cells |-> ( A("S1", 1, 1) :> Kc(1) @@ A("S1", 1, 2) :> Kc(1)
                  @@ A("S1", 2, 1) :> Fm(Bin("+", Bin("*", NameRef("Rate"), N2), RelRef(1, 2)))
                  @@ A("S1", 3, 1) :> Fm(CallN("SUM", <<RelRef(2, 1), NameRef("Rate")>>))
                  @@ A("S1", 4, 1) :> Fm(Bin("+", Bin("*", NameRef("RATE"), N3), RelRef(1, 2))) ),     \* the name in another letter case
         names |-> ("Rate" :> Ref("S1", 1, 1, TRUE, TRUE)), inputs |-> {A("S1", 1, 1), A("S1", 1, 2)}]
    [] i = "lazy" ->         \* bare references and ranges handed to the lazily evaluating functions
        [cells |-> ( A("S1", 1, 1) :> Kc(1) @@ A("S1", 2, 1) :> Kc(1) @@ A("S1", 3, 1) :> Kc(5)
                  @@ A("S1", 1, 2) :> Fm(CallN("IF", <<Bin(">", RelRef(1, 1), NumLit(<<48>>)), RelRef(2, 1), RelRef(3, 1)>>))
                  @@ A("S1", 2, 2) :> Fm(CallN("NOT", <<RelRef(1, 1)>>))
                  @@ A("S1", 3, 2) :> Fm(CallN("IF", <<RelRef(2, 2), RelRef(1, 2), RelRef(2, 1)>>))
                  @@ A("S1", 4, 2) :> Fm(CallN("SUM", <<CallN("IF", <<Bin(">", RelRef(1, 1), NumLit(<<48>>)), Rng("", 1, 1, 2, 1), RelRef(3, 1)>>)>>))
                  @@ A("S1", 5, 2) :> Fm(CallN("AND", <<RelRef(1, 1), RelRef(2, 1)>>))
                  \* a cell that RAISES (unknown function) for B1 > 0 - also for the initial B1 - and a dependant of it
                  @@ A("S1", 6, 2) :> Fm(CallN("IF", <<Bin(">", RelRef(2, 1), NumLit(<<48>>)), CallN("NOSUCHFUNC", <<N1>>), Bin("+", RelRef(2, 1), N1)>>))
                  @@ A("S1", 7, 2) :> Fm(Bin("+", RelRef(6, 2), N1)) ),
         names |-> <<>>, inputs |-> {A("S1", 1, 1), A("S1", 2, 1)}]
    [] i = "qnames" ->       \* a cell name and a range name on a sheet whose name must be quoted
        [cells |-> ( A("S 2", 1, 1) :> Kc(1) @@ A("S 2", 1, 2) :> Kc(1)
                  @@ A("S 2", 1, 3) :> Fm(Bin("*", RelRef(1, 1), N10))
                  @@ A("S1", 1, 1) :> Fm(CallN("SUM", <<NameRef("Block")>>))
                  @@ A("S1", 2, 1) :> Fm(Bin("+", NameRef("Rate"), N1))
                  @@ A("S1", 3, 1) :> Fm(Bin("+", CallN("COUNTA", <<NameRef("Block")>>), RelRef(1, 1))) ),
         names |-> ("Block" :> [k |-> "range", sheet |-> "S 2", c1 |-> 1, r1 |-> 1, a1 |-> TRUE, b1 |-> TRUE,
                                c2 |-> 1, r2 |-> 3, a2 |-> TRUE, b2 |-> TRUE]
                 @@ "Rate" :> Ref("S 2", 1, 2, TRUE, TRUE)),
         inputs |-> {A("S 2", 1, 1), A("S 2", 1, 2)}]
    [] i = "namedf" ->       \* a defined name standing for a FORMULA cell
        [cells |-> ( A("S1", 1, 1) :> Kc(1)
                  @@ A("S1", 2, 1) :> Fm(Bin("*", RelRef(1, 1), N2))
                  @@ A("S1", 3, 1) :> Fm(Bin("+", NameRef("Twice"), N1))
                  @@ A("S1", 4, 1) :> Fm(CallN("SUM", <<NameRef("Twice"), RelRef(2, 1), RelRef(3, 1)>>)) ),
         names |-> ("Twice" :> Ref("S1", 2, 1, TRUE, TRUE)), inputs |-> {A("S1", 1, 1)}]
    [] i = "spill" ->        \* formulas whose value is an array, next to formulas reading the cells around them
        [cells |-> ( A("S1", 1, 1) :> Kc(1) @@ A("S1", 1, 2) :> Kc(1)
                  @@ A("S1", 3, 1) :> Fm(Rng("", 1, 1, 1, 2))
                  @@ A("S1", 5, 1) :> Fm(Bin("+", RelRef(3, 2), N1))
                  @@ A("S1", 8, 1) :> Fm(CallN("IF", <<BoolLit(TRUE), Rng("", 1, 1, 1, 2)>>))
                  @@ A("S1", 9, 1) :> Fm(Bin("&", RelRef(8, 2), StrLit(<<120>>))) ),
         names |-> <<>>, inputs |-> {A("S1", 1, 1), A("S1", 1, 2)}]
    [] i = "wholerow" ->     \* whole-row references over rows that hold formula cells
        [cells |-> ( A("S1", 1, 1) :> Kc(1) @@ A("S1", 2, 1) :> Fm(Bin("*", RelRef(1, 1), N2)) @@ A("S1", 3, 1) :> Fm(Bin("+", RelRef(2, 1), N10))
                  @@ A("S1", 1, 2) :> Kc(1) @@ A("S1", 2, 2) :> Fm(Bin("+", RelRef(1, 2), RelRef(3, 1)))
                  @@ A("S1", 1, 4) :> Fm(CallN("SUM", <<Rows("", 1, 1)>>))
                  @@ A("S1", 2, 4) :> Fm(CallN("COUNTA", <<Rows("", 1, 2)>>))
                  @@ A("S1", 3, 4) :> Fm(Bin("+", CallN("SUM", <<Rows("", 2, 2)>>), RelRef(1, 4))) ),
         names |-> <<>>, inputs |-> {A("S1", 1, 1), A("S1", 1, 2)}]
    [] i = "numstate" ->     \* a call that ends in an error inside a numerical library, next to one that relies on its defaults
        [cells |-> ( A("S1", 1, 1) :> Kc(1)
                  @@ A("S1", 3, 1) :> Kc(10) @@ A("S1", 3, 2) :> Kc(20)
                  @@ A("S1", 4, 1) :> Kc(43831) @@ A("S1", 4, 2) :> Kc(44197)
                  @@ A("S1", 2, 1) :> Fm(CallN("XIRR", <<Rng("", 3, 1, 3, 2), Rng("", 4, 1, 4, 2)>>))
                  @@ A("S1", 7, 1) :> Fm(CallN("PV", <<NumLit(<<48>>), N2, Bin("-", NumLit(<<48>>), RelRef(1, 1))>>)) ),
         names |-> <<>>, inputs |-> {A("S1", 1, 1)}]
    [] i = "sparse" ->       \* ranges reaching beyond the stored cells; an input no cell holds until it is set; a negative and a text input
        [cells |-> ( A("S1", 1, 1) :> Kc(-1)
                  @@ A("S1", 1, 2) :> [c |-> "const", v |-> Txt(<<97, 98>>)]
                  @@ A("S1", 1, 6) :> [c |-> "const", v |-> Blank]            \* never stored: absent from the workbook
                  @@ A("S1", 2, 1) :> Fm(CallN("SUM", <<Rng("", 1, 1, 1, 8)>>))
                  @@ A("S1", 3, 1) :> Fm(Bin("+", CallN("COUNTA", <<Rng("", 1, 1, 1, 8)>>), RelRef(1, 6)))
                  @@ A("S1", 4, 1) :> Fm(Bin("&", RelRef(1, 2), StrLit(<<120>>)))
                  @@ A("S1", 5, 1) :> Fm(Bin("*", RelRef(1, 1), N2)) ),
         names |-> <<>>, inputs |-> {A("S1", 1, 1), A("S1", 1, 2), A("S1", 1, 6)}]
    [] i = "ghost" ->        \* references to cells nobody stored: on a sheet of which nothing else is needed, on a sheet the workbook lacks
        [cells |-> ( A("S1", 1, 1) :> Kc(1) @@ A("S 2", 1, 1) :> Kc(5)
                  @@ A("S1", 2, 1) :> Fm(Bin("+", RelRef(1, 1), Ref("S 2", 2, 2, FALSE, FALSE)))
                  @@ A("S1", 3, 1) :> Fm(Bin("+", Bin("*", RelRef(2, 1), N2), Ref("Sheet2", 1, 1, FALSE, FALSE)))
                  @@ A("S1", 4, 1) :> Fm(CallN("COUNTA", <<Ref("S 2", 2, 2, FALSE, FALSE), RelRef(3, 1)>>)) ),
         names |-> <<>>, inputs |-> {A("S1", 1, 1)}]
    [] i = "wide" ->         \* a range that runs from the one-letter into the two-letter columns (Y1:AB1)
        [cells |-> ( A("S1", 25, 1) :> Kc(1) @@ A("S1", 27, 1) :> Kc(1)
                  @@ A("S1", 28, 1) :> Fm(Bin("*", RelRef(25, 1), N10))
                  @@ A("S1", 1, 2) :> Fm(CallN("SUM", <<Rng("", 25, 1, 28, 1)>>))
                  @@ A("S1", 2, 2) :> Fm(Bin("+", CallN("COUNTA", <<Rng("", 2, 1, 37, 1)>>), RelRef(1, 2))) ),
         names |-> <<>>, inputs |-> {A("S1", 25, 1), A("S1", 27, 1)}]
    [] i = "inplace" ->      \* one constant-only range with a text and an empty entry, read by SUMPRODUCT and by the counting functions
        [cells |-> ( A("S1", 1, 1) :> Kc(3) @@ A("S1", 1, 2) :> [c |-> "const", v |-> Txt(<<110, 47, 97>>)] @@ A("S1", 1, 3) :> Kc(5)
                  @@ A("S1", 1, 5) :> Kc(2)
                  @@ A("S1", 2, 1) :> Fm(CallN("SUMPRODUCT", <<Rng("", 1, 1, 1, 5)>>))
                  @@ A("S1", 2, 2) :> Fm(CallN("COUNTA", <<Rng("", 1, 1, 1, 5)>>))
                  @@ A("S1", 2, 3) :> Fm(CallN("COUNT", <<Rng("", 1, 1, 1, 5)>>))
                  @@ A("S1", 2, 4) :> Fm(CallN("COUNTIF", <<Rng("", 1, 1, 1, 5), StrLit(<<110, 47, 97>>)>>))
                  @@ A("S1", 2, 5) :> Fm(Bin("+", CallN("SUM", <<Rng("", 1, 1, 1, 5)>>), CallN("SUMPRODUCT", <<Rng("", 1, 1, 1, 5), Rng("", 1, 1, 1, 5)>>))) ),
         names |-> <<>>, inputs |-> {A("S1", 1, 1)}]
    [] i = "xirr2" ->        \* cash flows with two internal rates (10% and 20%) next to flows with one (37%): the search has a start point
        [cells |-> ( A("S1", 1, 1) :> Kc(1)
                  @@ A("S1", 3, 1) :> Kc(-1000) @@ A("S1", 3, 2) :> Kc(2300) @@ A("S1", 3, 3) :> Kc(-1320)
                  @@ A("S1", 4, 1) :> Kc(43831) @@ A("S1", 4, 2) :> Kc(44196) @@ A("S1", 4, 3) :> Kc(44561)
                  @@ A("S1", 5, 1) :> Kc(-1000) @@ A("S1", 5, 2) :> Kc(1370)
                  @@ A("S1", 2, 1) :> Fm(CallN("XIRR", <<Rng("", 3, 1, 3, 3), Rng("", 4, 1, 4, 3)>>))
                  @@ A("S1", 2, 2) :> Fm(CallN("XIRR", <<Rng("", 5, 1, 5, 2), Rng("", 4, 1, 4, 2)>>))
                  @@ A("S1", 2, 3) :> Fm(Bin("+", RelRef(1, 1), N1)) ),
         names |-> <<>>, inputs |-> {A("S1", 1, 1)}]
    [] i = "deep" ->         \* a chain deeper than any bound an implementation may put on its descent (DeepLen formula cells below the
                             \* last one), with a side input halfway; evaluations are asked for near the top, in the middle and at the end
        [cells |-> [a \in {A("S1", 1, r) : r \in 1..DeepLen} \cup {A("S1", 2, 1)} |->
                      IF a = A("S1", 1, 1) \/ a = A("S1", 2, 1) THEN Kc(1)
                      ELSE IF a[3] = DeepLen \div 2 THEN Fm(Bin("+", RelRef(1, a[3] - 1), Ref("", 2, 1, FALSE, FALSE)))
                      ELSE Fm(Bin("+", RelRef(1, a[3] - 1), N1))],
         names |-> <<>>, inputs |-> {A("S1", 1, 1), A("S1", 2, 1)},
         targets |-> {A("S1", 1, 3), A("S1", 1, DeepLen \div 2 + 5), A("S1", 1, DeepLen)}]
    [] i = "shared" ->       \* a result the library computes with its numeric back end (another number type inside the value object), and
                             \* cells that hand on that very value: a bare reference, the selected branch of an IF; a defined name after them
        [cells |-> ( A("S1", 1, 1) :> Kc(3)
                  @@ A("S1", 2, 1) :> Fm(CallN("SIGN", <<RelRef(1, 1)>>))
                  @@ A("S1", 2, 2) :> Fm(RelRef(2, 1))
                  @@ A("S1", 2, 3) :> Fm(CallN("IF", <<Bin(">", RelRef(1, 1), NumLit(<<48>>)), RelRef(2, 1), RelRef(1, 1)>>))
                  @@ A("S1", 2, 4) :> Fm(Bin("+", NameRef("Rate"), RelRef(2, 2))) ),
         names |-> ("Rate" :> Ref("S1", 1, 1, TRUE, TRUE)), inputs |-> {A("S1", 1, 1)}]
    [] i = "crit" ->         \* criteria that are written differently and may read alike as text: a reference to an empty cell, the empty
                             \* text, the number 0, the text "0", FALSE - over a column holding 0, FALSE, 5 and an empty cell
        [cells |-> ( A("S1", 1, 1) :> Kc(0) @@ A("S1", 1, 2) :> [c |-> "const", v |-> Bool(FALSE)] @@ A("S1", 1, 3) :> Kc(5)
                  @@ A("S1", 4, 1) :> Fm(CallN("COUNTIF", <<Rng("", 1, 1, 1, 4), RelRef(3, 1)>>))
                  @@ A("S1", 4, 2) :> Fm(CallN("COUNTIF", <<Rng("", 1, 1, 1, 4), StrLit(<<>>)>>))
                  @@ A("S1", 4, 3) :> Fm(CallN("COUNTIF", <<Rng("", 1, 1, 1, 4), NumLit(<<48>>)>>))
                  @@ A("S1", 4, 4) :> Fm(CallN("COUNTIF", <<Rng("", 1, 1, 1, 4), StrLit(<<48>>)>>))
                  @@ A("S1", 4, 5) :> Fm(CallN("COUNTIF", <<Rng("", 1, 1, 1, 4), BoolLit(FALSE)>>)) ),
         names |-> <<>>, inputs |-> {A("S1", 1, 1)}]
    [] i = "junction" ->     \* AND / OR of three arguments whose MIDDLE one is an error value for some inputs (x/y, y = 0): which argument
                             \* decides changes with the inputs; with an error value among the arguments the specification leaves the
                             \* value open (XlLogic!Junction) - the replay then compares with a freshly compiled model (C04 as stated)
        [cells |-> ( A("S1", 1, 1) :> Kc(3) @@ A("S1", 1, 2) :> Kc(2)
                  @@ A("S1", 2, 1) :> Fm(CallN("AND", <<Bin(">", RelRef(1, 1), NumLit(<<48>>)), Bin(">", Bin("/", RelRef(1, 2), RelRef(1, 1)), N1),
                                                         Bin("<", RelRef(1, 2), NumLit(<<49, 48, 48>>))>>))
                  @@ A("S1", 2, 2) :> Fm(CallN("OR", <<Bin("=", RelRef(1, 1), NumLit(<<48>>)), Bin(">", Bin("/", RelRef(1, 2), RelRef(1, 1)), N1),
                                                        Bin(">=", RelRef(1, 2), NumLit(<<49, 48, 48>>))>>))
                  @@ A("S1", 3, 1) :> Fm(CallN("IF", <<RelRef(2, 1), N1, N2>>)) ),
         names |-> <<>>, inputs |-> {A("S1", 1, 1), A("S1", 1, 2)}]
    [] i = "cross" ->
        [cells |-> ( A("S1", 1, 1) :> Kc(1) @@ A("S 2", 1, 1) :> Kc(1)
                  @@ A("S 2", 2, 1) :> Fm(Bin("*", RelRef(1, 1), N3))
                  @@ A("S1", 2, 1) :> Fm(Bin("+", Ref("S 2", 2, 1, FALSE, FALSE), RelRef(1, 1)))
                  @@ A("S 2", 3, 1) :> Fm(Bin("+", Ref("S1", 2, 1, FALSE, FALSE), RelRef(2, 1))) ),
         names |-> <<>>, inputs |-> {A("S1", 1, 1), A("S 2", 1, 1)}]

\* the workbook content: the shape's formulas and other constants, with the current inputs
content == [c \in DOMAIN ShapeDef(shape).cells |-> IF c \in DOMAIN inp THEN [c |-> "const", v |-> inp[c]] ELSE ShapeDef(shape).cells[c]]
Cells == DOMAIN ShapeDef(shape).cells
Names == DOMAIN ShapeDef(shape).names
CellNames == {nm \in Names : ShapeDef(shape).names[nm].k = "ref"}          \* names standing for one cell
Inputs == ShapeDef(shape).inputs
FormulaCells == {c \in Cells : content[c].c = "formula"}
\* the cells an instance asks evaluations of: every cell, unless the shape names some (the deep chain)
EvalTargets == IF "targets" \in DOMAIN ShapeDef(shape) THEN ShapeDef(shape).targets ELSE Cells
\* TRUE: equal to the initial 1 under a naive ==, but another value; 0: a value that "holds nothing" to a naive truth test
\* "7": numeric-looking TEXT set over a number stays text.  NSet = n: the first n of the main list; NSet = 10 + n: the
\* first n of the alternative list (configuration files select one of the two orders)
SetMain == <<Whole(2), Bool(TRUE), Whole(0), Whole(3)>>
SetAlt  == <<Whole(2), Txt(<<55>>), Bool(TRUE), Whole(0)>>
\* -2 over a stored -1 (equal hashes in CPython), a text that differs from the stored one in letter case only
SetNeg  == <<Whole(-2), Txt(<<65, 66>>), Whole(-1), Txt(<<97, 98>>)>>
SetVals == IF NSet >= 20 THEN SubSeq(SetNeg, 1, NSet - 20) ELSE IF NSet >= 10 THEN SubSeq(SetAlt, 1, NSet - 10) ELSE SubSeq(SetMain, 1, NSet)

Wb(cont) == [cells |-> cont, names |-> ShapeDef(shape).names]
Fresh(cont, c) == Eval(cont[c].ast, c[1], Wb(cont))
FreshAny(cont, c) == IF cont[c].c = "const" THEN cont[c].v ELSE Fresh(cont, c)

(* ---- which formula cells an evaluation of cell c reaches (write-back set) ---- *)
RECURSIVE RefsOf(_, _)
RECURSIVE RefsOfArgs(_, _)
RefsOfArgs(xs, sh) == IF Len(xs) = 0 THEN {} ELSE RefsOf(xs[1], sh) \cup RefsOfArgs(Tail(xs), sh)
RefsOf(a, sh) ==
    CASE a.k = "ref"   -> {<<IF a.sheet = "" THEN sh ELSE a.sheet, a.col, a.row>>}
      [] a.k = "range" -> {<<IF a.sheet = "" THEN sh ELSE a.sheet, c, r>> : c \in a.c1..a.c2, r \in a.r1..a.r2}
      [] a.k = "rows"  -> {k \in Cells : k[1] = (IF a.sheet = "" THEN sh ELSE a.sheet) /\ k[3] >= a.r1 /\ k[3] <= a.r2}
      [] a.k = "name"  -> IF a.v \in Names THEN RefsOf(ShapeDef(shape).names[a.v], sh) ELSE {}
      [] a.k = "bin"   -> RefsOf(a.l, sh) \cup RefsOf(a.r, sh)
      [] a.k \in {"neg", "pct", "paren"} -> RefsOf(a.x, sh)
      [] a.k = "call"  -> RefsOfArgs(a.args, sh)
      [] OTHER -> {}
\* the references an evaluation really follows: IF evaluates its condition and the selected branch only
RECURSIVE RefsEval(_, _, _)
RECURSIVE RefsEvalArgs(_, _, _)
RefsEvalArgs(xs, sh, cont) == IF Len(xs) = 0 THEN {} ELSE RefsEval(xs[1], sh, cont) \cup RefsEvalArgs(Tail(xs), sh, cont)
RefsEval(a, sh, cont) ==
    CASE a.k = "call" /\ a.f = "IF" /\ Len(a.args) \in {2, 3} ->
            LET c == Eval(a.args[1], sh, Wb(cont))
                tr == IF c.t = "err" THEN "err" ELSE Truth(c)
            IN RefsEval(a.args[1], sh, cont)
               \cup (IF tr = "t" THEN RefsEval(a.args[2], sh, cont)
                     ELSE IF tr = "f" /\ Len(a.args) = 3 THEN RefsEval(a.args[3], sh, cont) ELSE {})
      [] a.k = "call"  -> RefsEvalArgs(a.args, sh, cont)
      [] a.k = "bin"   -> RefsEval(a.l, sh, cont) \cup RefsEval(a.r, sh, cont)
      [] a.k \in {"neg", "pct", "paren"} -> RefsEval(a.x, sh, cont)
      [] OTHER -> RefsOf(a, sh)
RECURSIVE Reach(_, _)
Reach(cont, c) == \* formula cells an evaluation of formula cell c evaluates, c included (acyclic shapes)
    {c} \cup UNION {Reach(cont, d) : d \in {d \in RefsEval(cont[c].ast, c[1], cont) : d \in DOMAIN cont /\ cont[d].c = "formula"}}

(* ---- the mechanism ---- *)
Frozen == CASE Mech = "need_update" -> evald [] Mech = "global_memo" -> DOMAIN gmemo [] OTHER -> {}
FrozenVal(c) == IF Mech = "global_memo" THEN gmemo[c] ELSE stored[c]
\* content as the mechanism sees it: previously evaluated formula cells are not recomputed
Seen(cont) == [c \in DOMAIN cont |-> IF c \in Frozen /\ cont[c].c = "formula" THEN [c |-> "const", v |-> FrozenVal(c)] ELSE cont[c]]
MechEval(c) == IF content[c].c = "const" THEN content[c].v
               ELSE IF c \in Frozen THEN FrozenVal(c)
               ELSE Eval(content[c].ast, c[1], Wb(Seen(content)))
MechReach(c) == IF content[c].c = "const" \/ c \in Frozen THEN {}
                ELSE {d \in Reach(content, c) : \A e \in Reach(content, c) : TRUE} \ {d \in Reach(content, c) : d \in Frozen /\ d # c}

\* a history ends with its Persist / Extract step
Closed == Len(hist) > 0 /\ hist[Len(hist)].op \in {"persist", "extract"}
CanStep == Len(hist) < MaxLen /\ ~Closed

Record(op, x, v, res) == Append(hist, [op |-> op, x |-> x, v |-> v, res |-> res,
                                       stored |-> [c \in DOMAIN stored' |-> stored'[c]]])

Init == /\ shape \in ShapeIds
        /\ inp = [a \in ShapeDef(shape).inputs |-> ShapeDef(shape).cells[a].v]
        /\ stored = [c \in {c \in DOMAIN ShapeDef(shape).cells : ShapeDef(shape).cells[c].c = "const" /\ ShapeDef(shape).cells[c].v # Blank} |-> ShapeDef(shape).cells[c].v]
        /\ evald = {} /\ gmemo = <<>> /\ obs = [op |-> "none"] /\ hist = <<>> /\ leak = 0

Set(a, val) ==
    /\ CanStep /\ a \in Inputs
    /\ inp' = [inp EXCEPT ![a] = val]
    /\ stored' = [c \in DOMAIN stored \cup {a} |-> IF c = a THEN val ELSE stored[c]]
    /\ obs' = [op |-> "set", x |-> a]
    /\ hist' = Record("set", a, val, [t |-> "none"])
    /\ UNCHANGED <<shape, evald, gmemo, leak>>

SetByName(nm, val) ==
    /\ CanStep /\ nm \in CellNames
    /\ <<ShapeDef(shape).names[nm].sheet, ShapeDef(shape).names[nm].col, ShapeDef(shape).names[nm].row>> \in Inputs
    /\ LET t == ShapeDef(shape).names[nm]  a == <<t.sheet, t.col, t.row>> IN
       /\ inp' = [inp EXCEPT ![a] = val]
       /\ stored' = [c \in DOMAIN stored \cup {a} |-> IF c = a THEN val ELSE stored[c]]
       /\ obs' = [op |-> "set", x |-> a]
       /\ hist' = Append(hist, [op |-> "setname", x |-> a, name |-> nm, v |-> val, res |-> [t |-> "none"],
                                stored |-> [c \in DOMAIN stored' |-> stored'[c]]])
    /\ UNCHANGED <<shape, evald, gmemo, leak>>

Evaluate(e, c) ==
    /\ CanStep /\ c \in Cells
    /\ LET v == MechEval(c)
           reached == IF content[c].c = "const" THEN {} ELSE Reach(content, c) \ (Frozen \ {c})
           wbSeen == Wb(Seen(content))
           valOf(d) == IF d \in Frozen THEN FrozenVal(d) ELSE Eval(content[d].ast, d[1], wbSeen)
       IN /\ obs' = [op |-> "evaluate", x |-> c, res |-> v]
          /\ stored' = [d \in DOMAIN stored \cup reached |-> IF d \in reached THEN valOf(d) ELSE stored[d]]
          /\ evald' = evald \cup reached
          /\ gmemo' = IF Mech = "global_memo"
                      THEN [d \in DOMAIN gmemo \cup reached |-> IF d \in DOMAIN gmemo THEN gmemo[d] ELSE valOf(d)]
                      ELSE gmemo
          /\ hist' = Append(hist, [op |-> "evaluate", e |-> e, x |-> c, v |-> [t |-> "none"], res |-> v,
                                   stored |-> [d \in DOMAIN stored' |-> stored'[d]]])
          /\ leak' = IF Mech = "leaky" THEN leak + Cardinality(reached) + 1 ELSE leak
    /\ UNCHANGED <<shape, inp>>

Get(c) ==
    /\ CanStep /\ c \in DOMAIN stored
    /\ obs' = [op |-> "get", x |-> c, res |-> stored[c]]
    /\ hist' = Append(hist, [op |-> "get", x |-> c, v |-> [t |-> "none"], res |-> stored[c],
                             stored |-> [d \in DOMAIN stored |-> stored[d]]])
    /\ UNCHANGED <<shape, inp, stored, evald, gmemo, leak>>

\* Persist: the history ends; the entry carries what a restored model must hold and compute (C12)
Persist == /\ "persist" \in Ops /\ ~Closed
           /\ hist' = Append(hist, [op |-> "persist", x |-> <<"", 0, 0>>, v |-> [t |-> "none"], res |-> [t |-> "none"],
                                    stored |-> [c \in DOMAIN stored |-> stored[c]],
                                    fresh |-> [c \in Cells |-> FreshAny(content, c)]])
           /\ obs' = [op |-> "persist"]
           /\ UNCHANGED <<shape, inp, stored, evald, gmemo, leak>>

\* an intermediate persist: the file is written, the history goes on (a later Persist overwrites it)
PersistMid == /\ "persistmid" \in Ops /\ CanStep
              /\ hist' = Append(hist, [op |-> "persistmid", x |-> <<"", 0, 0>>, v |-> [t |-> "none"], res |-> [t |-> "none"],
                                       stored |-> [c \in DOMAIN stored |-> stored[c]]])
              /\ obs' = [op |-> "persistmid"]
              /\ UNCHANGED <<shape, inp, stored, evald, gmemo, leak>>

\* Extract(focus): the cells the focus depends on, directly or transitively (C13)
RECURSIVE ClosureN(_, _)
ClosureN(S, n) == IF n = 0 THEN S
                  ELSE ClosureN(S \cup UNION {RefsOf(content[c].ast, c[1]) \cap Cells : c \in {d \in S : content[d].c = "formula"}}, n - 1)
Closure(F) == ClosureN(F, Cardinality(Cells))
NameCell(nm) == LET t == ShapeDef(shape).names[nm] IN <<t.sheet, t.col, t.row>>
Extract(fc, fn) == \* fc: focused cells, fn: focused names
    /\ "extract" \in Ops /\ ~Closed /\ (fc # {} \/ fn # {})
    /\ LET F == fc \cup {NameCell(nm) : nm \in fn} IN
       hist' = Append(hist, [op |-> "extract", x |-> <<"", 0, 0>>, v |-> [t |-> "none"], res |-> [t |-> "none"],
                             stored |-> [c \in DOMAIN stored |-> stored[c]],
                             focus |-> fc, fnames |-> fn, closure |-> Closure(F),
                             fresh |-> [c \in F |-> FreshAny(content, c)],
                             \* the same input changes applied to both models afterwards
                             after |-> [a \in Inputs \cap Closure(F) |-> [c \in F |->
                                          FreshAny([content EXCEPT ![a] = [c |-> "const", v |-> Whole(7)]], c)]]])
    /\ obs' = [op |-> "extract"]
    /\ UNCHANGED <<shape, inp, stored, evald, gmemo, leak>>

Next == \/ Persist
        \/ PersistMid
        \* (the guard stands outside the quantifier: TLC would otherwise run through all 2^|Cells| subsets in every state)
        \/ "extract" \in Ops /\ ~Closed /\ \E fc \in SUBSET Cells, fn \in SUBSET CellNames : Extract(fc, fn)
        \/ "set" \in Ops /\ \E a \in Inputs, i \in 1..Len(SetVals) : Set(a, SetVals[i])
        \/ "setname" \in Ops /\ \E nm \in Names, i \in 1..Len(SetVals) : SetByName(nm, SetVals[i])
        \/ "evaluate" \in Ops /\ \E e \in 1..NEval, c \in EvalTargets : Evaluate(e, c)
        \/ "get" \in Ops /\ \E c \in DOMAIN stored : Get(c)
Spec == Init /\ [][Next]_vars

(* ---- properties (C04) ---- *)
\* evaluate returns what a freshly compiled model with the current inputs returns, and stores it
NoStale == obs.op = "evaluate" => /\ SameVal(obs.res, FreshAny(content, obs.x))
                                  /\ (content[obs.x].c = "formula" => SameVal(stored[obs.x], obs.res))
\* every stored value of a formula cell was its fresh value at some evaluation; of an input: the last value set
StoredInputs == \A a \in Inputs : (a \in DOMAIN stored /\ SameVal(stored[a], content[a].v)) \/ (a \notin DOMAIN stored /\ content[a].v = Blank)
\* get returns the last value set or computed
GetIsStored == obs.op = "get" => SameVal(obs.res, stored[obs.x])
\* evaluation never changes constants, formulas, names or the set of cells (C05)
EvaluateFrame == [][(\E e \in 1..NEval, c \in Cells : Evaluate(e, c)) => UNCHANGED <<inp, shape>>]_vars
\* repeating evaluations does not accumulate state: everything an evaluation leaves behind is bounded by the model
Footprint == /\ leak = 0
             /\ Cardinality(DOMAIN stored) <= Cardinality(Cells)
             /\ Cardinality(evald) <= Cardinality(Cells)
\* Closure is extensive, idempotent and contains everything a focused formula cell mentions (C13)
\* (which cells are formulas and what they mention never changes along a behaviour: the laws are evaluated in the initial states)
ClosureLaws == Len(hist) > 0 \/ \A c \in Cells : /\ c \in Closure({c})
                                 /\ Closure(Closure({c})) = Closure({c})
                                 /\ (content[c].c = "formula" => (RefsOf(content[c].ast, c[1]) \cap Cells) \subseteq Closure({c}))
\* idempotence: evaluating the same cell again, by any evaluator, gives the same response
Idempotent == \A i \in 1..Len(hist), j \in 1..Len(hist) :
                 (hist[i].op = "evaluate" /\ hist[j].op = "evaluate" /\ hist[i].x = hist[j].x
                  /\ \A k \in i..j : hist[k].op \notin {"set", "setname"}) => SameVal(hist[i].res, hist[j].res)
\* the value of a cell is a function of the content alone (C05): same content => same response
Deterministic == obs.op = "evaluate" => SameVal(obs.res, FreshAny(content, obs.x))
=============================================================================

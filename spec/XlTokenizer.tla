--------------------------- MODULE XlTokenizer ---------------------------
(***************************************************************************)
(* The tokenizer as a state machine (xlcalculator/tokenizer.py,            *)
(* ExcelParser.getTokens - E. W. Bachtal's algorithm).  One action per     *)
(* branch of the character loop, in the order the code tests them; then    *)
(* the three passes over the token list (white-space / intersection,       *)
(* classification, removal of no-ops) as one action each.                  *)
(*                                                                         *)
(*   src    the formula text (code points)                                 *)
(*   off    1-based position of the current character                      *)
(*   tok    the accumulator                                                *)
(*   mode   "normal" | "string" | "path" | "range" | "error"               *)
(*   stack  types of the open function / subexpression tokens              *)
(*   out    tokens produced so far: [v, ty, sub]                           *)
(*   phase  "strip" -> "scan" -> "ws" -> "classify" -> "noop" -> "done",   *)
(*          or "fail" (the code raises IndexError: a closer without an     *)
(*          opener, or a formula ending in a comma)                        *)
(*   und    the specification leaves a classification undetermined         *)
(*          (Python float() accepts more spellings than are modelled)      *)
(*                                                                         *)
(* Token values are XlValues records: Txt(codes) or a number (the percent  *)
(* forms put floats into the token list).                                  *)
(***************************************************************************)
EXTENDS XlValues

VARIABLES src, off, tok, mode, stack, out, phase, und
tvars == <<src, off, tok, mode, stack, out, phase, und>>

cDQ == 34   cSQ == 39   cLB == 91   cRB == 93   cHash == 35   cLC == 123   cRC == 125   cSemi == 59
cSP == 32   cNL == 10   cLP == 40   cRP == 41   cComma == 44   cPct == 37   cEq == 61   cLt == 60   cGt == 62
cAt == 64   cStar == 42   cUnder == 95

IsWs(c) == c = cSP \/ c = cNL
Operators == {43, 45, 42, 47, 94, 38, 61, 62, 60}          \* + - * / ^ & = > <
IsSign(c) == c = CPPlus \/ c = CPMinus

Tok(v, ty, sub) == [v |-> v, ty |-> ty, sub |-> sub]
TT(codes, ty, sub) == Tok(Txt(codes), ty, sub)

ErrorTexts == { <<35, 78, 85, 76, 76, 33>>,                 \* #NULL!
                <<35, 68, 73, 86, 47, 48, 33>>,             \* #DIV/0!
                <<35, 86, 65, 76, 85, 69, 33>>,             \* #VALUE!
                <<35, 82, 69, 70, 33>>,                     \* #REF!
                <<35, 78, 65, 77, 69, 63>>,                 \* #NAME?
                <<35, 78, 85, 77, 33>>,                     \* #NUM!
                <<35, 78, 47, 65>> }                        \* #N/A

(* ---------------------------------------------------------------------- *)
(* Python float(text): "yes" / "no" / "open"                               *)
(*   [sign] digits [. digits] [e [sign] digits]   or   [sign] . digits     *)
(* inf / nan spellings, underscores and surrounding blanks are also        *)
(* accepted by Python: left open.                                          *)
(* ---------------------------------------------------------------------- *)
TLower(c) == IF c >= 65 /\ c <= 90 THEN c + 32 ELSE c
TLowerSeq(s) == [i \in 1..Len(s) |-> TLower(s[i])]
InfNan == { <<105, 110, 102>>, <<105, 110, 102, 105, 110, 105, 116, 121>>, <<110, 97, 110>> }

DecimalSyntax(s) ==
    LET sgn  == Len(s) > 0 /\ IsSign(s[1])
        body == IF sgn THEN SubSeq(s, 2, Len(s)) ELSE s
        ei   == IndexOf(body, LAMBDA c : c = CPE \/ c = CPe)
        mant == IF ei = 0 THEN body ELSE SubSeq(body, 1, ei - 1)
        expo == IF ei = 0 THEN <<>> ELSE SubSeq(body, ei + 1, Len(body))
        esg  == Len(expo) > 0 /\ IsSign(expo[1])
        edig == IF esg THEN SubSeq(expo, 2, Len(expo)) ELSE expo
        di   == IndexOf(mant, LAMBDA c : c = CPDot)
        ip   == IF di = 0 THEN mant ELSE SubSeq(mant, 1, di - 1)
        fp   == IF di = 0 THEN <<>> ELSE SubSeq(mant, di + 1, Len(mant))
    IN AllDigits(ip) /\ AllDigits(fp) /\ Len(ip) + Len(fp) > 0 /\ (ei = 0 \/ (AllDigits(edig) /\ Len(edig) > 0))

PyFloat(s) ==
    IF DecimalSyntax(s) THEN "yes"
    ELSE LET body == IF Len(s) > 0 /\ IsSign(s[1]) THEN SubSeq(s, 2, Len(s)) ELSE s IN
         IF TLowerSeq(body) \in InfNan THEN "open"
         ELSE IF \E i \in 1..Len(s) : s[i] = cUnder \/ s[i] > 127 THEN "open"
         ELSE IF Len(s) > 0 /\ (s[1] \in {9, 10, 11, 12, 13, 32} \/ s[Len(s)] \in {9, 10, 11, 12, 13, 32}) THEN "open"
         ELSE "no"

\* value of a decimal spelling, Open where the bounded arithmetic cannot hold it
DecValue(s) == LET r == TextToNum(s) IN IF r.t = "num" THEN r ELSE Open
Hundredth == Rat(1, 100)
PctValue(s) == LET r == DecValue(s) IN IF r.t = "num" THEN RDiv(r, Whole(100)) ELSE Open

\* ^[1-9]{1}(\.[0-9]+)?[eE]{1}$  (re.match)
MatchesSN(t) ==
    /\ Len(t) >= 2
    /\ t[1] >= 49 /\ t[1] <= 57
    /\ t[Len(t)] \in {CPE, CPe}
    /\ \/ Len(t) = 2
       \/ /\ Len(t) >= 4
          /\ t[2] = CPDot
          /\ AllDigits(SubSeq(t, 3, Len(t) - 1))

(* ---------------------------------------------------------------------- *)
(* character loop                                                          *)
(* ---------------------------------------------------------------------- *)
AtEnd == off > Len(src)
Cur   == src[off]
HasNext == off < Len(src)
Nxt   == src[off + 1]
Double == IF HasNext THEN <<Cur, Nxt>> ELSE <<Cur>>
Comparators == { <<62, 61>>, <<60, 61>>, <<60, 62>> }        \* >= <= <>

FlushAs(ty) == IF Len(tok) > 0 THEN Append(out, TT(tok, ty, "")) ELSE out
Top == IF Len(stack) = 0 THEN "" ELSE stack[Len(stack)]
Popped(n) == SubSeq(stack, 1, Len(stack) - n)
Stop(ty) == TT(<<>>, ty, "stop")
Start(codes, ty) == TT(codes, ty, "start")

ARRAYc    == <<65, 82, 82, 65, 89>>
ARRAYROWc == <<65, 82, 82, 65, 89, 82, 79, 87>>
NONEc     == <<78, 111, 110, 101>>                            \* the text 'None'

\* which branch of the loop body runs (order matters)
Branch ==
    IF mode = "string" THEN "InString"
    ELSE IF mode = "path" THEN "InPath"
    ELSE IF mode = "range" THEN "InRange"
    ELSE IF mode = "error" THEN "InError"
    ELSE IF IsSign(Cur) /\ Len(tok) > 1 /\ MatchesSN(tok) THEN "SciSign"
    ELSE IF Cur = cDQ THEN "OpenString"
    ELSE IF Cur = cSQ THEN "OpenPath"
    ELSE IF Cur = cLB THEN "OpenRange"
    ELSE IF Cur = cHash THEN "OpenError"
    ELSE IF Cur = cLC THEN "ArrayOpen"
    ELSE IF Cur = cSemi THEN "ArrayRow"
    ELSE IF Cur = cRC THEN "ArrayClose"
    ELSE IF IsWs(Cur) THEN "WhiteSpace"
    ELSE IF Double \in Comparators THEN "Comparator"
    ELSE IF Cur \in Operators THEN "Operator"
    ELSE IF Cur = cPct THEN "Percent"
    ELSE IF Cur = cLP THEN "OpenParen"
    ELSE IF Cur = cComma THEN "Comma"
    ELSE IF Cur = cRP THEN "Close"
    ELSE "Accumulate"

Scanning(b) == phase = "scan" /\ ~AtEnd /\ Branch = b
Keep(vs) == UNCHANGED vs
Fail == phase' = "fail"

StripWs == /\ phase = "strip" /\ ~AtEnd /\ IsWs(Cur)
           /\ off' = off + 1
           /\ UNCHANGED <<src, tok, mode, stack, out, phase, und>>
StripEq == /\ phase = "strip" /\ ~AtEnd /\ Cur = cEq
           /\ off' = off + 1 /\ phase' = "scan"
           /\ UNCHANGED <<src, tok, mode, stack, out, und>>
StripDone == /\ phase = "strip" /\ (IF AtEnd THEN TRUE ELSE ~IsWs(Cur) /\ Cur # cEq)
             /\ phase' = "scan"
             /\ UNCHANGED <<src, off, tok, mode, stack, out, und>>

\* shared shape of the two quoted modes: a doubled quote is one quote, a single one ends the mode
InString ==
    /\ Scanning("InString")
    /\ IF Cur = cDQ
       THEN IF HasNext /\ Nxt = cDQ
            THEN tok' = Append(tok, cDQ) /\ off' = off + 2 /\ UNCHANGED <<mode, out>>
            ELSE mode' = "normal" /\ out' = Append(out, TT(tok, "operand", "text")) /\ tok' = <<>> /\ off' = off + 1
       ELSE tok' = Append(tok, Cur) /\ off' = off + 1 /\ UNCHANGED <<mode, out>>
    /\ UNCHANGED <<src, stack, phase, und>>
InPath ==
    /\ Scanning("InPath")
    /\ IF Cur = cSQ
       THEN IF HasNext /\ Nxt = cSQ
            THEN tok' = Append(tok, cSQ) /\ off' = off + 2 /\ UNCHANGED mode
            ELSE mode' = "normal" /\ off' = off + 1 /\ UNCHANGED tok           \* end does not mark a token
       ELSE tok' = Append(tok, Cur) /\ off' = off + 1 /\ UNCHANGED mode
    /\ UNCHANGED <<src, stack, out, phase, und>>
InRange ==
    /\ Scanning("InRange")
    /\ mode' = IF Cur = cRB THEN "normal" ELSE mode
    /\ tok' = Append(tok, Cur) /\ off' = off + 1
    /\ UNCHANGED <<src, stack, out, phase, und>>
InError ==
    /\ Scanning("InError")
    /\ off' = off + 1
    /\ LET t == Append(tok, Cur) IN
       IF t \in ErrorTexts
       THEN mode' = "normal" /\ out' = Append(out, TT(t, "operand", "error")) /\ tok' = <<>>
       ELSE tok' = t /\ UNCHANGED <<mode, out>>
    /\ UNCHANGED <<src, stack, phase, und>>
SciSign ==
    /\ Scanning("SciSign")
    /\ tok' = Append(tok, Cur) /\ off' = off + 1
    /\ UNCHANGED <<src, mode, stack, out, phase, und>>
OpenString ==
    /\ Scanning("OpenString")
    /\ out' = FlushAs("unknown") /\ tok' = <<>> /\ mode' = "string" /\ off' = off + 1
    /\ UNCHANGED <<src, stack, phase, und>>
OpenPath ==
    /\ Scanning("OpenPath")
    /\ out' = FlushAs("unknown") /\ tok' = <<>> /\ mode' = "path" /\ off' = off + 1
    /\ UNCHANGED <<src, stack, phase, und>>
OpenRange ==
    /\ Scanning("OpenRange")
    /\ mode' = "range" /\ tok' = Append(tok, Cur) /\ off' = off + 1
    /\ UNCHANGED <<src, stack, out, phase, und>>
OpenError ==
    /\ Scanning("OpenError")
    /\ out' = FlushAs("unknown") /\ tok' = <<cHash>> /\ mode' = "error" /\ off' = off + 1
    /\ UNCHANGED <<src, stack, phase, und>>
ArrayOpen ==
    /\ Scanning("ArrayOpen")
    /\ out' = FlushAs("unknown") \o <<Start(ARRAYc, "function"), Start(ARRAYROWc, "function")>>
    /\ stack' = stack \o <<"function", "function">>
    /\ tok' = <<>> /\ off' = off + 1
    /\ UNCHANGED <<src, mode, phase, und>>
ArrayRow ==
    /\ Scanning("ArrayRow")
    /\ IF Len(stack) = 0 THEN Fail /\ UNCHANGED <<off, tok, stack, out>>
       ELSE /\ out' = FlushAs("operand") \o <<Stop(Top), TT(<<cComma>>, "argument", ""), Start(ARRAYROWc, "function")>>
            /\ stack' = Append(Popped(1), "function")
            /\ tok' = <<>> /\ off' = off + 1 /\ UNCHANGED phase
    /\ UNCHANGED <<src, mode, und>>
ArrayClose ==
    /\ Scanning("ArrayClose")
    /\ IF Len(stack) < 2 THEN Fail /\ UNCHANGED <<off, tok, stack, out>>
       ELSE /\ out' = FlushAs("operand") \o <<Stop(Top), Stop(stack[Len(stack) - 1])>>
            /\ stack' = Popped(2)
            /\ tok' = <<>> /\ off' = off + 1 /\ UNCHANGED phase
    /\ UNCHANGED <<src, mode, und>>
\* first position after off that is not white space
RECURSIVE SkipWs(_)
SkipWs(i) == IF i <= Len(src) /\ IsWs(src[i]) THEN SkipWs(i + 1) ELSE i
WhiteSpace ==
    /\ Scanning("WhiteSpace")
    /\ out' = Append(FlushAs("operand"), TT(<<>>, "white-space", ""))
    /\ tok' = <<>> /\ off' = SkipWs(off + 1)
    /\ UNCHANGED <<src, mode, stack, phase, und>>
Comparator ==
    /\ Scanning("Comparator")
    /\ out' = Append(FlushAs("operand"), TT(Double, "operator-infix", "logical"))
    /\ tok' = <<>> /\ off' = off + 2
    /\ UNCHANGED <<src, mode, stack, phase, und>>
Operator ==
    /\ Scanning("Operator")
    /\ out' = Append(FlushAs("operand"), TT(<<Cur>>, "operator-infix", ""))
    /\ tok' = <<>> /\ off' = off + 1
    /\ UNCHANGED <<src, mode, stack, phase, und>>
TimesHundredth == <<TT(<<cStar>>, "operator-infix", ""), Tok(Hundredth, "operand", "")>>
Percent ==
    /\ Scanning("Percent")
    /\ LET f == IF Len(tok) = 0 THEN "none" ELSE PyFloat(tok) IN
       /\ out' = CASE f = "none" -> out \o TimesHundredth
                   [] f = "yes"  -> Append(out, Tok(PctValue(tok), "operand", ""))       \* a percent literal is one number
                   [] OTHER      -> Append(out, TT(tok, "operand", "")) \o TimesHundredth
       /\ und' = (und \/ f = "open")
    /\ tok' = <<>> /\ off' = off + 1
    /\ UNCHANGED <<src, mode, stack, phase>>
OpenParen ==
    /\ Scanning("OpenParen")
    /\ IF Len(tok) > 0
       THEN out' = Append(out, Start(tok, "function")) /\ stack' = Append(stack, "function")
       ELSE out' = Append(out, Start(<<>>, "subexpression")) /\ stack' = Append(stack, "subexpression")
    /\ tok' = <<>> /\ off' = off + 1
    /\ UNCHANGED <<src, mode, phase, und>>
Comma ==
    /\ Scanning("Comma")
    /\ LET sep == IF Top = "function" THEN TT(<<cComma>>, "argument", "") ELSE TT(<<cComma>>, "operator-infix", "union")
           o1  == Append(FlushAs("operand"), sep)
       IN IF ~HasNext THEN Fail /\ UNCHANGED <<off, tok, out>>             \* the code looks at the next character
          ELSE /\ out' = IF Nxt = cComma THEN Append(o1, TT(NONEc, "operand", "none")) ELSE o1
               /\ tok' = <<>> /\ off' = off + 1 /\ UNCHANGED phase
    /\ UNCHANGED <<src, mode, stack, und>>
Close ==
    /\ Scanning("Close")
    /\ IF Len(stack) = 0 THEN Fail /\ UNCHANGED <<off, tok, stack, out>>
       ELSE /\ out' = Append(FlushAs("operand"), Stop(Top))
            /\ stack' = Popped(1)
            /\ tok' = <<>> /\ off' = off + 1 /\ UNCHANGED phase
    /\ UNCHANGED <<src, mode, und>>
Accumulate ==
    /\ Scanning("Accumulate")
    /\ tok' = Append(tok, Cur) /\ off' = off + 1
    /\ UNCHANGED <<src, mode, stack, out, phase, und>>
EndScan ==
    /\ phase = "scan" /\ AtEnd
    /\ out' = FlushAs("operand") /\ tok' = <<>> /\ phase' = "ws"
    /\ UNCHANGED <<src, off, mode, stack, und>>

(* ---------------------------------------------------------------------- *)
(* pass 2: a white-space token between two operand-like tokens is the      *)
(* intersection operator; every other white-space token disappears         *)
(* ---------------------------------------------------------------------- *)
ClosesOperand(t) == (t.ty \in {"function", "subexpression"} /\ t.sub = "stop") \/ t.ty = "operand"
OpensOperand(t)  == (t.ty \in {"function", "subexpression"} /\ t.sub = "start") \/ t.ty = "operand"
RECURSIVE WsFrom(_, _)
WsFrom(ts, i) ==
    IF i > Len(ts) THEN <<>>
    ELSE IF ts[i].ty # "white-space" THEN <<ts[i]>> \o WsFrom(ts, i + 1)
    ELSE IF i > 1 /\ i < Len(ts) /\ ClosesOperand(ts[i - 1]) /\ OpensOperand(ts[i + 1])
         THEN <<TT(<<>>, "operator-infix", "intersect")>> \o WsFrom(ts, i + 1)
         ELSE WsFrom(ts, i + 1)
PassWs == /\ phase = "ws"
          /\ out' = WsFrom(out, 1) /\ phase' = "classify"
          /\ UNCHANGED <<src, off, tok, mode, stack, und>>

(* ---------------------------------------------------------------------- *)
(* pass 3: sequential classification (each token sees its already          *)
(* classified predecessor)                                                 *)
(* ---------------------------------------------------------------------- *)
IsText(t) == t.v.t = "txt"
IsOp(t, c) == t.ty = "operator-infix" /\ IsText(t) /\ t.v.v = <<c>>
AfterOperand(p) == ClosesOperand(p) \/ p.ty = "operator-postfix"

ClassifyOne(t, first, p) ==       \* returns <<token, undetermined>>
    IF IsOp(t, CPMinus) THEN
        <<IF ~first /\ AfterOperand(p) THEN [t EXCEPT !.sub = "math"] ELSE [t EXCEPT !.ty = "operator-prefix"], FALSE>>
    ELSE IF IsOp(t, CPPlus) THEN
        <<IF ~first /\ AfterOperand(p) THEN [t EXCEPT !.sub = "math"] ELSE [t EXCEPT !.ty = "noop"], FALSE>>
    ELSE IF t.ty = "operator-infix" /\ t.sub = "" THEN
        <<[t EXCEPT !.sub = IF t.v.v[1] \in {cLt, cGt, cEq} THEN "logical" ELSE IF t.v.v = <<38>> THEN "concatenate" ELSE "math"], FALSE>>
    ELSE IF t.ty = "operand" /\ t.sub = "" THEN
        IF ~IsText(t) THEN <<[t EXCEPT !.sub = "number"], FALSE>>
        ELSE LET f == PyFloat(t.v.v) IN
             <<[t EXCEPT !.sub = IF f = "yes" THEN "number"
                                 ELSE IF t.v.v \in {TRUEcodes, FALSEcodes} THEN "logical" ELSE "range"], f = "open">>
    ELSE IF t.ty = "function" /\ Len(t.v.v) > 0 /\ t.v.v[1] = cAt THEN <<[t EXCEPT !.v = Txt(Tail(t.v.v))], FALSE>>
    ELSE <<t, FALSE>>

RECURSIVE ClassifyFrom(_, _, _, _)
ClassifyFrom(ts, i, acc, u) ==    \* acc: classified prefix
    IF i > Len(ts) THEN <<acc, u>>
    ELSE LET r == ClassifyOne(ts[i], i = 1, IF i = 1 THEN ts[1] ELSE acc[i - 1]) IN
         ClassifyFrom(ts, i + 1, Append(acc, r[1]), u \/ r[2])
PassClassify ==
    /\ phase = "classify"
    /\ LET r == ClassifyFrom(out, 1, <<>>, FALSE) IN out' = r[1] /\ und' = (und \/ r[2])
    /\ phase' = "noop"
    /\ UNCHANGED <<src, off, tok, mode, stack>>

PassNoop == /\ phase = "noop"
            /\ out' = SelectSeq(out, LAMBDA t : t.ty # "noop") /\ phase' = "done"
            /\ UNCHANGED <<src, off, tok, mode, stack, und>>

TokInit(s) == src = s /\ off = 1 /\ tok = <<>> /\ mode = "normal" /\ stack = <<>> /\ out = <<>> /\ phase = "strip" /\ und = FALSE

TokNext ==
    \/ StripWs \/ StripEq \/ StripDone
    \/ InString \/ InPath \/ InRange \/ InError \/ SciSign
    \/ OpenString \/ OpenPath \/ OpenRange \/ OpenError
    \/ ArrayOpen \/ ArrayRow \/ ArrayClose
    \/ WhiteSpace \/ Comparator \/ Operator \/ Percent \/ OpenParen \/ Comma \/ Close \/ Accumulate
    \/ EndScan \/ PassWs \/ PassClassify \/ PassNoop

Finished == phase \in {"done", "fail"}

(* ---------------------------------------------------------------------- *)
(* laws of the machine                                                     *)
(* ---------------------------------------------------------------------- *)
\* every step of the character loop consumes at least one character: the loop terminates
Progress == [][(phase = "scan" /\ phase' = "scan") => off' > off]_tvars
\* the stack is exactly the list of start tokens not yet stopped
RECURSIVE OpenStarts(_, _)
OpenStarts(ts, acc) ==
    IF Len(ts) = 0 THEN acc
    ELSE LET t == ts[1] IN
         OpenStarts(Tail(ts), IF t.sub = "start" /\ t.ty \in {"function", "subexpression"} THEN Append(acc, t.ty)
                              ELSE IF t.sub = "stop" /\ t.ty \in {"function", "subexpression"} THEN SubSeq(acc, 1, Len(acc) - 1)
                              ELSE acc)
StackIsOpenStarts == phase = "scan" => stack = OpenStarts(out, <<>>)
\* a stop token always closes the kind of token that was opened last
RECURSIVE WellNested(_, _)
WellNested(ts, acc) ==
    IF Len(ts) = 0 THEN TRUE
    ELSE LET t == ts[1] IN
         IF t.sub = "start" /\ t.ty \in {"function", "subexpression"} THEN WellNested(Tail(ts), Append(acc, t.ty))
         ELSE IF t.sub = "stop" /\ t.ty \in {"function", "subexpression"}
              THEN Len(acc) > 0 /\ acc[Len(acc)] = t.ty /\ WellNested(Tail(ts), SubSeq(acc, 1, Len(acc) - 1))
              ELSE WellNested(Tail(ts), acc)
StopsMatchStarts == phase # "fail" => WellNested(out, <<>>)
\* the finished list has no white-space and no no-op tokens, and every operand / infix operator is classified
FinalShape == phase = "done" =>
    \A i \in 1..Len(out) : /\ out[i].ty \notin {"white-space", "noop"}
                           /\ out[i].ty \in {"operand", "operator-infix"} => out[i].sub # ""
\* a prefix minus is never preceded by something that closes an operand
PrefixPlacement == phase = "done" =>
    \A i \in 1..Len(out) : out[i].ty = "operator-prefix" => (i = 1 \/ ~AfterOperand(out[i - 1]))
=============================================================================

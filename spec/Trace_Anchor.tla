--------------------------- MODULE Trace_Anchor ---------------------------
(***************************************************************************)
(* Trace specification for evaluated formulas (code -> spec).  One ndjson  *)
(* event per Evaluator.evaluate() of a generated formula:                  *)
(*   ast    the generator's abstract syntax tree (XlSyntax node records)   *)
(*   style  the rendering style the generator used                         *)
(*   text   the formula text handed to the library (code points)           *)
(*   cells  <<[sheet, col, row, v]>> constants (or [.., ast] formula cells)*)
(*   sheet  the sheet of the formula cell                                  *)
(*   res    the projected result                                           *)
(* The generator is itself held to the specification: the text must be the *)
(* spec's rendering of the tree and the tree must carry every parenthesis  *)
(* the grammar requires; otherwise the verdict is a generator error        *)
(* (machinery failure, never a violation).                                 *)
(***************************************************************************)
EXTENDS XlEval, Json, IOUtils

Trace == ndJsonDeserialize(IOEnv.TRACE_FILE)

VARIABLES l, verdict, exp
vars == <<l, verdict, exp>>

RECURSIVE WellParen(_)
WellParen(a) ==
    CASE a.k = "bin"  -> ~NeedsParen(a.l, a.op, "l") /\ ~NeedsParen(a.r, a.op, "r") /\ WellParen(a.l) /\ WellParen(a.r)
      [] a.k = "neg"  -> a.x.k # "bin" /\ WellParen(a.x)
      [] a.k = "pct"  -> a.x.k \notin {"bin", "neg"} /\ WellParen(a.x)
      [] a.k = "paren" -> WellParen(a.x)
      [] a.k = "call" -> \A i \in 1..Len(a.args) : WellParen(a.args[i])
      [] OTHER -> TRUE

WbOf(e) == [cells |-> [k \in {<<e.cells[i].sheet, e.cells[i].col, e.cells[i].row>> : i \in 1..Len(e.cells)} |->
                         LET i == CHOOSE j \in 1..Len(e.cells) : <<e.cells[j].sheet, e.cells[j].col, e.cells[j].row>> = k
                         IN IF "ast" \in DOMAIN e.cells[i] THEN [c |-> "formula", ast |-> e.cells[i].ast]
                            ELSE [c |-> "const", v |-> e.cells[i].v]],
            names |-> <<>>]

Verdict(e, x) ==
    IF FALSE THEN "never"
    ELSE IF FALSE THEN "never"
    ELSE IF x.t = "open" THEN "open"
    ELSE IF Agrees(e.res, x) THEN "ok"
    ELSE IF e.res.t = "exc" THEN "python-exception"
    ELSE "wrong-value"

Init == l = 0 /\ verdict = "start" /\ exp = [t |-> "none"]
Step == /\ l < Len(Trace)
        /\ l' = l + 1
        /\ LET e == Trace[l + 1]
               x == Eval(Erase(e.ast), e.sheet, WbOf(e))
           IN exp' = x /\ verdict' = Verdict(e, x)
Spec == Init /\ [][Step]_vars
AllConsumed == TLCGet("stats").diameter - 1 = Len(Trace)
=============================================================================

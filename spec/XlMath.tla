------------------------------ MODULE XlMath ------------------------------
(***************************************************************************)
(* Math and rounding functions (C16).                                      *)
(*                                                                         *)
(* Numbers are DECIMALS  [t |-> "dec", neg, dg, e]  with dg a sequence of  *)
(* digits, most significant first, no leading and no trailing zero; the    *)
(* value is (+/-) dg * 10^e; zero is DZero.  This is the shortest decimal  *)
(* representation the property speaks of.  All arithmetic is done on digit *)
(* sequences (TLC has 32-bit integers and no reals).                       *)
(*                                                                         *)
(* Expected results:                                                       *)
(*   [t |-> "dec", ..]    the result is exactly this decimal (the observed *)
(*                        double is the double nearest to it)              *)
(*   [t |-> "near", ..]   the result is within a few ulp of this decimal   *)
(*   [t |-> "ref", expr]  the result is within a few ulp of the real       *)
(*                        expression named by expr (evaluated by the       *)
(*                        harness with Python's math); if that value is    *)
(*                        beyond the double range the result is an error   *)
(*   [t |-> "bool", v], AnyErr (an Excel error, code open), Open           *)
(***************************************************************************)
EXTENDS XlValues

(* ---------------------------------------------------------------------- *)
(* naturals as digit sequences, most significant digit first, <<>> = 0     *)
(* ---------------------------------------------------------------------- *)
Zeros(k) == [i \in 1..k |-> 0]
Nines(k) == [i \in 1..k |-> 9]

SetMax(S) == CHOOSE x \in S : \A y \in S : y <= x
SetMin(S) == CHOOSE x \in S : \A y \in S : x <= y

RECURSIVE NStrip(_)
NStrip(s) == IF Len(s) > 0 /\ s[1] = 0 THEN NStrip(Tail(s)) ELSE s

RECURSIVE NatDigits(_)
NatDigits(n) == IF n = 0 THEN <<>> ELSE Append(NatDigits(n \div 10), n % 10)

RECURSIVE NatVal(_)
NatVal(s) == \* callers keep Len(s) <= 9
    IF Len(s) = 0 THEN 0 ELSE NatVal(SubSeq(s, 1, Len(s) - 1)) * 10 + s[Len(s)]

PadL(s, n) == Zeros(n - Len(s)) \o s

NCmp(a, b) == \* -1, 0, 1 ; a and b stripped
    IF Len(a) # Len(b) THEN (IF Len(a) < Len(b) THEN -1 ELSE 1)
    ELSE LET D == {i \in 1..Len(a) : a[i] # b[i]} IN
         IF D = {} THEN 0
         ELSE LET i == SetMin(D) IN IF a[i] < b[i] THEN -1 ELSE 1

RECURSIVE AddAt(_, _, _, _)
AddAt(a, b, i, c) == \* a, b of equal length; digits i..1 with carry c
    IF i = 0 THEN (IF c = 0 THEN <<>> ELSE <<c>>)
    ELSE LET s == a[i] + b[i] + c IN Append(AddAt(a, b, i - 1, s \div 10), s % 10)
NAdd(a, b) == LET n == Max2(Len(a), Len(b)) IN NStrip(AddAt(PadL(a, n), PadL(b, n), n, 0))

RECURSIVE SubAt(_, _, _, _)
SubAt(a, b, i, br) ==
    IF i = 0 THEN <<>>
    ELSE LET s == a[i] - b[i] - br
         IN Append(SubAt(a, b, i - 1, IF s < 0 THEN 1 ELSE 0), IF s < 0 THEN s + 10 ELSE s)
NSub(a, b) == LET n == Len(a) IN NStrip(SubAt(a, PadL(b, n), n, 0))      \* a >= b

RECURSIVE MulAt(_, _, _, _)
MulAt(a, k, i, c) ==
    IF i = 0 THEN NatDigits(c)
    ELSE LET s == a[i] * k + c IN Append(MulAt(a, k, i - 1, s \div 10), s % 10)
NMulSmall(a, k) == NStrip(MulAt(a, k, Len(a), 0))                        \* k < 10^6

RECURSIVE NMul(_, _)
NMul(a, b) ==
    IF Len(a) = 0 \/ Len(b) = 0 THEN <<>>
    ELSE LET front == NMul(a, SubSeq(b, 1, Len(b) - 1))
         IN NAdd(IF Len(front) = 0 THEN <<>> ELSE Append(front, 0), NMulSmall(a, b[Len(b)]))

RECURSIVE DivStep(_, _, _, _)
DivStep(a, b, i, st) == \* schoolbook long division
    IF i > Len(a) THEN st
    ELSE LET r1 == NStrip(Append(st.r, a[i]))
             k  == SetMax({j \in 0..9 : NCmp(NMulSmall(b, j), r1) <= 0})
         IN DivStep(a, b, i + 1, [q |-> Append(st.q, k), r |-> NSub(r1, NMulSmall(b, k))])
NDivMod(a, b) == \* b # 0 : a = b*q + r, 0 <= r < b
    LET st == DivStep(a, b, 1, [q |-> <<>>, r |-> <<>>]) IN [q |-> NStrip(st.q), r |-> st.r]

RECURSIVE NFact(_)
NFact(n) == IF n <= 1 THEN <<1>> ELSE NMulSmall(NFact(n - 1), n)
RECURSIVE NFact2(_)
NFact2(n) == IF n <= 1 THEN <<1>> ELSE NMulSmall(NFact2(n - 2), n)

RECURSIVE ISqrtB(_, _, _)
ISqrtB(n, lo, hi) == \* largest r in lo..hi with r*r <= n  (hi <= 46340)
    IF lo = hi THEN lo
    ELSE LET m == (lo + hi + 1) \div 2 IN IF m * m <= n THEN ISqrtB(n, m, hi) ELSE ISqrtB(n, lo, m - 1)
ISqrt(n) == ISqrtB(n, 0, 46340)

(* ---------------------------------------------------------------------- *)
(* decimals                                                                *)
(* ---------------------------------------------------------------------- *)
DZero == [t |-> "dec", neg |-> FALSE, dg |-> <<>>, e |-> 0]

Dec(neg, dg, e) == \* normalising constructor
    LET a == NStrip(dg) IN
    IF Len(a) = 0 THEN DZero
    ELSE LET k == Len(a) - SetMax({i \in 1..Len(a) : a[i] # 0})
         IN [t |-> "dec", neg |-> neg, dg |-> SubSeq(a, 1, Len(a) - k), e |-> e + k]

DInt(n) == Dec(n < 0, NatDigits(Abs(n)), 0)
DOne == DInt(1)
Near(x) == [x EXCEPT !.t = "near"]
Ref(expr) == [t |-> "ref", expr |-> expr]

IsDec(x)  == x.t = "dec"
IsZero(x) == Len(x.dg) = 0
AdjExp(x) == Len(x.dg) + x.e - 1                \* exponent of the leading digit
IsIntegral(x) == x.e >= 0
DNeg(x) == IF IsZero(x) THEN x ELSE [x EXCEPT !.neg = ~x.neg]
DAbs(x) == [x EXCEPT !.neg = FALSE]
DSign(x) == IF IsZero(x) THEN 0 ELSE IF x.neg THEN -1 ELSE 1

At(x, m) == IF IsZero(x) THEN <<>> ELSE x.dg \o Zeros(x.e - m)   \* digits of |x| / 10^m, m <= x.e
GapMax == 60
Gap(a, b) == IF IsZero(a) \/ IsZero(b) THEN 0
             ELSE Max2(AdjExp(a), AdjExp(b)) - Min2(a.e, b.e)   \* length of the aligned digit strings

DCmpAbs(a, b) ==
    IF IsZero(a) THEN (IF IsZero(b) THEN 0 ELSE -1)
    ELSE IF IsZero(b) THEN 1
    ELSE IF AdjExp(a) # AdjExp(b) THEN (IF AdjExp(a) < AdjExp(b) THEN -1 ELSE 1)
    ELSE LET m == Min2(a.e, b.e) IN NCmp(At(a, m), At(b, m))

DCmp(a, b) ==
    IF DSign(a) # DSign(b) THEN (IF DSign(a) < DSign(b) THEN -1 ELSE 1)
    ELSE IF DSign(a) >= 0 THEN DCmpAbs(a, b) ELSE DCmpAbs(b, a)
DLt(a, b) == DCmp(a, b) < 0
DLe(a, b) == DCmp(a, b) <= 0

DAdd(a, b) == \* callers keep Gap(a, b) small
    IF IsZero(a) THEN b ELSE IF IsZero(b) THEN a
    ELSE LET m == Min2(a.e, b.e)  A == At(a, m)  B == At(b, m) IN
         IF a.neg = b.neg THEN Dec(a.neg, NAdd(A, B), m)
         ELSE IF NCmp(A, B) >= 0 THEN Dec(a.neg, NSub(A, B), m)
         ELSE Dec(b.neg, NSub(B, A), m)
DSub(a, b) == DAdd(a, DNeg(b))
DMul(a, b) == Dec(a.neg # b.neg, NMul(a.dg, b.dg), a.e + b.e)
DScale(x, k) == IF IsZero(x) THEN x ELSE [x EXCEPT !.e = x.e + k]     \* x * 10^k

RECURSIVE DPowNat(_, _)
DPowNat(x, n) == IF n = 0 THEN DOne ELSE DMul(DPowNat(x, n - 1), x)

\* small integral decimals as TLC integers
SmallInt(x) == IsIntegral(x) /\ AdjExp(x) <= 7
IntVal(x) == IF IsZero(x) THEN 0 ELSE (IF x.neg THEN -1 ELSE 1) * NatVal(x.dg) * Pow10(x.e)

\* beyond the double range / in it / too close to the largest double to say
MaxDblLead == <<1, 7, 9, 7>>
RangeClass(x) ==
    IF IsZero(x) THEN "in"
    ELSE IF AdjExp(x) >= 309 THEN "over"
    ELSE IF AdjExp(x) = 308 THEN
        (LET lead == SubSeq(x.dg \o Zeros(4), 1, 4) IN
         IF NCmp(lead, MaxDblLead) < 0 THEN "in" ELSE IF NCmp(lead, <<1, 7, 9, 8>>) >= 0 THEN "over" ELSE "edge")
    ELSE IF AdjExp(x) < -300 THEN "edge"
    ELSE "in"
Ranged(x, kind) == \* a finite decimal result, unless it leaves the double range
    LET c == RangeClass(x) IN
    IF c = "over" THEN AnyErr ELSE IF c = "edge" THEN Open ELSE [x EXCEPT !.t = kind]

(* ---------------------------------------------------------------------- *)
(* the exact half: rounding in Excel's directions                          *)
(* ---------------------------------------------------------------------- *)
\* round |x| to a multiple of 10^-d; modes: half (away from zero on ties),
\* up (away from zero), down (toward zero), floor, ceil
RoundDec(x, d, mode) ==
    IF IsZero(x) \/ x.e >= -d THEN x
    ELSE LET k     == -d - x.e                       \* digits dropped, k > 0
             n     == Len(x.dg)
             kept  == IF k >= n THEN <<>> ELSE SubSeq(x.dg, 1, n - k)
             first == IF k > n THEN 0 ELSE x.dg[n - k + 1]
             inc   == CASE mode = "half"  -> first >= 5
                        [] mode = "up"    -> TRUE       \* the dropped part is non-zero
                        [] mode = "down"  -> FALSE
                        [] mode = "floor" -> x.neg
                        [] mode = "ceil"  -> ~x.neg
         IN Dec(x.neg, IF inc THEN NAdd(kept, <<1>>) ELSE kept, -d)

EvenDec(x) == \* next even integer away from zero
    LET m == RoundDec(x, 0, "up") IN
    IF IsZero(m) \/ m.e >= 1 THEN m
    ELSE IF m.dg[Len(m.dg)] % 2 = 1 THEN Dec(m.neg, NAdd(m.dg, <<1>>), 0) ELSE m

TruncParityOdd(x) == \* is trunc(x) odd
    IF IsZero(x) \/ x.e >= 1 THEN FALSE
    ELSE LET n == Len(x.dg) + x.e IN      \* number of integer digits
         IF n <= 0 THEN FALSE ELSE x.dg[n] % 2 = 1

\* s*ceil(x/s) (up) or s*floor(x/s) for the sign combinations the property fixes
CeilFloor(x, s, up) ==
    IF IsZero(s) THEN (IF up THEN DZero ELSE IF IsZero(x) THEN Open ELSE AnyErr)
    ELSE IF IsZero(x) THEN (IF s.neg THEN Open ELSE DZero)
    ELSE IF s.neg /\ ~x.neg THEN AnyErr
    ELSE IF Gap(x, s) > GapMax THEN Open
    ELSE LET m    == Min2(x.e, s.e)
             X    == At(x, m)
             S    == At(s, m)
             dm   == NDivMod(X, S)
             qneg == x.neg # s.neg                 \* sign of x/s
             bump == Len(dm.r) > 0 /\ (IF up THEN ~qneg ELSE qneg)
             q    == IF bump THEN NAdd(dm.q, <<1>>) ELSE dm.q
         IN Dec(x.neg, NMul(S, q), m)

\* n - d*floor(n/d)
ModDec(n, d) ==
    LET m  == Min2(n.e, d.e)
        N  == At(n, m)
        D  == At(d, m)
        r  == NDivMod(N, D).r
    IN IF IsZero(n) THEN DZero
       ELSE IF n.neg = d.neg \/ Len(r) = 0 THEN Dec(d.neg, r, m)
       ELSE Dec(d.neg, NSub(D, r), m)

\* exactly representable in binary with few bits (so that decimal and binary
\* arithmetic cannot differ): an integer below 10^13, or k <= 10 decimals with 5^k | digits
Dyadic(x) ==
    IF IsZero(x) THEN TRUE
    ELSE IF AdjExp(x) > 12 THEN FALSE
    ELSE IF x.e >= 0 THEN TRUE
    ELSE IF x.e < -10 THEN FALSE
    ELSE Len(NDivMod(x.dg, NatDigits(IPow(5, -x.e))).r) = 0

ModCall(n, d) ==
    IF IsZero(d) THEN AnyErr
    ELSE IF Dyadic(n) /\ Dyadic(d) THEN ModDec(n, d)
    ELSE Ref("mod(x,y)")

\* reciprocal of a decimal whose digits are 1, 2, 4, 5, 8, 25 or 125
InvDigits(dg) == CASE dg = <<1>> -> [dg |-> <<1>>, e |-> 0]  [] dg = <<2>> -> [dg |-> <<5>>, e |-> -1]
                   [] dg = <<4>> -> [dg |-> <<2, 5>>, e |-> -2]  [] dg = <<5>> -> [dg |-> <<2>>, e |-> -1]
                   [] dg = <<8>> -> [dg |-> <<1, 2, 5>>, e |-> -3]  [] dg = <<2, 5>> -> [dg |-> <<4>>, e |-> -2]
                   [] dg = <<1, 2, 5>> -> [dg |-> <<8>>, e |-> -3]  [] OTHER -> [dg |-> <<>>, e |-> 0]

PowCall(x, y) ==
    IF IsZero(x) THEN (IF IsZero(y) THEN Open ELSE IF y.neg THEN AnyErr ELSE DZero)
    ELSE IF IsZero(y) THEN DOne
    ELSE IF ~IsIntegral(y) THEN (IF x.neg THEN AnyErr ELSE Ref("pow(x,y)"))
    ELSE IF ~SmallInt(y) THEN Open
    ELSE LET n == Abs(IntVal(y)) IN
         IF ~y.neg THEN
            (IF AdjExp(x) > 0 /\ n * AdjExp(x) >= 309 /\ n <= 100000 THEN AnyErr      \* |x|^n >= 10^309
             \* the decimal power is the real value of pow on the DOUBLE only if x is exactly representable
             ELSE IF n = 1 THEN x
             ELSE IF Dyadic(x) /\ n * Len(x.dg) <= 80 THEN Ranged(DPowNat(x, n), "near")
             ELSE Ref("pow(x,y)"))
         ELSE LET iv == InvDigits(x.dg) IN
              IF Len(iv.dg) > 0 /\ n * 3 <= 80 /\ n * Abs(x.e) <= 100000 /\ (Dyadic(x) \/ (x.dg = <<1>> /\ x.e >= 0 /\ x.e <= 22))
              THEN Ranged(DPowNat(Dec(x.neg, iv.dg, iv.e - x.e), n), "near")
              ELSE IF AdjExp(x) < -1 /\ n * (-AdjExp(x) - 1) >= 309 /\ n <= 100000 THEN AnyErr   \* |x|^-n >= 10^309
              ELSE Ref("pow(x,y)")

FactCall(x, dbl) ==
    IF x.neg THEN AnyErr          \* every negative number is outside the domain, also those that truncate to 0 (FACT(-0.5) is #NUM!)
    ELSE LET t == RoundDec(x, 0, "down") IN
         IF ~SmallInt(t) \/ IntVal(t) > 170 THEN Open
         ELSE Near(Dec(FALSE, IF dbl THEN NFact2(IntVal(t)) ELSE NFact(IntVal(t)), 0))

SqrtCall(x) ==
    IF x.neg THEN AnyErr
    ELSE IF IsZero(x) THEN DZero
    ELSE LET odd == x.e % 2 = 1
             dg  == IF odd THEN Append(x.dg, 0) ELSE x.dg
             e   == IF odd THEN x.e - 1 ELSE x.e
         IN IF Len(dg) > 9 THEN Ref("sqrt(x)")
            ELSE LET n == NatVal(dg)  r == ISqrt(n) IN
                 IF r * r = n THEN Near(Dec(FALSE, NatDigits(r), e \div 2)) ELSE Ref("sqrt(x)")

(* ---------------------------------------------------------------------- *)
(* the analytic half: domain, reference expression, anchor points          *)
(* ---------------------------------------------------------------------- *)
Unary1 == {"EXP", "LN", "LOG10", "SIN", "COS", "TAN", "ASIN", "ACOS", "ATAN", "SINH", "COSH", "TANH",
           "ASINH", "ACOSH", "ATANH", "DEGREES", "RADIANS", "SQRT"}
TrigLimit == DInt(134217728)                     \* 2^27

RefExpr(f, n) ==
    CASE f = "EXP" -> "exp(x)"       [] f = "LN" -> "log(x)"       [] f = "LOG10" -> "log10(x)"
      [] f = "LOG" -> (IF n = 1 THEN "log10(x)" ELSE "log(x)/log(y)")
      [] f = "SIN" -> "sin(x)"       [] f = "COS" -> "cos(x)"      [] f = "TAN" -> "tan(x)"
      [] f = "ASIN" -> "asin(x)"     [] f = "ACOS" -> "acos(x)"    [] f = "ATAN" -> "atan(x)"
      [] f = "SINH" -> "sinh(x)"     [] f = "COSH" -> "cosh(x)"    [] f = "TANH" -> "tanh(x)"
      [] f = "ASINH" -> "asinh(x)"   [] f = "ACOSH" -> "acosh(x)"  [] f = "ATANH" -> "atanh(x)"
      [] f = "ATAN2" -> "atan2(y,x)"
      [] f = "DEGREES" -> "x*180/pi" [] f = "RADIANS" -> "x*pi/180"
      [] f = "SQRT" -> "sqrt(x)"     [] f \in {"POWER", "OP_POW"} -> "pow(x,y)"
      [] f = "MOD" -> "mod(x,y)"     [] f = "PI" -> "pi"
      [] OTHER -> ""

\* the arguments on which the real function is defined (Excel's domain)
InDomain(f, a) ==
    LET x == a[1] IN
    CASE f \in {"LN", "LOG10"} -> DSign(x) > 0
      [] f = "LOG"   -> DSign(x) > 0 /\ (Len(a) = 1 \/ (DSign(a[2]) > 0 /\ a[2] # DOne))
      [] f \in {"ASIN", "ACOS"} -> DCmpAbs(x, DOne) <= 0
      [] f = "ACOSH" -> DCmp(x, DOne) >= 0
      [] f = "ATANH" -> DCmpAbs(x, DOne) < 0
      [] f = "SQRT"  -> ~x.neg
      [] f = "ATAN2" -> ~(IsZero(x) /\ IsZero(a[2]))
      [] f = "MOD"   -> ~IsZero(a[2])
      [] f \in {"FACT", "FACTDOUBLE"} -> ~x.neg
      [] f \in {"POWER", "OP_POW"} -> ~(IsZero(x) /\ a[2].neg) /\ ~(x.neg /\ ~IsIntegral(a[2]))
      [] OTHER -> TRUE

\* exact values at anchor points; [t |-> "none"] elsewhere
NoAnchor == [t |-> "none"]
PowerOfTen(x) == x.dg = <<1>> /\ ~x.neg
Anchor(f, a) ==
    LET x == a[1] IN
    CASE f \in {"SIN", "TAN", "ASIN", "ATAN", "SINH", "TANH", "ASINH", "ATANH", "DEGREES", "RADIANS"} /\ IsZero(x) -> DZero
      [] f \in {"EXP", "COS", "COSH"} /\ IsZero(x) -> DOne
      [] f \in {"LN", "ACOS", "ACOSH"} /\ x = DOne -> DZero
      [] f = "LOG10" /\ PowerOfTen(x) /\ Abs(x.e) <= 300 -> DInt(x.e)
      [] f = "LOG" /\ Len(a) = 1 /\ PowerOfTen(x) /\ Abs(x.e) <= 300 -> DInt(x.e)
      [] f = "LOG" /\ Len(a) = 2 /\ x = DOne -> DZero
      [] f = "LOG" /\ Len(a) = 2 /\ x = a[2] -> DOne
      [] f = "ATAN2" /\ IsZero(a[2]) /\ DSign(x) > 0 -> DZero
      [] OTHER -> NoAnchor

\* arguments whose result certainly leaves the double range / certainly does not
OverClass(f, x) ==
    CASE f = "EXP" -> (IF DCmp(x, DInt(710)) >= 0 THEN "over" ELSE IF DCmp(x, DInt(709)) <= 0 THEN "in" ELSE "edge")
      [] f \in {"SINH", "COSH"} ->
            (IF DCmpAbs(x, DInt(711)) >= 0 THEN "over" ELSE IF DCmpAbs(x, DInt(710)) <= 0 THEN "in" ELSE "edge")
      [] OTHER -> "in"

Analytic(f, a) ==
    IF ~InDomain(f, a) THEN AnyErr
    ELSE IF f \in {"SIN", "COS", "TAN"} /\ DCmpAbs(a[1], TrigLimit) >= 0 THEN Open
    ELSE LET an == Anchor(f, a)  oc == OverClass(f, a[1]) IN
         IF an.t # "none" THEN Near(an)
         ELSE IF oc = "over" THEN AnyErr
         ELSE IF oc = "edge" THEN Open
         ELSE Ref(RefExpr(f, Len(a)))

PiDec == [t |-> "near", neg |-> FALSE, dg |-> <<3,1,4,1,5,9,2,6,5,3,5,8,9,7,9,3,2,3,8,4,6>>, e |-> -20]

(* ---------------------------------------------------------------------- *)
(* dispatcher                                                              *)
(* ---------------------------------------------------------------------- *)
RoundFuncs == {"ROUND", "ROUNDUP", "ROUNDDOWN", "TRUNC"}
MathFuncs == RoundFuncs \cup {"INT", "EVEN", "CEILING", "FLOOR", "MOD", "ABS", "SIGN", "POWER", "OP_POW",
             "FACT", "FACTDOUBLE", "ISEVEN", "ISODD", "ATAN2", "LOG", "PI"} \cup Unary1

MathArity(f) == CASE f \in {"ROUND", "TRUNC", "ROUNDUP", "ROUNDDOWN", "LOG"} -> {1, 2}
                  [] f \in {"CEILING", "FLOOR", "MOD", "POWER", "OP_POW", "ATAN2"} -> {2}
                  [] f = "PI" -> {0}
                  [] OTHER -> {1}

RoundMode(f) == CASE f = "ROUND" -> "half" [] f = "ROUNDUP" -> "up" [] OTHER -> "down"
DigitsMax == 400

MathCall(f, a) ==
    IF f \notin MathFuncs \/ Len(a) \notin MathArity(f) THEN Open
    ELSE IF \E i \in 1..Len(a) : a[i].t # "dec" THEN Open
    ELSE CASE f \in RoundFuncs ->
                (IF Len(a) = 1 THEN RoundDec(a[1], 0, RoundMode(f))
                 ELSE IF ~SmallInt(a[2]) \/ Abs(IntVal(a[2])) > DigitsMax THEN Open
                 ELSE RoundDec(a[1], IntVal(a[2]), RoundMode(f)))
           [] f = "INT"     -> RoundDec(a[1], 0, "floor")
           [] f = "EVEN"    -> EvenDec(a[1])
           [] f = "CEILING" -> CeilFloor(a[1], a[2], TRUE)
           [] f = "FLOOR"   -> CeilFloor(a[1], a[2], FALSE)
           [] f = "MOD"     -> IF Gap(a[1], a[2]) > GapMax THEN (IF IsZero(a[2]) THEN AnyErr ELSE Ref("mod(x,y)"))
                               ELSE ModCall(a[1], a[2])
           [] f = "ABS"     -> DAbs(a[1])
           [] f = "SIGN"    -> DInt(DSign(a[1]))
           [] f \in {"POWER", "OP_POW"} -> PowCall(a[1], a[2])
           [] f = "FACT"    -> FactCall(a[1], FALSE)
           [] f = "FACTDOUBLE" -> FactCall(a[1], TRUE)
           [] f = "ISEVEN"  -> Bool(~TruncParityOdd(a[1]))
           [] f = "ISODD"   -> Bool(TruncParityOdd(a[1]))
           [] f = "SQRT"    -> SqrtCall(a[1])
           [] f = "PI"      -> PiDec
           [] OTHER         -> Analytic(f, a)
=============================================================================

------------------------------ MODULE MC_C04S ------------------------------
(* exports the model shapes of XlWorkbook (one state per shape) for the replay harness *)
EXTENDS XlWorkbook
VARIABLE sdef
ShapesInit == /\ shape \in ShapeIds /\ sdef = ShapeDef(shape) /\ inp = <<>> /\ stored = <<>> /\ evald = {} /\ gmemo = <<>>
              /\ obs = [op |-> "none"] /\ hist = <<>> /\ leak = 0
ShapesSpec == ShapesInit /\ [][UNCHANGED <<vars, sdef>>]_<<vars, sdef>>
=============================================================================

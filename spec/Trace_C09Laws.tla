--------------------------- MODULE Trace_C09Laws ---------------------------
(***************************************************************************)
(* The order laws of C09 checked on an OBSERVED truth table (code -> spec):*)
(* one event per ordered pair (a, b) of non-blank scalars with the truth   *)
(* values the library returned for a<b, a=b, a>b, a<=b, a>=b, a<>b and for *)
(* b>a, b<a, b=a; and one event per triple with a<b, b<c, a<c.  No order   *)
(* is assumed for the operands themselves, so the laws are checked even    *)
(* where the specification leaves the order open (doubles that differ in   *)
(* the last places, characters without a simple case mapping).             *)
(***************************************************************************)
EXTENDS Integers, Sequences, TLC, Json, IOUtils
Trace == ndJsonDeserialize(IOEnv.TRACE_FILE)
VARIABLES l, verdict
vars == <<l, verdict>>

B2N(b) == IF b THEN 1 ELSE 0
PairVerdict(e) ==
    IF B2N(e.lt) + B2N(e.eq) + B2N(e.gt) # 1 THEN "trichotomy"
    ELSE IF e.le # (e.lt \/ e.eq) THEN "le-is-lt-or-eq"
    ELSE IF e.ge # (e.gt \/ e.eq) THEN "ge-is-gt-or-eq"
    ELSE IF e.ne # ~e.eq THEN "ne-is-not-eq"
    ELSE IF e.lt # e.rgt THEN "lt-is-reversed-gt"
    ELSE IF e.gt # e.rlt THEN "gt-is-reversed-lt"
    ELSE IF e.eq # e.req THEN "eq-symmetric"
    \* every number (dates count as their serials) is smaller than every text, every text smaller than a logical value
    ELSE IF "ka" \in DOMAIN e /\ e.ka = "num" /\ e.kb \in {"txt", "bool"} /\ ~e.lt THEN "rank-number-below-text-below-logical"
    ELSE IF "ka" \in DOMAIN e /\ e.ka = "txt" /\ e.kb = "bool" /\ ~e.lt THEN "rank-number-below-text-below-logical"
    ELSE IF "ka" \in DOMAIN e /\ e.kb = "num" /\ e.ka \in {"txt", "bool"} /\ ~e.gt THEN "rank-number-below-text-below-logical"
    ELSE IF "ka" \in DOMAIN e /\ e.kb = "txt" /\ e.ka = "bool" /\ ~e.gt THEN "rank-number-below-text-below-logical"
    ELSE "ok"
TripleVerdict(e) == IF e.ab /\ e.bc /\ ~e.ac THEN "transitivity" ELSE "ok"

Init == l = 0 /\ verdict = "start"
Step == /\ l < Len(Trace) /\ l' = l + 1
        /\ LET e == Trace[l + 1] IN
           verdict' = IF e.kind = "pair" THEN PairVerdict(e) ELSE IF e.kind = "triple" THEN TripleVerdict(e) ELSE "unknown-event"
Spec == Init /\ [][Step]_vars
AllConsumed == TLCGet("stats").diameter - 1 = Len(Trace)
=============================================================================

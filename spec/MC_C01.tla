------------------------------ MODULE MC_C01 ------------------------------
(***************************************************************************)
(* Bounded instance for C01 (operator precedence and associativity).       *)
(* Families of formulas over cells A1, B1, C1 of one sheet:                *)
(*   pair    a o1 b o2 c, all 12x12 ordered operator pairs, all 8          *)
(*           placements of a unary minus, several assignments              *)
(*   triple  a o1 b o2 c o3 d, all 12^3 ordered triples                    *)
(*   shape   the 5 binary tree shapes over every triple, rendered with     *)
(*           minimal and with redundant parentheses                        *)
(*   lit     literal spellings (2, 0.5, 50%, 5E-1, 2.5E+0) in operand slots*)
(*   gap     blanks / newlines around operators, parentheses, at the ends  *)
(* res = value of the tree the text denotes under Excel's grammar.         *)
(***************************************************************************)
EXTENDS XlEval

CONSTANTS Families      \* subset of {"pair", "triple", "shape", "lit", "gap", "quad"}

VARIABLES case, res
vars == <<case, res>>

Ops == BinOps
A1 == RelRef(1, 1)   B1 == RelRef(2, 1)   C1 == RelRef(3, 1)   D1 == RelRef(4, 1)

Envs == << <<Whole(2), Whole(3), Whole(5), Whole(7)>>,
           <<Whole(-2), Rat(1, 2), Whole(3), Whole(2)>>,
           <<Whole(3), Whole(0), Whole(2), Whole(-1)>>,
           <<Whole(2), Whole(3), Whole(2), Whole(3)>>,
           <<Bool(TRUE), Whole(2), Whole(2), Bool(FALSE)>>,
           <<Bool(FALSE), Whole(3), Whole(2), Whole(0)>>,
           <<Whole(2), Whole(2), Bool(FALSE), Bool(TRUE)>>,
           <<Bool(TRUE), Whole(2), Whole(3), Whole(2)>> >>
NEnv == 8

Wb(env) == [cells |-> [a \in {<<"Sheet1", i, 1>> : i \in 1..4} |-> [c |-> "const", v |-> env[a[2]]]],
            names |-> <<>>]

Lits == << <<50>>, <<48, 46, 53>>, <<53, 48, 37>>, <<53, 69, 45, 49>>, <<50, 46, 53, 69, 43, 48>>, <<51>>,
          <<50, 46, 53, 37>>, <<48, 46, 53, 37>>, <<49, 69, 43, 49, 37>>, <<50, 48, 48, 37>> >>
       \*    2        0.5            50%           5E-1                2.5E+0                      3
       \*    2.5%                0.5%                1E+1%                     200%
NLit == 10

\* whole numbers that are not spelt as integers: 200%  2E+0  3E+0  2.0  300%  1E+0
WholeLits == << <<50, 48, 48, 37>>, <<50, 69, 43, 48>>, <<51, 69, 43, 48>>, <<50, 46, 48>>, <<51, 48, 48, 37>>, <<49, 69, 43, 48>> >>
NWhole == 6

NegIf(b, x) == IF b THEN Neg(x) ELSE x

RECURSIVE RenderRun(_, _)
RenderRun(run, st) == \* flat run, no parentheses: operand op operand ...
    IF Len(run) = 1 THEN Render(run[1], st)
    ELSE Render(run[1], st) \o st.opl \o NameCodes(run[2]) \o st.opr \o RenderRun(SubSeq(run, 3, Len(run)), st)

Shapes(a, b, c, d, o1, o2, o3) ==
    << Bin(o3, Bin(o2, Bin(o1, a, b), c), d),
       Bin(o3, Bin(o1, a, Bin(o2, b, c)), d),
       Bin(o2, Bin(o1, a, b), Bin(o3, c, d)),
       Bin(o1, a, Bin(o3, Bin(o2, b, c), d)),
       Bin(o1, a, Bin(o2, b, Bin(o3, c, d))) >>

Gap(g) == CASE g = 1 -> <<32>> [] g = 2 -> <<32, 32>> [] g = 3 -> <<10>>
OneGap(cls, g) == [Style0 EXCEPT ![cls] = Gap(g)]
AllGaps(g) == [lead |-> Gap(g), trail |-> Gap(g), opl |-> Gap(g), opr |-> Gap(g), po |-> Gap(g), pc |-> Gap(g),
               cb |-> Gap(g), ca |-> Gap(g), eq |-> TRUE]

Mk(kind, tree, text, e) == [kind |-> kind, tree |-> tree, text |-> text, env |-> Envs[e]]
MkRun(kind, run, st, e) == Mk(kind, Climb(run), Formula(Climb(run), [st EXCEPT !.eq = FALSE]) , e)

InitCase ==
  \/ /\ "pair" \in Families
     /\ \E o1 \in Ops, o2 \in Ops, ng \in SUBSET {1, 2, 3}, e \in 1..NEnv :
          LET run == <<NegIf(1 \in ng, A1), o1, NegIf(2 \in ng, B1), o2, NegIf(3 \in ng, C1)>>
          IN case = Mk("pair", Climb(run), <<61>> \o RenderRun(run, Style0), e)
  \/ /\ "triple" \in Families
     /\ \E o1 \in Ops, o2 \in Ops, o3 \in Ops, e \in {1, 4} :
          LET run == <<A1, o1, B1, o2, C1, o3, D1>>
          IN case = Mk("triple", Climb(run), <<61>> \o RenderRun(run, Style0), e)
  \/ /\ "shape" \in Families
     /\ \E o1 \in Ops, o2 \in Ops, o3 \in Ops, s \in 1..5, full \in BOOLEAN :
          LET t == Shapes(A1, B1, C1, D1, o1, o2, o3)[s]
              p == IF full THEN FullParen(t) ELSE MinParen(t)
          IN case = Mk(IF full THEN "shape-full" ELSE "shape-min", t, Formula(p, Style0), 1)
  \/ /\ "lit" \in Families
     /\ \E o1 \in Ops, o2 \in Ops, i \in 1..NLit, j \in 1..NLit, ng \in BOOLEAN :
          LET run == <<NumLit(Lits[i]), o1, NegIf(ng, NumLit(Lits[j])), o2, C1>>
          IN case = Mk("lit", Climb(run), <<61>> \o RenderRun(run, Style0), 1)
  \/ /\ "lit" \in Families
     /\ \E o1 \in Ops, o2 \in Ops, j \in 1..NLit, ng \in BOOLEAN :
          LET run == <<A1, o1, B1, o2, NegIf(ng, NumLit(Lits[j]))>>
          IN case = Mk("lit-last", Climb(run), <<61>> \o RenderRun(run, Style0), 1)
  \/ /\ "lit" \in Families          \* a percent literal IS the decimal it stands for: 35% = 0.35, 7% = 0.07, 150% = 1.5
     /\ \E m \in 1..199, sw \in BOOLEAN :
          LET pct == NumLit(NatToCodes(m) \o <<37>>)
              dec == NumLit(NatToCodes(m \div 100) \o <<46>> \o <<48 + ((m % 100) \div 10), 48 + (m % 10)>>)
              run == IF sw THEN <<dec, "=", pct>> ELSE <<pct, "=", dec>>
          IN case = Mk("lit-pct-eq", Climb(run), <<61>> \o RenderRun(run, Style0), 1)
  \/ /\ "lit" \in Families          \* a NEGATIVE base under a whole exponent that is not spelt as an integer: (-2)^200% is 4
     /\ \E j \in 1..NWhole, o2 \in Ops, e \in {1, 2}, ng \in BOOLEAN :
          LET run == <<IF e = 1 THEN Neg(A1) ELSE A1, "^", NegIf(ng, NumLit(WholeLits[j])), o2, C1>>
          IN case = Mk("lit-negbase", Climb(run), <<61>> \o RenderRun(run, Style0), e)
  \/ /\ "lit" \in Families          \* ... or that is computed: -A1^(B1*C1/D1) with B1*C1/D1 = 2, -A1^(B1/D1) = -A1^1
     /\ \E o2 \in Ops, q \in 1..3 :
          LET ex == CASE q = 1 -> Bin("/", Bin("*", B1, C1), D1) [] q = 2 -> Bin("/", B1, D1) [] q = 3 -> Bin("-", Bin("/", B1, D1), D1)
              t == Bin(o2, Bin("^", Neg(A1), ex), C1)
          IN case = Mk("lit-negbase-quot", t, Formula(MinParen(t), Style0), 4)
  \/ /\ "lit" \in Families          \* an error operand decides the result whatever the other operand is: 0*(3/0) and 0^(3/0) are #DIV/0!
     /\ \E o1 \in Ops, o2 \in Ops, s \in 1..3 :
          LET t == CASE s = 1 -> Bin(o1, B1, Bin(o2, A1, B1))              \* B1 = 0 in Envs[3]
                     [] s = 2 -> Bin(o1, Bin(o2, A1, B1), B1)
                     [] s = 3 -> Bin(o1, Bin("-", A1, A1), Bin(o2, C1, B1))
          IN case = Mk("zero-operand", t, Formula(MinParen(t), Style0), 3)
  \/ /\ "gap" \in Families
     /\ \E o1 \in Ops, o2 \in Ops, cls \in {"lead", "trail", "opl", "opr"}, g \in 1..3 :
          LET run == <<A1, o1, B1, o2, C1>>
          IN case = Mk("gap", Climb(run), <<61>> \o OneGap(cls, g).lead \o RenderRun(run, OneGap(cls, g)) \o OneGap(cls, g).trail, 1)
  \/ /\ "gap" \in Families
     /\ \E o1 \in Ops, o2 \in Ops, o3 \in {"+", "^"}, s \in 1..5, cls \in {"po", "pc"}, g \in 1..3 :
          LET t == Shapes(A1, B1, C1, D1, o1, o2, o3)[s]
          IN case = Mk("gap-paren", t, Formula(MinParen(t), OneGap(cls, g)), 2)
  \/ /\ "gap" \in Families
     /\ \E o1 \in Ops, o2 \in Ops, o3 \in {"*", "="}, s \in 1..5, g \in 1..3 :
          LET t == Shapes(A1, B1, C1, D1, o1, o2, o3)[s]
          IN case = Mk("gap-all", t, Formula(FullParen(t), AllGaps(g)), 1)
  \/ /\ "quad" \in Families
     /\ \E o1 \in Ops, o2 \in Ops, o3 \in Ops, o4 \in Ops :
          LET run == <<A1, o1, B1, o2, C1, o3, D1, o4, NumLit(<<50>>)>>
          IN case = Mk("quad", Climb(run), <<61>> \o RenderRun(run, Style0), 1)

Pending == [t |-> "pending"]
Init == InitCase /\ res = Pending
Evaluate == res = Pending /\ res' = Eval(case.tree, "Sheet1", Wb(case.env)) /\ UNCHANGED case
Next == Evaluate
Spec == Init /\ [][Next]_vars
Done == res # Pending

\* ---- laws of the grammar, checked on every enumerated tree ----
IsRunKind == case.kind \in {"pair", "triple", "lit", "lit-negbase", "gap", "quad"}
\* the shunting-yard design with Excel's table builds the tree the grammar defines
LawShuntingYard == IsRunKind => ShuntingYard(Flatten(case.tree), ExcelTable) = case.tree
\* a tree needs no parentheses exactly when its flat rendering denotes it
LawMinimalParens == (case.kind = "shape-min") => ((MinParen(case.tree) = case.tree) <=> (Climb(Flatten(case.tree)) = case.tree))
\* parentheses never change the denoted tree
LawErase == Erase(MinParen(case.tree)) = case.tree /\ Erase(FullParen(case.tree)) = case.tree
LawValueKind == Done => res.t \in {"num", "txt", "bool", "err", "open"}

\* ---- discrimination (non-vacuity): for every ordered operator pair the two
\* candidate trees differ in value on some assignment, so a swapped table
\* entry cannot be invisible ----
TwoTrees(o1, o2) == << Bin(o2, Bin(o1, A1, B1), C1), Bin(o1, A1, Bin(o2, B1, C1)) >>
Discriminates(o1, o2) ==
    \E e \in 1..NEnv : LET tt == TwoTrees(o1, o2)
                        v1 == Eval(tt[1], "Sheet1", Wb(Envs[e]))
                        v2 == Eval(tt[2], "Sheet1", Wb(Envs[e]))
                    IN v1.t # "open" /\ v2.t # "open" /\ ~SameVal(v1, v2)
\* pairs whose two trees are equal as real-number / text identities can never differ
Associative == {<<"*", "*">>, <<"+", "+">>, <<"&", "&">>, <<"*", "/">>, <<"+", "-">>}
ASSUME \A o1 \in Ops, o2 \in Ops : <<o1, o2>> \notin Associative => Discriminates(o1, o2)

\* ---- wrong designs must be rejected (used by the self-test configs) ----
RightAssocPow == [ExcelTable EXCEPT !["^"] = [p |-> 5, ra |-> TRUE]]
ConcatAbovePlus == [ExcelTable EXCEPT !["&"] = [p |-> 4, ra |-> FALSE]]
LawBadRightAssocPow == IsRunKind => ShuntingYard(Flatten(case.tree), RightAssocPow) = case.tree
LawBadConcat == IsRunKind => ShuntingYard(Flatten(case.tree), ConcatAbovePlus) = case.tree
=============================================================================

----------------------------- MODULE XlEvalPath -----------------------------
(***************************************************************************)
(* The skeleton of the evaluation walk of XlEvalMachine (path discipline   *)
(* of the cycle check) over an ARBITRARY reference graph on N cells:       *)
(* frames are reduced to their cells, the per-frame memo and the argument  *)
(* index are abstracted away (any reference of the top cell may be taken   *)
(* next, any number of times), so every behaviour of XlEvalMachine with    *)
(* SeenScope = "path" maps to a behaviour of this module (TLC checks that  *)
(* refinement on the C06 instance, cfg C06_refines_path).                  *)
(* Apalache (MC_EvalPathApa) discharges IndInv as an inductive invariant for all graphs on  *)
(* N cells (N = 8: 2^64 graphs, far beyond what TLC enumerates):           *)
(*   the stack is a simple path of the reference graph, hence never longer *)
(*   than N (recursion depth is bounded by the number of cells), and a     *)
(*   cycle is reported only with a closed walk in hand (acyclic sharing is *)
(*   never flagged).                                                       *)
(***************************************************************************)
EXTENDS Integers, Sequences, FiniteSets

CONSTANTS
    \* @type: Int;
    N,
    \* @type: Bool;
    PathCheck       \* TRUE: a cell whose evaluation is in progress is never entered again (the shipped discipline)

VARIABLES
    \* @type: Set(<<Int, Int>>);
    edges,
    \* @type: Seq(Int);
    stack,
    \* @type: Str;
    outcome

Cells == 1..N
Top == stack[Len(stack)]
OnStack(c) == \E i \in DOMAIN stack : stack[i] = c

Init == /\ edges \in SUBSET (Cells \X Cells)
        /\ \E c \in Cells : stack = <<c>>
        /\ outcome = "running"

Enter == /\ outcome = "running"
         /\ \E r \in Cells : /\ <<Top, r>> \in edges /\ (PathCheck => ~OnStack(r))
                             /\ stack' = Append(stack, r)
         /\ UNCHANGED <<edges, outcome>>
Return == /\ outcome = "running"
          /\ IF Len(stack) = 1 THEN outcome' = "value" /\ UNCHANGED stack
             ELSE stack' = SubSeq(stack, 1, Len(stack) - 1) /\ UNCHANGED outcome
          /\ UNCHANGED edges
RaiseCycle == /\ outcome = "running"
              /\ \E r \in Cells : <<Top, r>> \in edges /\ OnStack(r)
              /\ outcome' = "cycle"
              /\ UNCHANGED <<edges, stack>>
RaiseOwn == /\ outcome = "running" /\ outcome' = "error" /\ UNCHANGED <<edges, stack>>
Next == Enter \/ Return \/ RaiseCycle \/ RaiseOwn
vars == <<edges, stack, outcome>>
Spec == Init /\ [][Next]_vars

TypeOK == /\ edges \in SUBSET (Cells \X Cells)
          /\ Len(stack) >= 1 /\ Len(stack) <= N
          /\ \A i \in DOMAIN stack : stack[i] \in Cells
          /\ outcome \in {"running", "value", "cycle", "error"}
SimplePath == /\ \A i, j \in DOMAIN stack : i # j => stack[i] # stack[j]
              /\ \A i \in DOMAIN stack : i < Len(stack) => <<stack[i], stack[i + 1]>> \in edges
\* a reported cycle comes with its witness: the top cell refers back into the path that leads to it
CycleWitness == outcome = "cycle" => \E i \in DOMAIN stack : <<Top, stack[i]>> \in edges
IndInv == TypeOK /\ SimplePath /\ CycleWitness

DepthBound == Len(stack) <= N
=============================================================================

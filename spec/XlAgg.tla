------------------------------- MODULE XlAgg -------------------------------
(***************************************************************************)
(* C14: the aggregates SUM AVERAGE MIN MAX COUNT COUNTA SUMPRODUCT as      *)
(* reference folds over "exactly the addressed values".                    *)
(*                                                                         *)
(* An argument is a scalar number or a rectangular range given by value,   *)
(* [t |-> "arr", v |-> <<row, row, ...>>], whose cells hold a number, a    *)
(* blank or non-numeric text.  In ranges blanks and non-numeric text are   *)
(* ignored: COUNT counts the numbers, COUNTA the non-empty cells, SUM /    *)
(* AVERAGE / MIN / MAX fold the numbers, SUMPRODUCT sums the element-wise  *)
(* products (a non-numeric entry makes its product contribute nothing,     *)
(* Excel: "treats non-numeric array entries as if they were zeros") and    *)
(* rejects differently shaped ranges with #VALUE!.                         *)
(*                                                                         *)
(* Left open (the property does not fix it): no number at all for          *)
(* AVERAGE / MIN / MAX; scalar arguments that are not numbers; range cells *)
(* holding booleans, dates, errors, empty text, or text that could be read *)
(* as a number, date, time or logical value (any digit, TRUE / FALSE);     *)
(* SUMPRODUCT of a scalar with a larger range; no argument at all;         *)
(* operands beyond the exact-arithmetic guard of XlValues.                 *)
(***************************************************************************)
EXTENDS XlValues

AggFuncs == {"SUM", "AVERAGE", "MIN", "MAX", "COUNT", "COUNTA", "SUMPRODUCT"}

(* ---------------------------------------------------------------------- *)
(* what the property talks about                                           *)
(* ---------------------------------------------------------------------- *)
DigitIn(s)  == \E i \in 1..Len(s) : IsDigit(s[i])
BoolText(s) == UpperSeq(s) = TRUEcodes \/ UpperSeq(s) = FALSEcodes
\* text that is certainly "non-numeric text"
PlainText(x) == x.t = "txt" /\ Len(x.v) > 0 /\ ~DigitIn(x.v) /\ ~BoolText(x.v)

CellOk(x) == x.t \in {"num", "blank"} \/ PlainText(x)

IsRect(a) == /\ a.t = "arr"
             /\ Len(a.v) > 0
             /\ Len(a.v[1]) > 0
             /\ \A i \in 1..Len(a.v) : Len(a.v[i]) = Len(a.v[1])

ArgOk(a) == IF a.t = "arr"
            THEN IsRect(a) /\ \A i \in 1..Len(a.v) : \A j \in 1..Len(a.v[i]) : CellOk(a.v[i][j])
            ELSE a.t = "num"

(* ---------------------------------------------------------------------- *)
(* the addressed values, row-major, arguments left to right                *)
(* ---------------------------------------------------------------------- *)
RECURSIVE FlatRows(_)
FlatRows(rows) == IF Len(rows) = 0 THEN <<>> ELSE rows[1] \o FlatRows(Tail(rows))

ArgVals(a) == IF a.t = "arr" THEN FlatRows(a.v) ELSE <<a>>

RECURSIVE AllVals(_)
AllVals(args) == IF Len(args) = 0 THEN <<>> ELSE ArgVals(args[1]) \o AllVals(Tail(args))

Nums(vals)     == SelectSeq(vals, LAMBDA x : x.t = "num")
NonEmpty(vals) == SelectSeq(vals, LAMBDA x : x.t # "blank")
AllSafe(vals)  == \A i \in 1..Len(vals) : vals[i].t # "num" \/ SafeNum(vals[i])

(* ---------------------------------------------------------------------- *)
(* the folds (Open as soon as the arithmetic guard trips)                  *)
(* ---------------------------------------------------------------------- *)
\* balanced recursion: ranges of 100 cells must not exhaust the evaluator's stack
RECURSIVE SumRange(_, _, _)
SumRange(s, lo, hi) ==
    IF lo > hi THEN Whole(0)
    ELSE IF lo = hi THEN s[lo]
    ELSE LET m == (lo + hi) \div 2
             a == SumRange(s, lo, m)
             b == SumRange(s, m + 1, hi)
         IN IF IsOpen(a) \/ IsOpen(b) THEN Open ELSE RAdd(a, b)
SumSeq(s) == SumRange(s, 1, Len(s))

RECURSIVE MinRange(_, _, _)
MinRange(s, lo, hi) == \* lo <= hi
    IF lo = hi THEN s[lo]
    ELSE LET m == (lo + hi) \div 2
             a == MinRange(s, lo, m)
             b == MinRange(s, m + 1, hi)
         IN IF RLt(b, a) THEN b ELSE a
MinSeq(s) == MinRange(s, 1, Len(s))

RECURSIVE MaxRange(_, _, _)
MaxRange(s, lo, hi) == \* lo <= hi
    IF lo = hi THEN s[lo]
    ELSE LET m == (lo + hi) \div 2
             a == MaxRange(s, lo, m)
             b == MaxRange(s, m + 1, hi)
         IN IF RLt(a, b) THEN b ELSE a
MaxSeq(s) == MaxRange(s, 1, Len(s))

Shape(a) == IF a.t = "arr" THEN <<Len(a.v), Len(a.v[1])>> ELSE <<1, 1>>

Factor(x) == IF x.t = "num" THEN x ELSE Whole(0)

RECURSIVE ProdAt(_, _)
ProdAt(flats, k) == \* product of the k-th entries of every argument
    IF Len(flats) = 0 THEN Whole(1)
    ELSE LET r == ProdAt(Tail(flats), k)
         IN IF IsOpen(r) THEN Open ELSE RMul(Factor(flats[1][k]), r)

RECURSIVE SumProds(_, _, _)
SumProds(flats, lo, hi) == \* sum of the products at positions lo..hi
    IF lo > hi THEN Whole(0)
    ELSE IF lo = hi THEN ProdAt(flats, lo)
    ELSE LET m == (lo + hi) \div 2
             a == SumProds(flats, lo, m)
             b == SumProds(flats, m + 1, hi)
         IN IF IsOpen(a) \/ IsOpen(b) THEN Open ELSE RAdd(a, b)

SumProduct(args) ==
    LET n == Len(args)
        same == \A i \in 2..n : Shape(args[i]) = Shape(args[1])
        ranges == \A i \in 1..n : args[i].t = "arr"
        flats == [i \in 1..n |-> ArgVals(args[i])]
    IN IF same THEN SumProds(flats, 1, Len(flats[1]))
       ELSE IF ranges THEN Err("#VALUE!")
       ELSE Open

(* ---------------------------------------------------------------------- *)
(* the expected abstract result of F(args)                                 *)
(* ---------------------------------------------------------------------- *)
AggCall(f, args) ==
    IF f \notin AggFuncs \/ Len(args) = 0 THEN Open
    ELSE IF \E i \in 1..Len(args) : ~ArgOk(args[i]) THEN Open
    ELSE LET vals == AllVals(args)
             nums == Nums(vals)
         IN IF ~AllSafe(vals) THEN Open
            ELSE CASE f = "SUM"     -> SumSeq(nums)
                   [] f = "COUNT"   -> Whole(Len(nums))
                   [] f = "COUNTA"  -> Whole(Len(NonEmpty(vals)))
                   [] f = "AVERAGE" -> IF Len(nums) = 0 THEN Open
                                       ELSE LET s == SumSeq(nums)
                                            IN IF IsOpen(s) THEN Open ELSE RDiv(s, Whole(Len(nums)))
                   [] f = "MIN"     -> IF Len(nums) = 0 THEN Open ELSE MinSeq(nums)
                   [] f = "MAX"     -> IF Len(nums) = 0 THEN Open ELSE MaxSeq(nums)
                   [] f = "SUMPRODUCT" -> SumProduct(args)
=============================================================================

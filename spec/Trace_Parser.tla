--------------------------- MODULE Trace_Parser ---------------------------
(***************************************************************************)
(* Trace specification for recorded parses (code -> spec) through BOTH     *)
(* machines.  One event per text the library parsed: the reverse polish    *)
(* list FormulaParser.shunting_yard returned, the tree build_ast built, or *)
(* the class of the exception raised on the way.                           *)
(*                                                                         *)
(* Load an event; run the tokenizer machine on its text (TokNext), hand    *)
(* the token list over, run the parser machine (ParseNext); Judge: the     *)
(* recorded token list (ExcelParser.getTokens on the same text), reverse   *)
(* polish list and tree must be the machines'.                             *)
(***************************************************************************)
EXTENDS XlParser, Json, IOUtils

Trace == ndJsonDeserialize(IOEnv.TRACE_FILE)

VARIABLES l, verdict, exp, busy
vars == <<l, verdict, exp, busy, src, off, tok, mode, stack, out, phase, und, ptoks, pi, pout, pstack, wv, ac, bstack, pphase, pund>>

SameTokR(a, b) == a.ty = b.ty /\ a.sub = b.sub /\ (b.v.t = "open" \/ a.v = b.v)
RECURSIVE SameTreeR(_, _)
SameTreeR(x, y) ==      \* x recorded, y the machine's
    /\ x.k = y.k
    /\ CASE y.k = "leaf" -> SameTokR(x.tok, y.tok)
         [] y.k = "op"   -> SameTokR(x.tok, y.tok) /\ SameTreeR(x.l, y.l) /\ SameTreeR(x.r, y.r)
         [] y.k = "fn"   -> SameTokR(x.tok, y.tok) /\ Len(x.args) = Len(y.args) /\ \A i \in 1..Len(y.args) : SameTreeR(x.args[i], y.args[i])
         [] OTHER -> TRUE
SameRpn(rec, mine) ==
    /\ Len(rec) = Len(mine)
    /\ \A i \in 1..Len(rec) : SameTokR(rec[i].tok, mine[i].tok) /\ (mine[i].tok.ty = "function" => rec[i].nargs = mine[i].nargs)

SameTokens(rec, mine) == Len(rec) = Len(mine) /\ \A i \in 1..Len(rec) : SameTokR(rec[i], mine[i])

FailClasses == {"IndexError", "ValueError", "SyntaxError", "KeyError"}
Verdict(e) ==
    IF und THEN "open"
    ELSE IF phase = "fail" THEN (IF e.texc = "IndexError" THEN "ok" ELSE "tokenizer-machine-fails-code-does-not")
    ELSE IF e.texc # "" THEN "tokenizer-exception"
    ELSE IF ~SameTokens(e.toks, out) THEN "tokens-differ"
    ELSE IF pund THEN "open"
    ELSE IF pphase = "fail" THEN (IF e.exc \in FailClasses THEN "ok" ELSE "machine-fails-code-does-not")
    ELSE IF e.exc # "" THEN "python-exception"
    ELSE IF ~SameRpn(e.rpn, pout) THEN "rpn-differs"
    ELSE IF ~SameTreeR(e.tree, ParseTree) THEN "tree-differs"
    ELSE "ok"

Idle == "idle"
Init == /\ l = 0 /\ verdict = "start" /\ exp = <<>> /\ busy = FALSE
        /\ TokInit(<<>>)
        /\ ptoks = <<>> /\ pi = 1 /\ pout = <<>> /\ pstack = <<>> /\ wv = <<>> /\ ac = <<>> /\ bstack = <<>>
        /\ pphase = Idle /\ pund = FALSE

Load == /\ ~busy /\ l < Len(Trace)
        /\ busy' = TRUE
        /\ src' = Trace[l + 1].text /\ off' = 1 /\ tok' = <<>> /\ mode' = "normal" /\ stack' = <<>> /\ out' = <<>>
        /\ phase' = "strip" /\ und' = FALSE
        /\ ptoks' = <<>> /\ pi' = 1 /\ pout' = <<>> /\ pstack' = <<>> /\ wv' = <<>> /\ ac' = <<>> /\ bstack' = <<>>
        /\ pphase' = Idle /\ pund' = FALSE
        /\ UNCHANGED <<l, verdict, exp>>
RunTok == busy /\ pphase = Idle /\ ~Finished /\ TokNext /\ UNCHANGED <<l, verdict, exp, busy>> /\ UNCHANGED pvars
Handover == /\ busy /\ pphase = Idle /\ Finished
            /\ IF phase = "fail" THEN pphase' = "fail" /\ UNCHANGED ptoks
               ELSE pphase' = "prepare" /\ ptoks' = out
            /\ UNCHANGED <<l, verdict, exp, busy, pi, pout, pstack, wv, ac, bstack, pund>> /\ UNCHANGED tvars
RunParse == busy /\ pphase # Idle /\ ~ParseFinished /\ ParseNext /\ UNCHANGED <<l, verdict, exp, busy>> /\ UNCHANGED tvars
Judge == /\ busy /\ ParseFinished
         /\ l' = l + 1 /\ busy' = FALSE
         /\ verdict' = Verdict(Trace[l + 1])
         /\ exp' = IF pphase = "fail" THEN <<"fail">> ELSE pout
         /\ UNCHANGED tvars /\ UNCHANGED pvars
Next == Load \/ RunTok \/ Handover \/ RunParse \/ Judge
Spec == Init /\ [][Next]_vars
=============================================================================

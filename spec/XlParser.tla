----------------------------- MODULE XlParser -----------------------------
(***************************************************************************)
(* The parser as a state machine (xlcalculator/parser.py, FormulaParser):  *)
(* the shunting yard with the variable-argument extension, then the        *)
(* construction of the tree from the reverse polish list.                  *)
(*                                                                         *)
(*   ptoks   the token list (the tokenizer machine's finished `out`, with   *)
(*           the argument-list parentheses made explicit by Prepare)       *)
(*   pi      position of the next token                                    *)
(*   pout    the output queue: nodes [tok, nargs]                          *)
(*   pstack  the operator stack (tokens)                                   *)
(*   wv      "were values": one flag per open call - has the current       *)
(*           argument slot received anything yet                           *)
(*   ac      one counter per open call: completed arguments                *)
(*   bstack  the stack of trees of the construction pass                   *)
(*   pphase  "prepare" -> "yard" -> "drain" -> "build" -> "done", or       *)
(*           "fail" (ValueError / SyntaxError: mismatched parentheses;     *)
(*           IndexError: the construction pass runs out of operands)       *)
(*                                                                         *)
(* One action per branch of the token loop (Operand, Function, Argument,   *)
(* Operator, Start, Stop), one per drained operator, one per node of the   *)
(* construction pass.  Reassembly of ranges written with ":" next to       *)
(* OFFSET / INDEX is not modelled: a token starting with ":" makes the     *)
(* machine undetermined (pund).                                            *)
(*                                                                         *)
(* Trees: leaf [k |-> "leaf", tok], operator [k |-> "op", tok, l, r]       *)
(* (prefix: l = Nil), call [k |-> "fn", tok, args].                        *)
(***************************************************************************)
EXTENDS XlTokenizer

VARIABLES ptoks, pi, pout, pstack, wv, ac, bstack, pphase, pund
pvars == <<ptoks, pi, pout, pstack, wv, ac, bstack, pphase, pund>>

Nil == [k |-> "nil"]
Leaf(t) == [k |-> "leaf", tok |-> t]
OpNode(t, l, r) == [k |-> "op", tok |-> t, l |-> l, r |-> r]
FnNode(t, args) == [k |-> "fn", tok |-> t, args |-> args]
QNode(t, n) == [tok |-> t, nargs |-> n]

IsOperatorTok(t) == t.ty \in {"operator-infix", "operator-prefix", "operator-postfix"}
IsPrefixMinus(t) == t.ty = "operator-prefix" /\ t.v = Txt(<<CPMinus>>)

\* precedence and associativity (parser.OPERATORS); every binary operator associates to the left
OpPrec(t) ==
    IF IsPrefixMinus(t) THEN 7
    ELSE LET s == t.v.v IN
         CASE s = <<58>> \/ s = <<>> \/ s = <<cComma>> -> 8          \* :  (intersection)  ,
           [] s = <<cPct>>  -> 6
           [] s = <<94>>    -> 5
           [] s \in {<<42>>, <<47>>} -> 4
           [] s \in {<<43>>, <<45>>} -> 3
           [] s = <<38>>    -> 2
           [] OTHER         -> 1
RightAssoc(t) == IsPrefixMinus(t)
KnownOperator(t) == IsPrefixMinus(t) \/ (t.v.t = "txt" /\ t.v.v \in
    {<<58>>, <<>>, <<cComma>>, <<cPct>>, <<94>>, <<42>>, <<47>>, <<43>>, <<45>>, <<38>>, <<61>>, <<60>>, <<62>>, <<60, 61>>, <<62, 61>>, <<60, 62>>})

(* ---------------------------------------------------------------------- *)
(* Prepare: "(" and ")" of argument lists become tokens of their own       *)
(* ---------------------------------------------------------------------- *)
ArgOpen  == TT(<<cLP>>, "arglist", "start")
ArgClose == TT(<<cRP>>, "arglist", "stop")
RECURSIVE Explicit(_)
Explicit(ts) ==
    IF Len(ts) = 0 THEN <<>>
    ELSE LET t == ts[1] IN
         (CASE t.ty = "function" /\ t.sub = "start" -> <<[t EXCEPT !.sub = ""], ArgOpen>>
            [] t.ty = "function" /\ t.sub = "stop"  -> <<ArgClose>>
            [] t.ty = "subexpression" /\ t.sub = "start" -> <<[t EXCEPT !.v = Txt(<<cLP>>)]>>
            [] t.ty = "subexpression" /\ t.sub = "stop"  -> <<[t EXCEPT !.v = Txt(<<cRP>>)]>>
            [] OTHER -> <<t>>) \o Explicit(Tail(ts))

\* tokens the ":" reassembly pass of the code would touch: a value starting with ":" or containing ":OFFSET" / ":INDEX"
HasSub(s, pat) == \E k \in 1..(Len(s) - Len(pat) + 1) : SubSeq(s, k, k + Len(pat) - 1) = pat
StartsWithColon(t) == t.v.t = "txt" /\ t.sub # "text" /\ Len(t.v.v) > 0
                      /\ (t.v.v[1] = 58 \/ HasSub(t.v.v, <<58, 79, 70, 70, 83, 69, 84>>) \/ HasSub(t.v.v, <<58, 73, 78, 68, 69, 88>>))

ParseInit(ts) == /\ ptoks = ts /\ pi = 1 /\ pout = <<>> /\ pstack = <<>> /\ wv = <<>> /\ ac = <<>> /\ bstack = <<>>
                 /\ pphase = "prepare" /\ pund = FALSE

Prepare == /\ pphase = "prepare"
           /\ ptoks' = Explicit(ptoks)
           /\ pund' = (pund \/ \E k \in 1..Len(ptoks) : StartsWithColon(ptoks[k]))
           /\ pphase' = "yard"
           /\ UNCHANGED <<pi, pout, pstack, wv, ac, bstack>>

(* ---------------------------------------------------------------------- *)
(* the token loop                                                          *)
(* ---------------------------------------------------------------------- *)
PTok == ptoks[pi]
InYard == pphase = "yard" /\ pi <= Len(ptoks)
PTop == pstack[Len(pstack)]
MarkValue(w) == IF Len(w) = 0 THEN w ELSE [w EXCEPT ![Len(w)] = TRUE]
PFail == pphase' = "fail"

\* pop to the output while the top of the stack (a) is not an opening token  (b) is an operator that yields to o1
Yields(o1, o2) == /\ IsOperatorTok(o2) /\ KnownOperator(o2)
                  /\ IF RightAssoc(o1) THEN OpPrec(o1) < OpPrec(o2) ELSE OpPrec(o1) <= OpPrec(o2)
RECURSIVE PopWhileP(_, _, _, _)
PopWhileP(st, o, how, o1) ==     \* -> <<stack, output>>
    IF Len(st) > 0 /\ (IF how = "to-open" THEN st[Len(st)].sub # "start" ELSE Yields(o1, st[Len(st)]))
    THEN PopWhileP(SubSeq(st, 1, Len(st) - 1), Append(o, QNode(st[Len(st)], 0)), how, o1)
    ELSE <<st, o>>

POperand ==
    /\ InYard /\ PTok.ty = "operand"
    /\ pout' = Append(pout, QNode(PTok, 0))
    /\ wv' = MarkValue(wv) /\ pi' = pi + 1
    /\ UNCHANGED <<ptoks, pstack, ac, bstack, pphase, pund>>
PFunction ==
    /\ InYard /\ PTok.ty = "function"
    /\ pstack' = Append(pstack, PTok)
    /\ ac' = Append(ac, 0)
    /\ wv' = Append(MarkValue(wv), FALSE) /\ pi' = pi + 1
    /\ UNCHANGED <<ptoks, pout, bstack, pphase, pund>>
PArgument ==
    /\ InYard /\ PTok.ty = "argument"
    /\ LET r == PopWhileP(pstack, pout, "to-open", Nil) IN
       IF Len(wv) = 0 \/ Len(r[1]) = 0 THEN PFail /\ UNCHANGED <<pout, pstack, wv, ac, pi>>
       ELSE /\ pstack' = r[1] /\ pout' = r[2]
            /\ ac' = IF wv[Len(wv)] /\ Len(ac) > 0 THEN [ac EXCEPT ![Len(ac)] = @ + 1] ELSE ac
            /\ wv' = [wv EXCEPT ![Len(wv)] = FALSE]
            /\ pi' = pi + 1 /\ UNCHANGED pphase
    /\ UNCHANGED <<ptoks, bstack, pund>>
POperator ==
    /\ InYard /\ IsOperatorTok(PTok)
    /\ IF ~KnownOperator(PTok) THEN PFail /\ UNCHANGED <<pout, pstack, pi>>
       ELSE LET o1 == PTok
                r == PopWhileP(pstack, pout, "yield", o1)
            IN pstack' = Append(r[1], o1) /\ pout' = r[2] /\ pi' = pi + 1 /\ UNCHANGED pphase
    /\ UNCHANGED <<ptoks, wv, ac, bstack, pund>>
PStart ==
    /\ InYard /\ PTok.ty \notin {"operand", "function", "argument"} /\ ~IsOperatorTok(PTok) /\ PTok.sub = "start"
    /\ pstack' = Append(pstack, PTok) /\ pi' = pi + 1
    /\ UNCHANGED <<ptoks, pout, wv, ac, bstack, pphase, pund>>
PStop ==
    /\ InYard /\ PTok.ty \notin {"operand", "function", "argument"} /\ ~IsOperatorTok(PTok) /\ PTok.sub = "stop"
    /\ LET r == PopWhileP(pstack, pout, "to-open", Nil) IN
       IF Len(r[1]) = 0 THEN PFail /\ UNCHANGED <<pout, pstack, wv, ac, pi>>
       ELSE LET st == SubSeq(r[1], 1, Len(r[1]) - 1) IN         \* the matching "(" is dropped
            IF Len(st) > 0 /\ st[Len(st)].ty = "function"
            THEN IF Len(ac) = 0 \/ Len(wv) = 0 THEN PFail /\ UNCHANGED <<pout, pstack, wv, ac, pi>>
                 ELSE /\ pout' = Append(r[2], QNode(st[Len(st)], ac[Len(ac)] + (IF wv[Len(wv)] THEN 1 ELSE 0)))
                      /\ pstack' = SubSeq(st, 1, Len(st) - 1)
                      /\ ac' = SubSeq(ac, 1, Len(ac) - 1) /\ wv' = SubSeq(wv, 1, Len(wv) - 1)
                      /\ pi' = pi + 1 /\ UNCHANGED pphase
            ELSE pstack' = st /\ pout' = r[2] /\ pi' = pi + 1 /\ UNCHANGED <<wv, ac, pphase>>
    /\ UNCHANGED <<ptoks, bstack, pund>>
\* a token the loop has no branch for (white space cannot occur; "unknown" tokens of malformed text): skipped
POther ==
    /\ InYard /\ PTok.ty \notin {"operand", "function", "argument"} /\ ~IsOperatorTok(PTok) /\ PTok.sub \notin {"start", "stop"}
    /\ pi' = pi + 1
    /\ UNCHANGED <<ptoks, pout, pstack, wv, ac, bstack, pphase, pund>>
PEndYard ==
    /\ pphase = "yard" /\ pi > Len(ptoks)
    /\ pphase' = "drain"
    /\ UNCHANGED <<ptoks, pi, pout, pstack, wv, ac, bstack, pund>>

PDrainOne ==
    /\ pphase = "drain" /\ Len(pstack) > 0
    /\ IF PTop.sub \in {"start", "stop"} THEN PFail /\ UNCHANGED <<pout, pstack>>
       ELSE pout' = Append(pout, QNode(PTop, 0)) /\ pstack' = SubSeq(pstack, 1, Len(pstack) - 1)
            /\ UNCHANGED pphase
    /\ UNCHANGED <<ptoks, pi, wv, ac, bstack, pund>>
PDrained ==
    /\ pphase = "drain" /\ Len(pstack) = 0
    /\ pphase' = "build" /\ pi' = 1
    /\ UNCHANGED <<ptoks, pout, pstack, wv, ac, bstack, pund>>

(* ---------------------------------------------------------------------- *)
(* construction of the tree from the reverse polish list                   *)
(* ---------------------------------------------------------------------- *)
PBuildOne ==
    /\ pphase = "build" /\ pi <= Len(pout)
    /\ LET q == pout[pi]  n == Len(bstack) IN
       IF IsOperatorTok(q.tok) THEN
            IF q.tok.ty = "operator-infix"
            THEN IF n < 2 THEN PFail /\ UNCHANGED <<bstack, pi>>
                 ELSE bstack' = Append(SubSeq(bstack, 1, n - 2), OpNode(q.tok, bstack[n - 1], bstack[n])) /\ pi' = pi + 1 /\ UNCHANGED pphase
            ELSE IF n < 1 THEN PFail /\ UNCHANGED <<bstack, pi>>
                 ELSE bstack' = Append(SubSeq(bstack, 1, n - 1), OpNode(q.tok, Nil, bstack[n])) /\ pi' = pi + 1 /\ UNCHANGED pphase
       ELSE IF q.tok.ty = "function" THEN
            IF n < q.nargs THEN PFail /\ UNCHANGED <<bstack, pi>>
            ELSE bstack' = Append(SubSeq(bstack, 1, n - q.nargs), FnNode(q.tok, SubSeq(bstack, n - q.nargs + 1, n))) /\ pi' = pi + 1 /\ UNCHANGED pphase
       ELSE bstack' = Append(bstack, Leaf(q.tok)) /\ pi' = pi + 1 /\ UNCHANGED pphase
    /\ UNCHANGED <<ptoks, pout, pstack, wv, ac, pund>>
PBuilt ==
    /\ pphase = "build" /\ pi > Len(pout)
    /\ IF Len(bstack) = 0 THEN PFail ELSE pphase' = "done"
    /\ UNCHANGED <<ptoks, pi, pout, pstack, wv, ac, bstack, pund>>

ParseNext == \/ Prepare \/ POperand \/ PFunction \/ PArgument \/ POperator \/ PStart \/ PStop \/ POther \/ PEndYard
             \/ PDrainOne \/ PDrained \/ PBuildOne \/ PBuilt
ParseFinished == pphase \in {"done", "fail"}
ParseTree == bstack[Len(bstack)]       \* the result: the LAST tree on the stack (build_ast returns stack.pop())

(* ---------------------------------------------------------------------- *)
(* laws of the machine                                                     *)
(* ---------------------------------------------------------------------- *)
\* one flag and one counter per open call, in step
CallFramesInStep == pphase = "yard" => Len(wv) = Len(ac) /\ Len(wv) = Cardinality({k \in 1..Len(pstack) : pstack[k].ty = "function"})
\* the stack never holds an operand, the output never a parenthesis
StackAndOutputKinds ==
    /\ \A k \in 1..Len(pstack) : pstack[k].ty # "operand"
    /\ \A k \in 1..Len(pout) : pout[k].tok.sub \notin {"start", "stop"} \/ pout[k].tok.ty = "operand"
\* every token of the input is consumed at most once: output + stack never exceed what was read
Conservation == pphase = "yard" => Len(pout) + Len(pstack) <= pi - 1
=============================================================================

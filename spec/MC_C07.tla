------------------------------ MODULE MC_C07 ------------------------------
(***************************************************************************)
(* Bounded instance for C07: errors are values that propagate; typed       *)
(* operands never crash.                                                   *)
(*   op-err   every binary operator x position x 7 codes x partner types,  *)
(*            both operands errors (leftmost wins), unary operators        *)
(*   fn-err   every witness of XlSig x every argument / range element      *)
(*            position x 7 codes; pairs of positions (leftmost wins)       *)
(*   types    the 6x6 operand type matrix x every operator: a value or an  *)
(*            Excel error value, never a Python exception                  *)
(*   info     ISERROR / ISERR / ISNA / NA / ISNUMBER / ISTEXT / ISBLANK    *)
(***************************************************************************)
EXTENDS XlErr

VARIABLES case, res
vars == <<case, res>>

Codes == ErrCodeSet
BinF == {"OP_ADD", "OP_SUB", "OP_MUL", "OP_DIV", "OP_POW", "OP_CONCAT", "OP_EQ", "OP_NE", "OP_LT", "OP_GT", "OP_LE", "OP_GE"}
Partners == << Whole(2), Rat(1, 2), Txt(<<97>>), Txt(<<51>>), Bool(TRUE), Blank, Date(44000), Txt(<<>>), Whole(0) >>
NP == Len(Partners)
\* the type matrix also has text that looks like a date or a number but that no date library / double can hold
TypePartners == Partners \o << Txt(<<49, 47, 49, 47>> \o [i \in 1..20 |-> 57]),      \* 1/1/99999999999999999999
                               Txt(<<49, 50, 58>> \o [i \in 1..20 |-> 57]),          \* 12:99999999999999999999
                               Txt(<<49, 101, 57, 57, 57>>) >>                        \* 1e999
NT == Len(TypePartners)
\* the information functions report the type without altering it: text that SPELLS a logical value or a number is text
InfoPartners == Partners \o << Txt(TRUEcodes), Txt(<<102, 97, 108, 115, 101>>), Txt(<<49, 101, 51>>), Whole(1), Bool(FALSE),
                               Txt(<<35, 78, 47, 65>>), Txt(<<35, 110, 47, 97>>), Txt(<<35, 68, 73, 86, 47, 48, 33>>) >>     \* TRUE  false  1e3  1  FALSE  and TEXTS that spell error codes: #N/A  #n/a  #DIV/0!

C(f, a) == [f |-> f, args |-> a]

\* replace argument i / element (r,c) of array argument i by an error
WithErr(args, i, e) == [args EXCEPT ![i] = e]
WithErrAt(args, i, r, c, e) == [args EXCEPT ![i] = Arr([args[i].v EXCEPT ![r] = [args[i].v[r] EXCEPT ![c] = e]])]
\* all injection points of a witness: <<i, 0, 0>> for scalars, <<i, r, c>> for elements of arrays
Points(w) == {<<i, 0, 0>> : i \in {j \in 1..Len(w.args) : w.args[j].t # "arr" /\ w.kinds[j] # "L"}}
        \cup UNION {{<<i, r, c>> : r \in 1..Len(w.args[i].v), c \in 1..Len(w.args[i].v[1])} : i \in {j \in 1..Len(w.args) : w.args[j].t = "arr" /\ w.kinds[j] = "r"}}
Inject(args, p, e) == IF p[2] = 0 THEN WithErr(args, p[1], e) ELSE WithErrAt(args, p[1], p[2], p[3], e)

InitCase ==
  \/ \E f \in BinF, pos \in 1..2, e \in Codes, k \in 1..NP :
        case = C(f, IF pos = 1 THEN <<Err(e), Partners[k]>> ELSE <<Partners[k], Err(e)>>)
  \/ \E f \in BinF, e1 \in Codes, e2 \in Codes : case = C(f, <<Err(e1), Err(e2)>>)
  \/ \E f \in {"OP_NEG", "OP_PERCENT"}, e \in Codes : case = C(f, <<Err(e)>>)
  \/ \E f \in BinF, i \in 1..NT, j \in 1..NT : case = C(f, <<TypePartners[i], TypePartners[j]>>)
  \/ \E f \in {"OP_NEG", "OP_PERCENT"}, i \in 1..NT : case = C(f, <<TypePartners[i]>>)
  \/ \E w \in 1..Len(Witness), e \in Codes : \E p \in Points(Witness[w]) :
        case = C(Witness[w].f, Inject(Witness[w].args, p, Err(e)))
  \/ \E w \in 1..Len(Witness), e1 \in {"#N/A", "#DIV/0!"}, e2 \in {"#VALUE!", "#N/A"} : \E p \in Points(Witness[w]), q \in Points(Witness[w]) :
        /\ p # q
        /\ case = C(Witness[w].f, Inject(Inject(Witness[w].args, p, Err(e1)), q, Err(e2)))
  \* AND / OR over ONE range holding an error value (before / after the element that decides the truth value)
  \/ \E f \in {"AND", "OR"}, e \in Codes, pos \in 1..3, tv \in BOOLEAN :
        case = C(f, <<Arr(<<[i \in 1..3 |-> IF i = pos THEN Err(e) ELSE Bool(tv)]>>)>>)
  \/ \E f \in {"ISERROR", "ISERR", "ISNA"}, e \in Codes : case = C(f, <<Err(e)>>)
  \/ \E f \in {"ISERROR", "ISERR", "ISNA", "ISNUMBER", "ISTEXT", "ISBLANK"}, i \in 1..Len(InfoPartners) : case = C(f, <<InfoPartners[i]>>)
  \/ case = C("NA", <<>>)

Pending == [t |-> "pending"]
Init == InitCase /\ res = Pending
CallStep == res = Pending /\ res' = ErrCall(case.f, case.args) /\ UNCHANGED case
Next == CallStep
Spec == Init /\ [][Next]_vars

Done == res # Pending
Flat == FlatArgs(case.args)
\* laws of the specification itself
LawLeftmost == (Done /\ case.f \notin InfoFuncs /\ case.f \notin ErrorOpaque /\ FirstErr(Flat).t = "err") => (res = FirstErr(Flat) \/ res = AnyErr)
\* strict-error monotonicity: the result of a call with an error argument is that error or an earlier one
LawErrorIsAnArgument == (Done /\ res.t = "err" /\ case.f \notin InfoFuncs /\ FirstErr(Flat).t = "err") => \E i \in 1..Len(Flat) : SameVal(Flat[i], res)
LawInfoBool == (Done /\ case.f \in InfoFuncs /\ case.f # "NA") => res.t \in {"bool", "open"}
LawISERRsplit == (Done /\ case.f = "ISERROR" /\ case.args[1].t = "err") =>
                   (res = Bool(TRUE) /\ (InfoCall("ISERR", case.args) = Bool(TRUE)) # (InfoCall("ISNA", case.args) = Bool(TRUE)))
LawNeverOpenOnError == (Done /\ FirstErr(Flat).t = "err" /\ case.f \notin ErrorOpaque /\ case.f \notin InfoFuncs) => res.t \in {"err", "anyerr"}
=============================================================================

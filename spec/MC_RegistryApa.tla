--------------------------- MODULE MC_RegistryApa ---------------------------
(* Apalache instance of XlRegistryCore:                                                                   *)
(*   apalache-mc check --cinit=ConstInit --init=Init    --inv=SnapshotInv --length=0                      *)
(*   apalache-mc check --cinit=ConstInit --init=IndInit --inv=SnapshotInv --length=1                      *)
EXTENDS XlRegistryCore, Apalache
ConstInit == FNames = {"F", "G"} /\ Evs = {1, 2, 3}
IndInit == /\ registry = Gen(2) /\ ns = Gen(3) /\ live = Gen(3) /\ bound = Gen(2) /\ perNode \in BOOLEAN
           /\ SnapshotInv
\* a broken inductive candidate (without the bound on per-node bindings) must be refuted: non-vacuity of the inductive step
WeakInv == \A e \in Evs, f \in FNames : ns[e][f] <= registry[f]
BoundInv == \A f \in FNames : bound[f] <= registry[f]
WeakInit == /\ registry = Gen(2) /\ ns = Gen(3) /\ live = Gen(3) /\ bound = Gen(2) /\ perNode \in BOOLEAN
            /\ BoundInv
            /\ DOMAIN registry = FNames /\ DOMAIN bound = FNames /\ DOMAIN ns = Evs /\ (\A e \in Evs : DOMAIN ns[e] = FNames) /\ live \subseteq Evs
=============================================================================

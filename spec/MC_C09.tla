------------------------------ MODULE MC_C09 ------------------------------
(***************************************************************************)
(* Bounded instance for C09: the six comparison operators implement one    *)
(* total order.  Every ordered pair of a value set (ints, fractions,       *)
(* negatives, zero, dates, texts incl. empty / numeric-looking / case      *)
(* variants / prefixes, booleans, blank) through each operator; every      *)
(* triple for transitivity.  The order laws are invariants of the SPEC, so *)
(* the oracle is known to be a total order before the code is compared.    *)
(***************************************************************************)
EXTENDS XlFuncs

VARIABLES case, res
vars == <<case, res>>

T(s) == Txt(s)
Vals == << Whole(0), Whole(1), Whole(-2), Whole(10), Rat(1, 2), Rat(-5, 2), Whole(44000),
           Date(61), Date(44000), DateT(44000, 1, 2),
           T(<<>>), T(<<49>>), T(<<49, 48>>), T(<<97>>), T(<<65>>), T(<<97, 98>>), T(<<98>>), T(<<116, 114, 117, 101>>),
           T(<<70, 65, 76, 83, 69>>), T(<<32>>), T(<<233>>), T(<<97, 45, 98>>), T(<<97, 39, 98>>), T(<<45>>),      \* a-b  a'b  -
           T(<<50, 48, 50, 48, 45, 48, 49, 45, 48, 49>>),                                                         \* 2020-01-01: a text, whatever it is compared with
           Bool(TRUE), Bool(FALSE), Blank >>
NV == Len(Vals)
\* dates before the fictitious 29 Feb 1900 against the numbers around their serials
EarlyDates == << Date(1), Date(31), Date(59) >>
NearNums   == << Whole(1), Whole(2), Whole(31), Whole(32), Whole(59), Whole(60), Rat(119, 2), Whole(61) >>
CmpF == {"OP_EQ", "OP_NE", "OP_LT", "OP_GT", "OP_LE", "OP_GE"}

InitCase ==
  \/ \E i \in 1..NV, j \in 1..NV, f \in CmpF : case = [f |-> f, args |-> <<Vals[i], Vals[j]>>, third |-> Blank]
  \/ \E i \in 1..Len(EarlyDates), j \in 1..Len(NearNums), f \in CmpF, sw \in BOOLEAN :
        case = [f |-> f, args |-> IF sw THEN <<NearNums[j], EarlyDates[i]>> ELSE <<EarlyDates[i], NearNums[j]>>, third |-> Blank]
  \/ \E i \in 1..NV, j \in 1..NV, k \in 1..NV : case = [f |-> "OP_LT", args |-> <<Vals[i], Vals[j]>>, third |-> Vals[k]]

Pending == [t |-> "pending"]
Init == InitCase /\ res = Pending
Compare == res = Pending /\ res' = Call(case.f, case.args) /\ UNCHANGED case
Next == Compare
Spec == Init /\ [][Next]_vars

A == case.args[1]   B == case.args[2]   C3 == case.third
NonBlank(x) == x.t # "blank"
Holds(op, x, y) == OpCmp(op, x, y) = Bool(TRUE)
Fails(op, x, y) == OpCmp(op, x, y) = Bool(FALSE)
Det(x, y) == OpCmp("=", x, y).t = "bool" /\ OpCmp("<", x, y).t = "bool"

\* exactly one of a<b, a=b, a>b
LawTrichotomy == (NonBlank(A) /\ NonBlank(B)) =>
    /\ Det(A, B)
    /\ Cardinality({op \in {"<", "=", ">"} : Holds(op, A, B)}) = 1
LawDerived == (NonBlank(A) /\ NonBlank(B)) =>
    /\ Holds("<=", A, B) <=> (Holds("<", A, B) \/ Holds("=", A, B))
    /\ Holds(">=", A, B) <=> (Holds(">", A, B) \/ Holds("=", A, B))
    /\ Holds("<>", A, B) <=> ~Holds("=", A, B)
    /\ Holds("<", A, B) <=> Holds(">", B, A)
LawTransitive == (NonBlank(A) /\ NonBlank(B) /\ NonBlank(C3)) =>
    ((Holds("<", A, B) /\ Holds("<", B, C3)) => Holds("<", A, C3))
LawRank == (NonBlank(A) /\ NonBlank(B)) =>
    /\ (A.t \in {"num", "date"} /\ B.t = "txt") => Holds("<", A, B)
    /\ (A.t = "txt" /\ B.t = "bool") => Holds("<", A, B)
    /\ (A.t \in {"num", "date"} /\ B.t = "bool") => Holds("<", A, B)
    /\ (A = Bool(FALSE) /\ B = Bool(TRUE)) => Holds("<", A, B)
LawCaseInsensitive == (A.t = "txt" /\ B.t = "txt" /\ UpperSeq(A.v) = UpperSeq(B.v)) => Holds("=", A, B)
LawBlank == /\ (A.t = "blank" /\ B = Whole(0)) => Holds("=", A, B) /\ Holds("=", B, A)
            /\ (A.t = "blank" /\ B = T(<<>>)) => Holds("=", A, B) /\ Holds("=", B, A)
            /\ (A.t = "blank" /\ B = Bool(FALSE)) => Holds("=", A, B) /\ Holds("=", B, A)
            /\ (A.t = "blank" /\ B.t = "blank") => Holds("=", A, B) /\ Fails("<>", A, B)
LawResultBool == res # Pending => res.t \in {"bool", "open"}
=============================================================================

------------------------------ MODULE MC_C20 ------------------------------
(***************************************************************************)
(* Bounded instance for C20: a grid of rates across (-0.9, 10], every cash *)
(* flow vector over {-100,-10,0,10,60,100} up to MaxN, (rate, nper, pv,    *)
(* fv, type) and (cost, salvage, life) grids, date vectors at whole-year   *)
(* and broken offsets.  IRR / XIRR cases are built BY CONSTRUCTION: the    *)
(* root R and all flows but the first are chosen and the first flow is     *)
(* c0 = -sum c_i/(1+R)^i, so that NPV(R, c) = 0 exactly.                   *)
(* Each case is a two-state behaviour pending -> done; the laws of the     *)
(* property are invariants of the done states; the dump of the done states *)
(* is the replay table for the implementation.                             *)
(***************************************************************************)
EXTENDS XlFin

CONSTANTS FullN,       \* NPV: every vector over the six flow values up to this length
          MaxN,        \* longest flow vector for NPV (four flow values beyond FullN) / IRR
          MaxI,        \* IRR: longest vector of chosen flows after the computed first one
          MaxX,        \* longest flow vector for XNPV / XIRR
          MaxPer       \* largest nper

VARIABLES case, res
vars == <<case, res>>

Rates    == {Rat(-1, 2), Rat(-1, 10), Zero, Rat(1, 20), Rat(1, 10), Rat(1, 4), One, Whole(3), Whole(10)}
PosRates == {Rat(1, 20), Rat(1, 10), Rat(1, 4), One, Whole(3), Whole(10)}
FlowVals == {-100, -10, 0, 10, 60, 100}
Amounts  == {-100, -10, 10, 60, 100}
FvVals   == {-100, 0, 60}

W(v) == [i \in 1..Len(v) |-> Whole(v[i])]
Col(xs) == Arr([i \in 1..Len(xs) |-> <<xs[i]>>])
Row(xs) == Arr(<<xs>>)
Dates(base, offs) == [i \in 1..Len(offs) |-> Date(base + offs[i])]

\* day offsets from the first date: whole years (exact in TLC) and broken ones
YearOffs(k) == {o \in [1..k -> {0, 365, 730, 1095, 1460}] : o[1] = 0 /\ \A i \in 1..(k - 1) : o[i] < o[i + 1]}
OddOffs(k)  == {o \in [1..k -> {0, 1, 100, 366, 1000}] : o[1] = 0 /\ \A i \in 1..(k - 1) : o[i] < o[i + 1]}
Bases == {43831, 36526}        \* 2020-01-01, 2000-01-01

NoRoot == [t |-> "none"]
C(f, a) == [f |-> f, args |-> a, root |-> NoRoot]
CR(f, a, r) == [f |-> f, args |-> a, root |-> r]

\* first flow making r a root of the flows <<c0>> \o v at whole-year exponents es
C0(r, v, es) == FNeg(DiscSum(r, v, es))

InitCase ==
  \/ \E r \in Rates, k \in 1..FullN : \E v \in [1..k -> FlowVals] : case = C("NPV", <<r>> \o W(v))
  \/ \E r \in Rates, k \in (FullN + 1)..MaxN : \E v \in [1..k -> {-100, 0, 10, 60}] : case = C("NPV", <<r>> \o W(v))
  \/ \E r \in Rates, v \in [1..2 -> {Rat(1, 3), Rat(-5, 2), Rat(1001, 100)}] : case = C("NPV", <<r>> \o v)
  \/ \E r \in Rates, n \in 1..MaxPer, pv \in Amounts : case = C("PMT", <<r, Whole(n), Whole(pv)>>)
  \/ \E r \in Rates, n \in 1..MaxPer, pv \in Amounts, fv \in FvVals : case = C("PMT", <<r, Whole(n), Whole(pv), Whole(fv)>>)
  \/ \E r \in Rates, n \in 1..MaxPer, pv \in Amounts, fv \in FvVals, ty \in {0, 1} :
        case = C("PMT", <<r, Whole(n), Whole(pv), Whole(fv), Whole(ty)>>)        \* ty = 1 is left open
  \/ \E r \in Rates, n \in 1..MaxPer, p \in Amounts : case = C("PV", <<r, Whole(n), Whole(p)>>)
  \/ \E r \in Rates, n \in 1..MaxPer, p \in Amounts \cup {0}, fv \in FvVals : case = C("PV", <<r, Whole(n), Whole(p), Whole(fv)>>)
  \/ \E r \in Rates, n \in 1..MaxPer, p \in Amounts \cup {0}, fv \in FvVals, ty \in {0, 1} :
        case = C("PV", <<r, Whole(n), Whole(p), Whole(fv), Whole(ty)>>)
  \/ \E c \in {0, 100, 1000, 2500}, s \in {0, 100, 250},
        l \in {Whole(-1), Zero, One, Whole(3), Whole(7), Whole(10), Rat(5, 2), Rat(1, 2)} :
        case = C("SLN", <<Whole(c), Whole(s), l>>)                                 \* life <= 0 is left open
  \/ \E c \in {Rat(2501, 2), Rat(-10, 3)}, s \in {Rat(1, 4), Whole(100)}, l \in {Whole(3), Rat(5, 2)} :
        case = C("SLN", <<c, s, l>>)
  \/ \E r \in Rates, k \in 1..2, b \in Bases : \E o \in YearOffs(k) \cup OddOffs(k), v \in [1..k -> FlowVals] :
        case = C("XNPV", <<r, Col(W(v)), Col(Dates(b, o))>>)
  \/ \E r \in Rates, k \in 3..MaxX : \E o \in YearOffs(k) \cup OddOffs(k), v \in [1..k -> {-100, 0, 60}] :
        case = C("XNPV", <<r, Col(W(v)), Col(Dates(43831, o))>>)
  \/ \E r \in Rates, o \in YearOffs(3), v \in [1..3 -> {-100, 10, 60}] :
        case = C("XNPV", <<r, Row(W(v)), Row(Dates(43831, o))>>)
  \* the flows in a row and the dates in a column (and the other way round): the pairing is by position, not by orientation
  \/ \E r \in Rates, o \in YearOffs(3) \cup OddOffs(3), v \in [1..3 -> {-100, 10, 60}], sw \in BOOLEAN :
        case = C("XNPV", IF sw THEN <<r, Row(W(v)), Col(Dates(43831, o))>> ELSE <<r, Col(W(v)), Row(Dates(43831, o))>>)
  \* IRR by construction: root r, flows v chosen, first flow computed
  \/ \E r \in PosRates, k \in 1..MaxI : \E v \in [1..k -> FlowVals] :
        LET c0 == C0(r, W(v), [i \in 1..k |-> i])
        IN c0.t = "num" /\ case = CR("IRR", <<Col(<<c0>> \o W(v))>>, r)
  \/ \E r \in PosRates, v \in [1..3 -> {0, 10, 60}] :
        LET c0 == C0(r, W(v), <<1, 2, 3>>)
        IN c0.t = "num" /\ case = CR("IRR", <<Row(<<c0>> \o W(v))>>, r)
  \* XIRR by construction on whole-year dates (gaps allowed)
  \/ \E r \in PosRates, k \in 2..MaxX, b \in Bases : \E o \in YearOffs(k), v \in [1..(k - 1) -> FlowVals] :
        LET c0 == C0(r, W(v), [i \in 1..(k - 1) |-> o[i + 1] \div 365])
        IN c0.t = "num" /\ case = CR("XIRR", <<Col(<<c0>> \o W(v)), Col(Dates(b, o))>>, r)

Pending == [t |-> "pending"]

Init == InitCase /\ res = Pending
Call == res = Pending /\ res' = FinCall(case.f, case.args) /\ UNCHANGED case
Next == Call
Spec == Init /\ [][Next]_vars

Done == res # Pending
A == case.args
F == case.f
Got == Done /\ res.t = "num"
Same(x, y) == BothNum(x, y) => x = y         \* equal wherever both sides are computable

\* --- the consequences stated by the property, as invariants of the spec ---
Shift(cs) == [i \in 1..Len(cs) |-> Whole(10 * i - 20)]
Const(cs) == [i \in 1..Len(cs) |-> Rat(7, 2)]
Rev(cs)   == [i \in 1..Len(cs) |-> cs[Len(cs) + 1 - i]]
Plus(cs, ds) == [i \in 1..Len(cs) |-> FAdd(cs[i], ds[i])]
Times(k, cs) == [i \in 1..Len(cs) |-> FMul(k, cs[i])]

LawNpvLinear == \* NPV(r, c + d) = NPV(r, c) + NPV(r, d) and NPV(r, k c) = k NPV(r, c)
    (Got /\ F = "NPV") =>
       LET r == A[1]  cs == Tail(A) IN
       /\ \A ds \in {Shift(cs), Const(cs), Rev(cs)} : Same(NpvV(r, Plus(cs, ds)), FAdd(res, NpvV(r, ds)))
       /\ \A k \in {Whole(-3), Rat(1, 2), Zero} : Same(NpvV(r, Times(k, cs)), FMul(k, res))
LawXnpvLinear ==
    (Got /\ F = "XNPV") =>
       LET r == A[1]  vs == Flat(A[2])  ds == Serials(Flat(A[3])) IN
       /\ \A ws \in {Shift(vs), Const(vs), Rev(vs)} : Same(XnpvV(r, Plus(vs, ws), ds), FAdd(res, XnpvV(r, ws, ds)))
       /\ \A k \in {Whole(-3), Rat(1, 2), Zero} : Same(XnpvV(r, Times(k, vs), ds), FMul(k, res))
LawXnpvYearly == \* on consecutive whole years XNPV is NPV with the first flow undiscounted
    (Got /\ F = "XNPV" /\ \A i \in 1..Len(Flat(A[3])) : Flat(A[3])[i].s - Flat(A[3])[1].s = 365 * (i - 1))
       => Same(res, Npv0V(A[1], Flat(A[2])))

Fv == IF Len(A) >= 4 THEN A[4] ELSE Zero
Ty == IF Len(A) = 5 THEN A[5].n ELSE 0
LawPvOfPmt == \* PV(r, n, PMT(r, n, pv)) = pv, and with a future value
    (Got /\ F = "PMT") =>
       /\ Len(A) = 3 => Same(FinCall("PV", <<A[1], A[2], res>>), A[3])
       /\ Same(FinCall("PV", <<A[1], A[2], res, Fv>>), A[3])
       /\ Same(FinCall("PV", <<A[1], A[2], res, Fv, Zero>>), A[3])
LawPmtOfPv == \* PMT(r, n, PV(r, n, pmt, fv), fv) = pmt (period end)
    (Got /\ F = "PV" /\ Ty = 0) => Same(FinCall("PMT", <<A[1], A[2], res, Fv>>), A[3])
LawRate0 == \* at rate 0 the functions reduce to plain sums
    (Got /\ F \in {"NPV", "PMT", "PV", "XNPV"} /\ A[1] = Zero) =>
       CASE F = "NPV"  -> res = FSum(Tail(A))
         [] F = "XNPV" -> res = FSum(Flat(A[2]))
         [] F = "PMT"  -> FAdd(FMul(res, A[2]), FAdd(A[3], Fv)) = Zero      \* n pmt + pv + fv = 0
         [] F = "PV"   -> FAdd(res, FAdd(FMul(A[3], A[2]), Fv)) = Zero      \* pv + n pmt + fv = 0
\* the annuity closed forms mean what they say: the flows of the loan have NPV 0
AnnuityFlows(first, pmt, n, fv, ty) == \* times 0..n
    [i \in 1..(n + 1) |-> FAdd(FAdd(IF i = 1 THEN first ELSE Zero,
                                    IF (ty = 0 /\ i >= 2) \/ (ty = 1 /\ i <= n) THEN pmt ELSE Zero),
                               IF i = n + 1 THEN fv ELSE Zero)]
LawAnnuityIsNpv ==
    /\ (Got /\ F = "PV")  => Same(Npv0V(A[1], AnnuityFlows(res, A[3], A[2].n, Fv, Ty)), Zero)
    /\ (Got /\ F = "PMT") => Same(Npv0V(A[1], AnnuityFlows(A[3], res, A[2].n, Fv, 0)), Zero)

LawGrid == Rates \cup RootGrid
Npv0Of(r) == IF F = "IRR" THEN Npv0V(r, Flat(A[1])) ELSE XnpvV(r, Flat(A[1]), Serials(Flat(A[2])))
NpvOnGrid == [r \in LawGrid |-> Npv0Of(r)]
LawRootUnique == \* the result is a root; NPV is positive below it and negative above it
    (Got /\ F \in {"IRR", "XIRR"}) =>
       LET vals == NpvOnGrid IN
       \A r \in LawGrid : LET v == vals[r] IN
          v.t = "num" => /\ (r = res => v.n = 0)
                         /\ (FLess(r, res) => v.n > 0)
                         /\ (FLess(res, r) => v.n < 0)
LawRootMonotone == \* with a single outlay made now NPV is strictly decreasing in the rate
    (Got /\ F \in {"IRR", "XIRR"} /\ SingleOutlay(Flat(A[1]))) =>
       LET vals == NpvOnGrid IN
       \A r1, r2 \in LawGrid :
          (FLess(r1, r2) /\ BothNum(vals[r1], vals[r2])) => FSign(FSub(vals[r2], vals[r1])) \in {-1, 2}
LawRootConstructed == \* the constructed root is the one the specification expects
    (Done /\ case.root # NoRoot) =>
       /\ FinDomain(F, A) => res = case.root
       /\ ~FinDomain(F, A) => res = Open
LawSln == (Got /\ F = "SLN") => Same(FAdd(FMul(res, A[3]), A[2]), A[1])    \* life * SLN + salvage = cost
LawOpenOutside == Done => (FinDomain(F, A) \/ res = Open)
LawResultType == Done => res.t \in {"num", "open"}
=============================================================================

------------------------------ MODULE MC_C19 ------------------------------
(***************************************************************************)
(* Bounded instance for C19.                                               *)
(*  A  EVERY integer -Hi..Hi (a superset of the binary window -512..511) x *)
(*     every `places` in {omitted, 0..11} x all twelve functions, the      *)
(*     source spelt canonically, in lower case, with leading zeros and as  *)
(*     a number.  Inputs and the expected outcome (LawIntArith) are built  *)
(*     with plain 32-bit integer arithmetic, independently of the bit and  *)
(*     digit-sequence machinery of XlBits.                                 *)
(*  B  +-2^k + d for every k in KLo..KHi: |d| <= Edge at the window edges  *)
(*     k = 9, 29, 39 (40) and the machine-word edges 31, 32, |d| <= 1 at   *)
(*     the other powers (AllEdges: |d| <= Edge everywhere), as decimals    *)
(*     and as digit strings.                                               *)
(*  C  NSample pseudo-random 40-bit and 30-bit patterns with a random run  *)
(*     of sign bits on the left, through all twelve functions.             *)
(*  D  every class of invalid input.                                       *)
(* Each case is a behaviour descriptor/pending -> case/done: the initial    *)
(* state only names the case, the Call step builds its arguments and the   *)
(* expected result; the laws of the property are invariants of the done    *)
(* states; the dump of the done states is the replay table.                *)
(***************************************************************************)
EXTENDS XlBits

CONSTANTS AllEdges,        \* TRUE: |d| <= Edge around every power of two
          Hi,              \* part A covers -Hi..Hi
          KLo, KHi, Edge,  \* part B: 4 <= KLo, Edge <= 8
          NSample, Seed    \* part C

VARIABLES case, res
vars == <<case, res>>

NoInt == 99999
NoP   == 99
C(f, a)     == [f |-> f, args |-> a, n |-> NoInt]
CN(f, a, n) == [f |-> f, args |-> a, n |-> n]
NoCase == [f |-> "none"]
PArgs(p) == IF p = NoP THEN <<>> ELSE <<Whole(p)>>

DecSrc  == {"DEC2BIN", "DEC2OCT", "DEC2HEX"}
BaseSrc == BitsFuncs \ DecSrc
PlacesAll == {NoP} \cup 0..11
PlacesFew == {NoP, 1, 9, 10, 11}
PlacesFor(f, P) == IF Dst(f) = "DEC" THEN {NoP} ELSE P

(* ---- part A: inputs by integer arithmetic (|n| < 2^28) ------------------ *)
RECURSIVE IntDigitsK(_, _, _)      \* exactly k digits of u >= 0 in radix r
IntDigitsK(u, r, k) == IF k = 0 THEN <<>> ELSE Append(IntDigitsK(u \div r, r, k - 1), DigitCP(u % r))
IntRepr(n, base) ==
    IF n >= 0 THEN StripCP0(IntDigitsK(n, Radix(base), 10))
    ELSE CASE base = "BIN" -> IntDigitsK(n + 1024, 2, 10)
           [] base = "OCT" -> IntDigitsK(n + 1073741824, 8, 10)
           [] base = "HEX" -> <<70, 70, 70>> \o IntDigitsK(n + 268435456, 16, 7)
InWin(n, b) == CASE b = "BIN" -> n >= -512 /\ n <= 511 [] OTHER -> TRUE       \* |n| < 2^28
Spellable(n, b) == InWin(n, b)      \* n has a 10-digit spelling in base b

\* a digit string that happens to be decimal, as the number it spells
NumOfCodes(s) == IF Len(s) <= 9 THEN Whole(DigitsToNat(s)) ELSE Dec(FALSE, Force([i \in 1..Len(s) |-> s[i] - CP0]))

\* Initial states are small descriptors; the (expensive) construction of the
\* arguments happens in the Call step, which TLC distributes over its workers.
InitA ==
  \/ \E f \in DecSrc, n \in (-Hi)..Hi, p \in PlacesAll : case = [g |-> "A.int", f |-> f, n |-> n, p |-> p]
  \/ \E f \in BaseSrc, n \in (-Hi)..Hi : \E p \in PlacesFor(f, PlacesAll) : case = [g |-> "A.txt", f |-> f, n |-> n, p |-> p]
  \/ \E f \in BaseSrc, n \in (-Hi)..Hi : \E p \in PlacesFor(f, {NoP, 4}) : case = [g |-> "A.num", f |-> f, n |-> n, p |-> p]
  \/ \E f \in {"HEX2DEC", "HEX2BIN", "HEX2OCT"}, n \in (-Hi)..Hi : \E p \in PlacesFor(f, {NoP, 10}) :
        case = [g |-> "A.lower", f |-> f, n |-> n, p |-> p]
  \/ \E f \in BaseSrc, n \in 0..Hi, k \in {1, 10} : \E p \in PlacesFor(f, {NoP, 10}) :
        case = [g |-> "A.lead0", f |-> f, n |-> n, p |-> p, k |-> k]
  \/ \E f \in DecSrc, n \in (-Hi)..Hi : case = [g |-> "A.decrec", f |-> f, n |-> n, p |-> NoP]

BuildA(c) ==
    LET s == IntRepr(c.n, Src(c.f)) IN
    IF c.g \notin {"A.int", "A.decrec"} /\ ~Spellable(c.n, Src(c.f)) THEN NoCase
    ELSE IF c.g = "A.num" /\ ~AllDigits(s) THEN NoCase
    ELSE
    CASE c.g = "A.int"    -> CN(c.f, <<Whole(c.n)>> \o PArgs(c.p), c.n)
      [] c.g = "A.txt"    -> CN(c.f, <<Txt(s)>> \o PArgs(c.p), c.n)
      [] c.g = "A.num"    -> CN(c.f, <<NumOfCodes(s)>> \o PArgs(c.p), c.n)        \* the digit string given as a number
      [] c.g = "A.lower"  -> CN(c.f, <<Txt(LowerSeq(s))>> \o PArgs(c.p), c.n)     \* lower-case hexadecimal digits are valid
      [] c.g = "A.lead0"  -> CN(c.f, <<Txt(Pad0(s, IF c.k = 1 THEN Len(s) + 1 ELSE 10))>> \o PArgs(c.p), c.n)
      [] c.g = "A.decrec" -> CN(c.f, <<DecOfInt(c.n)>>, c.n)       \* the spelling large decimal numbers use

(* ---- part B: +-2^k + d ------------------------------------------------- *)
BitsOfNat(v, k) == Force([i \in 1..k |-> IF k - i > 15 THEN 0 ELSE (v \div Pow2(k - i)) % 2])     \* v < 2^16
MagPow(k, d) == \* bits of 2^k + d, most significant first
    IF d >= 0 THEN <<1>> \o BitsOfNat(d, k)
    ELSE Force([i \in 1..k |-> IF i <= k - 3 THEN 1 ELSE BitsOfNat(8 + d, 3)[i - (k - 3)]])
PowDec(neg, k, d) == Dec(neg, MagToDigits(MagPow(k, d)))
Spelt(x, base) == \* the digit string of decimal x in base, if x is in that window
    LET r == DecToBits(x.neg, x.dg, Width(base)) IN
    IF r.ok THEN Render(r.b, base, 0) ELSE Open

\* |d| <= Edge around the window edges and the machine-word edges, |d| <= 1 around every other power of two
Near(k, d) == k \in {9, 29, 31, 32, 39, 40} \/ Abs(d) <= 1 \/ AllEdges
InitB ==
  \/ \E f \in DecSrc, neg \in BOOLEAN, k \in KLo..KHi, d \in (-Edge)..Edge, p \in PlacesFew :
        Near(k, d) /\ case = [g |-> "B.dec", f |-> f, neg |-> neg, k |-> k, d |-> d, p |-> p]
  \/ \E f \in BaseSrc, neg \in BOOLEAN, k \in KLo..KHi, d \in (-Edge)..Edge : \E p \in PlacesFor(f, PlacesFew) :
        Near(k, d) /\ case = [g |-> "B.txt", f |-> f, neg |-> neg, k |-> k, d |-> d, p |-> p]
  \* the same digit strings as numbers (octal strings are decimal digit strings)
  \/ \E f \in {"OCT2DEC", "OCT2BIN", "OCT2HEX"}, neg \in BOOLEAN, k \in KLo..KHi, d \in {-1, 0, 1} :
        case = [g |-> "B.num", f |-> f, neg |-> neg, k |-> k, d |-> d, p |-> NoP]

BuildB(c) ==
    LET x == PowDec(c.neg, c.k, c.d) IN
    IF c.g = "B.dec" THEN C(c.f, <<x>> \o PArgs(c.p))
    ELSE LET s == Spelt(x, Src(c.f)) IN
         IF s.t # "txt" THEN NoCase                       \* outside the window of the source base
         ELSE IF c.g = "B.txt" THEN C(c.f, <<s>> \o PArgs(c.p))
         ELSE C(c.f, <<NumOfCodes(s.v)>>)

(* ---- part C: pseudo-random patterns ------------------------------------ *)
Word(i, j) == LET a == ((i * 4 + j) * 25173 + 13849 + Seed) % 65536
              IN ((a * 1103 + 12345) % 65536) \div 4            \* 14 bits
Pattern(i, W) ==
    LET run == Word(i, 3) % W              \* length of the run of sign bits on the left
        s   == (Word(i, 3) \div 64) % 2
    IN Force([q \in 1..W |-> IF q <= run + 1 THEN s
                             ELSE (Word(i, (q - 1) \div 14) \div Pow2((q - 1) % 14)) % 2])

InitC ==
  \/ \E i \in 1..NSample, f \in BaseSrc \ {"BIN2DEC", "BIN2OCT", "BIN2HEX"} : \E p \in PlacesFor(f, {NoP, 10}) :
        case = [g |-> "C.txt", f |-> f, i |-> i, p |-> p]
  \/ \E i \in 1..NSample, W \in {30, 40}, f \in DecSrc, p \in {NoP, 10} :
        case = [g |-> "C.dec", f |-> f, i |-> i, p |-> p, w |-> W]

BuildC(c) ==
    CASE c.g = "C.txt" -> C(c.f, <<Render(Pattern(c.i, Width(Src(c.f))), Src(c.f), 0)>> \o PArgs(c.p))
      [] c.g = "C.dec" -> C(c.f, <<BitsToDec(Pattern(c.i, c.w))>> \o PArgs(c.p))

(* ---- part D: invalid input --------------------------------------------- *)
BadStrings == <<  <<50>>, <<56>>, <<57>>, <<71>>, <<103>>, <<46>>, <<49, 46, 48>>, <<49, 46>>, <<46, 49>>,
               <<45, 49>>, <<43, 49>>, <<32, 49>>, <<49, 32>>, <<32>>, <<49, 32, 49>>,
               <<48, 48, 48, 48, 48, 48, 48, 48, 48, 48, 49>>, <<49, 49, 49, 49, 49, 49, 49, 49, 49, 49, 49>>,
               <<49, 48, 50>>, <<49, 55, 56>>, <<49, 70, 71>>, <<49, 102, 103>>, <<48, 120, 49>>, <<49, 101, 49>>,
               <<49, 44, 48>>, <<65>>, <<97>>, <<70, 102>>, <<97, 66, 99>>, <<55>>, <<49>>, <<48>>, <<>>  >>
\* tuples, not sets: TLC cannot order records of different value kinds
NonText == << Whole(-1), Whole(-10), Rat(3, 2), Rat(1, 2), Rat(-1, 2), Rat(21, 2),
              Dec(FALSE, <<1, 1, 1, 1, 1, 1, 1, 1, 1, 1, 1>>), Dec(FALSE, <<1, 0, 0, 0, 0, 0, 0, 0, 0, 0, 0>>),
              Dec(TRUE, <<1, 0>>), Bool(TRUE), Bool(FALSE), Blank >>
DecOdd == << Bool(TRUE), Bool(FALSE), Blank, Txt(<<>>), Txt(<<65>>), Txt(<<45, 65>>),
             Txt(<<102, 111, 111>>), Txt(<<49, 48>>), Rat(9, 2), Rat(-9, 2) >>
PlacesBad == << Whole(-1), Whole(0), Whole(11), Whole(12), Whole(100), Whole(-100), Bool(TRUE), Bool(FALSE),
                Rat(5, 2), Txt(<<51>>) >>       \* the last two: left open

InitD ==
  \/ \E f \in BaseSrc, i \in 1..Len(BadStrings) : \E p \in PlacesFor(f, {NoP, 3, 0}) : case = [g |-> "D.str", f |-> f, i |-> i, p |-> p]
  \/ \E f \in BaseSrc, i \in 1..Len(NonText) : \E p \in PlacesFor(f, {NoP, 3, 0}) : case = [g |-> "D.non", f |-> f, i |-> i, p |-> p]
  \/ \E f \in DecSrc, i \in 1..Len(DecOdd), p \in {NoP, 3, 0, 11} : case = [g |-> "D.dec", f |-> f, i |-> i, p |-> p]
  \/ \E f \in BitsFuncs \ {"BIN2DEC", "OCT2DEC", "HEX2DEC"}, n \in {0, 5, -1, -3}, i \in 1..Len(PlacesBad) :
        case = [g |-> "D.places", f |-> f, i |-> i, n |-> n]

BuildD(c) ==
    CASE c.g = "D.str" -> C(c.f, <<Txt(BadStrings[c.i])>> \o PArgs(c.p))
      [] c.g = "D.non" -> C(c.f, <<NonText[c.i]>> \o PArgs(c.p))
      [] c.g = "D.dec" -> C(c.f, <<DecOdd[c.i]>> \o PArgs(c.p))
      [] c.g = "D.places" -> C(c.f, <<IF Src(c.f) = "DEC" THEN Whole(c.n) ELSE Txt(IntRepr(c.n, Src(c.f))), PlacesBad[c.i]>>)

InitCase == InitA \/ InitB \/ InitC \/ InitD

Part(c) == IF c.g \in {"A.int", "A.txt", "A.num", "A.lower", "A.lead0", "A.decrec"} THEN "A"
           ELSE IF c.g \in {"B.dec", "B.txt", "B.num"} THEN "B"
           ELSE IF c.g \in {"C.txt", "C.dec"} THEN "C" ELSE "D"
Build(c) == CASE Part(c) = "A" -> BuildA(c) [] Part(c) = "B" -> BuildB(c) [] Part(c) = "C" -> BuildC(c) [] OTHER -> BuildD(c)

Pending == [t |-> "pending"]

Init == InitCase /\ res = Pending
Call == /\ res = Pending
        /\ LET c == Build(case) IN c.f # "none" /\ case' = c /\ res' = BitsCall(c.f, c.args)
Next == Call
Spec == Init /\ [][Next]_vars

Done == res # Pending
A == case.args
F == case.f

(* ---- the consequences stated by the property, as invariants ------------- *)
\* the canonical form of a valid number argument
AsCodes(x) == CASE x.t = "txt" -> (IF Len(x.v) = 0 THEN <<CP0>> ELSE x.v)
                [] x.t = "num" -> NatToCodes(x.n)
                [] x.t = "dec" -> Force([i \in 1..Len(x.dg) |-> CP0 + x.dg[i]])
                [] x.t = "blank" -> <<CP0>>
AsDec(x) == CASE x.t = "num" -> DecOfInt(x.n) [] x.t = "dec" -> DecNorm(x) [] x.t = "blank" -> Dec(FALSE, <<0>>)
CanonIn(src, x) == IF src = "DEC" THEN AsDec(x) ELSE Txt(StripCP0(UpperSeq(AsCodes(x))))

LawRoundTrip == \* converting there and back is the identity (all twelve functions)
    (Done /\ res.t \in {"txt", "dec"}) => BitsCall(FuncOf(Dst(F), Src(F)), <<res>>) = CanonIn(Src(F), A[1])

LawAlphabet == \* digits of the destination base, upper case, at most ten
    (Done /\ res.t = "txt") =>
        /\ Len(res.v) >= 1 /\ Len(res.v) <= 10
        /\ \A i \in 1..Len(res.v) : res.v[i] < 97 /\ DigitVal(res.v[i]) < Radix(Dst(F))

Negative(s, base) == Len(s) = 10 /\ 2 * DigitVal(s[1]) >= Radix(base)
LawPadding == \* non-negative results are padded to `places`, negative ones have ten digits
    (Done /\ res.t = "txt") =>
        IF Negative(res.v, Dst(F)) THEN TRUE
        ELSE IF Len(A) = 2 THEN Len(res.v) = A[2].n
        ELSE res.v = <<CP0>> \/ res.v[1] # CP0

LawDecCanonical ==
    (Done /\ res.t = "dec") => /\ res = DecNorm(res) /\ Len(res.dg) <= 12 /\ Dst(F) = "DEC"

\* part A: the digit-sequence machinery agrees with plain integer arithmetic
IntExpected(f, n, a) ==
    LET src == Src(f)  dst == Dst(f)
        p   == IF Len(a) = 2 THEN a[2].n ELSE NoP
    IN IF ~InWin(n, src) \/ ~InWin(n, dst) \/ (p # NoP /\ (p < 1 \/ p > 10)) THEN Err("#NUM!")
       ELSE IF dst = "DEC" THEN DecOfInt(n)
       ELSE IF n < 0 \/ p = NoP THEN Txt(IntRepr(n, dst))
       ELSE IF Len(IntRepr(n, dst)) > p THEN Err("#NUM!")
       ELSE Txt(Pad0(IntRepr(n, dst), p))
LawIntArith == (Done /\ case.n # NoInt) => res = IntExpected(F, case.n, A)

LawBoolean == \* a boolean argument never yields a value
    (Done /\ \E i \in 1..Len(A) : A[i].t = "bool") => res.t \in {"err", "anyerr"}
LawErrorCodes == (Done /\ res.t = "err") => res.v \in {"#NUM!", "#VALUE!"}
LawResultType == Done => res.t \in {"txt", "dec", "err", "anyerr", "open"}
=============================================================================

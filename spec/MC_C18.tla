------------------------------ MODULE MC_C18 ------------------------------
(***************************************************************************)
(* Bounded instance for C18 (calls): DATE over years x months x days far   *)
(* outside their ranges, EDATE / EOMONTH over all offsets -MaxOff..MaxOff  *)
(* from sampled dates (month ends, leap days, century boundaries), DAYS,   *)
(* DATEDIF (D, M, Y), YEARFRAC (bases omitted, 0..4) and date subtraction  *)
(* over all ordered pairs of the sampled dates, the field functions on     *)
(* date values / fractional serials, WEEKDAY with every return type, and   *)
(* date arithmetic / comparison on dates carrying a time of day.           *)
(* Each case is a behaviour pending -> done; laws are invariants of the    *)
(* done states; the dump of the done states is the replay table.           *)
(***************************************************************************)
EXTENDS XlDate

CONSTANTS MaxOff,        \* month offsets -MaxOff..MaxOff
          MBelow, MHi,   \* months of DATE: -MBelow..MHi
          DBelow, DHi    \* days of DATE: -DBelow..DHi

VARIABLES case, res
vars == <<case, res>>

SampleYMD == {
  <<1900, 1, 1>>, <<1900, 1, 31>>, <<1900, 2, 1>>, <<1900, 2, 28>>, <<1900, 3, 1>>, <<1900, 3, 31>>,
  <<1900, 12, 31>>, <<1901, 1, 1>>, <<1904, 2, 29>>, <<1950, 6, 30>>, <<1980, 8, 31>>, <<1999, 1, 28>>,
  <<1999, 12, 31>>, <<2000, 1, 1>>, <<2000, 1, 31>>, <<2000, 2, 28>>, <<2000, 2, 29>>, <<2000, 3, 1>>,
  <<2000, 3, 31>>, <<2000, 5, 27>>, <<2001, 2, 28>>, <<2001, 3, 1>>, <<2011, 1, 15>>, <<2012, 1, 1>>,
  <<2012, 3, 1>>, <<2012, 7, 30>>, <<2015, 4, 20>>, <<2019, 2, 28>>, <<2019, 3, 28>>, <<2019, 12, 31>>,
  <<2020, 1, 1>>, <<2020, 1, 30>>, <<2020, 1, 31>>, <<2020, 2, 28>>, <<2020, 2, 29>>, <<2020, 3, 1>>,
  <<2020, 3, 28>>, <<2020, 3, 30>>, <<2020, 3, 31>>, <<2020, 4, 30>>, <<2020, 6, 15>>, <<2020, 7, 14>>,
  <<2020, 7, 15>>, <<2020, 7, 16>>, <<2020, 12, 31>>, <<2021, 1, 1>>, <<2021, 2, 28>>, <<2021, 3, 1>>,
  <<2021, 6, 14>>, <<2021, 6, 15>>, <<2022, 6, 16>>, <<2024, 2, 29>>, <<2024, 3, 1>>, <<2025, 2, 28>>,
  <<2028, 2, 29>>, <<2100, 2, 28>>, <<2100, 3, 1>>, <<2400, 2, 29>>, <<9999, 1, 1>>, <<9999, 12, 31>>}
Samples == {YMDToSerial(t[1], t[2], t[3]) : t \in SampleYMD}
Few == {1, 59, 61, 36526, 43861, 43890, 43921, 2958465}      \* ... 2020-01-31, 2020-02-29, 2020-03-31, 9999-12-31
DateYears == {1900, 1901, 1999, 2000, 2024, 9999}
Times == {<<0, 1>>, <<1, 4>>, <<1, 2>>, <<86399, 86400>>}     \* 00:00 06:00 12:00 23:59:59
TDays == {1, 59, 61, 15000, 15001, 36526, 43831, 43832}
Stamps == {DateT(s, t[1], t[2]) : s \in TDays, t \in Times}
Units == {<<68>>, <<77>>, <<89>>}
Spell(s) == {Whole(s), Date(s)}

C(f, a) == [f |-> f, args |-> a]

InitCase ==
  \* DATE with carries
  \/ \E y \in DateYears, m \in (-MBelow)..MHi, d \in (-DBelow)..DHi : case = C("DATE", <<Whole(y), Whole(m), Whole(d)>>)
  \/ \E y \in {-1, 0, 1, 99, 100, 1899, 10000}, m \in {-1, 0, 1, 12, 13}, d \in {0, 1, 31, 32} :
        case = C("DATE", <<Whole(y), Whole(m), Whole(d)>>)
  \/ \E y \in {1900, 2024}, m \in {-1200, -120, 119, 1200, 97200, 100000}, d \in {-100000, -366, 366, 36525, 100000, 2958465} :
        case = C("DATE", <<Whole(y), Whole(m), Whole(d)>>)
  \/ \E s \in Samples : LET p == SerialToYMD(s) IN case = C("DATE", <<Whole(p[1]), Whole(p[2]), Whole(p[3])>>)
  \* EDATE / EOMONTH
  \/ \E f \in {"EDATE", "EOMONTH"}, s \in Samples, k \in -MaxOff..MaxOff : case = C(f, <<Whole(s), Whole(k)>>)
  \/ \E f \in {"EDATE", "EOMONTH"}, s \in Few, k \in {-13, -12, -1, 0, 1, 11, 12, 1200} : case = C(f, <<Date(s), Whole(k)>>)
  \/ \E f \in {"EDATE", "EOMONTH"}, s \in Few, k \in {-1, 0, 1} : case = C(f, <<Rat(s * 4 + 3, 4), Whole(k)>>)
  \* pairs of dates
  \/ \E s1 \in Samples, s2 \in Samples : case = C("DAYS", <<Date(s1), Date(s2)>>)
  \/ \E s1 \in Samples, s2 \in Samples : case = C("OP_SUB", <<Date(s1), Date(s2)>>)
  \/ \E s1 \in Samples, s2 \in Samples, u \in Units : case = C("DATEDIF", <<Whole(s1), Whole(s2), Txt(u)>>)
  \/ \E s1 \in Samples, s2 \in Samples : case = C("YEARFRAC", <<Whole(s1), Whole(s2)>>)
  \/ \E s1 \in Samples, s2 \in Samples, b \in 0..4 : case = C("YEARFRAC", <<Whole(s1), Whole(s2), Whole(b)>>)
  \/ \E f \in {"DAYS", "OP_SUB", "YEARFRAC"}, s1 \in Few, s2 \in Few : \E x \in Spell(s1), y \in Spell(s2) : case = C(f, <<x, y>>)
  \/ \E s1 \in Few, s2 \in Few, u \in {<<68>>, <<109>>, <<121>>} : \E x \in Spell(s1), y \in Spell(s2) : case = C("DATEDIF", <<x, y, Txt(u)>>)
  \/ \E s1 \in Few, s2 \in Few, b \in {1, 4} : case = C("YEARFRAC", <<Date(s1), Date(s2), Whole(b)>>)
  \* fields of date values, fractional serials, dates with a time of day
  \/ \E f \in {"YEAR", "MONTH", "DAY", "WEEKDAY", "ISOWEEKNUM"}, s \in Samples : \E x \in {Date(s), Rat(s * 4 + 1, 4)} : case = C(f, <<x>>)
  \/ \E f \in {"YEAR", "MONTH", "DAY", "WEEKDAY", "ISOWEEKNUM"}, x \in Stamps : case = C(f, <<x>>)
  \/ \E f \in {"YEAR", "MONTH", "DAY", "WEEKDAY", "ISOWEEKNUM"}, s \in {-1, 0, 60, 2958466} : case = C(f, <<Whole(s)>>)
  \/ \E s \in Samples, ty \in WeekdayTypes : \E x \in Spell(s) : case = C("WEEKDAY", <<x, Whole(ty)>>)
  \/ \E s \in Few, ty \in {0, 4, 10, 18} : case = C("WEEKDAY", <<Whole(s), Whole(ty)>>)
  \* date arithmetic and comparison with times of day
  \/ \E f \in DateOpFuncs, x \in Stamps, y \in Stamps : case = C(f, <<x, y>>)
  \/ \E x \in Stamps, k \in {-1, 0, 1, 30, 365} : case = C("OP_ADD", <<x, Whole(k)>>) \/ case = C("OP_ADD", <<Whole(k), x>>)
  \/ \E x \in Stamps, k \in {0, 1, 36526} : case = C("OP_SUB", <<x, Whole(k)>>)
  \/ \E f \in DateOpFuncs \ {"OP_ADD"}, s1 \in Few, s2 \in Few : case = C(f, <<Date(s1), Whole(s2)>>) \/ case = C(f, <<Whole(s1), Date(s2)>>)
  \* errors propagate (C07), leftmost first
  \/ \E f \in {"YEAR", "MONTH", "DAY", "WEEKDAY", "ISOWEEKNUM"}, e \in {"#N/A", "#DIV/0!"} : case = C(f, <<Err(e)>>)
  \/ \E f \in {"EDATE", "EOMONTH", "DAYS", "YEARFRAC", "OP_SUB"}, e \in {"#N/A", "#DIV/0!"} :
        \/ case = C(f, <<Err(e), Whole(100)>>) \/ case = C(f, <<Date(100), Err(e)>>) \/ case = C(f, <<Err(e), Err("#REF!")>>)
  \/ \E e \in {"#N/A", "#DIV/0!"} : \/ case = C("DATE", <<Err(e), Whole(1), Whole(1)>>)
                                    \/ case = C("DATE", <<Whole(2000), Err(e), Err("#REF!")>>)
                                    \/ case = C("DATEDIF", <<Whole(100), Err(e), Txt(<<68>>)>>)

Pending == [t |-> "pending"]

Init == InitCase /\ res = Pending
Call == res = Pending /\ res' = DateCall(case.f, case.args) /\ UNCHANGED case
Next == Call
Spec == Init /\ [][Next]_vars

Done == res # Pending
A == case.args
IsD(x) == x.t = "date"
WholeArgs == \A i \in 1..Len(A) : A[i].t = "num" /\ A[i].d = 1

\* --- the consequences stated by the property, as invariants of the spec ---
LawDateInverse == \* DATE of in-range fields is the day with those fields
    (Done /\ case.f = "DATE" /\ IsD(res) /\ WholeArgs /\ A[1].n >= 1900
          /\ A[2].n \in 1..12 /\ A[3].n >= 1 /\ A[3].n <= DaysIn(A[1].n, A[2].n))
    => SerialToYMD(res.s) = <<A[1].n, A[2].n, A[3].n>>
LawDateCarry == \* 12 months are a year, one more day is the next serial
    (Done /\ case.f = "DATE" /\ IsD(res) /\ WholeArgs /\ A[1].n >= 1900)
    => LET y == A[1].n  m == A[2].n  d == A[3].n
           r1 == DateCall("DATE", <<Whole(y + 1), Whole(m - 12), Whole(d)>>)
           r2 == DateCall("DATE", <<Whole(y), Whole(m), Whole(d + 1)>>)
           r3 == DateCall("DATE", <<Whole(y), Whole(m + 1), Whole(d - DaysIn((y * 12 + m - 1) \div 12, ((y * 12 + m - 1) % 12) + 1))>>)
       IN /\ (y < 9999 /\ IsD(r1)) => r1 = res
          /\ IsD(r2) => r2.s = (IF res.s = 59 THEN 61 ELSE res.s + 1)
          /\ IsD(r3) => r3 = res
LawMoveMonths == \* EDATE / EOMONTH land in the month k months on, clipped to / at its end
    (Done /\ case.f \in {"EDATE", "EOMONTH"} /\ IsD(res) /\ A[2].t = "num")
    => LET p == SerialToYMD(Ser(A[1]))  q == SerialToYMD(res.s)  len == DaysIn(q[1], q[2]) IN
       /\ q[1] * 12 + q[2] = p[1] * 12 + p[2] + A[2].n
       /\ q[3] = (IF case.f = "EOMONTH" THEN len ELSE Min2(p[3], len))
       /\ LET e == DateCall("EOMONTH", A) IN IsD(e) => res.s <= e.s
LawMoveBack == \* moving on and back returns to the start when no clipping occurred
    (Done /\ case.f = "EDATE" /\ IsD(res) /\ A[2].t = "num" /\ SerialToYMD(Ser(A[1]))[3] <= 28)
    => DateCall("EDATE", <<res, RNeg(A[2])>>) = Date(Ser(A[1]))
LawDays == \* DAYS = end - start = subtraction of the dates, antisymmetric
    (Done /\ case.f \in {"DAYS", "OP_SUB"} /\ res.t = "num" /\ IsWholeDN(A[1]) /\ IsWholeDN(A[2]))
    => /\ res = Whole(Ser(A[1]) - Ser(A[2]))
       /\ DateCall("DAYS", A) = res /\ DateCall("OP_SUB", <<Date(Ser(A[1])), Date(Ser(A[2]))>>) = res
       /\ DateCall("DAYS", <<A[2], A[1]>>) = RNeg(res)
LawDateDif ==
    (Done /\ case.f = "DATEDIF" /\ res.t = "num")
    => LET u == UpperSeq(A[3].v)  a == Ser(A[1])  b == Ser(A[2]) IN
       /\ u = UnitD => res = DateCall("DAYS", <<A[2], A[1]>>)
       /\ u = UnitY => res.n = DateCall("DATEDIF", <<A[1], A[2], Txt(UnitM)>>).n \div 12
       /\ u = UnitM => \* res months on is not after the end; one more month is
            LET on == MoveMonths(a, res.n, FALSE)  on1 == MoveMonths(a, res.n + 1, FALSE) IN
            /\ IsD(on) => on.s <= b
            /\ (IsD(on1) /\ SerialToYMD(a)[3] <= 28) => on1.s > b
LawYearFrac ==
    (Done /\ case.f = "YEARFRAC" /\ res.t = "num" /\ WholeArgs)
    => LET basis == IF Len(A) = 3 THEN A[3].n ELSE 0
           days == Abs(A[1].n - A[2].n)
           swapped == IF Len(A) = 3 THEN <<A[2], A[1], A[3]>> ELSE <<A[2], A[1]>>
       IN /\ DateCall("YEARFRAC", swapped) = res
          /\ res.n >= 0
          /\ basis = 2 => res = Rat(days, 360)
          /\ basis = 3 => res = Rat(days, 365)
          /\ basis \in {0, 4} => /\ DateCall("YEARFRAC", <<A[1], A[2], Whole(4 - basis)>>) = res
                                 /\ Abs(res.n * 360 - days * res.d) <= 8 * res.d * (1 + days \div 365)   \* 30/360 stays near actual
          \* actual/actual lies between days/366 and days/365 (checked where the products stay small)
          /\ basis = 1 => /\ (res = Whole(0)) = (days = 0)
                          /\ days <= 5000 => (res.n * 365 <= days * res.d /\ res.n * 366 >= days * res.d)
LawTimeOfDay == \* order and difference of two stamps on one day are those of their times
    (Done /\ case.f \in DateOpFuncs /\ IsD(A[1]) /\ IsD(A[2]) /\ A[1].s = A[2].s /\ res.t \in {"num", "bool"} /\ (A[1].fd <= 20000 \/ A[2].fd <= 20000))
    => LET t1 == A[1].fn * A[2].fd  t2 == A[2].fn * A[1].fd IN
       CASE case.f = "OP_SUB" -> res = Rat(t1 - t2, A[1].fd * A[2].fd)
         [] case.f = "OP_LT"  -> res = Bool(t1 < t2)
         [] case.f = "OP_EQ"  -> res = Bool(t1 = t2)
         [] OTHER -> TRUE
LawErrors == (Done /\ \E i \in 1..Len(A) : A[i].t = "err") => res.t \in {"err", "open"}
LawResultType == Done => res.t \in {"date", "num", "bool", "anyerr", "err", "open"}
=============================================================================

--------------------------- MODULE Trace_Tokens ---------------------------
(***************************************************************************)
(* Trace specification for recorded tokenizations (code -> spec).  One     *)
(* event per ExcelParser.getTokens(text) call made by the real library     *)
(* (formulas of the fixture workbooks, formulas the repository's tests     *)
(* tokenize, generated formulas): the text, and the token list returned    *)
(* or the exception class raised.                                          *)
(*                                                                         *)
(* The trace specification reuses the actions of XlTokenizer: an event is  *)
(* loaded (Load), the machine runs on its text one action per character    *)
(* (TokNext), and when it has finished the event is judged (Judge): the    *)
(* recorded token list must be the machine's, token by token.              *)
(***************************************************************************)
EXTENDS XlTokenizer, Json, IOUtils

Trace == ndJsonDeserialize(IOEnv.TRACE_FILE)

VARIABLES l, verdict, exp, busy
vars == <<l, verdict, exp, busy, src, off, tok, mode, stack, out, phase, und>>

Idle == <<>>

SameTokens(rec, mine) ==
    /\ Len(rec) = Len(mine)
    /\ \A i \in 1..Len(rec) :
         /\ rec[i].ty = mine[i].ty /\ rec[i].sub = mine[i].sub
         /\ \/ mine[i].v.t = "open"
            \/ rec[i].v = mine[i].v

Verdict(e) ==
    IF und THEN "open"
    ELSE IF phase = "fail" THEN (IF e.exc = "IndexError" THEN "ok" ELSE "spec-fails-code-does-not")
    ELSE IF e.exc # "" THEN "python-exception"
    ELSE IF SameTokens(e.toks, out) THEN "ok"
    ELSE IF Len(e.toks) # Len(out) THEN "token-count"
    ELSE "token-differs"

Init == /\ l = 0 /\ verdict = "start" /\ exp = <<>> /\ busy = FALSE
        /\ TokInit(Idle)

Load == /\ ~busy /\ l < Len(Trace)
        /\ busy' = TRUE
        /\ src' = Trace[l + 1].text /\ off' = 1 /\ tok' = <<>> /\ mode' = "normal" /\ stack' = <<>> /\ out' = <<>>
        /\ phase' = "strip" /\ und' = FALSE
        /\ UNCHANGED <<l, verdict, exp>>
Run == busy /\ ~Finished /\ TokNext /\ UNCHANGED <<l, verdict, exp, busy>>
Judge == /\ busy /\ Finished
         /\ l' = l + 1 /\ busy' = FALSE
         /\ verdict' = Verdict(Trace[l + 1])
         /\ exp' = IF phase = "fail" THEN <<"fail">> ELSE out
         /\ UNCHANGED <<src, off, tok, mode, stack, out, phase, und>>
Next == Load \/ Run \/ Judge
Spec == Init /\ [][Next]_vars

\* every event was judged: the machine never sticks on a recorded text
AllJudged == l = Len(Trace) /\ ~busy
Stuck == ~ENABLED Next /\ ~AllJudged
NeverStuck == ~Stuck
ProgressT == [][(phase = "scan" /\ phase' = "scan" /\ busy /\ busy') => off' > off]_vars
=============================================================================

--------------------------- MODULE Trace_Library ---------------------------
(* Trace_Calls over the whole modelled library (XlLibrary!LibCall): used for the calls recorded while *)
(* the repository's own test-suite runs.                                                              *)
EXTENDS XlLibrary, Json, IOUtils
Trace == ndJsonDeserialize(IOEnv.TRACE_FILE)
VARIABLES l, verdict, exp
vars == <<l, verdict, exp>>
Verdict(e, x) ==
    IF x.t = "open" THEN "open"
    ELSE IF x.t = "ref" THEN "open"
    ELSE IF Agrees(e.res, x) THEN "ok"
    ELSE IF e.res.t = "exc" THEN "python-exception"
    ELSE IF x.t \in {"err", "anyerr"} THEN "error-expected"
    ELSE IF e.res.t = "err" THEN "unexpected-error"
    ELSE "wrong-value"
Init == l = 0 /\ verdict = "start" /\ exp = [t |-> "none"]
Step == /\ l < Len(Trace) /\ l' = l + 1
        /\ LET e == Trace[l + 1]  x == LibCall(e.f, e.args) IN exp' = x /\ verdict' = Verdict(e, x)
Spec == Init /\ [][Step]_vars
AllConsumed == TLCGet("stats").diameter - 1 = Len(Trace)
=============================================================================

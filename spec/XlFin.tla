------------------------------- MODULE XlFin -------------------------------
(***************************************************************************)
(* Financial functions over exact rationals (C20): NPV, PMT (payments at   *)
(* period end), PV (either timing), SLN, XNPV by their defining equations, *)
(* IRR / XIRR through IsRoot: the unique rate at which NPV / XNPV of the   *)
(* same flows is zero.                                                     *)
(*                                                                         *)
(* FinDomain(f, a)  the quantifier domain of the property holds for a      *)
(* FinCall(f, a)    the exact expected value, or Open when the property is *)
(*                  silent (outside FinDomain) or when the value cannot be *)
(*                  computed exactly in 32-bit rationals (then the harness *)
(*                  bounds a residual, see Trace_C20).                     *)
(* TLC raises on 32-bit overflow: every product and sum below is guarded   *)
(* and an unsafe operand makes the result Open, never wrong.               *)
(***************************************************************************)
EXTENDS XlValues

FinFuncs == {"NPV", "PMT", "PV", "SLN", "XNPV", "IRR", "XIRR"}

(* ---------------------------------------------------------------------- *)
(* guarded rational arithmetic on normalised "num" records, full 31 bits   *)
(* ---------------------------------------------------------------------- *)
MaxInt == 2147483647
HalfInt == 1073741823
MulOK(x, y) == y = 0 \/ Abs(x) <= MaxInt \div Abs(y)
AddOK(x, y) == Abs(x) <= HalfInt /\ Abs(y) <= HalfInt
BothNum(a, b) == a.t = "num" /\ b.t = "num"

FMul(a, b) ==
    IF ~BothNum(a, b) THEN Open
    ELSE LET g1 == GCD(Abs(a.n), b.d)       \* cross-reduce before multiplying
             g2 == GCD(Abs(b.n), a.d)
             n1 == a.n \div g1   d2 == b.d \div g1
             n2 == b.n \div g2   d1 == a.d \div g2
         IN IF MulOK(n1, n2) /\ MulOK(d1, d2)
            THEN [t |-> "num", n |-> n1 * n2, d |-> d1 * d2] ELSE Open

FInv(a) == \* a.n # 0
    IF a.n > 0 THEN [t |-> "num", n |-> a.d, d |-> a.n] ELSE [t |-> "num", n |-> -a.d, d |-> -a.n]

FDiv(a, b) == IF ~BothNum(a, b) THEN Open ELSE IF b.n = 0 THEN Open ELSE FMul(a, FInv(b))

FAdd(a, b) ==
    IF ~BothNum(a, b) THEN Open
    ELSE LET g  == GCD(a.d, b.d)
             da == a.d \div g
             db == b.d \div g
         IN IF MulOK(a.n, db) /\ MulOK(b.n, da) /\ MulOK(a.d, db) /\ AddOK(a.n * db, b.n * da)
            THEN Rat(a.n * db + b.n * da, a.d * db) ELSE Open

FNeg(a) == IF a.t # "num" THEN Open ELSE RNeg(a)
FSub(a, b) == FAdd(a, FNeg(b))
FSign(a) == IF a.t # "num" THEN 2 ELSE RSign(a)          \* 2 = unknown
FLess(a, b) == FSign(FSub(a, b)) = -1                      \* FALSE when unknown
One == Whole(1)
Zero == Whole(0)

MaxExp == 64
RECURSIVE FPowAcc(_, _, _)
FPowAcc(a, e, acc) == \* acc * a^e; stops at the first product that does not fit
    IF e = 0 THEN acc
    ELSE LET p == FMul(acc, a) IN IF p.t # "num" THEN Open ELSE FPowAcc(a, e - 1, p)
FPow(a, e) == \* a^e, e >= 0
    IF a.t # "num" \/ e > MaxExp THEN Open
    ELSE IF a = One THEN One
    ELSE FPowAcc(a, e, One)

RECURSIVE FSum(_)
FSum(xs) == IF Len(xs) = 0 THEN Zero
            ELSE LET s == FSum(Tail(xs)) IN IF s.t # "num" THEN Open ELSE FAdd(xs[1], s)

AllNum(xs) == \A i \in 1..Len(xs) : xs[i].t = "num"

(* ---------------------------------------------------------------------- *)
(* the defining equations                                                  *)
(* ---------------------------------------------------------------------- *)
\* sum of c_i / (1+r)^(e_i) for explicit whole exponents es
RECURSIVE DiscSum(_, _, _)
DiscSum(r, cs, es) ==
    IF Len(cs) = 0 THEN Zero
    ELSE LET rest == DiscSum(r, Tail(cs), Tail(es))
             term == IF cs[1].t # "num" THEN Open
                     ELSE IF cs[1].n = 0 THEN Zero ELSE FDiv(cs[1], FPow(FAdd(One, r), es[1]))
         IN IF rest.t # "num" THEN Open ELSE FAdd(term, rest)

\* NPV(r, c1..cn) = sum c_i / (1+r)^i : the first flow is one period away
NpvV(r, cs)  == DiscSum(r, cs, [i \in 1..Len(cs) |-> i])
\* the flows of an investment starting now (IRR): first flow undiscounted
Npv0V(r, cs) == DiscSum(r, cs, [i \in 1..Len(cs) |-> i - 1])

\* XNPV(r, v, d) = sum v_i / (1+r)^((d_i - d_1)/365): exact when r = 0 or
\* every day offset is a whole number of 365-day years
YearOffsets(ds) == \A i \in 1..Len(ds) : (ds[i] - ds[1]) % 365 = 0
XnpvV(r, vs, ds) ==
    IF r.n = 0 THEN FSum(vs)
    ELSE IF YearOffsets(ds) THEN DiscSum(r, vs, [i \in 1..Len(ds) |-> (ds[i] - ds[1]) \div 365])
    ELSE Open

IsRoot0(r, cs) == LET v == Npv0V(r, cs) IN v.t = "num" /\ v.n = 0
IsXRoot(r, vs, ds) == LET v == XnpvV(r, vs, ds) IN v.t = "num" /\ v.n = 0

\* annuity closed forms with future value; n a whole number of periods >= 1
PmtV(r, n, pv, fv) == \* payments at period end
    IF r.n = 0 THEN FDiv(FNeg(FAdd(pv, fv)), Whole(n))
    ELSE LET g == FPow(FAdd(One, r), n)
         IN FDiv(FMul(FNeg(FAdd(FMul(pv, g), fv)), r), FSub(g, One))
PvV(r, n, pmt, fv, ty) == \* ty = 0 payments at period end, 1 at period start
    IF r.n = 0 THEN FNeg(FAdd(fv, FMul(pmt, Whole(n))))
    ELSE LET g == FPow(FAdd(One, r), n)
             k == FAdd(One, FMul(r, Whole(ty)))
         IN FDiv(FNeg(FAdd(fv, FMul(FMul(pmt, k), FDiv(FSub(g, One), r)))), g)
SlnV(cost, salvage, life) == FDiv(FSub(cost, salvage), life)

(* ---------------------------------------------------------------------- *)
(* the quantifier domain of the property                                   *)
(* ---------------------------------------------------------------------- *)
RateOK(r) == /\ r.t = "num" /\ Abs(r.n) <= 100000000 /\ r.d <= 100000000
             /\ r.n * 10 > -9 * r.d /\ r.n <= 10 * r.d          \* -0.9 < r <= 10
MaxFlows == 30

\* a range argument as a vector: one row or one column (anything else: <<>>)
Flat(x) ==
    IF x.t # "arr" \/ Len(x.v) = 0 THEN <<>>
    ELSE IF Len(x.v) = 1 THEN x.v[1]
    ELSE IF \A i \in 1..Len(x.v) : Len(x.v[i]) = 1 THEN [i \in 1..Len(x.v) |-> x.v[i][1]]
    ELSE <<>>

FlowsOK(cs) == Len(cs) >= 1 /\ Len(cs) <= MaxFlows /\ AllNum(cs)
\* a date is given as a date or as its serial NUMBER (which may carry a time of day)
DateNum(x) == IF x.t = "date" THEN Whole(x.s) ELSE x
DateWhole(x) == (x.t = "date" /\ x.fn = 0) \/ (x.t = "num" /\ x.d = 1)
DatesOK(ds) == /\ \A i \in 1..Len(ds) : (ds[i].t = "date" /\ ds[i].fn = 0) \/ (ds[i].t = "num" /\ ds[i].n >= ds[i].d /\ ds[i].d <= 24)
               /\ \A i \in 1..(Len(ds) - 1) : RLt(DateNum(ds[i]), DateNum(ds[i + 1]))       \* strictly increasing
\* whole serials; with a time of day among the dates the exponents are not whole years: a vector whose offsets are
\* not multiples of 365 stands in, so that XnpvV stays exact where it can be (rate 0, one flow) and Open elsewhere
Serials(ds) == IF \A i \in 1..Len(ds) : DateWhole(ds[i]) THEN [i \in 1..Len(ds) |-> DateNum(ds[i]).n]
               ELSE [i \in 1..Len(ds) |-> IF i = 1 THEN 0 ELSE i]

\* an initial outlay followed by returns that exceed it: one sign change
\* (zeros ignored), negative part first, positive undiscounted sum
OneSignChange(cs) ==
    LET neg == {i \in 1..Len(cs) : cs[i].n < 0}
        pos == {i \in 1..Len(cs) : cs[i].n > 0}
    IN neg # {} /\ pos # {} /\ \A i \in neg, j \in pos : i < j
SingleOutlay(cs) == cs[1].n < 0 /\ \A i \in 2..Len(cs) : cs[i].n >= 0     \* one outlay, made now
OutlayThenReturns(cs) == OneSignChange(cs) /\ FSign(FSum(cs)) = 1

FinDomain(f, a) ==
    LET n == Len(a) IN
    CASE f = "NPV"  -> n >= 2 /\ n <= MaxFlows + 1 /\ AllNum(a) /\ RateOK(a[1])
      [] f = "PMT"  -> n >= 3 /\ n <= 5 /\ AllNum(a) /\ RateOK(a[1]) /\ a[2].n > 0
                       /\ (n = 5 => a[5].n = 0)                \* payments at period end only
      [] f = "PV"   -> n >= 3 /\ n <= 5 /\ AllNum(a) /\ RateOK(a[1]) /\ a[2].n > 0
                       /\ (n = 5 => a[5] \in {Zero, One})
      [] f = "SLN"  -> n = 3 /\ AllNum(a) /\ a[3].n > 0        \* life > 0
      [] f = "XNPV" -> n = 3 /\ RateOK(a[1]) /\ FlowsOK(Flat(a[2])) /\ DatesOK(Flat(a[3]))
                       /\ Len(Flat(a[2])) = Len(Flat(a[3]))
      [] f = "IRR"  -> n = 1 /\ FlowsOK(Flat(a[1])) /\ OutlayThenReturns(Flat(a[1]))   \* guess: open
      [] f = "XIRR" -> n = 2 /\ FlowsOK(Flat(a[1])) /\ DatesOK(Flat(a[2]))
                       /\ Len(Flat(a[1])) = Len(Flat(a[2])) /\ OutlayThenReturns(Flat(a[1]))
      [] OTHER      -> FALSE

\* candidate roots the specification can verify exactly; a root exists in
\* FinDomain and is unique, so any grid rate with IsRoot IS the expected result
RootGrid == {Rat(1, 100), Rat(1, 20), Rat(1, 10), Rat(1, 5), Rat(1, 4), Rat(1, 2), Whole(1), Whole(2),
             Whole(3), Whole(10)}

FinCall(f, a) ==
    IF ~FinDomain(f, a) THEN Open
    ELSE LET n == Len(a) IN
    CASE f = "NPV"  -> NpvV(a[1], Tail(a))
      [] f = "PMT"  -> IF a[2].d # 1 THEN Open
                       ELSE PmtV(a[1], a[2].n, a[3], IF n >= 4 THEN a[4] ELSE Zero)
      [] f = "PV"   -> IF a[2].d # 1 THEN Open
                       ELSE PvV(a[1], a[2].n, a[3], IF n >= 4 THEN a[4] ELSE Zero, IF n = 5 THEN a[5].n ELSE 0)
      [] f = "SLN"  -> SlnV(a[1], a[2], a[3])
      [] f = "XNPV" -> XnpvV(a[1], Flat(a[2]), Serials(Flat(a[3])))
      [] f = "IRR"  -> LET R == {r \in RootGrid : IsRoot0(r, Flat(a[1]))}
                       IN IF R = {} THEN Open ELSE CHOOSE r \in R : TRUE
      [] f = "XIRR" -> LET R == {r \in RootGrid : IsXRoot(r, Flat(a[1]), Serials(Flat(a[2])))}
                       IN IF R = {} THEN Open ELSE CHOOSE r \in R : TRUE
=============================================================================

---------------------------- MODULE Trace_Parse ----------------------------
(***************************************************************************)
(* Trace specification for recorded parses (code -> spec).  One event per  *)
(* FormulaParser().parse(text) of a generated formula: the generator's AST *)
(* and style, the text, and the parse tree walked into XlSyntax records.   *)
(* Verdict: the walked tree must be Canon(ast): parentheses erased,        *)
(* numeric literals by value (a percent literal is one number), $ flags    *)
(* not compared.  The generator is held to the spec (text = Formula(ast)). *)
(***************************************************************************)
EXTENDS XlSyntax, Json, IOUtils

Trace == ndJsonDeserialize(IOEnv.TRACE_FILE)

VARIABLES l, verdict, exp
vars == <<l, verdict, exp>>

RECURSIVE WellParen(_)
WellParen(a) ==
    CASE a.k = "bin"  -> ~NeedsParen(a.l, a.op, "l") /\ ~NeedsParen(a.r, a.op, "r") /\ WellParen(a.l) /\ WellParen(a.r)
      [] a.k = "neg"  -> a.x.k # "bin" /\ WellParen(a.x)
      [] a.k = "pct"  -> a.x.k \notin {"bin", "neg"} /\ WellParen(a.x)
      [] a.k = "paren" -> WellParen(a.x)
      [] a.k = "call" -> \A i \in 1..Len(a.args) : WellParen(a.args[i])
      [] OTHER -> TRUE

RECURSIVE Canon(_)
Canon(a) ==
    CASE a.k = "num" -> [k |-> "num", v |-> LitValue(a.txt)]
      [] a.k = "paren" -> Canon(a.x)
      [] a.k = "bin" -> [k |-> "bin", op |-> a.op, l |-> Canon(a.l), r |-> Canon(a.r)]
      [] a.k = "neg" -> [k |-> "neg", x |-> Canon(a.x)]
      [] a.k = "pct" -> LET x == Canon(a.x) IN
                        IF x.k = "num" THEN [k |-> "num", v |-> IF x.v.t = "num" THEN RDiv(x.v, Whole(100)) ELSE Open]
                        ELSE [k |-> "pct", x |-> x]
      [] a.k = "call" -> [k |-> "call", f |-> a.f, at |-> FALSE, args |-> [i \in 1..Len(a.args) |-> Canon(a.args[i])]]
      [] a.k = "ref" -> [a EXCEPT !.ac = FALSE, !.ar = FALSE]
      [] a.k = "range" -> [a EXCEPT !.a1 = FALSE, !.b1 = FALSE, !.a2 = FALSE, !.b2 = FALSE]
      [] OTHER -> a

RECURSIVE HasOpen(_)
HasOpen(a) ==
    CASE a.k = "num" -> a.v.t # "num"
      [] a.k = "bin" -> HasOpen(a.l) \/ HasOpen(a.r)
      [] a.k \in {"neg", "pct"} -> HasOpen(a.x)
      [] a.k = "call" -> \E i \in 1..Len(a.args) : HasOpen(a.args[i])
      [] OTHER -> FALSE

Verdict(e, x) ==
    IF ~WellParen(e.ast) THEN "generator-parens"
    ELSE IF Formula(e.ast, e.style) # e.text THEN "generator-render"
    ELSE IF HasOpen(x) THEN "open"
    ELSE IF e.tree.k = "exc" THEN "python-exception"
    ELSE IF e.tree = x THEN "ok"
    ELSE "wrong-tree"

Init == l = 0 /\ verdict = "start" /\ exp = [k |-> "none"]
Step == /\ l < Len(Trace)
        /\ l' = l + 1
        /\ LET e == Trace[l + 1]
               x == Canon(e.ast)
           IN exp' = x /\ verdict' = Verdict(e, x)
Spec == Init /\ [][Step]_vars
AllConsumed == TLCGet("stats").diameter - 1 = Len(Trace)
=============================================================================

---------------------------- MODULE Trace_Parse ----------------------------
(***************************************************************************)
(* Trace specification for recorded parses (code -> spec).  One event per  *)
(* FormulaParser().parse(text) of a generated formula: the generator's AST *)
(* and style, the text, and the parse tree walked into XlSyntax records.   *)
(* Verdict: the walked tree must be Canon(ast): parentheses erased,        *)
(* numeric literals by value (a percent literal is one number), $ flags    *)
(* not compared.  The generator is held to the spec (text = Formula(ast)). *)
(***************************************************************************)
EXTENDS XlSyntax, Json, IOUtils

Trace == ndJsonDeserialize(IOEnv.TRACE_FILE)

VARIABLES l, verdict, exp
vars == <<l, verdict, exp>>

RECURSIVE WellParen(_)
WellParen(a) ==
    CASE a.k = "bin"  -> ~NeedsParen(a.l, a.op, "l") /\ ~NeedsParen(a.r, a.op, "r") /\ WellParen(a.l) /\ WellParen(a.r)
      [] a.k = "neg"  -> a.x.k # "bin" /\ WellParen(a.x)
      [] a.k = "pct"  -> a.x.k \notin {"bin", "neg"} /\ WellParen(a.x)
      [] a.k = "paren" -> WellParen(a.x)
      [] a.k = "call" -> \A i \in 1..Len(a.args) : WellParen(a.args[i])
      [] OTHER -> TRUE

Verdict(e, x) ==
    IF ~WellParen(e.ast) THEN "generator-parens"
    ELSE IF Formula(e.ast, e.style) # e.text THEN "generator-render"
    ELSE IF HasOpen(x) THEN "open"
    ELSE IF e.tree.k = "exc" THEN "python-exception"
    ELSE IF e.tree = x THEN "ok"
    ELSE "wrong-tree"

Init == l = 0 /\ verdict = "start" /\ exp = [k |-> "none"]
Step == /\ l < Len(Trace)
        /\ l' = l + 1
        /\ LET e == Trace[l + 1]
               x == Canon(e.ast)
           IN exp' = x /\ verdict' = Verdict(e, x)
Spec == Init /\ [][Step]_vars
AllConsumed == TLCGet("stats").diameter - 1 = Len(Trace)
=============================================================================

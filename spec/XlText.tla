------------------------------ MODULE XlText ------------------------------
(***************************************************************************)
(* Text functions on code-point sequences with 1-based positions (C17).    *)
(***************************************************************************)
EXTENDS XlValues

TextFuncs == {"LEN", "LEFT", "RIGHT", "MID", "FIND", "REPLACE", "UPPER", "LOWER",
              "TRIM", "EXACT", "CONCAT", "CONCATENATE"}

Clip(s, i, j) == IF i > j \/ i > Len(s) THEN <<>> ELSE SubSeq(s, i, Min2(j, Len(s)))

LeftS(s, n)  == Clip(s, 1, n)
RightS(s, n) == IF n >= Len(s) THEN s ELSE Clip(s, Len(s) - n + 1, Len(s))
MidS(s, p, n) == Clip(s, p, p + n - 1)

OccursAt(t, s, i) == i + Len(t) - 1 <= Len(s) /\ SubSeq(s, i, i + Len(t) - 1) = t

\* first position >= p at which t occurs in s; 0 if none
FindS(t, s, p) ==
    LET C == {i \in p..(Len(s) + 1) : OccursAt(t, s, i)}
    IN IF C = {} THEN 0 ELSE CHOOSE i \in C : \A j \in C : i <= j

SP == 32
RECURSIVE StripLead(_)
StripLead(s) == IF Len(s) > 0 /\ s[1] = SP THEN StripLead(Tail(s)) ELSE s
RECURSIVE Collapse(_)
Collapse(s) == \* s has no leading blank: collapse inner runs, drop trailing blanks
    IF Len(s) = 0 THEN <<>>
    ELSE IF s[1] = SP THEN
            LET r == StripLead(s) IN IF Len(r) = 0 THEN <<>> ELSE <<SP>> \o Collapse(r)
    ELSE <<s[1]>> \o Collapse(Tail(s))
TrimS(s) == Collapse(StripLead(s))

\* (balanced recursion: argument lists of several hundred items would overflow TLC's stack otherwise)
RECURSIVE FlattenRange(_, _, _)
FlattenRange(args, i, j) == \* arrays contribute their elements row-major
    IF i > j THEN <<>>
    ELSE IF i = j THEN (IF args[i].t = "arr" THEN ArrElems(args[i]) ELSE <<args[i]>>)
    ELSE LET m == (i + j) \div 2 IN FlattenRange(args, i, m) \o FlattenRange(args, m + 1, j)
FlattenArgs(args) == FlattenRange(args, 1, Len(args))

RECURSIVE JoinRange(_, _, _)
JoinRange(xs, i, j) == IF i > j THEN <<>> ELSE IF i = j THEN ToText(xs[i]).v
                       ELSE LET m == (i + j) \div 2 IN JoinRange(xs, i, m) \o JoinRange(xs, m + 1, j)
JoinTexts(xs) == JoinRange(xs, 1, Len(xs))

ConcatV(args) ==
    LET xs == FlattenArgs(args)
        fe == LeftmostErr(xs)
    IN IF fe.t # "none" THEN fe
       ELSE IF \E i \in 1..Len(xs) : ToText(xs[i]).t = "open" THEN Open
       ELSE Txt(JoinTexts(xs))

Arity(f) == CASE f \in {"LEN", "UPPER", "LOWER", "TRIM"} -> {1}
              [] f \in {"LEFT", "RIGHT"} -> {1, 2}
              [] f = "MID" -> {3} [] f = "FIND" -> {2, 3} [] f = "REPLACE" -> {4}
              [] f = "EXACT" -> {2} [] OTHER -> 1..8

TextCall(f, a) ==
    LET n == Len(a) IN
    CASE f = "LEN"   -> Guard(<<"t">>, a, Whole(Len(TArg(a[1]))))
      [] f = "UPPER" -> Guard(<<"t">>, a, IF CaseKnownSeq(TArg(a[1])) THEN Txt(UpperSeq(TArg(a[1]))) ELSE Open)
      [] f = "LOWER" -> Guard(<<"t">>, a, IF CaseKnownSeq(TArg(a[1])) THEN Txt(LowerSeq(TArg(a[1]))) ELSE Open)
      [] f = "TRIM"  -> Guard(<<"t">>, a, Txt(TrimS(TArg(a[1]))))
      [] f = "EXACT" -> Guard(<<"t", "t">>, a, Bool(TArg(a[1]) = TArg(a[2])))
      [] f = "LEFT"  -> Guard(<<"t", "i">>, a,
                          LET k == IF n = 1 THEN 1 ELSE IArg(a[2]) IN
                          IF k < 0 THEN AnyErr ELSE Txt(LeftS(TArg(a[1]), k)))
      [] f = "RIGHT" -> Guard(<<"t", "i">>, a,
                          LET k == IF n = 1 THEN 1 ELSE IArg(a[2]) IN
                          IF k < 0 THEN AnyErr ELSE Txt(RightS(TArg(a[1]), k)))
      [] f = "MID"   -> Guard(<<"t", "i", "i">>, a,
                          IF IArg(a[2]) < 1 \/ IArg(a[3]) < 0 THEN AnyErr
                          ELSE Txt(MidS(TArg(a[1]), IArg(a[2]), IArg(a[3]))))
      [] f = "FIND"  -> Guard(<<"t", "t", "i">>, a,
                          LET p == IF n = 2 THEN 1 ELSE IArg(a[3])
                              s == TArg(a[2])
                              r == FindS(TArg(a[1]), s, p)
                          IN IF p < 1 \/ p > Len(s) + 1 THEN AnyErr
                             ELSE IF r = 0 THEN AnyErr ELSE Whole(r))
      [] f = "REPLACE" -> Guard(<<"t", "i", "i", "t">>, a,
                          LET s == TArg(a[1])  p == IArg(a[2])  k == IArg(a[3]) IN
                          IF p < 1 \/ k < 0 THEN AnyErr
                          ELSE Txt(LeftS(s, p - 1) \o TArg(a[4]) \o MidS(s, p + k, Len(s))))
      [] f \in {"CONCAT", "CONCATENATE"} -> ConcatV(a)
      [] OTHER -> Open
=============================================================================

------------------------------ MODULE MC_C18S ------------------------------
(***************************************************************************)
(* Sweep over whole serials for C18: one case per serial, the result being *)
(* all calendar fields of that day at once.  The laws the property states  *)
(* about the serial <-> date mapping are invariants over every serial of   *)
(* the instance; the dump is the replay table (YEAR, MONTH, DAY, WEEKDAY   *)
(* with every return type, ISOWEEKNUM and DATE of each serial).            *)
(*   Mode "sample": serials 1..Dense, every Step-th serial, and +-3 around *)
(*   every year boundary / end of February of the century and sample leap  *)
(*   years.  Mode "range": every serial $C18_LO..$C18_HI.                  *)
(***************************************************************************)
EXTENDS XlDate, IOUtils

CONSTANTS Mode, Dense, Step

\* range mode: the bounds come from the environment (one TLC process per range)
Lo == atoi(IOEnv.C18_LO)
Hi == atoi(IOEnv.C18_HI)

VARIABLES case, res
vars == <<case, res>>

BoundaryYears == {1900 + 100 * k : k \in 0..80} \cup {1901, 1904, 1996, 1999, 2001, 2004, 2020, 2023, 2024, 2025, 2399, 2401, 9996, 9999}
Boundaries == UNION {{YMDToSerial(y, 3, 1) + k, YMDToSerial(y, 1, 1) + k} : y \in BoundaryYears, k \in -3..3}

InRange(s) == s >= 1 /\ s <= MaxSerial /\ s # 60

Serials == IF Mode = "range" THEN {s \in Lo..Hi : InRange(s)}
           ELSE {s \in 1..Dense : InRange(s)}
                \cup {k * Step : k \in 1..(MaxSerial \div Step)}
                \cup {s \in Boundaries : InRange(s)}
                \cup {MaxSerial - k : k \in 0..400}

Fields(s) ==
    LET n == SerialDayNo(s)  ymd == CivilOf(n) IN
    [t |-> "fields", y |-> ymd[1], m |-> ymd[2], d |-> ymd[3],
     wd |-> IF s >= 61 THEN WdMon(n) ELSE 0,          \* Monday = 1; 0: not determined below 61
     iso |-> IF s >= 61 THEN IsoWeekOf(n) ELSE 0]

Init == \E s \in Serials : case = [f |-> "FIELDS", args |-> <<Whole(s)>>] /\ res = Fields(s)
Next == UNCHANGED vars
Spec == Init /\ [][Next]_vars

S == case.args[1].n
Nxt == IF S = 59 THEN 61 ELSE S + 1              \* the next day's serial
HasNext == S < MaxSerial

NextDay(y, m, d) == IF d < DaysIn(y, m) THEN <<y, m, d + 1>>
                    ELSE IF m < 12 THEN <<y, m + 1, 1>> ELSE <<y + 1, 1, 1>>
YmdLt(p, q) == p[1] < q[1] \/ (p[1] = q[1] /\ (p[2] < q[2] \/ (p[2] = q[2] /\ p[3] < q[3])))

\* --- the laws of the property over every serial of the instance ---
LawAnchors ==
    /\ SerialToYMD(1) = <<1900, 1, 1>> /\ SerialToYMD(59) = <<1900, 2, 28>>
    /\ SerialToYMD(61) = <<1900, 3, 1>> /\ SerialToYMD(MaxSerial) = <<9999, 12, 31>>
    /\ YMDToSerial(2000, 1, 1) = 36526 /\ WdMon(SerialDayNo(36526)) = 6       \* a Saturday
    /\ YMDToSerial(2024, 2, 29) = 45351 /\ WdMon(SerialDayNo(45351)) = 4      \* a Thursday
    /\ IsoWeekOf(SerialDayNo(YMDToSerial(2021, 1, 3))) = 53 /\ IsoWeekOf(SerialDayNo(YMDToSerial(2019, 12, 30))) = 1
LawRoundTrip == YMDToSerial(res.y, res.m, res.d) = S
LawValidDate == res.m \in 1..12 /\ res.d >= 1 /\ res.d <= DaysIn(res.y, res.m) /\ res.y >= 1900 /\ res.y <= 9999
LawSuccessor == \* month lengths and the Gregorian leap rule: the next serial is the next calendar day
    HasNext => SerialToYMD(Nxt) = NextDay(res.y, res.m, res.d)
LawMonotone == HasNext => YmdLt(<<res.y, res.m, res.d>>, SerialToYMD(Nxt))
LawWeekdayAdvance == (HasNext /\ S >= 61) => WdMon(SerialDayNo(S + 1)) = (res.wd % 7) + 1
LawWeekdayTypes == S >= 61 =>
    LET n == SerialDayNo(S) IN
    /\ \A ty \in WeekdayTypes \ {3} : WeekdayOf(n, ty) \in 1..7
    /\ WeekdayOf(n, 3) = WeekdayOf(n, 2) - 1
    /\ WeekdayOf(n, 1) = WeekdayOf(n, 17) /\ WeekdayOf(n, 2) = WeekdayOf(n, 11)
    /\ \A ty \in 11..16 : WeekdayOf(n, ty) = (WeekdayOf(n, ty + 1) % 7) + 1   \* a later first day of the week: one less
    /\ (WeekdayOf(n, 1) = 1) = (res.wd = 7)
LawDateOfFields == DateCall("DATE", <<Whole(res.y), Whole(res.m), Whole(res.d)>>) = Date(S)
LawFieldCalls == /\ DateCall("YEAR", <<Whole(S)>>) = Whole(res.y)
                 /\ DateCall("MONTH", <<Date(S)>>) = Whole(res.m)
                 /\ DateCall("DAY", <<Whole(S)>>) = Whole(res.d)
LawIsoWeek == S >= 61 =>
    /\ res.iso \in 1..53
    /\ (HasNext /\ IsoWeekOf(SerialDayNo(S + 1)) # res.iso) => res.wd = 7      \* changes only on Mondays
    /\ (HasNext /\ res.wd = 7) => IsoWeekOf(SerialDayNo(S + 1)) \in {res.iso + 1, 1}
    /\ (res.m = 1 /\ res.d = 4) => res.iso = 1                                  \* 4 January is in week 1
    /\ (res.m = 12 /\ res.d = 28) => res.iso \in {52, 53}                        \* 28 December is in the last week
=============================================================================

------------------------------ MODULE XlLibrary ------------------------------
(***************************************************************************)
(* One dispatcher over the function families the specification models with *)
(* the common value encoding of XlValues: LibCall(f, args) is the expected *)
(* abstract result of calling the registered function f, or Open where no  *)
(* property fixes it.  (XlMath and XlBits work on decimal digit sequences  *)
(* and have their own trace specifications.)                               *)
(***************************************************************************)
EXTENDS XlFuncs

D == INSTANCE XlDate
G == INSTANCE XlAgg
K == INSTANCE XlCrit
F == INSTANCE XlFin

HasErr(a) == \E i \in 1..Len(a) : a[i].t = "err"
HasDate(a) == \E i \in 1..Len(a) : a[i].t = "date"

LibCall(f, a) ==
    CASE f \in TextFuncs -> TextCall(f, a)
      [] f \in InfoFuncs -> InfoCall(f, a)
      \* operators on dates are XlDate's business (serial arithmetic), everything else XlValues'
      [] f \in OpFuncs -> IF HasDate(a) /\ f \in D!DateOpFuncs THEN D!DateCall(f, a) ELSE OpCall(f, a)
      [] f \in D!DateFuncs -> D!DateCall(f, a)
      [] f \in G!AggFuncs -> IF HasErr(a) THEN Open ELSE G!AggCall(f, a)
      [] f \in K!CritFuncs -> K!CritCall(f, a)
      [] f \in F!FinFuncs -> F!FinCall(f, a)
      [] OTHER -> Open
=============================================================================

------------------------------ MODULE XlLibrary ------------------------------
(***************************************************************************)
(* One dispatcher over the function families the specification models with *)
(* the common value encoding of XlValues: LibCall(f, args) is the expected *)
(* abstract result of calling the registered function f, or Open where no  *)
(* property fixes it.  (XlMath and XlBits work on decimal digit sequences  *)
(* and have their own trace specifications.)                               *)
(***************************************************************************)
EXTENDS XlFuncs

LibDate == INSTANCE XlDate
LibAgg == INSTANCE XlAgg
LibCrit == INSTANCE XlCrit
LibFin == INSTANCE XlFin

HasErr(a) == \E i \in 1..Len(a) : a[i].t = "err"
HasDate(a) == \E i \in 1..Len(a) : a[i].t = "date"

LibCall(f, a) ==
    CASE f \in TextFuncs -> TextCall(f, a)
      [] f \in InfoFuncs -> InfoCall(f, a)
      \* operators on dates are XlDate's business (serial arithmetic), everything else XlValues'
      [] f \in OpFuncs -> IF HasDate(a) /\ f \in LibDate!DateOpFuncs THEN LibDate!DateCall(f, a) ELSE OpCall(f, a)
      [] f \in LibDate!DateFuncs -> LibDate!DateCall(f, a)
      [] f \in LibAgg!AggFuncs -> IF HasErr(a) THEN Open ELSE LibAgg!AggCall(f, a)
      [] f \in LibCrit!CritFuncs -> LibCrit!CritCall(f, a)
      [] f \in LibFin!FinFuncs -> LibFin!FinCall(f, a)
      [] OTHER -> Open
=============================================================================

------------------------------ MODULE XlLibrary ------------------------------
(***************************************************************************)
(* One dispatcher over the function families the specification models with *)
(* the common value encoding of XlValues: LibCall(f, args) is the expected *)
(* abstract result of calling the registered function f, or Open where no  *)
(* property fixes it.  (XlMath and XlBits work on decimal digit sequences  *)
(* and have their own trace specifications.)                               *)
(***************************************************************************)
EXTENDS XlFuncs

LibDate == INSTANCE XlDate
LibAgg == INSTANCE XlAgg
LibCrit == INSTANCE XlCrit
LibFin == INSTANCE XlFin
LibMath == INSTANCE XlMath

\* ---- bridge to the math family: XlMath computes on decimal digit sequences; a short rational of the common value encoding
\* is that decimal, an exact decimal result is that rational again (results XlMath only bounds - "near", "ref" - stay Open here:
\* they need the harness's floating-point oracle, which the trace specification of C16 has and the formula evaluator has not)
RatToDec(x) ==
    LET k == DecPlaces(x.d) IN
    IF k < 0 \/ Abs(x.n) > 2000000000 \div Pow10(k) THEN Open
    ELSE LibMath!Dec(x.n < 0, LibMath!NatDigits((Abs(x.n) * Pow10(k)) \div x.d), -k)
DecToRat(d) ==
    IF LibMath!IsZero(d) THEN Whole(0)
    ELSE IF Len(d.dg) > 9 \/ d.e > 9 - Len(d.dg) \/ d.e < -6 THEN Open
    ELSE LET m == LibMath!NatVal(d.dg)
             v == IF d.e >= 0 THEN Rat(m * Pow10(d.e), 1) ELSE Rat(m, Pow10(-d.e))
         IN IF d.neg THEN RNeg(v) ELSE v
MathExact == {"ROUND", "ROUNDUP", "ROUNDDOWN", "TRUNC", "INT", "EVEN", "CEILING", "FLOOR", "MOD", "ABS", "SIGN", "FACT",
              "FACTDOUBLE", "ISEVEN", "ISODD", "SQRT", "POWER"}
MathBridge(f, a) ==
    LET fe == FirstErr(a)
        \* an argument that is no error value but fails to convert, standing LEFT of the first error value: which of the two
        \* errors is reported is left open (as for the operators)
        E == {i \in 1..Len(a) : a[i].t = "err"}
        badBefore == E # {} /\ \E j \in 1..Len(a) : (\A i \in E : j < i) /\ a[j].t \in {"txt", "bool", "blank", "num"} /\ ToNum(a[j]).t \in {"err", "open"}
    IN
    IF \E i \in 1..Len(a) : a[i].t \in {"open", "anyerr", "arr"} THEN Open
    ELSE IF fe.t = "err" THEN (IF badBefore THEN AnyErr ELSE fe)
    ELSE LET ns == [i \in 1..Len(a) |-> ToNum(a[i])] IN
         IF \E i \in 1..Len(a) : ns[i].t = "err" THEN Err("#VALUE!")
         ELSE IF \E i \in 1..Len(a) : ns[i].t # "num" THEN Open
         ELSE LET ds == [i \in 1..Len(a) |-> RatToDec(ns[i])] IN
              IF \E i \in 1..Len(a) : ds[i].t # "dec" THEN Open
              ELSE LET r == LibMath!MathCall(f, ds) IN
                   CASE r.t = "dec"    -> DecToRat(r)
                     \* "near": the real value, which the double result is within rounding of - as a short rational it is the
                     \* value an observed double is read as (harness/xl.to_abs) and compared with (agreement to 1e-9)
                     [] r.t = "near"   -> DecToRat([r EXCEPT !.t = "dec"])
                     [] r.t = "bool"   -> r
                     [] r.t = "anyerr" -> r
                     [] OTHER          -> Open

\* ---- bridge to the base conversions: XlBits takes the common value encoding as it is; a decimal result of up to nine digits is
\* that whole number (longer ones - up to 549755813887 - have no counterpart among the short rationals: Open).  An error value as
\* the number is the result; an error value as `places` is the result when the number itself converts (otherwise: some error)
LibBits == INSTANCE XlBits
BitsBridge(f, a) ==
    IF Len(a) < 1 \/ \E i \in 1..Len(a) : a[i].t \in {"open", "anyerr", "arr"} THEN Open
    ELSE IF a[1].t = "err" THEN a[1]
    ELSE IF Len(a) = 2 /\ a[2].t = "err" THEN
         (LET r == LibBits!BitsCall(f, <<a[1]>>) IN
          IF LibBits!Dst(f) = "DEC" THEN Open           \* (a second argument the function does not take)
          ELSE IF r.t = "txt" THEN a[2] ELSE IF r.t = "open" THEN Open ELSE AnyErr)
    ELSE LET r == LibBits!BitsCall(f, a) IN
         IF r.t = "dec" THEN (IF Len(r.dg) <= 9 THEN Whole((IF r.neg THEN -1 ELSE 1) * LibMath!NatVal(r.dg)) ELSE Open)
         ELSE r

HasErr(a) == \E i \in 1..Len(a) : a[i].t = "err"
HasDate(a) == \E i \in 1..Len(a) : a[i].t = "date"

LibCall(f, a) ==
    CASE f \in TextFuncs -> TextCall(f, a)
      [] f \in InfoFuncs -> InfoCall(f, a)
      \* operators on dates are XlDate's business (serial arithmetic), everything else XlValues'
      [] f \in OpFuncs -> IF HasDate(a) /\ f \in LibDate!DateOpFuncs THEN LibDate!DateCall(f, a) ELSE OpCall(f, a)
      [] f \in LibDate!DateFuncs -> LibDate!DateCall(f, a)
      [] f \in LibAgg!AggFuncs -> IF HasErr(a) THEN Open ELSE LibAgg!AggCall(f, a)
      [] f \in LibCrit!CritFuncs -> LibCrit!CritCall(f, a)
      [] f \in LibFin!FinFuncs -> LibFin!FinCall(f, a)
      [] f \in MathExact -> MathBridge(f, a)
      [] f \in LibBits!BitsFuncs -> BitsBridge(f, a)
      [] f \in {"TRUE", "FALSE"} -> IF Len(a) = 0 THEN Bool(f = "TRUE") ELSE Open
      [] OTHER -> Open
=============================================================================

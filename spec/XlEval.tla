------------------------------- MODULE XlEval -------------------------------
(***************************************************************************)
(* Big-step semantics of formulas over a workbook (C01, C03, C04 ...).     *)
(*                                                                         *)
(* A workbook wb is a record                                               *)
(*   cells : function from <<sheet, col, row>> to                          *)
(*             [c |-> "const", v |-> value] or [c |-> "formula", ast |-> a]*)
(*   names : function from name to a ref or range AST (with sheet)         *)
(* Eval(a, sh, wb): value of AST a in a formula that lives on sheet sh.    *)
(* An unqualified reference denotes sheet sh - the sheet of the cell whose *)
(* formula is being evaluated - recursively, so crossing sheets and coming *)
(* back needs no bookkeeping.  Absent cell = blank.  Acyclic workbooks     *)
(* only (cycles are XlEvalMachine's business).                             *)
(***************************************************************************)
EXTENDS XlLibrary, XlSyntax

Cell(wb, sh, c, r) == IF <<sh, c, r>> \in DOMAIN wb.cells THEN wb.cells[<<sh, c, r>>] ELSE [c |-> "absent"]

\* reference folds used by probe formulas (the full aggregate family is XlAgg)
\* balanced recursion: ranges of several hundred cells would overflow TLC's stack otherwise
\* (logical values and dates inside a range: Excel ignores the former, no property fixes either - left open)
SumItem(h) == IF h.t \in {"err", "anyerr", "num"} THEN h ELSE IF h.t \in {"date", "bool", "open"} THEN Open ELSE Whole(0)
\* (an undetermined element to the left of an error may itself be an error that would win)
SumPair(l, r) == IF l.t \in {"err", "anyerr"} THEN l
                 ELSE IF r.t \in {"err", "anyerr"} THEN (IF l.t = "open" THEN Open ELSE r)
                 ELSE IF l.t = "open" \/ r.t = "open" THEN Open ELSE RAdd(l, r)
RECURSIVE SumRange(_, _, _)
SumRange(xs, i, j) == \* numbers only; text and blanks in ranges are ignored; leftmost error wins
    IF i > j THEN Whole(0)
    ELSE IF i = j THEN SumItem(xs[i])
    ELSE LET m == (i + j) \div 2 IN SumPair(SumRange(xs, i, m), SumRange(xs, m + 1, j))
SumSeq(xs) == SumRange(xs, 1, Len(xs))
NonBlank(x) == IF x.t = "blank" \/ (x.t = "txt" /\ x.v = <<>>) THEN 0 ELSE 1
RECURSIVE CountRange(_, _, _)
CountRange(xs, i, j) == IF i > j THEN 0 ELSE IF i = j THEN NonBlank(xs[i])
                        ELSE LET m == (i + j) \div 2 IN CountRange(xs, i, m) + CountRange(xs, m + 1, j)
CountNonBlank(xs) == CountRange(xs, 1, Len(xs))
AnyOpenIn(xs) == \E i \in 1..Len(xs) : xs[i].t \in {"open", "anyerr"}

RECURSIVE FlatVals(_)
FlatVals(args) == \* arguments (scalars / arrays) to one sequence of scalars, row-major
    IF Len(args) = 0 THEN <<>>
    ELSE LET h == args[1] IN
         (IF h.t = "arr" THEN ArrElems(h) ELSE <<h>>) \o FlatVals(Tail(args))

\* scalar arguments of SUM are coerced (numeric text, booleans); range elements are not
SumArgs(args) ==
    \* (text that is no number, written as an argument: Excel says #VALUE!, tests/xlfunctions/test_math.py pins SUM('foo') = 0 -
    \* listed under "left open" for C14; numeric text, logical values and blanks are converted, C08)
    LET Co(x) == IF x.t = "arr" THEN x
                 ELSE IF x.t = "txt" THEN (LET r == ToNum(x) IN IF r.t = "err" THEN Open ELSE r)
                 ELSE IF x.t \in {"bool", "blank"} THEN ToNum(x) ELSE x
        cs == [i \in 1..Len(args) |-> Co(args[i])]
    IN IF \E i \in 1..Len(cs) : cs[i].t = "open" THEN Open ELSE SumSeq(FlatVals(cs))

UpName(f) == f      \* names in instances are written in upper case unless a case says otherwise
SameNameIgnoringCase(a, b) == UpperSeq(NameCodes(a)) = UpperSeq(NameCodes(b))

\* the name a call is looked up under: an _xlfn. prefix (how newer functions are stored in files) is ignored (C08)
XlfnNames == {"CONCAT", "DAYS", "ISOWEEKNUM", "XNPV", "XIRR", "COUNTIFS", "SUMIFS"}
PlainName(f) == IF \E g \in XlfnNames : f = "_xlfn." \o g THEN CHOOSE g \in XlfnNames : f = "_xlfn." \o g ELSE f

EvalCallStrict(f0, vals) ==
    LET f == PlainName(f0) IN
    CASE f = "SUM"    -> SumArgs(vals)
      [] f = "COUNTA" -> IF AnyOpenIn(FlatVals(vals)) THEN Open ELSE Whole(CountNonBlank(FlatVals(vals)))
      \* (XlAgg determines the folds over numbers, empty cells and plain text in ranges and over numbers written as arguments)
      [] f \in {"MAX", "MIN", "AVERAGE"} -> (LET fe == LeftmostErr(FlatVals(vals)) IN IF fe.t # "none" THEN fe ELSE LibCall(f, vals))
      [] OTHER        -> LibCall(f, vals)          \* every modelled function family

RECURSIVE Eval(_, _, _)
RECURSIVE EvalCell(_, _, _, _)
RECURSIVE EvalArgs(_, _, _)
EvalCell(wb, sh, c, r) ==
    LET x == Cell(wb, sh, c, r) IN
    CASE x.c = "absent"  -> Blank
      [] x.c = "const"   -> x.v
      [] x.c = "formula" -> Eval(x.ast, sh, wb)
EvalArgs(xs, sh, wb) == [i \in 1..Len(xs) |-> Eval(xs[i], sh, wb)]
Eval(a, sh, wb) ==
    CASE a.k = "num"  -> LitValue(a.txt)
      [] a.k = "str"  -> Txt(a.v)
      [] a.k = "bool" -> Bool(a.v)
      [] a.k = "err"  -> Err(a.v)
      [] a.k = "ref"  -> EvalCell(wb, IF a.sheet = "" THEN sh ELSE a.sheet, a.col, a.row)
      [] a.k = "range" ->
            LET s2 == IF a.sheet = "" THEN sh ELSE a.sheet IN
            Arr([r \in 1..(a.r2 - a.r1 + 1) |->
                   [c \in 1..(a.c2 - a.c1 + 1) |-> EvalCell(wb, s2, a.c1 + c - 1, a.r1 + r - 1)]])
      \* (a name spelt in another letter case than its definition: Excel's names are case-insensitive, the library's
      \* lookup is not - no listed property fixes the value: Open; models of the same workbook must still agree on it)
      \* whole rows: every cell of the rows; cells beyond the last used column are blank and take no part in any aggregate
      [] a.k = "rows" ->
            LET s2 == IF a.sheet = "" THEN sh ELSE a.sheet
                used == {k[2] : k \in {k \in DOMAIN wb.cells : k[1] = s2}} \cup {1}
                w == CHOOSE c \in used : \A d \in used : d <= c
            IN Arr([r \in 1..(a.r2 - a.r1 + 1) |-> [c \in 1..w |-> EvalCell(wb, s2, c, a.r1 + r - 1)]])
      [] a.k = "name" -> IF a.v \in DOMAIN wb.names THEN Eval(wb.names[a.v], sh, wb)
                         ELSE IF \E n \in DOMAIN wb.names : SameNameIgnoringCase(n, a.v) THEN Open
                         ELSE Err("#NAME?")
      [] a.k = "paren" -> Eval(a.x, sh, wb)
      [] a.k = "neg"  -> OpNeg(Eval(a.x, sh, wb))
      [] a.k = "pct"  -> OpPct(Eval(a.x, sh, wb))
      [] a.k = "bin"  -> ApplyBin(a.op, Eval(a.l, sh, wb), Eval(a.r, sh, wb))
      \* IF / NOT select lazily: only the condition and the selected branch are evaluated (C10; XlLogic has the
      \* set of admissible outcomes with the evaluation order, this is its value for references and expressions)
      [] a.k = "call" /\ a.f = "IF" /\ Len(a.args) \in {2, 3} ->
            LET c == Eval(a.args[1], sh, wb) IN
            IF c.t = "err" THEN c
            ELSE LET tr == Truth(c) IN
                 IF tr = "open" THEN Open
                 ELSE IF tr = "t" THEN Eval(a.args[2], sh, wb)
                 ELSE IF Len(a.args) = 3 THEN Eval(a.args[3], sh, wb) ELSE Bool(FALSE)
      [] a.k = "call" /\ a.f = "NOT" /\ Len(a.args) = 1 ->
            LET c == Eval(a.args[1], sh, wb) IN
            IF c.t = "err" THEN c
            ELSE LET tr == Truth(c) IN IF tr = "open" THEN Open ELSE Bool(tr = "f")
      \* AND / OR over values without errors (with an error among the arguments the result depends on where the
      \* implementation stops: XlLogic!Junction)
      [] a.k = "call" /\ a.f \in {"AND", "OR"} /\ Len(a.args) >= 1 ->
            LET es == FlatVals(EvalArgs(a.args, sh, wb))
                tr == [k \in 1..Len(es) |-> CASE es[k].t = "err" -> "open" [] es[k].t = "blank" -> "skip"
                                               [] es[k].t = "txt" -> "open" [] OTHER -> Truth(es[k])]
            IN IF \E k \in 1..Len(es) : tr[k] = "open" THEN Open
               ELSE IF \A k \in 1..Len(es) : tr[k] = "skip" THEN Open
               ELSE IF a.f = "AND" THEN Bool(\A k \in 1..Len(es) : tr[k] # "f")
               ELSE Bool(\E k \in 1..Len(es) : tr[k] = "t")
      \* SUM: a text or logical value reached through a single-cell REFERENCE is not a literal argument (Excel ignores it
      \* there, as in a range, while the same value written in the formula is converted): no property fixes it - left open
      [] a.k = "call" /\ a.f = "SUM" /\ (\E i \in 1..Len(a.args) : a.args[i].k \in {"ref", "name"}
                                             /\ Eval(a.args[i], sh, wb).t \in {"txt", "bool"}) ->
            LET fe == LeftmostErr(FlatVals(EvalArgs(a.args, sh, wb))) IN IF fe.t # "none" THEN fe ELSE Open
      [] a.k = "call" -> EvalCallStrict(a.f, EvalArgs(a.args, sh, wb))
=============================================================================

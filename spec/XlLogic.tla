------------------------------ MODULE XlLogic ------------------------------
(***************************************************************************)
(* IF / AND / OR / NOT (C10): truth rules and LAZINESS.  The evaluator of  *)
(* this module returns, for an expression, the SET of admissible outcomes  *)
(*      [v |-> value, log |-> sequence of spy ids in evaluation order]     *)
(* so that "only the selected branch is evaluated" is part of the result:  *)
(* SPY(k) is a function that logs k and returns k.  Exc stands for a       *)
(* Python-level failure (unknown function, circular reference) - what a    *)
(* poisoned branch does IF it is evaluated.                                *)
(*                                                                         *)
(* IF forces the condition and exactly the selected branch.  AND / OR may  *)
(* stop at any point at which the result is already decided (short-circuit *)
(* or full evaluation or anything in between): each stopping point is an   *)
(* admissible outcome; an error among the EVALUATED arguments is the       *)
(* result.                                                                 *)
(***************************************************************************)
EXTENDS XlEval

Exc == [t |-> "pyexc"]
CycCol == 17
OwnCol == 26      \* the formula under test lives in Z1
O(v, log) == [v |-> v, log |-> log]

\* truth of one element of an AND/OR argument: "t", "f", "skip" (blank), "open" (text), or an error record
ElemTruth(x) == CASE x.t = "err" -> "err" [] x.t = "blank" -> "skip" [] x.t = "bool" -> (IF x.v THEN "t" ELSE "f")
                  [] x.t = "num" -> (IF x.n # 0 THEN "t" ELSE "f") [] x.t = "date" -> "t" [] x.t = "float" -> "t" [] OTHER -> "open"
Elems(v) == IF v.t = "arr" THEN ArrElems(v) ELSE <<v>>

RECURSIVE Outs(_, _)
RECURSIVE Junction(_, _, _, _, _, _, _, _)
\* Junction(isAnd, args, i, log, decided, anyElem, open, wb&sheet packed in ctx): outcomes of AND/OR from argument i on
\*   decided: the result is already fixed (AND saw a false / OR saw a true)
Junction(isAnd, args, i, log, decided, anyElem, isOpen, ctx) ==
    LET stopHere == IF decided /\ ~isOpen THEN {O(Bool(~isAnd), log)} ELSE {}
    IN IF i > Len(args)
       THEN (IF isOpen \/ ~anyElem THEN {O(Open, log)} ELSE {O(Bool(IF decided THEN ~isAnd ELSE isAnd), log)})
       ELSE stopHere \cup UNION {
              IF a.v = Exc THEN {O(Exc, log \o a.log)}
              ELSE LET es == Elems(a.v)
                       errs == {k \in 1..Len(es) : es[k].t = "err"}
                       tr == [k \in 1..Len(es) |-> ElemTruth(es[k])]
                       hit == \E k \in 1..Len(es) : tr[k] = (IF isAnd THEN "f" ELSE "t")
                       someOpen == a.v.t = "open" \/ \E k \in 1..Len(es) : tr[k] = "open"
                       some == \E k \in 1..Len(es) : tr[k] \in {"t", "f"}
                   IN IF errs # {} THEN {O(es[CHOOSE k \in errs : \A m \in errs : k <= m], log \o a.log)}
                      ELSE Junction(isAnd, args, i + 1, log \o a.log, decided \/ hit, anyElem \/ some, isOpen \/ someOpen, ctx)
              : a \in Outs(args[i], ctx) }

Outs(a, ctx) ==
    CASE a.k = "call" /\ a.f = "SPY" -> {O(LitValue(a.args[1].txt), <<LitValue(a.args[1].txt).n>>)}
      [] a.k = "call" /\ a.f = "NOSUCHFUNC" -> {O(Exc, <<>>)}
      [] a.k = "ref" /\ a.col \in {CycCol, OwnCol} /\ a.row = 1 -> {O(Exc, <<>>)}   \* Q1 holds =Q1+1, Z1 is the formula itself: circular
      [] a.k = "call" /\ a.f = "SUM" /\ Len(a.args) = 1 /\ a.args[1].k = "range" /\ a.args[1].r1 = 1
                     /\ a.args[1].c1 <= OwnCol /\ OwnCol <= a.args[1].c2 -> {O(Exc, <<>>)}  \* a range containing the formula's own cell
      [] a.k = "call" /\ a.f = "IF" ->
            UNION { IF c.v = Exc THEN {c}
                    ELSE IF c.v.t = "err" THEN {c}
                    ELSE LET tr == Truth(c.v) IN
                         IF tr = "open" THEN {O(Open, c.log)}
                         ELSE IF tr = "t" THEN {O(x.v, c.log \o x.log) : x \in Outs(a.args[2], ctx)}
                         ELSE IF Len(a.args) >= 3 THEN {O(x.v, c.log \o x.log) : x \in Outs(a.args[3], ctx)}
                         ELSE {O(Bool(FALSE), c.log)}
                  : c \in Outs(a.args[1], ctx) }
      [] a.k = "call" /\ a.f = "AND" -> Junction(TRUE, a.args, 1, <<>>, FALSE, FALSE, FALSE, ctx)
      [] a.k = "call" /\ a.f = "OR"  -> Junction(FALSE, a.args, 1, <<>>, FALSE, FALSE, FALSE, ctx)
      [] a.k = "call" /\ a.f = "NOT" ->
            { IF c.v = Exc \/ c.v.t = "err" THEN c
              ELSE LET tr == Truth(c.v) IN IF tr = "open" THEN O(Open, c.log) ELSE O(Bool(tr = "f"), c.log)
              : c \in Outs(a.args[1], ctx) }
      [] a.k = "bin" ->
            UNION { IF x.v = Exc THEN {x}
                    ELSE { IF y.v = Exc THEN O(Exc, x.log \o y.log) ELSE O(ApplyBin(a.op, x.v, y.v), x.log \o y.log) : y \in Outs(a.r, ctx) }
                  : x \in Outs(a.l, ctx) }
      [] a.k = "paren" -> Outs(a.x, ctx)
      [] a.k = "neg" -> { IF x.v = Exc THEN x ELSE O(OpNeg(x.v), x.log) : x \in Outs(a.x, ctx) }
      [] OTHER -> {O(Eval(a, ctx.sheet, ctx.wb), <<>>)}       \* literals, references to constant cells, ranges of constants
=============================================================================

----------------------------- MODULE XlValues -----------------------------
(***************************************************************************)
(* Value universe of the xlcalculator specification, and the scalar        *)
(* semantics every other module builds on: exact rationals, numeric text,  *)
(* coercions, the arithmetic / concatenation / comparison operators with   *)
(* Excel's error propagation, and the total order on values (C07-C09).     *)
(*                                                                         *)
(* Values are records tagged by field t:                                   *)
(*   [t |-> "num", n, d]      exact rational n/d, d > 0, gcd(n,d) = 1      *)
(*   [t |-> "txt", v]         text as a sequence of Unicode code points    *)
(*   [t |-> "bool", v]        TRUE / FALSE                                 *)
(*   [t |-> "blank"]          the value of an empty cell                   *)
(*   [t |-> "err", v]         one of the seven Excel error codes           *)
(*   [t |-> "date", s, fn, fd] serial s plus time-of-day fraction fn/fd    *)
(*   [t |-> "arr", v]         row-major matrix: sequence of rows           *)
(* Expected-only results:                                                  *)
(*   [t |-> "anyerr"]         "an Excel error value", code left open       *)
(*   [t |-> "open"]           the property does not determine the result   *)
(***************************************************************************)
EXTENDS Integers, Sequences, FiniteSets, TLC

ErrCodes == <<"#NULL!", "#DIV/0!", "#VALUE!", "#REF!", "#NAME?", "#NUM!", "#N/A">>
ErrCodeSet == {ErrCodes[i] : i \in 1..Len(ErrCodes)}

Abs(x) == IF x < 0 THEN -x ELSE x
Min2(a, b) == IF a <= b THEN a ELSE b
Max2(a, b) == IF a >= b THEN a ELSE b

RECURSIVE GCD(_, _)
GCD(a, b) == IF b = 0 THEN a ELSE GCD(b, a % b)

RECURSIVE Pow10(_)
Pow10(k) == IF k = 0 THEN 1 ELSE 10 * Pow10(k - 1)

RECURSIVE IPow(_, _)
IPow(b, e) == IF e = 0 THEN 1 ELSE b * IPow(b, e - 1)

(* ---------------------------------------------------------------------- *)
(* constructors                                                            *)
(* ---------------------------------------------------------------------- *)
Rat(n, d) == \* normalising constructor, d # 0
    LET s == IF d < 0 THEN -1 ELSE 1
        g == GCD(Abs(n), Abs(d))
    IN [t |-> "num", n |-> (s * n) \div g, d |-> (s * d) \div g]
Whole(n)  == [t |-> "num", n |-> n, d |-> 1]
Txt(s)  == [t |-> "txt", v |-> s]
Bool(b) == [t |-> "bool", v |-> b]
Blank   == [t |-> "blank"]
Err(c)  == [t |-> "err", v |-> c]
Date(s) == [t |-> "date", s |-> s, fn |-> 0, fd |-> 1]
DateT(s, fn, fd) == [t |-> "date", s |-> s, fn |-> fn, fd |-> fd]
Arr(rows) == [t |-> "arr", v |-> rows]
AnyErr  == [t |-> "anyerr"]
NoExc   == [t |-> "noexc"]      \* expected-only: a value or an Excel error value, never a Python exception
Open    == [t |-> "open"]

RECURSIVE ConcatRange(_, _, _)
ConcatRange(ss, i, j) == IF i > j THEN <<>> ELSE IF i = j THEN ss[i]
                         ELSE LET m == (i + j) \div 2 IN ConcatRange(ss, i, m) \o ConcatRange(ss, m + 1, j)
ConcatSeqs(ss) == ConcatRange(ss, 1, Len(ss))
ArrElems(a) == ConcatSeqs(a.v)          \* elements of an array, row-major

IsNum(x)   == x.t = "num"
IsTxt(x)   == x.t = "txt"
IsBool(x)  == x.t = "bool"
IsBlank(x) == x.t = "blank"
IsErr(x)   == x.t = "err"
IsDate(x)  == x.t = "date"
IsArr(x)   == x.t = "arr"
IsOpen(x)  == x.t = "open"
IsScalar(x) == x.t \in {"num", "txt", "bool", "blank", "date"}

SameVal(a, b) == a.t = b.t /\ a = b

(* ---------------------------------------------------------------------- *)
(* exact rational arithmetic with an explicit 32-bit guard: TLC raises on  *)
(* overflow, so every product is guarded and an unsafe operand makes the   *)
(* result Open (undetermined), never wrong.                                *)
(* ---------------------------------------------------------------------- *)
Lim == 40000
SafeNum(x) == Abs(x.n) <= Lim /\ x.d <= Lim

BigLim == 1000000000
WholeSafe(a, b) == a.d = 1 /\ b.d = 1 /\ Abs(a.n) < BigLim /\ Abs(b.n) < BigLim     \* integers add without products
RAdd(a, b) == IF WholeSafe(a, b) THEN Whole(a.n + b.n)
              ELSE IF SafeNum(a) /\ SafeNum(b) THEN Rat(a.n * b.d + b.n * a.d, a.d * b.d) ELSE Open
RSub(a, b) == IF WholeSafe(a, b) THEN Whole(a.n - b.n)
              ELSE IF SafeNum(a) /\ SafeNum(b) THEN Rat(a.n * b.d - b.n * a.d, a.d * b.d) ELSE Open
RMul(a, b) == IF a.d = 1 /\ b.d = 1 /\ (b.n = 0 \/ Abs(a.n) <= 2000000000 \div Abs(b.n)) THEN Whole(a.n * b.n)
              ELSE IF SafeNum(a) /\ SafeNum(b) THEN Rat(a.n * b.n, a.d * b.d) ELSE Open
RDiv(a, b) == IF SafeNum(a) /\ SafeNum(b) THEN Rat(a.n * b.d, a.d * b.n) ELSE Open   \* b.n # 0
RNeg(a)    == [t |-> "num", n |-> -a.n, d |-> a.d]
RLt(a, b)  == a.n * b.d < b.n * a.d          \* callers keep operands safe
RLe(a, b)  == a.n * b.d <= b.n * a.d
REq(a, b)  == a.n = b.n /\ a.d = b.d
IsWhole(a) == a.d = 1
RSign(a)   == IF a.n > 0 THEN 1 ELSE IF a.n < 0 THEN -1 ELSE 0
RFloor(a)  == a.n \div a.d                    \* TLA+ \div floors
RCeil(a)   == -((-a.n) \div a.d)
RTrunc(a)  == IF a.n >= 0 THEN a.n \div a.d ELSE -((-a.n) \div a.d)

RECURSIVE RPowNat(_, _)
RPowNat(a, e) == \* a^e for e >= 0, Open on overflow
    IF e = 0 THEN Whole(1)
    ELSE LET r == RPowNat(a, e - 1)
         IN IF IsOpen(r) THEN Open ELSE RMul(r, a)

(* ---------------------------------------------------------------------- *)
(* text <-> number                                                         *)
(* ---------------------------------------------------------------------- *)
CP0 == 48   CPMinus == 45   CPPlus == 43   CPDot == 46   CPE == 69   CPe == 101

RECURSIVE NatToCodes(_)
NatToCodes(n) == IF n < 10 THEN <<CP0 + n>> ELSE Append(NatToCodes(n \div 10), CP0 + (n % 10))

IntToCodes(n) == IF n < 0 THEN <<CPMinus>> \o NatToCodes(-n) ELSE NatToCodes(n)

Str(s) == s   \* documentation: a TLA+ tuple of code points

TRUEcodes  == <<84, 82, 85, 69>>
FALSEcodes == <<70, 65, 76, 83, 69>>

RECURSIVE Pad0(_, _)
Pad0(s, k) == IF Len(s) >= k THEN s ELSE Pad0(<<CP0>> \o s, k)

RECURSIVE StripTrail0(_)
StripTrail0(s) == IF Len(s) > 0 /\ s[Len(s)] = CP0 THEN StripTrail0(SubSeq(s, 1, Len(s) - 1)) ELSE s

\* smallest k <= 6 with d | 10^k, or -1 (non-terminating or too long)
DecPlaces(d) ==
    IF \E k \in 0..6 : Pow10(k) % d = 0
    THEN CHOOSE k \in 0..6 : Pow10(k) % d = 0 /\ \A j \in 0..(k - 1) : Pow10(j) % d # 0
    ELSE -1

\* Excel's general text form of a number; Open when not a short decimal
NumToText(x) ==
    IF x.d = 1 THEN Txt(IntToCodes(x.n))          \* a whole number of any (32-bit) size
    ELSE IF ~SafeNum(x) THEN Open
    ELSE IF Abs(x.n) * 10000 < x.d THEN Open          \* |x| < 0.0001: plain or scientific spelling is a formatting matter
    ELSE LET k == DecPlaces(x.d) IN
         IF k < 0 THEN Open
         ELSE LET m  == (Abs(x.n) * Pow10(k)) \div x.d
                  ip == m \div Pow10(k)
                  fp == m % Pow10(k)
                  sg == IF x.n < 0 THEN <<CPMinus>> ELSE <<>>
              IN Txt(sg \o NatToCodes(ip) \o <<CPDot>> \o Pad0(NatToCodes(fp), k))

IsDigit(c) == c >= 48 /\ c <= 57

RECURSIVE DigitsToNat(_)
DigitsToNat(s) == IF Len(s) = 0 THEN 0 ELSE DigitsToNat(SubSeq(s, 1, Len(s) - 1)) * 10 + (s[Len(s)] - CP0)

AllDigits(s) == \A i \in 1..Len(s) : IsDigit(s[i])

IndexOf(s, pred(_)) == \* first index satisfying pred, 0 if none
    IF \E i \in 1..Len(s) : pred(s[i])
    THEN CHOOSE i \in 1..Len(s) : pred(s[i]) /\ \A j \in 1..(i - 1) : ~pred(s[j])
    ELSE 0

NotNum == [t |-> "notnum"]

\* numeric text: [sign] digits [. digits] [E [sign] digits]  or  [sign] . digits ...
\* result: a "num" record, Open (numeric but too large for the model, or text with
\* digits that is not a plain number: Excel also converts date-, time-, percent-
\* and currency-looking text, which no property fixes), or NotNum (no digit at all)
TextToNum(s) ==
    LET neg  == Len(s) > 0 /\ s[1] = CPMinus
        sgn  == Len(s) > 0 /\ (s[1] = CPMinus \/ s[1] = CPPlus)
        body == IF sgn THEN SubSeq(s, 2, Len(s)) ELSE s
        ei   == IndexOf(body, LAMBDA c : c = CPE \/ c = CPe)
        mant == IF ei = 0 THEN body ELSE SubSeq(body, 1, ei - 1)
        expo == IF ei = 0 THEN <<>> ELSE SubSeq(body, ei + 1, Len(body))
        esg  == Len(expo) > 0 /\ (expo[1] = CPMinus \/ expo[1] = CPPlus)
        eneg == Len(expo) > 0 /\ expo[1] = CPMinus
        edig == IF esg THEN SubSeq(expo, 2, Len(expo)) ELSE expo
        di   == IndexOf(mant, LAMBDA c : c = CPDot)
        ipart == IF di = 0 THEN mant ELSE SubSeq(mant, 1, di - 1)
        fpart == IF di = 0 THEN <<>> ELSE SubSeq(mant, di + 1, Len(mant))
        okm  == AllDigits(ipart) /\ AllDigits(fpart) /\ Len(ipart) + Len(fpart) > 0
        oke  == ei = 0 \/ (AllDigits(edig) /\ Len(edig) > 0)
        hasDigit == \E i \in 1..Len(s) : IsDigit(s[i])
    IN IF ~(okm /\ oke) THEN (IF hasDigit THEN Open ELSE NotNum)   \* "2-2", "1/2", "3 Jan": date-looking text is left open
       \* (whole numbers without exponent: up to nine digits; otherwise four significant digits, one exponent digit)
       ELSE IF (Len(ipart) + Len(fpart) > 4 /\ ~(Len(fpart) = 0 /\ ei = 0 /\ di = 0 /\ Len(ipart) <= 9)) \/ Len(edig) > 1 THEN Open
       ELSE LET m == DigitsToNat(ipart \o fpart)
                e == (IF eneg THEN -1 ELSE 1) * DigitsToNat(edig) - Len(fpart)
                sm == IF neg THEN -m ELSE m
            IN IF e > 4 \/ e < -4 THEN Open
               ELSE IF e >= 0 THEN Rat(sm * Pow10(e), 1) ELSE Rat(sm, Pow10(-e))

\* case mapping of code points (used by the coercions and by the order on texts)
UpCP(c) == IF (c >= 97 /\ c <= 122) \/ (c >= 224 /\ c <= 254 /\ c # 247) THEN c - 32 ELSE c
LowCP(c) == IF (c >= 65 /\ c <= 90) \/ (c >= 192 /\ c <= 222 /\ c # 215) THEN c + 32 ELSE c
\* code points whose case mapping the specification fixes: Latin-1 except the
\* two whose upper case leaves Latin-1 or changes length, plus symbols known
\* to be caseless (euro sign, a CJK ideograph, an emoji); anything else: Open
CaseKnown(c) == (c <= 254 /\ c # 181 /\ c # 223) \/ c \in {8364, 20013, 128512}
CaseKnownSeq(s) == \A i \in 1..Len(s) : CaseKnown(s[i])
UpperSeq(s) == [i \in 1..Len(s) |-> UpCP(s[i])]
LowerSeq(s) == [i \in 1..Len(s) |-> LowCP(s[i])]


(* ---------------------------------------------------------------------- *)
(* coercions (C08)                                                         *)
(* ---------------------------------------------------------------------- *)
ToNum(x) ==
    CASE x.t = "num"   -> x
      [] x.t = "bool"  -> IF x.v THEN Whole(1) ELSE Whole(0)
      [] x.t = "blank" -> Whole(0)
      [] x.t = "date"  -> IF x.fn = 0 THEN Whole(x.s)
                          ELSE IF x.s <= 1000000000 \div x.fd THEN Rat(x.s * x.fd + x.fn, x.fd) ELSE Open
      \* (text spelling a logical value: the library interprets it in arithmetic on purpose, Excel says #VALUE! - left open)
      [] x.t = "txt"   -> IF UpperSeq(x.v) \in {TRUEcodes, FALSEcodes} THEN Open
                          ELSE LET r == TextToNum(x.v) IN IF r.t = "notnum" THEN Err("#VALUE!") ELSE r
      [] x.t = "err"   -> x
      [] OTHER         -> Open

ToText(x) ==
    CASE x.t = "txt"   -> x
      [] x.t = "num"   -> NumToText(x)
      [] x.t = "bool"  -> Txt(IF x.v THEN TRUEcodes ELSE FALSEcodes)
      [] x.t = "blank" -> Txt(<<>>)
      [] x.t = "err"   -> x
      [] OTHER         -> Open      \* dates as text: number format, left open

\* truth value of a scalar used as a condition (C10): "t", "f", an error, or Open (text)
Truth(x) ==
    CASE x.t = "bool"  -> IF x.v THEN "t" ELSE "f"
      [] x.t = "num"   -> IF x.n # 0 THEN "t" ELSE "f"
      [] x.t = "blank" -> "f"
      [] x.t = "date"  -> "t"
      \* a double that is no small rational travels as its decimal spelling: zero has a rational form, so this one is not zero
      [] x.t = "float" -> "t"
      [] OTHER         -> "open"

(* ---------------------------------------------------------------------- *)
(* error propagation: leftmost error among the operands (C07)              *)
(* ---------------------------------------------------------------------- *)
FirstErr(args) == \* args: sequence of values; the first error or Blank-marker
    LET I == {i \in 1..Len(args) : args[i].t = "err"}
    IN IF I = {} THEN [t |-> "none"]
       ELSE args[CHOOSE i \in I : \A j \in I : i <= j]

\* ... when some of the values are only known to be SOME error (anyerr) or not known at all (open): the leftmost of the error
\* values, if it is known; some error, if an error value is certainly among them; Open otherwise; [t |-> "none"] without any
LeftmostErr(args) ==
    LET I == {i \in 1..Len(args) : args[i].t \in {"err", "anyerr", "open"}}
    IN IF I = {} THEN [t |-> "none"]
       ELSE LET x == args[CHOOSE i \in I : \A j \in I : i <= j] IN
            IF x.t = "err" THEN x
            ELSE IF \E i \in I : args[i].t \in {"err", "anyerr"} THEN AnyErr
            ELSE Open

AnyOpen(args) == \E i \in 1..Len(args) : args[i].t = "open"

\* lift a binary numeric operation: errors first (left to right), then coercion
\* errors (left to right), then the operation
NumBin(a, b, F(_, _)) ==
    IF a.t = "open" THEN Open            \* an undetermined left operand may itself be an error that would win
    ELSE IF a.t = "err" THEN a
    ELSE IF a.t = "anyerr" THEN a
    \* the right operand is "some error" (which one was left open): the result is some error
    ELSE IF b.t = "anyerr" THEN (IF a.t = "arr" \/ ToNum(a).t = "open" THEN Open ELSE b)
    \* an error operand on the right is the result - unless the left operand would itself fail to convert,
    \* in which case only "an error" is demanded (which of the two is reported first is left open)
    ELSE IF b.t = "err" THEN (IF a.t = "arr" THEN Open ELSE IF ToNum(a).t = "err" THEN AnyErr ELSE IF ToNum(a).t = "open" THEN Open ELSE b)
    ELSE IF b.t = "open" \/ a.t = "arr" \/ b.t = "arr" THEN Open
    ELSE LET x == ToNum(a)  y == ToNum(b) IN
         \* (the left operand fails to convert and nothing is known about the right one: an error for sure, which one is open)
         IF x.t = "err" THEN (IF y.t = "open" THEN AnyErr ELSE x)
         ELSE IF y.t = "err" THEN y
         ELSE IF x.t = "open" \/ y.t = "open" THEN Open
         ELSE F(x, y)

OpAdd(a, b) == NumBin(a, b, RAdd)
OpSub(a, b) == NumBin(a, b, RSub)
OpMul(a, b) == NumBin(a, b, RMul)
\* a left operand that cannot be converted AND a zero divisor: #VALUE! or #DIV/0!, which one is left open
OpDiv(a, b) == IF a.t \notin {"err", "open", "arr"} /\ b.t \notin {"err", "open", "arr"}
                  /\ ToNum(a).t = "err" /\ ToNum(b).t = "num" /\ ToNum(b).n = 0 THEN AnyErr
               ELSE NumBin(a, b, LAMBDA x, y : IF y.n = 0 THEN Err("#DIV/0!") ELSE RDiv(x, y))

\* x ^ y : determined for whole exponents of small size.  0^0 and 0^negative,
\* negative base with fractional exponent, and anything irrational are Open
\* here (C16 treats the domain rule "an Excel error value").
PowNum(x, y) ==
    IF ~IsWhole(y) \/ Abs(y.n) > 12 THEN Open
    ELSE IF x.n = 0 /\ y.n <= 0 THEN Open
    ELSE IF y.n >= 0 THEN RPowNat(x, y.n)
    ELSE LET p == RPowNat(x, -y.n) IN IF IsOpen(p) THEN Open ELSE RDiv(Whole(1), p)
OpPow(a, b) == NumBin(a, b, PowNum)

OpNeg(a) == IF a.t \in {"err", "anyerr"} THEN a ELSE IF a.t \in {"open", "arr"} THEN Open
            ELSE LET x == ToNum(a) IN IF x.t \in {"err", "open"} THEN x ELSE RNeg(x)
OpPct(a) == IF a.t \in {"err", "anyerr"} THEN a ELSE IF a.t \in {"open", "arr"} THEN Open
            ELSE LET x == ToNum(a) IN IF x.t \in {"err", "open"} THEN x ELSE RDiv(x, Whole(100))

CellTextLimit == 32767
OpConcat(a, b) ==
    IF a.t = "open" THEN Open
    ELSE IF a.t \in {"err", "anyerr"} THEN a
    ELSE IF b.t \in {"err", "anyerr"} THEN b
    ELSE IF a.t = "arr" \/ b.t \in {"open", "arr"} THEN Open
    ELSE LET x == ToText(a)  y == ToText(b) IN
         IF x.t = "open" \/ y.t = "open" THEN Open
         ELSE IF Len(x.v) + Len(y.v) > CellTextLimit THEN Open      \* longer than any cell of Excel holds: the text, or an error value
         ELSE Txt(x.v \o y.v)

(* ---------------------------------------------------------------------- *)
(* the total order on values (C09)                                         *)
(* ---------------------------------------------------------------------- *)
RECURSIVE SeqLt(_, _)
SeqLt(a, b) == \* lexicographic on code points
    IF Len(b) = 0 THEN FALSE
    ELSE IF Len(a) = 0 THEN TRUE
    ELSE IF a[1] < b[1] THEN TRUE
    ELSE IF a[1] > b[1] THEN FALSE
    ELSE SeqLt(Tail(a), Tail(b))

Rank(x) == CASE x.t \in {"num", "date"} -> 0 [] x.t = "txt" -> 1 [] x.t = "bool" -> 2 [] OTHER -> -1

\* three-way comparison of two non-blank scalars: -1, 0, 1; 2 = not determined
Cmp3NB(a, b) ==
    IF Rank(a) # Rank(b) THEN (IF Rank(a) < Rank(b) THEN -1 ELSE 1)
    ELSE IF Rank(a) = 0 THEN
            LET x == ToNum(a)  y == ToNum(b) IN
            IF x.t # "num" \/ y.t # "num" THEN 2
            ELSE IF ~(Abs(x.n) <= 2000000000 \div y.d /\ Abs(y.n) <= 2000000000 \div x.d) THEN 2      \* cross products must fit
            ELSE IF REq(x, y) THEN 0 ELSE IF RLt(x, y) THEN -1 ELSE 1
    ELSE IF Rank(a) = 1 THEN
            LET x == UpperSeq(a.v)  y == UpperSeq(b.v) IN
            IF x = y THEN 0 ELSE IF SeqLt(x, y) THEN -1 ELSE 1
    ELSE IF a.v = b.v THEN 0 ELSE IF b.v THEN -1 ELSE 1      \* FALSE < TRUE

\* a blank compares as the neutral element of the other operand's type;
\* only the EQUALITY outcome is fixed by C09 for blanks (ordering left open)
BlankAs(x) == CASE x.t \in {"num", "date"} -> Whole(0) [] x.t = "txt" -> Txt(<<>>)
                [] x.t = "bool" -> Bool(FALSE) [] OTHER -> Whole(0)

Cmp3(a, b) ==
    IF a.t = "blank" /\ b.t = "blank" THEN 0
    ELSE IF a.t = "blank" THEN Cmp3NB(BlankAs(b), b)
    ELSE IF b.t = "blank" THEN Cmp3NB(a, BlankAs(a))
    ELSE Cmp3NB(a, b)

CmpOps == {"=", "<>", "<", ">", "<=", ">="}

CmpHolds(op, c) == CASE op = "="  -> c = 0  [] op = "<>" -> c # 0 [] op = "<"  -> c < 0
                     [] op = ">"  -> c > 0  [] op = "<=" -> c <= 0 [] op = ">=" -> c >= 0

OpCmp(op, a, b) ==
    IF a.t = "open" THEN Open
    ELSE IF a.t \in {"err", "anyerr"} THEN a
    ELSE IF b.t \in {"err", "anyerr"} THEN b
    ELSE IF ~IsScalar(a) \/ ~IsScalar(b) THEN Open
    ELSE LET c == Cmp3(a, b)
             blankInvolved == a.t = "blank" \/ b.t = "blank"
         IN IF c = 2 THEN Open
            \* with a blank operand only (in)equality is determined
            ELSE IF blankInvolved /\ op \notin {"=", "<>"} THEN Open
            ELSE Bool(CmpHolds(op, c))

BinOps == {"^", "*", "/", "+", "-", "&", "=", "<>", "<", ">", "<=", ">="}

ApplyBin(op, a, b) ==
    CASE op = "+" -> OpAdd(a, b) [] op = "-" -> OpSub(a, b)
      [] op = "*" -> OpMul(a, b) [] op = "/" -> OpDiv(a, b)
      [] op = "^" -> OpPow(a, b) [] op = "&" -> OpConcat(a, b)
      [] OTHER    -> OpCmp(op, a, b)


(* ---------------------------------------------------------------------- *)
(* generic argument discipline of built-in functions (C07/C08)             *)
(*   kinds: "n" numeric, "t" text, "a" anything, "i" whole number          *)
(* An error argument is the result - the leftmost one - provided every     *)
(* other argument is acceptable for its parameter; if another argument     *)
(* would itself make the function fail, only "an error" is demanded.       *)
(* ---------------------------------------------------------------------- *)
CoerceFails(kind, x) ==
    CASE kind \in {"n", "i"} -> x.t # "err" /\ x.t # "open" /\ x.t # "arr" /\ ToNum(x).t = "err"
      [] OTHER -> FALSE

CoerceOpen(kind, x) ==
    \/ x.t = "open"
    \/ x.t = "arr"
    \/ kind \in {"n", "i"} /\ x.t # "err" /\ ToNum(x).t = "open"
    \/ kind = "i" /\ x.t # "err" /\ ToNum(x).t = "num" /\ ~IsWhole(ToNum(x))
    \/ kind = "t" /\ x.t # "err" /\ ToText(x).t = "open"

\* Guard(kinds, args, body): error / coercion discipline around a function body
\* that may assume text args are ToText-able and numeric args ToNum-able.
Guard(kinds, args, body) ==
    LET n  == Len(args)
        fe == FirstErr(args)
        bad == \E i \in 1..n : CoerceFails(kinds[i], args[i])
        opn == \E i \in 1..n : CoerceOpen(kinds[i], args[i])
    IN IF fe.t = "err" THEN (IF bad \/ opn THEN AnyErr ELSE fe)
       ELSE IF opn THEN Open
       ELSE IF bad THEN Err("#VALUE!")
       ELSE body

NArg(x) == ToNum(x)           \* after Guard: a "num" record
IArg(x) == ToNum(x).n         \* after Guard with kind "i": an integer
TArg(x) == ToText(x).v        \* after Guard: code points

(* ---------------------------------------------------------------------- *)
(* agreement of an observed abstract value with an expected one            *)
(* (observed doubles arrive as exact rationals when they are close to one) *)
(* ---------------------------------------------------------------------- *)
Agrees(obs, exp) ==
    CASE exp.t = "open"   -> TRUE
      [] exp.t = "anyerr" -> obs.t = "err"
      [] exp.t = "noexc"  -> obs.t \in {"num", "txt", "bool", "blank", "date", "err", "float", "arr"}
      \* a date and a number denote the same value when the serial (with its time fraction) is that number
      [] exp.t = "date" /\ obs.t = "num" -> SameVal(ToNum(exp), obs)
      [] exp.t = "num" /\ obs.t = "date" -> SameVal(exp, ToNum(obs))
      [] OTHER            -> SameVal(obs, exp)
=============================================================================

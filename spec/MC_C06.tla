------------------------------ MODULE MC_C06 ------------------------------
EXTENDS XlEvalMachine
\* for the variant without an effective cycle check the stack grows without bound: cut the exploration
CutDeep == Len(stack) <= Cardinality(Cells) + 2
\* refinement: the machine with the path discipline is an instance of the skeleton XlEvalPath, whose invariant
\* Apalache proves inductive for all graphs on 8 cells (cfg C06_refines_path)
PathEdges == {e \in Cells \X Cells : Edge(e[1], e[2])}
PathStack == [i \in 1..Len(stack) |-> stack[i].cell]
P == INSTANCE XlEvalPath WITH N <- Cardinality(Cells), PathCheck <- TRUE, edges <- PathEdges, stack <- PathStack
RefinesPath == P!Spec
PathInv == P!IndInv
DoneView == <<refs, fail, entry, outcome, val>>
=============================================================================

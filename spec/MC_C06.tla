------------------------------ MODULE MC_C06 ------------------------------
EXTENDS XlEvalMachine
\* for the variant without an effective cycle check the stack grows without bound: cut the exploration
CutDeep == Len(stack) <= Cardinality(Cells) + 2
DoneView == <<refs, fail, entry, outcome, val>>
=============================================================================

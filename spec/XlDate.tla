------------------------------ MODULE XlDate ------------------------------
(***************************************************************************)
(* Date serials and date functions in Excel's 1900 date system (C18).      *)
(*                                                                         *)
(* A whole serial s denotes a calendar day: serial 1 = 1900-01-01,         *)
(* 59 = 1900-02-28, 61 = 1900-03-01, 2958465 = 9999-12-31.  Serial 60      *)
(* (Excel's fictitious 29 Feb 1900) and serial 0 are not determined.  All  *)
(* calendar arithmetic is integer arithmetic on a proleptic Gregorian day  *)
(* number (days since 0000-03-01).  The fraction of a serial is the time   *)
(* of day.  Whatever the property does not state is Open.                  *)
(***************************************************************************)
EXTENDS XlValues

DateFuncs == {"YEAR", "MONTH", "DAY", "WEEKDAY", "ISOWEEKNUM", "DATE", "EDATE", "EOMONTH",
              "DAYS", "DATEDIF", "YEARFRAC"}
\* date arithmetic and comparison: operators on date / number operands
DateOpFuncs == {"OP_ADD", "OP_SUB", "OP_EQ", "OP_NE", "OP_LT", "OP_GT", "OP_LE", "OP_GE"}

MaxSerial == 2958465

(* ---------------------------------------------------------------------- *)
(* the Gregorian calendar                                                  *)
(* ---------------------------------------------------------------------- *)
IsLeap(y) == (y % 4 = 0 /\ y % 100 # 0) \/ y % 400 = 0
DaysIn(y, m) == IF m = 2 THEN (IF IsLeap(y) THEN 29 ELSE 28)
                ELSE IF m \in {4, 6, 9, 11} THEN 30 ELSE 31
YearLen(y) == IF IsLeap(y) THEN 366 ELSE 365

\* day number of y-m-d (1 <= m <= 12; d may be any integer): days since 0000-03-01
DayNo(y, m, d) ==
    LET yy  == IF m <= 2 THEN y - 1 ELSE y
        era == yy \div 400
        yoe == yy - era * 400
        mp  == (m + 9) % 12                      \* March = 0
        doy == (153 * mp + 2) \div 5 + d - 1
    IN era * 146097 + yoe * 365 + yoe \div 4 - yoe \div 100 + doy

\* inverse: <<y, m, d>> of a day number n >= 0
CivilOf(n) ==
    LET era == n \div 146097
        doe == n - era * 146097
        yoe == (doe - doe \div 1460 + doe \div 36524 - doe \div 146096) \div 365
        doy == doe - (365 * yoe + yoe \div 4 - yoe \div 100)
        mp  == (5 * doy + 2) \div 153
        d   == doy - (153 * mp + 2) \div 5 + 1
        m   == IF mp < 10 THEN mp + 3 ELSE mp - 9
    IN <<yoe + era * 400 + (IF m <= 2 THEN 1 ELSE 0), m, d>>

(* ---------------------------------------------------------------------- *)
(* serial <-> calendar day                                                 *)
(* ---------------------------------------------------------------------- *)
Base  == DayNo(1899, 12, 30)          \* serial s >= 61 is day Base + s
Mar1  == DayNo(1900, 3, 1)            \* = Base + 61

DetSerial(s) == (s >= 1 /\ s <= 59) \/ (s >= 61 /\ s <= MaxSerial)
SameSide(s1, s2) == (s1 <= 59) = (s2 <= 59)       \* both before or both after serial 60

SerialDayNo(s) == IF s >= 61 THEN Base + s ELSE Base + s + 1
DayNoSerial(n) == IF n >= Mar1 THEN n - Base ELSE n - Base - 1

SerialToYMD(s) == CivilOf(SerialDayNo(s))
YMDToSerial(y, m, d) == DayNoSerial(DayNo(y, m, d))

\* weekday of a day number, Monday = 1 .. Sunday = 7 (1900-03-01 was a Thursday)
WdMon(n) == ((n - Mar1 + 3) % 7) + 1

WeekdayTypes == {1, 2, 3, 11, 12, 13, 14, 15, 16, 17}
WeekdayOf(n, type) ==
    LET w == WdMon(n) IN
    CASE type \in {1, 17} -> (w % 7) + 1                  \* Sunday = 1 .. Saturday = 7
      [] type \in {2, 11} -> w                            \* Monday = 1 .. Sunday = 7
      [] type = 3         -> w - 1                        \* Monday = 0 .. Sunday = 6
      [] OTHER            -> ((w - 1 - (type - 11)) % 7) + 1   \* 12: Tuesday = 1 ... 16: Saturday = 1

\* ISO 8601 week: the week (Monday .. Sunday) belongs to the year of its
\* Thursday and is numbered by the position of that Thursday in its year
IsoWeekOf(n) ==
    LET thu == n - (WdMon(n) - 1) + 3
        y   == CivilOf(thu)[1]
    IN (thu - DayNo(y, 1, 1)) \div 7 + 1

(* ---------------------------------------------------------------------- *)
(* arguments: numbers and date values are interchangeable                  *)
(* ---------------------------------------------------------------------- *)
IsDN(x) == x.t \in {"num", "date"}
Ser(x)  == IF x.t = "date" THEN x.s ELSE RFloor(x)             \* whole serial (the day)
IsWholeDN(x) == IF x.t = "date" THEN x.fn = 0 ELSE x.d = 1
IntOf(x) == IF x.t = "date" THEN x.s ELSE x.n                   \* when IsWholeDN(x)
Big == 10000000

\* error discipline of C07 for the arguments; anything that is neither a
\* number, a date nor an error (text that might spell a date, booleans,
\* blanks, arrays) leaves the result open
DGuard(a, idx, body) ==
    LET E == {i \in 1..Len(a) : a[i].t = "err"}
    IN IF \E i \in idx : ~(IsDN(a[i]) \/ a[i].t = "err") THEN Open
       ELSE IF \E i \in idx : a[i].t = "num" /\ Abs(a[i].n) > 1000000000 THEN Open
       ELSE IF E # {} THEN a[CHOOSE i \in E : \A j \in E : i <= j]
       ELSE body

(* ---------------------------------------------------------------------- *)
(* the functions                                                           *)
(* ---------------------------------------------------------------------- *)
\* field of the day of serial argument x; lo = smallest determined serial
Field(x, lo, F(_)) ==
    LET s == Ser(x) IN
    IF s >= lo /\ DetSerial(s) THEN Whole(F(SerialDayNo(s))) ELSE Open

\* serial of month index mi (= 12 * year + month - 1), day d; d may be any integer
MonthStart(mi) == DayNo(mi \div 12, (mi % 12) + 1, 1)

\* result day number n reached from a determined starting point n0: the
\* serial when both lie on the same side of Excel's fictitious leap day
SerialFrom(n0, n) ==
    IF (n0 >= Mar1) # (n >= Mar1) THEN Open
    ELSE LET s == DayNoSerial(n) IN IF DetSerial(s) THEN Date(s) ELSE Open

DateV(y0, m, d) ==
    IF y0 < 0 \/ y0 > 9999 \/ Abs(m) > Big \/ Abs(d) > Big THEN Open
    ELSE LET y1 == IF y0 < 1900 THEN y0 + 1900 ELSE y0
             mi == y1 * 12 + (m - 1)
         IN IF mi < 1900 * 12 \/ mi > 9999 * 12 + 11 THEN Open
            ELSE SerialFrom(MonthStart(mi), MonthStart(mi) + d - 1)

\* start serial s moved by k months; eom: to the end of the target month,
\* otherwise same day of month clipped to the month's end
MoveMonths(s, k, eom) ==
    IF ~DetSerial(s) \/ Abs(k) > Big THEN Open
    ELSE LET ymd == SerialToYMD(s)
             mi  == ymd[1] * 12 + (ymd[2] - 1) + k
         IN IF mi < 1900 * 12 \/ mi > 9999 * 12 + 11 THEN Open
            ELSE LET len == DaysIn(mi \div 12, (mi % 12) + 1)
                     td  == IF eom THEN len ELSE Min2(ymd[3], len)
                 IN \* clipping into February 1900 would meet Excel's 29 Feb 1900
                    IF mi = 1900 * 12 + 1 /\ (eom \/ ymd[3] > 28) THEN Open
                    \* the target is a calendar date (year, month, day <= length of the month): its serial is fixed by the
                    \* date system whichever side of the fictitious leap day the start lies on (EDATE(1,12) = 367 = 1901-01-01)
                    ELSE LET s2 == DayNoSerial(MonthStart(mi) + td - 1) IN IF DetSerial(s2) THEN Date(s2) ELSE Open

\* complete months from day a to day b (a <= b): a month is complete when the
\* start's day of month is reached again - the end of a shorter month does NOT
\* complete it (31 Jan -> 29 Feb is 0 months in DATEDIF, although EDATE clips)
CompleteMonths(sa, sb) ==
    LET p == SerialToYMD(sa)  q == SerialToYMD(sb)
        dm == (q[1] * 12 + q[2]) - (p[1] * 12 + p[2])
    IN IF q[3] >= p[3] THEN dm ELSE dm - 1

UnitD == <<68>>   UnitM == <<77>>   UnitY == <<89>>
DateDif(sa, sb, unit) ==
    LET u == UpperSeq(unit) IN
    IF ~DetSerial(sa) \/ ~DetSerial(sb) THEN Open
    ELSE IF u \notin {UnitD, UnitM, UnitY} THEN Open
    ELSE IF sa > sb THEN AnyErr
    ELSE IF ~SameSide(sa, sb) THEN Open
    ELSE IF u = UnitD THEN Whole(sb - sa)
    ELSE LET cm == CompleteMonths(sa, sb) IN
         IF cm < 0 THEN Open
         ELSE IF u = UnitM THEN Whole(cm) ELSE Whole(cm \div 12)

\* 30/360 is compared only where the US and the European convention agree:
\* neither day of month is 29 - 31 nor the last day of February
Plain30(ymd) == ymd[3] <= 28 /\ ~(ymd[2] = 2 /\ ymd[3] = DaysIn(ymd[1], 2))

YearFrac(s1, s2, basis) ==
    IF ~DetSerial(s1) \/ ~DetSerial(s2) THEN Open
    ELSE LET sa == Min2(s1, s2)  sb == Max2(s1, s2)
             p == SerialToYMD(sa)  q == SerialToYMD(sb)
         IN CASE ~SameSide(sa, sb) -> Open
              [] basis = 2 -> Rat(sb - sa, 360)
              [] basis = 3 -> Rat(sb - sa, 365)
              [] basis \in {0, 4} ->
                    IF ~Plain30(p) \/ ~Plain30(q) THEN Open
                    ELSE Rat((q[1] - p[1]) * 360 + (q[2] - p[2]) * 30 + (q[3] - p[3]), 360)
              [] basis = 1 -> \* actual/actual: within one calendar year the length of that year; a period of at most one year that
                    \* crosses a new year: 366 when it contains a 29 February (its end included), else 365
                    IF p[1] = q[1] THEN Rat(sb - sa, YearLen(p[1]))
                    ELSE IF q[1] = p[1] + 1 /\ (p[2] > q[2] \/ (p[2] = q[2] /\ p[3] >= q[3])) THEN
                         LET leapIn(y) == YearLen(y) = 366 /\ sa <= YMDToSerial(y, 2, 29) /\ YMDToSerial(y, 2, 29) <= sb
                         IN Rat(sb - sa, IF leapIn(p[1]) \/ leapIn(q[1]) THEN 366 ELSE 365)
                    \* longer periods: the days over the AVERAGE length of the calendar years touched, first and last included
                    \* (Excel's actual/actual as OpenFormula documents it): days * years / (365 * years + leap years among them)
                    ELSE LET ny == q[1] - p[1] + 1
                             leaps == Cardinality({y \in p[1]..q[1] : YearLen(y) = 366})
                         IN IF ny > 400 \/ (sb - sa) > 2000000000 \div ny THEN Open
                            ELSE Rat((sb - sa) * ny, 365 * ny + leaps)
              [] OTHER -> Open

(* ---------------------------------------------------------------------- *)
(* date arithmetic and comparison (time of day = fraction of the serial)   *)
(* ---------------------------------------------------------------------- *)
FracN(x) == IF x.t = "date" THEN x.fn ELSE x.n - RFloor(x) * x.d
FracD(x) == IF x.t = "date" THEN x.fd ELSE x.d
\* fractions are compared / subtracted over the denominator 86400 (seconds)
InSeconds(x) == 86400 % FracD(x) = 0
Secs(x) == FracN(x) * (86400 \div FracD(x))

DNSub(a, b) ==
    IF ~InSeconds(a) \/ ~InSeconds(b) \/ ~SameSide(Ser(a), Ser(b)) THEN Open
    ELSE LET dd == Ser(a) - Ser(b)  ds == Secs(a) - Secs(b) IN
         IF ds = 0 THEN Whole(dd)
         ELSE IF Abs(dd) > 20000 THEN Open
         ELSE Rat(dd * 86400 + ds, 86400)

DNCmp(a, b) == \* -1, 0, 1
    IF Ser(a) # Ser(b) THEN (IF Ser(a) < Ser(b) THEN -1 ELSE 1)
    ELSE IF Secs(a) = Secs(b) THEN 0 ELSE IF Secs(a) < Secs(b) THEN -1 ELSE 1

DateOpSym(f) == CASE f = "OP_EQ" -> "=" [] f = "OP_NE" -> "<>" [] f = "OP_LT" -> "<"
                  [] f = "OP_GT" -> ">" [] f = "OP_LE" -> "<=" [] f = "OP_GE" -> ">="

MoveDays(x, k) == IF DetSerial(x.s + k) /\ SameSide(x.s, x.s + k) THEN DateT(x.s + k, x.fn, x.fd) ELSE Open

DateOpCall(f, a) ==
    IF Len(a) # 2 THEN Open
    ELSE DGuard(a, {1, 2},
      LET x == a[1]  y == a[2] IN
      IF x.t # "date" /\ y.t # "date" THEN Open              \* plain numbers: C08 / C09
      ELSE IF (x.t = "date" /\ ~DetSerial(x.s)) \/ (y.t = "date" /\ ~DetSerial(y.s)) THEN Open
      ELSE CASE f = "OP_SUB" -> IF DetSerial(Ser(x)) /\ DetSerial(Ser(y)) THEN DNSub(x, y) ELSE Open
             [] f = "OP_ADD" -> \* a date moved by whole days keeps its time of day
                  IF x.t = "date" /\ y.t = "num" /\ IsWhole(y) /\ Abs(y.n) <= MaxSerial
                      THEN MoveDays(x, y.n)
                  ELSE IF y.t = "date" /\ x.t = "num" /\ IsWhole(x) /\ Abs(x.n) <= MaxSerial
                      THEN MoveDays(y, x.n)
                  ELSE Open
             [] OTHER -> IF ~InSeconds(x) \/ ~InSeconds(y) THEN Open
                         \* whether a date value EQUALS a plain number is the total order of C09
                         ELSE IF f \in {"OP_EQ", "OP_NE"} /\ x.t # y.t THEN Open
                         ELSE Bool(CmpHolds(DateOpSym(f), DNCmp(x, y))))

(* ---------------------------------------------------------------------- *)
(* the calls                                                               *)
(* ---------------------------------------------------------------------- *)
YmdIndex(f) == CASE f = "YEAR" -> 1 [] f = "MONTH" -> 2 [] OTHER -> 3

DateCall(f, a) ==
    LET n == Len(a) IN
    CASE f \in {"YEAR", "MONTH", "DAY"} /\ n = 1 ->
            DGuard(a, {1}, Field(a[1], 1, LAMBDA k : CivilOf(k)[YmdIndex(f)]))
      [] f = "ISOWEEKNUM" /\ n = 1 -> DGuard(a, {1}, Field(a[1], 61, IsoWeekOf))
      [] f = "WEEKDAY" /\ n = 1 -> DGuard(a, {1}, Field(a[1], 61, LAMBDA k : WeekdayOf(k, 1)))
      [] f = "WEEKDAY" /\ n = 2 ->
            DGuard(a, {1, 2},
                   IF ~IsWholeDN(a[2]) \/ IntOf(a[2]) \notin WeekdayTypes THEN Open
                   ELSE Field(a[1], 61, LAMBDA k : WeekdayOf(k, IntOf(a[2]))))
      [] f = "DATE" /\ n = 3 ->
            DGuard(a, {1, 2, 3},
                   IF \E i \in 1..3 : ~IsWholeDN(a[i]) THEN Open
                   ELSE DateV(IntOf(a[1]), IntOf(a[2]), IntOf(a[3])))
      [] f \in {"EDATE", "EOMONTH"} /\ n = 2 ->
            DGuard(a, {1, 2},
                   IF ~IsWholeDN(a[2]) THEN Open
                   ELSE MoveMonths(Ser(a[1]), IntOf(a[2]), f = "EOMONTH"))
      [] f = "DAYS" /\ n = 2 ->
            DGuard(a, {1, 2},
                   IF ~IsWholeDN(a[1]) \/ ~IsWholeDN(a[2]) THEN Open
                   ELSE IF ~DetSerial(IntOf(a[1])) \/ ~DetSerial(IntOf(a[2])) \/ ~SameSide(IntOf(a[1]), IntOf(a[2])) THEN Open
                   ELSE Whole(IntOf(a[1]) - IntOf(a[2])))
      [] f = "DATEDIF" /\ n = 3 ->
            DGuard(a, {1, 2},
                   IF a[3].t = "err" THEN a[3]
                   ELSE IF a[3].t # "txt" \/ ~IsWholeDN(a[1]) \/ ~IsWholeDN(a[2]) THEN Open
                   ELSE DateDif(IntOf(a[1]), IntOf(a[2]), a[3].v))
      [] f = "YEARFRAC" /\ n \in {2, 3} ->
            DGuard(a, 1..n,
                   IF \E i \in 1..n : ~IsWholeDN(a[i]) THEN Open
                   ELSE YearFrac(IntOf(a[1]), IntOf(a[2]), IF n = 2 THEN 0 ELSE IntOf(a[3])))
      [] f \in DateOpFuncs -> DateOpCall(f, a)
      [] OTHER -> Open

(* ---------------------------------------------------------------------- *)
(* agreement of an observed number / date with an expected one: a date and *)
(* a number denote the same value when serial and fraction coincide        *)
(* ---------------------------------------------------------------------- *)
DNEqual(a, b) == \* exact: in seconds where possible, else by cross-multiplication of small fractions
    /\ Ser(a) = Ser(b)
    /\ IF InSeconds(a) /\ InSeconds(b) THEN Secs(a) = Secs(b)
       ELSE FracD(a) <= 40000 /\ FracD(b) <= 40000 /\ FracN(a) * FracD(b) = FracN(b) * FracD(a)

DateAgrees(obs, exp) ==
    CASE exp.t = "open"   -> TRUE
      [] exp.t = "anyerr" -> obs.t = "err"
      [] IsDN(exp)        -> IsDN(obs) /\ DNEqual(obs, exp)
      [] OTHER            -> SameVal(obs, exp)
=============================================================================

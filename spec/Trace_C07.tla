----------------------------- MODULE Trace_C07 -----------------------------
(* Trace_Calls with the error semantics of XlErr as the oracle (C07, code -> spec) *)
EXTENDS XlErr, Json, IOUtils
Trace == ndJsonDeserialize(IOEnv.TRACE_FILE)
VARIABLES l, verdict, exp
vars == <<l, verdict, exp>>
Verdict(e, x) ==
    IF x.t = "open" THEN "open"
    ELSE IF Agrees(e.res, x) THEN "ok"
    ELSE IF e.res.t = "exc" THEN "python-exception"
    ELSE IF x.t \in {"err", "anyerr"} /\ e.res.t = "err" THEN "other-error-code"
    ELSE IF x.t \in {"err", "anyerr"} THEN "error-dropped"
    ELSE "wrong-value"
Init == l = 0 /\ verdict = "start" /\ exp = [t |-> "none"]
Step == /\ l < Len(Trace) /\ l' = l + 1
        /\ LET e == Trace[l + 1]  x == ErrCall(e.f, e.args) IN exp' = x /\ verdict' = Verdict(e, x)
Spec == Init /\ [][Step]_vars
AllConsumed == TLCGet("stats").diameter - 1 = Len(Trace)
=============================================================================

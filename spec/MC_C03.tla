------------------------------ MODULE MC_C03 ------------------------------
(***************************************************************************)
(* Bounded instance for C03: references denote exactly the addressed cells *)
(* on the right sheet.  Workbooks over three sheets (a plain name, one     *)
(* with a blank, one with an apostrophe), grid A1:C3 on each; cell k of    *)
(* sheet i holds the weight 2^(9(i-1)+k), so the value of a SUM reveals    *)
(* exactly which cells were read.  Probe formulas live in column E.        *)
(*   ref     every target cell x 4 $ spellings x qualification, from a     *)
(*           probe on every sheet; the same (stored / never stored) cell   *)
(*           mentioned twice in one formula                                *)
(*   range   every rectangle x SUM / COUNTA x sheets, dense and with every *)
(*           sparse pattern of a 2x2 sub-block                             *)
(*   chain   formulas that cross sheets repeatedly with unqualified refs   *)
(*   strip   1xN and Nx1 ranges with long runs of blanks                   *)
(*   wide    multi-letter columns                                          *)
(*   names   defined names bound to a cell or a range                      *)
(***************************************************************************)
EXTENDS XlEval

CONSTANTS Families

VARIABLES case, res
vars == <<case, res>>

SheetsL == <<"S1", "S 2", "O'x">>
RECURSIVE Pow2(_)
Pow2(k) == IF k = 0 THEN 1 ELSE 2 * Pow2(k - 1)
Weight(i, c, r) == Pow2(9 * (i - 1) + 3 * (r - 1) + (c - 1))

GridKeys == {<<SheetsL[i], c, r>> : i \in 1..3, c \in 1..3, r \in 1..3}
SheetIdx(s) == CHOOSE i \in 1..3 : SheetsL[i] = s
DenseCells == [k \in GridKeys |-> [c |-> "const", v |-> Whole(Weight(SheetIdx(k[1]), k[2], k[3]))]]

F(ast) == [c |-> "formula", ast |-> ast]
K(v)   == [c |-> "const", v |-> v]

\* a case: cells (function), names (function), probe <<sheet, col, row>> or a name, how the probe is addressed
Mk(kind, cells, names, probe) == [kind |-> kind, cells |-> cells, names |-> names, probe |-> probe, pname |-> "", pre |-> <<>>]

WbOf(c) == [cells |-> c.cells, names |-> c.names]
NoNames == <<>>

RefV(sh, c, r, v) == Ref(sh, c, r, v \in {2, 4}, v \in {3, 4})       \* v: 1 A1, 2 $A1, 3 A$1, 4 $A$1
RngV(sh, c1, r1, c2, r2, v) ==
    [k |-> "range", sheet |-> sh, c1 |-> c1, r1 |-> r1, a1 |-> v \in {2, 4}, b1 |-> v \in {3, 4},
     c2 |-> c2, r2 |-> r2, a2 |-> v \in {3, 4}, b2 |-> v \in {2, 3}]

Probe(p) == <<SheetsL[p], 5, 5>>
WithProbe(cells, p, ast) == [k \in DOMAIN cells \cup {Probe(p)} |-> IF k = Probe(p) THEN F(ast) ELSE cells[k]]

Restrict(cells, absent) == [k \in DOMAIN cells \ absent |-> cells[k]]
A6 == <<"S1", 1, 6>>  A10 == <<"S1", 1, 10>>  F3 == <<"S1", 6, 3>>  D2 == <<"S1", 4, 2>>  D9 == <<"S1", 4, 9>>
SubBlock == {<<"S1", 1, 1>>, <<"S1", 2, 1>>, <<"S1", 1, 2>>, <<"S1", 2, 2>>}

StripOn(sh, n, horiz, mid) == \* weights 1 and 2 at the two ends (and 4 in the middle) of a strip of length n on sheet sh
    LET at(i) == IF horiz THEN <<sh, i, 1>> ELSE <<sh, 1, i>>
        ks == {at(1), at(n)} \cup (IF mid THEN {at(n \div 2)} ELSE {})
    IN [k \in ks |-> K(Whole(IF k = at(1) THEN 1 ELSE IF k = at(n) THEN 2 ELSE 4))]
Strip(n, horiz, mid) == StripOn("S1", n, horiz, mid)

DenseOn(perm) == [k \in {<<perm[i], c, r>> : i \in 1..3, c \in 1..3, r \in 1..3} |->
                    [c |-> "const", v |-> Whole(Weight(CHOOSE i \in 1..3 : perm[i] = k[1], k[2], k[3]))]]
ChainCells(perm) == \* perm: sequence of the three sheet names
    LET a == perm[1]  b == perm[2]  c == perm[3]
        dense == DenseOn(perm)
        extra == ( <<a, 5, 1>> :> F(Bin("+", Ref(b, 5, 1, FALSE, FALSE), RelRef(1, 1)))
                @@ <<b, 5, 1>> :> F(Bin("+", Bin("+", RelRef(1, 1), Ref(c, 5, 1, FALSE, FALSE)), Ref(a, 2, 1, FALSE, FALSE)))
                @@ <<c, 5, 1>> :> F(Bin("+", RelRef(1, 1), Ref(a, 5, 2, FALSE, FALSE)))
                @@ <<a, 5, 2>> :> F(Bin("+", Bin("+", RelRef(2, 2), Ref(b, 3, 3, FALSE, FALSE)), CallN("SUM", <<Rng("", 1, 1, 2, 2)>>)))
                @@ <<b, 5, 3>> :> F(Bin("+", CallN("SUM", <<Rng(a, 5, 1, 5, 2), RelRef(3, 3)>>), Ref(b, 1, 1, TRUE, TRUE))) )
    IN [k \in DOMAIN dense \cup DOMAIN extra |-> IF k \in DOMAIN extra THEN extra[k] ELSE dense[k]]
\* (S1 / S1b, S 2 / S 2b: one sheet name is a prefix of another - a reference must be matched on the whole name)
Perms == {<<"S1", "S 2", "O'x">>, <<"S 2", "S1", "O'x">>, <<"O'x", "S 2", "S1">>, <<"S1", "O'x", "S 2">>,
          <<"S1", "S1b", "O'x">>, <<"S1b", "S1", "S 2">>, <<"S 2", "S 2b", "S1">>, <<"S 2b", "O'x", "S 2">>, <<"S1", "S 2b", "S1b">>}

WideCols == <<27, 52, 702, 703, 16384>>      \* AA AZ ZZ AAA XFD

InitCase ==
  \/ /\ "ref" \in Families
     /\ \E p \in 1..3, t \in 1..3, c \in 1..3, r \in 1..3, v \in 1..4, q \in BOOLEAN, ctx \in 1..2 :
          /\ (t # p => q)
          /\ LET rf == RefV(IF q THEN SheetsL[t] ELSE "", c, r, v)
                 ast == IF ctx = 1 THEN rf ELSE Bin("+", Bin("*", rf, NumLit(<<50>>)), NumLit(<<49>>))
             IN case = Mk("ref", WithProbe(DenseCells, p, ast), NoNames, Probe(p))
  \/ /\ "range" \in Families
     /\ \E p \in 1..3, t \in 1..3, c1 \in 1..3, c2 \in 1..3, r1 \in 1..3, r2 \in 1..3, f \in {"SUM", "COUNTA"}, v \in {1, 4}, q \in BOOLEAN :
          /\ c1 <= c2 /\ r1 <= r2 /\ (t # p => q)
          /\ case = Mk("range", WithProbe(DenseCells, p, CallN(f, <<RngV(IF q THEN SheetsL[t] ELSE "", c1, r1, c2, r2, v)>>)), NoNames, Probe(p))
  \/ /\ "range" \in Families
     /\ \E absent \in SUBSET SubBlock, c1 \in 1..3, c2 \in 1..3, r1 \in 1..3, r2 \in 1..3, f \in {"SUM", "COUNTA"}, p \in {1, 2} :
          /\ c1 <= c2 /\ r1 <= r2 /\ absent # {}
          /\ case = Mk("sparse", WithProbe(Restrict(DenseCells, absent), p, CallN(f, <<Rng(IF p = 1 THEN "" ELSE "S1", c1, r1, c2, r2)>>)), NoNames, Probe(p))
  \/ /\ "range" \in Families
     /\ \E absent \in SUBSET SubBlock, k \in SubBlock, p \in {1, 2} :
          /\ k \in absent
          /\ case = Mk("blank-ref", WithProbe(Restrict(DenseCells, absent), p, Ref(IF p = 1 THEN "" ELSE "S1", k[2], k[3], FALSE, FALSE)), NoNames, Probe(p))
  \/ /\ "range" \in Families        \* a cell that comes into being AFTER the workbook was compiled (set_cell_value), inside a range that
     /\ \E f \in {"SUM", "COUNTA"}, v \in 1..6, p \in {1, 2} :     \* reaches beyond the cells stored at that time
          LET sh == IF p = 1 THEN "" ELSE "S1"
              lr == CASE v = 1 -> <<A6, Rng(sh, 1, 1, 1, 10)>>  [] v = 2 -> <<A10, Rng(sh, 1, 1, 1, 10)>>
                      [] v = 3 -> <<F3, RngV(sh, 1, 2, 6, 3, 4)>> [] v = 4 -> <<D2, RngV(sh, 1, 2, 6, 3, 4)>>
                      [] v = 5 -> <<D9, Rng(sh, 1, 1, 4, 10)>>    [] v = 6 -> <<A10, Rng(sh, 1, 4, 1, 10)>>
              cells == [k \in DOMAIN DenseCells \cup {lr[1]} |-> IF k = lr[1] THEN K(Whole(100000)) ELSE DenseCells[k]]
          IN case = [kind |-> "late", cells |-> WithProbe(cells, p, CallN(f, <<lr[2]>>)), names |-> NoNames, probe |-> Probe(p),
                     pname |-> "", pre |-> <<>>, late |-> lr[1]]
  \/ /\ "ref" \in Families          \* the SAME cell (stored, or never stored) mentioned twice in one formula, in two spellings
     /\ \E k \in SubBlock, gone \in BOOLEAN, p \in {1, 2}, v1 \in {1, 4}, v2 \in {1, 4}, form \in 1..3 :
          LET cells == IF gone THEN Restrict(DenseCells, {k}) ELSE DenseCells
              r1 == RefV(IF p = 1 THEN "" ELSE "S1", k[2], k[3], v1)
              r2 == RefV("S1", k[2], k[3], v2)
              zero == NumLit(<<48>>)
              ast == CASE form = 1 -> Bin("+", r1, r2)
                       [] form = 2 -> CallN("IF", <<Bin(">", r1, zero), r2, Bin("-", zero, r1)>>)
                       [] form = 3 -> CallN("SUM", <<r1, Ref("S1", 3, 3, FALSE, FALSE), r2>>)
          IN case = Mk("repeat", WithProbe(cells, p, ast), NoNames, Probe(p))
  \/ /\ "ref" \in Families          \* a sheet of the workbook on which NOTHING is stored (the harness writes it as an empty worksheet):
     /\ \E t \in {2, 3}, form \in 1..5 :    \* its cells are empty cells like any other - blank, never an error
          LET sh == SheetsL[t]
              cells == [k \in {k \in GridKeys : k[1] = "S1"} |-> DenseCells[k]]
              ast == CASE form = 1 -> Ref(sh, 2, 2, FALSE, FALSE)
                       [] form = 2 -> Bin("+", Ref(sh, 2, 2, FALSE, FALSE), RelRef(1, 1))
                       [] form = 3 -> CallN("COUNTA", <<Ref(sh, 2, 2, FALSE, FALSE), RelRef(1, 1)>>)
                       [] form = 4 -> Bin("+", CallN("SUM", <<Rng(sh, 1, 1, 2, 2), RelRef(2, 1)>>), CallN("COUNTA", <<Rng(sh, 1, 1, 2, 2)>>))
                       [] form = 5 -> CallN("IF", <<CallN("ISBLANK", <<Ref(sh, 1, 1, TRUE, TRUE)>>), RelRef(3, 3), NumLit(<<48>>)>>)
          IN case = Mk("empty-sheet", WithProbe(cells, 1, ast), NoNames, Probe(1))
  \/ /\ "chain" \in Families
     /\ \E perm \in Perms, pr \in {<<1, 5, 1>>, <<2, 5, 1>>, <<3, 5, 1>>, <<1, 5, 2>>, <<2, 5, 3>>} :
          case = Mk("chain", ChainCells(perm), NoNames, <<perm[pr[1]], pr[2], pr[3]>>)
  \/ /\ "strip" \in Families
     /\ \E n \in {2, 99, 100, 101, 102, 103, 150, 200, 201, 202, 203, 250, 320}, horiz \in BOOLEAN, mid \in BOOLEAN, f \in {"SUM", "COUNTA"} :
          LET rg == IF horiz THEN Rng("", 1, 1, n, 1) ELSE Rng("", 1, 1, 1, n)
              pk == <<"S1", 2, 400>>
              cells == Strip(n, horiz, mid)
          IN case = Mk("strip", [k \in DOMAIN cells \cup {pk} |-> IF k = pk THEN F(CallN(f, <<rg>>)) ELSE cells[k]], NoNames, pk)
  \/ /\ "strip" \in Families
     /\ \E n \in {101, 205, 320}, m \in {3, 110} :
          \* a block n x m... kept small: two columns with long blank runs, ragged-row regression
          LET cells == ( <<"S1", 1, 1>> :> K(Whole(1)) @@ <<"S1", 2, n>> :> K(Whole(2)) @@ <<"S1", 2, m>> :> K(Whole(4)) )
              pk == <<"S1", 4, 1>>
          IN case = Mk("strip2", [k \in DOMAIN cells \cup {pk} |-> IF k = pk THEN F(CallN("SUM", <<Rng("", 1, 1, 2, n)>>)) ELSE cells[k]], NoNames, pk)
  \/ /\ "strip" \in Families        \* long blank runs on sheets whose names need quoting, read from the same and from another sheet
     /\ \E sh \in {"S 2", "O'x"}, n \in {101, 150, 250}, horiz \in BOOLEAN, f \in {"SUM", "COUNTA"}, q \in BOOLEAN :
          LET rg == IF horiz THEN Rng(IF q THEN sh ELSE "", 1, 1, n, 1) ELSE Rng(IF q THEN sh ELSE "", 1, 1, 1, n)
              pk == <<IF q THEN "S1" ELSE sh, 2, 400>>
              cells == StripOn(sh, n, horiz, TRUE)
          IN case = Mk("strip-quoted", [k \in DOMAIN cells \cup {pk} |-> IF k = pk THEN F(CallN(f, <<rg>>)) ELSE cells[k]], NoNames, pk)
  \/ /\ "twin" \in Families          \* the SAME formula text on every sheet, all evaluated by one evaluator, in every order
     /\ \E perm \in {<<1, 2, 3>>, <<1, 3, 2>>, <<2, 1, 3>>, <<2, 3, 1>>, <<3, 1, 2>>, <<3, 2, 1>>}, v \in 1..5 :
          LET ast == CASE v = 1 -> RelRef(1, 1)
                       [] v = 2 -> Bin("*", Ref("", 1, 2, TRUE, TRUE), NumLit(<<50>>))
                       [] v = 3 -> CallN("SUM", <<Rng("", 1, 1, 2, 2)>>)
                       [] v = 4 -> Bin("+", CallN("COUNTA", <<Rng("", 1, 1, 3, 3)>>), RelRef(3, 3))
                       [] v = 5 -> Bin("+", NameRef("myname"), RelRef(2, 2))
              cells == [k \in DOMAIN DenseCells \cup {Probe(1), Probe(2), Probe(3)} |-> IF k \in DOMAIN DenseCells THEN DenseCells[k] ELSE F(ast)]
              nm == IF v = 5 THEN ("myname" :> Ref("S 2", 3, 1, TRUE, TRUE)) ELSE NoNames
          IN case = [Mk("twin", cells, nm, Probe(perm[3])) EXCEPT !.pre = <<Probe(perm[1]), Probe(perm[2])>>]
  \/ /\ "wide" \in Families
     /\ \E i \in 1..Len(WideCols), r \in {1, 10}, kind \in 1..3 :
          LET c == WideCols[i]
              cells == ( <<"S1", c, r>> :> K(Whole(5)) @@ <<"S1", c + 1, r>> :> K(Whole(7)) @@ <<"S1", c, r + 1>> :> K(Whole(11)) )
              ast == CASE kind = 1 -> Bin("+", RelRef(c, r), NumLit(<<49>>))
                       [] kind = 2 -> CallN("SUM", <<Rng("", c, r, c + 1, r + 1)>>)
                       [] kind = 3 -> CallN("COUNTA", <<Rng("S1", c, r, c + 1, r + 1)>>)
              pk == <<"S 2", 1, 1>>
          IN /\ c + 1 <= 16384
             /\ case = Mk("wide", [k \in DOMAIN cells \cup {pk} |-> IF k = pk THEN F(IF kind = 1 THEN Bin("+", Ref("S1", c, r, FALSE, FALSE), NumLit(<<49>>))
                                                                              ELSE IF kind = 2 THEN CallN("SUM", <<Rng("S1", c, r, c + 1, r + 1)>>) ELSE ast)
                                                                   ELSE cells[k]], NoNames, pk)
  \/ /\ "names" \in Families
     /\ \E t \in 1..3, c \in 1..3, r \in 1..3, p \in 1..3, use \in 1..3 :
          LET nm == ("myname" :> Ref(SheetsL[t], c, r, TRUE, TRUE))
              ast == CASE use = 1 -> NameRef("myname")
                       [] use = 2 -> Bin("+", Bin("*", NameRef("myname"), NumLit(<<50>>)), RelRef(1, 1))
                       [] use = 3 -> CallN("SUM", <<NameRef("myname"), NumLit(<<49>>)>>)
          IN case = Mk("name-cell", WithProbe(DenseCells, p, ast), nm, Probe(p))
  \/ /\ "names" \in Families      \* names spelt letters-then-digits that are no cell addresses: a "column" beyond XFD, a row beyond 1048576
     /\ \E t \in 1..3, p \in 1..3, use \in 1..3, nmv \in {"YTD2024", "A9999999"} :
          LET nm == (nmv :> Ref(SheetsL[t], 2, 3, TRUE, TRUE)) @@ ("ZAR1" :> RngV(SheetsL[t], 1, 1, 2, 3, 4))
              ast == CASE use = 1 -> NameRef(nmv)
                       [] use = 2 -> Bin("+", Bin("*", NameRef(nmv), NumLit(<<50>>)), RelRef(1, 1))
                       [] use = 3 -> Bin("+", CallN("SUM", <<NameRef("ZAR1")>>), CallN("COUNTA", <<NameRef("ZAR1"), NameRef(nmv)>>))
          IN case = Mk("name-like-cell", WithProbe(DenseCells, p, ast), nm, Probe(p))
  \/ /\ "range" \in Families      \* a range with a FORMULA member whose precedent lies on another sheet: the precedent is SET after the
     /\ \E t \in 1..3, o \in 1..3, p \in 1..3, f \in {"SUM", "COUNTA"}, q \in BOOLEAN :     \* range was read once; the range shows the member's new value
          LET tgt == <<SheetsL[o], 1, 1>>
              mem == <<SheetsL[t], 2, 2>>
              cells == [k \in DOMAIN DenseCells |-> IF k = tgt THEN K(Whole(100000))
                                                    ELSE IF k = mem THEN F(Bin("*", Ref(SheetsL[o], 1, 1, FALSE, FALSE), NumLit(<<50>>))) ELSE DenseCells[k]]
              ast == Bin("+", CallN(f, <<RngV(IF q \/ t # p THEN SheetsL[t] ELSE "", 1, 1, 3, 3, IF q THEN 4 ELSE 1)>>), NumLit(<<49>>))
          IN /\ o # t
             /\ case = [kind |-> "cross-set", cells |-> WithProbe(cells, p, ast), names |-> NoNames, probe |-> Probe(p),
                        pname |-> "", pre |-> <<>>, late |-> tgt, was |-> Whole(1)]
  \/ /\ "names" \in Families      \* a name of the same spelling that is scoped to ANOTHER sheet (the file format allows one per sheet) has no
     /\ \E t \in 1..3, o \in 1..3, p \in 1..3, use \in 1..3 :     \* say in the formulas outside that sheet: there the name means what the workbook binds it to
          LET nm == ("myname" :> Ref(SheetsL[t], 2, 1, TRUE, TRUE))
              ast == CASE use = 1 -> NameRef("myname")
                       [] use = 2 -> Bin("+", Bin("*", NameRef("myname"), NumLit(<<50>>)), RelRef(1, 1))
                       [] use = 3 -> CallN("SUM", <<NameRef("myname"), NumLit(<<49>>)>>)
          IN /\ o # p
             /\ case = [kind |-> "name-scoped", cells |-> WithProbe(DenseCells, p, ast), names |-> nm, probe |-> Probe(p), pname |-> "", pre |-> <<>>,
                        scoped |-> [owner |-> o, name |-> "myname", ref |-> Ref(SheetsL[o], 3, 3, TRUE, TRUE)]]
  \/ /\ "names" \in Families      \* the cell (a member of the range) a name stands for is SET after the formula was evaluated once
     /\ \E t \in 1..3, c \in 1..3, r \in 1..3, p \in 1..3, use \in 1..4 :
          LET tgt == <<SheetsL[t], c, r>>
              cells == [k \in DOMAIN DenseCells |-> IF k = tgt THEN K(Whole(100000)) ELSE DenseCells[k]]
              ast == CASE use = 1 -> Bin("*", NameRef("myname"), NumLit(<<50>>))
                       [] use = 2 -> CallN("SUM", <<NameRef("myname"), NumLit(<<49>>)>>)
                       [] use = 3 -> CallN("SUM", <<NameRef("myrange")>>)
                       [] use = 4 -> Bin("+", CallN("COUNTA", <<NameRef("myrange")>>), NameRef("myname"))
              nms == ("myname" :> Ref(SheetsL[t], c, r, TRUE, TRUE)) @@ ("myrange" :> RngV(SheetsL[t], 1, 1, 3, 3, 4))
          IN case = [kind |-> "name-set", cells |-> WithProbe(cells, p, ast), names |-> nms, probe |-> Probe(p),
                     pname |-> "", pre |-> <<>>, late |-> tgt, was |-> Whole(1)]
  \/ /\ "names" \in Families
     /\ \E t \in 1..3, c \in 1..3, r \in 1..3 :
          case = [Mk("name-eval", DenseCells, ("myname" :> Ref(SheetsL[t], c, r, TRUE, TRUE)), <<SheetsL[t], c, r>>) EXCEPT !.pname = "myname"]
  \/ /\ "names" \in Families
     /\ \E t \in 1..3, c1 \in 1..3, c2 \in 1..3, r1 \in 1..3, r2 \in 1..3, p \in 1..3, f \in {"SUM", "COUNTA"} :
          /\ c1 <= c2 /\ r1 <= r2 /\ (c1 < c2 \/ r1 < r2)
          /\ case = Mk("name-range", WithProbe(DenseCells, p, CallN(f, <<NameRef("myrange")>>)),
                       ("myrange" :> RngV(SheetsL[t], c1, r1, c2, r2, 4)), Probe(p))

\* utils.resolve_ranges(text): the addressed cells, row-major, on the named sheet
ResolveCase ==
  /\ "resolve" \in Families
  /\ \E sh \in {"", "S1", "S 2", "O'x"}, c1 \in {1, 2, 26, 27, 702}, w \in 0..2, r1 \in {1, 9, 99, 1048570}, h \in 0..3, v \in {1, 4} :
       case = [kind |-> "resolve", rng |-> RngV(sh, c1, r1, c1 + w, r1 + h, v)]

Pending == [t |-> "pending"]
Init == (InitCase \/ ResolveCase) /\ res = Pending
Resolve(a) == [t |-> "cells", sheet |-> a.sheet,
               v |-> [r \in 1..(a.r2 - a.r1 + 1) |-> [c \in 1..(a.c2 - a.c1 + 1) |-> <<a.c1 + c - 1, a.r1 + r - 1>>]]]
ProbeAst(c) == IF c.pname # "" THEN c.names[c.pname] ELSE c.cells[c.probe].ast
ProbeSheet(c) == c.probe[1]
Evaluate == /\ res = Pending
            /\ res' = IF case.kind = "resolve" THEN Resolve(case.rng) ELSE Eval(ProbeAst(case), ProbeSheet(case), WbOf(case))
            /\ UNCHANGED case
Next == Evaluate
Spec == Init /\ [][Next]_vars

\* laws
RECURSIVE ColNum(_)
ColNum(s) == IF Len(s) = 0 THEN 0 ELSE ColNum(SubSeq(s, 1, Len(s) - 1)) * 26 + (s[Len(s)] - 64)
ASSUME \A c \in 1..18278 : ColNum(ColCodes(c)) = c /\ \A i \in 1..Len(ColCodes(c)) : ColCodes(c)[i] \in 65..90
LawDenseRef == (res # Pending /\ case.kind = "ref") => res.t = "num"
LawNeverError == res # Pending => res.t \in {"num", "blank", "open", "cells"}
\* a rectangle denotes rows x columns cells, each exactly once
LawResolveShape == (res # Pending /\ case.kind = "resolve") =>
    LET a == case.rng IN
    /\ Len(res.v) = a.r2 - a.r1 + 1
    /\ \A r \in 1..Len(res.v) : Len(res.v[r]) = a.c2 - a.c1 + 1
    /\ Cardinality({res.v[r][c] : r \in 1..Len(res.v), c \in 1..(a.c2 - a.c1 + 1)}) = (a.r2 - a.r1 + 1) * (a.c2 - a.c1 + 1)
=============================================================================

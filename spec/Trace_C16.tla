----------------------------- MODULE Trace_C16 -----------------------------
(***************************************************************************)
(* Trace specification for recorded calls of the math functions (C16,      *)
(* code -> spec).  Each line of $TRACE_FILE is one call of the real        *)
(* library at its return:                                                  *)
(*   {"f", "args": [decimal..], "res": observed, "refexpr", "refclass",    *)
(*    "ulps", "path"}                                                      *)
(* res is the observed double as its shortest decimal digits, an Excel     *)
(* error, a Python exception ("exc") or nan / infinity ("float").          *)
(* refexpr / refclass / ulps are the harness's measurement against the     *)
(* reference expression: the specification checks that the expression is   *)
(* the one it names (RefExpr) and that the distance is at most 4 ulp.      *)
(* One step consumes one line and yields a TOTAL verdict.                  *)
(***************************************************************************)
EXTENDS XlMath, Json, IOUtils

Trace == ndJsonDeserialize(IOEnv.TRACE_FILE)

VARIABLES l, verdict, exp
vars == <<l, verdict, exp>>

Call(f, a) == MathCall(f, a)

MaxUlps == 4
AsD(x) == [t |-> "dec", neg |-> x.neg, dg |-> x.dg, e |-> x.e]
SameDec(o, x) == o.neg = x.neg /\ o.dg = x.dg /\ o.e = x.e
\* |o - x| <= |x| * 10^-15  (4 ulp is at most 8.9 * 10^-16 relative)
DecClose(o, x) ==
    IF IsZero(x) THEN IsZero(o)
    ELSE /\ ~IsZero(o) /\ o.neg = x.neg /\ Abs(AdjExp(o) - AdjExp(x)) <= 1
         /\ DCmpAbs(DSub(AsD(o), AsD(x)), DScale(DAbs(AsD(x)), -15)) <= 0

Verdict(e, x) ==
    LET o == e.res
        n == Len(e.args)
    IN
    IF x.t = "open" THEN "open"
    ELSE IF o.t = "exc" THEN "python-exception"
    ELSE IF o.t = "float" THEN "nan-or-infinity"
    ELSE IF x.t = "anyerr" THEN (IF o.t = "err" THEN "ok" ELSE "error-expected")
    ELSE IF x.t = "ref" /\ e.refexpr # x.expr THEN "refexpr-mismatch"
    ELSE IF x.t = "ref" /\ e.refclass = "domain" THEN "oracle-domain-mismatch"
    ELSE IF x.t = "ref" /\ e.refclass = "overflow" THEN (IF o.t = "err" THEN "ok" ELSE "error-expected")
    ELSE IF o.t = "err" THEN "unexpected-error"
    ELSE IF x.t = "bool" THEN (IF o.t = "bool" /\ o.v = x.v THEN "ok" ELSE "wrong-value")
    ELSE IF o.t # "dec" THEN "wrong-type"
    ELSE IF x.t = "dec" THEN
        (IF Len(x.dg) > 15 THEN "open" ELSE IF SameDec(o, x) THEN "ok" ELSE "wrong-value")
    ELSE IF x.t = "near" THEN
        (IF ~DecClose(o, x) THEN "wrong-value"
         ELSE IF RefExpr(e.f, n) \in {"", "mod(x,y)"} THEN "ok"
         ELSE IF e.refexpr # RefExpr(e.f, n) THEN "refexpr-mismatch"
         ELSE IF e.refclass = "finite" /\ e.ulps >= 0 /\ e.ulps <= MaxUlps THEN "ok" ELSE "wrong-value")
    ELSE \* "ref", finite reference
        (IF e.refclass = "finite" /\ e.ulps >= 0 /\ e.ulps <= MaxUlps THEN "ok" ELSE "wrong-value")

Init == l = 0 /\ verdict = "start" /\ exp = [t |-> "none"]
Step == /\ l < Len(Trace)
        /\ l' = l + 1
        /\ LET e == Trace[l + 1]
               x == Call(e.f, e.args)
           IN exp' = x /\ verdict' = Verdict(e, x)
Spec == Init /\ [][Step]_vars

AllConsumed == TLCGet("stats").diameter - 1 = Len(Trace)
=============================================================================

------------------------------ MODULE XlCrit ------------------------------
(***************************************************************************)
(* Criteria counting / summing and lookups as linear scans of the range    *)
(* (C15): COUNTIF, COUNTIFS, SUMIF, SUMIFS, MATCH, VLOOKUP, CHOOSE.        *)
(*                                                                         *)
(* A criterion is a value (equality test with that value) or a text: the   *)
(* longest operator prefix among  =  <>  <  <=  >  >=  (none: equality)    *)
(* followed by an operand that is numeric (sign, decimals) or text.  Text  *)
(* is compared case-insensitively; an ordering criterion only matches      *)
(* cells of its operand's own type.                                        *)
(*                                                                         *)
(* Left open (result Open, nothing compared): wildcards, empty operands    *)
(* and blanks in ranges, numeric-looking text cells, text operands that    *)
(* contain digits (date-like) or spell a boolean, boolean / date / error   *)
(* cells, ranges of different shapes, match_type -1, approximate VLOOKUP,  *)
(* unsorted or mixed-type data for approximate MATCH, row vectors for      *)
(* MATCH, fractional column / CHOOSE indexes, which error a bad column     *)
(* index gives (AnyErr).                                                   *)
(***************************************************************************)
EXTENDS XlValues

CritFuncs == {"COUNTIF", "COUNTIFS", "SUMIF", "SUMIFS", "MATCH", "VLOOKUP", "CHOOSE"}

CPLt == 60   CPEq == 61   CPGt == 62   CPSpace == 32
IsWild(c) == c \in {42, 63, 126}                      \* * ? ~

(* ---------------------------------------------------------------------- *)
(* cells and keys the property speaks about: numbers and (proper) texts    *)
(* ---------------------------------------------------------------------- *)
CellOk(x) ==
    \/ x.t = "num" /\ (SafeNum(x) \/ x.d = 1)      \* (whole numbers of any size compare without products)
    \/ x.t = "txt" /\ Len(x.v) > 0 /\ TextToNum(x.v).t = "notnum" /\ CaseKnownSeq(x.v)

NoWild(s) == \A i \in 1..Len(s) : ~IsWild(s[i])
KeyOk(x) == CellOk(x) /\ (x.t = "txt" => NoWild(x.v))

\* a text operand whose meaning the property fixes
TextOperandOk(s) ==
    /\ Len(s) > 0
    /\ \A i \in 1..Len(s) : ~IsWild(s[i]) /\ ~IsDigit(s[i])
    /\ s[1] \notin {CPLt, CPEq, CPGt, CPSpace}
    /\ s[Len(s)] # CPSpace
    /\ CaseKnownSeq(s)
    /\ UpperSeq(s) # TRUEcodes /\ UpperSeq(s) # FALSEcodes

(* ---------------------------------------------------------------------- *)
(* criteria                                                                *)
(* ---------------------------------------------------------------------- *)
Crit(op, v, ok) == [op |-> op, v |-> v, ok |-> ok]

\* operator prefix of a criterion text: longest match, "" when there is none
OpPrefix(s) ==
    LET n == Len(s) IN
    IF n >= 2 /\ s[1] = CPLt /\ s[2] = CPEq THEN "<="
    ELSE IF n >= 2 /\ s[1] = CPLt /\ s[2] = CPGt THEN "<>"
    ELSE IF n >= 2 /\ s[1] = CPGt /\ s[2] = CPEq THEN ">="
    ELSE IF n >= 1 /\ s[1] = CPLt THEN "<"
    ELSE IF n >= 1 /\ s[1] = CPGt THEN ">"
    ELSE IF n >= 1 /\ s[1] = CPEq THEN "="
    ELSE ""

ParseCriterion(s) ==
    LET p    == OpPrefix(s)
        k    == IF p = "" THEN 0 ELSE IF p \in {"<=", "<>", ">="} THEN 2 ELSE 1
        op   == IF p = "" THEN "=" ELSE p
        rest == SubSeq(s, k + 1, Len(s))
        num  == TextToNum(rest)
    IN IF num.t = "num" THEN Crit(op, num, SafeNum(num))
       ELSE IF num.t = "open" THEN Crit(op, Txt(rest), FALSE)
       ELSE Crit(op, Txt(rest), TextOperandOk(rest))

\* the criterion denoted by an argument value
CritOf(x) ==
    CASE x.t = "txt" -> ParseCriterion(x.v)
      [] x.t = "num" -> Crit("=", x, SafeNum(x) \/ x.d = 1)
      [] OTHER       -> Crit("=", x, FALSE)

\* does the cell satisfy the criterion?  (CellOk(cell) and cr.ok assumed)
Matches(cell, cr) ==
    LET c == Cmp3(cell, cr.v) IN
    IF cr.op \in {"=", "<>"} THEN CmpHolds(cr.op, c)
    ELSE Rank(cell) = Rank(cr.v) /\ CmpHolds(cr.op, c)

(* ---------------------------------------------------------------------- *)
(* ranges                                                                  *)
(* ---------------------------------------------------------------------- *)
RECURSIVE FlatRows(_)
FlatRows(rows) == IF Len(rows) = 0 THEN <<>> ELSE rows[1] \o FlatRows(Tail(rows))

IsRange(a) == a.t = "arr" /\ Len(a.v) >= 1 /\ Len(a.v[1]) >= 1
              /\ \A i \in 1..Len(a.v) : Len(a.v[i]) = Len(a.v[1])
Cells(a)  == FlatRows(a.v)                            \* row-major
Height(a) == Len(a.v)
Width(a)  == Len(a.v[1])
SameShape(a, b) == Height(a) = Height(b) /\ Width(a) = Width(b)
AllCellsOk(a) == \A i \in 1..Len(a.v) : \A j \in 1..Len(a.v[i]) : CellOk(a.v[i][j])
IsColumn(a) == IsRange(a) /\ Width(a) = 1
Column(a, j) == [i \in 1..Height(a) |-> a.v[i][j]]

(* ---------------------------------------------------------------------- *)
(* COUNTIF / COUNTIFS / SUMIF / SUMIFS: filtered folds                     *)
(* ---------------------------------------------------------------------- *)
\* positions at which every criterion holds for the cell of its own range
\* rs: sequence of flat cell sequences of one length; cs: parsed criteria
Hits(rs, cs) == {i \in 1..Len(rs[1]) : \A k \in 1..Len(rs) : Matches(rs[k][i], cs[k])}

RECURSIVE CountFrom(_, _, _)
CountFrom(rs, cs, i) == \* the fold: scan positions i.. and count the hits
    IF i > Len(rs[1]) THEN 0
    ELSE (IF \A k \in 1..Len(rs) : Matches(rs[k][i], cs[k]) THEN 1 ELSE 0) + CountFrom(rs, cs, i + 1)

\* a summed cell: numbers count, texts count as nothing
SumVal(x) == IF x.t = "num" THEN x ELSE Whole(0)

RECURSIVE SumFrom(_, _, _, _)
SumFrom(vals, rs, cs, i) ==
    IF i > Len(vals) THEN Whole(0)
    ELSE LET r == SumFrom(vals, rs, cs, i + 1) IN
         IF ~(\A k \in 1..Len(rs) : Matches(rs[k][i], cs[k])) THEN r
         ELSE IF IsOpen(r) THEN Open ELSE RAdd(SumVal(vals[i]), r)

\* pairs (range, criterion) starting at argument position p
PairCount(a, p) == (Len(a) - p + 1) \div 2
PairsOk(a, p) ==
    /\ Len(a) >= p + 1 /\ (Len(a) - p + 1) % 2 = 0
    /\ IsRange(a[p])
    /\ \A k \in 1..PairCount(a, p) :
          LET r == a[p + 2 * (k - 1)]  c == a[p + 2 * (k - 1) + 1] IN
          /\ IsRange(r) /\ AllCellsOk(r) /\ SameShape(r, a[p])
          /\ c.t \in {"num", "txt"} /\ CritOf(c).ok
PairRanges(a, p) == [k \in 1..PairCount(a, p) |-> Cells(a[p + 2 * (k - 1)])]
PairCrits(a, p)  == [k \in 1..PairCount(a, p) |-> CritOf(a[p + 2 * (k - 1) + 1])]

CountIfCall(a) ==
    IF Len(a) # 2 \/ ~PairsOk(a, 1) THEN Open
    ELSE Whole(CountFrom(PairRanges(a, 1), PairCrits(a, 1), 1))

CountIfsCall(a) ==
    IF ~PairsOk(a, 1) THEN Open
    ELSE Whole(CountFrom(PairRanges(a, 1), PairCrits(a, 1), 1))

SumIfCall(a) == \* SUMIF(range, criterion [, sum_range])
    IF Len(a) \notin {2, 3} \/ ~PairsOk(SubSeq(a, 1, 2), 1) THEN Open
    ELSE LET sr == IF Len(a) = 3 THEN a[3] ELSE a[1] IN
         IF ~(IsRange(sr) /\ AllCellsOk(sr) /\ SameShape(sr, a[1])) THEN Open
         ELSE SumFrom(Cells(sr), <<Cells(a[1])>>, <<CritOf(a[2])>>, 1)

SumIfsCall(a) == \* SUMIFS(sum_range, range1, criterion1, ...)
    IF Len(a) < 3 \/ ~PairsOk(a, 2) THEN Open
    ELSE LET sr == a[1] IN
         IF ~(IsRange(sr) /\ AllCellsOk(sr) /\ SameShape(sr, a[2])) THEN Open
         ELSE SumFrom(Cells(sr), PairRanges(a, 2), PairCrits(a, 2), 1)

(* ---------------------------------------------------------------------- *)
(* MATCH / VLOOKUP / CHOOSE                                                *)
(* ---------------------------------------------------------------------- *)
MinOf(S) == CHOOSE i \in S : \A j \in S : i <= j
MaxOf(S) == CHOOSE i \in S : \A j \in S : i >= j

\* first position of col whose cell equals the key; 0 when there is none
FirstEqual(col, key) ==
    LET P == {i \in 1..Len(col) : Cmp3(col[i], key) = 0}
    IN IF P = {} THEN 0 ELSE MinOf(P)

Ascending(col) == \A i \in 1..(Len(col) - 1) : Cmp3(col[i], col[i + 1]) <= 0

\* last position whose value does not exceed the key; 0 when there is none
LastNotAbove(col, key) ==
    LET P == {i \in 1..Len(col) : Cmp3(col[i], key) <= 0}
    IN IF P = {} THEN 0 ELSE MaxOf(P)

MatchCall(a) ==
    IF Len(a) \notin {2, 3} THEN Open
    ELSE LET key == a[1]
             arr == a[2]
             \* (the match type written as the logical FALSE is the number 0 - an exact search, C08; TRUE is left open)
             mt  == IF Len(a) = 3 THEN (IF a[3] = Bool(FALSE) THEN Whole(0) ELSE a[3]) ELSE Whole(1)
         IN IF ~(IsColumn(arr) /\ AllCellsOk(arr) /\ KeyOk(key) /\ mt.t = "num") THEN Open
            ELSE LET col == Column(arr, 1) IN
                 IF mt = Whole(0) THEN
                     LET p == FirstEqual(col, key) IN IF p = 0 THEN Err("#N/A") ELSE Whole(p)
                 ELSE IF mt = Whole(1) THEN
                     \* ascending in the order of all values (numbers before texts before logical values).  The position is
                     \* determined when it holds a value of the key's own type; where it would fall on a value of another
                     \* type (MATCH("a", {1;5;"b"}): 2 by the order of values, #N/A for Excel, which skips other types) it is open
                     IF ~Ascending(col) THEN Open
                     ELSE LET p == LastNotAbove(col, key) IN
                          IF p = 0 THEN Err("#N/A")
                          ELSE IF Rank(col[p]) = Rank(key) THEN Whole(p) ELSE Open
                 ELSE Open

VlookupCall(a) ==
    IF Len(a) # 4 THEN Open                       \* range_lookup omitted: approximate
    ELSE LET key == a[1]  tab == a[2]  c == a[3]  rl == a[4] IN
         IF ~(rl = Bool(FALSE) \/ rl = Whole(0)) THEN Open
         ELSE IF ~(IsRange(tab) /\ KeyOk(key) /\ c.t = "num") THEN Open
         ELSE IF ~(\A i \in 1..Height(tab) : CellOk(tab.v[i][1])) THEN Open
         ELSE IF ~IsWhole(c) THEN Open
         ELSE IF c.n < 1 \/ c.n > Width(tab) THEN AnyErr
         ELSE LET p == FirstEqual(Column(tab, 1), key) IN
              IF p = 0 THEN Err("#N/A")
              ELSE LET v == tab.v[p][c.n] IN
                   IF v.t \in {"num", "txt", "bool"} THEN v ELSE Open

ChooseCall(a) ==
    IF Len(a) < 2 THEN Open
    ELSE LET i == IF a[1].t = "txt" THEN TextToNum(a[1].v) ELSE a[1]
             n == Len(a) - 1
         IN IF i.t # "num" THEN Open
            ELSE IF ~IsWhole(i) THEN Open
            ELSE IF i.n < 1 \/ i.n > n THEN Err("#VALUE!")
            ELSE LET v == a[i.n + 1] IN
                 IF v.t \in {"num", "txt", "bool"} THEN v ELSE Open

CritCall(f, a) ==
    CASE f = "COUNTIF"  -> CountIfCall(a)
      [] f = "COUNTIFS" -> CountIfsCall(a)
      [] f = "SUMIF"    -> SumIfCall(a)
      [] f = "SUMIFS"   -> SumIfsCall(a)
      [] f = "MATCH"    -> MatchCall(a)
      [] f = "VLOOKUP"  -> VlookupCall(a)
      [] f = "CHOOSE"   -> ChooseCall(a)
      [] OTHER          -> Open
=============================================================================

------------------------------ MODULE MC_C14 ------------------------------
(***************************************************************************)
(* Bounded instance for C14.  Each case is a two-state behaviour           *)
(* pending -> done of one call F(args); the laws the property states are   *)
(* invariants of the done states; the dump of the done states is the       *)
(* replay table for the implementation.                                    *)
(*                                                                         *)
(* case.lay gives, for every range argument, where it sits inside one      *)
(* common block (row, column of its top-left cell), so that the replay can *)
(* address genuine sub-ranges of one sheet region; <<0, 0>> = anywhere.    *)
(*                                                                         *)
(* Families of cases                                                       *)
(*  1 every fill pattern {number, blank, text}^(R x C) of a block whose    *)
(*    k-th cell holds the k-th weight of a weight vector (position         *)
(*    matters), as the single argument of every function (quick tier: for  *)
(*    9-cell blocks AVERAGE gets every pattern, SUM every third, the       *)
(*    others every ninth; 6-cell blocks: every pattern, every function)    *)
(*  2 every split of a block into two sub-rectangles, plus up to two       *)
(*    scalars, in every argument order (<= 3 arguments; 4: three orders)   *)
(*  3 every pair of sub-rectangles (overlapping or not) of a 2 x 3 block   *)
(*  4 SUMPRODUCT over pairs / triples of rectangles <= 2 x 3 of equal and  *)
(*    unequal shapes                                                       *)
(*  5 every placement of a fixed multiset of contents in a 2 x 2 / 2 x 3   *)
(*    range (permutation of cell contents)                                 *)
(*  6 scalar arguments only                                                *)
(***************************************************************************)
EXTENDS XlAgg

CONSTANTS BlockDims,    \* family 1: set of <<R, C>>
          BigFuncs,     \* family 1: functions applied to every pattern of blocks of more than 6 cells
          MidFuncs,     \* family 1: functions applied to the patterns with index = 0 modulo MidMod
          MidMod,
          BigMod,       \* family 1: the other functions get the patterns with index = 0 modulo BigMod
          AllSwaps,     \* LawCellPerm: every transposition also in ranges of more than 4 cells
          NW,           \* family 1: number of weight vectors (1..3)
          SplitDims,    \* family 2: set of <<R, C>>
          SplitBigFuncs,\* family 2: functions applied to splits of blocks of more than 6 cells
          SubMod,       \* family 3: the 2 x 3 patterns with index = 0 modulo SubMod
          NPerm         \* family 5: number of 6-cell multisets (0..2)

VARIABLES case, res
vars == <<case, res>>

(* ------------------------------ contents ------------------------------- *)
W1 == <<Whole(1), Whole(-2), Whole(4), Whole(-8), Whole(0), Whole(-32), Whole(64), Whole(-128), Whole(256)>>
W2 == <<Rat(1, 2), Rat(-3, 2), Whole(2), Rat(5, 4), Rat(-7, 4), Whole(3), Rat(1, 3), Whole(-4), Rat(9, 2)>>
W3 == <<Whole(1), Whole(2), Whole(4), Whole(8), Whole(16), Whole(32), Whole(64), Whole(128), Whole(256)>>
Wt(w) == CASE w = 1 -> W1 [] w = 2 -> W2 [] OTHER -> W3
VB == <<Whole(3), Rat(-1, 2), Whole(5), Whole(-7), Rat(1, 4), Whole(2)>>
VC == <<Whole(-1), Rat(2, 3)>>

Kinds == {"n", "b", "x"}
Pat(k) == [1..k -> Kinds]
AllN(k) == [i \in 1..k |-> "n"]
Mixed(k) == [i \in 1..k |-> IF i % 3 = 0 THEN "b" ELSE IF i % 3 = 2 THEN "x" ELSE "n"]

\* non-numeric texts; some of them words a lenient reader could take for a date or a float
CellText(k) == CASE k = 1 -> Txt(<<109, 97, 114>>)           \* "mar"
                 [] k = 5 -> Txt(<<105, 110, 102>>)          \* "inf"
                 [] k = 6 -> Txt(<<32>>)                     \* " "
                 [] OTHER -> Txt(<<96 + k, 120>>)            \* "bx", "cx", ...

CellOf(p, k, W) == CASE p[k] = "n" -> W[k]
                     [] p[k] = "b" -> Blank
                     [] OTHER      -> CellText(k)

Block(p, R, Cn, W) == Arr([i \in 1..R |-> [j \in 1..Cn |-> CellOf(p, (i - 1) * Cn + j, W)]])

FromFlat(m, R, Cn) == Arr([i \in 1..R |-> [j \in 1..Cn |-> m[(i - 1) * Cn + j]]])

Sub(a, r1, r2, c1, c2) ==
    Arr([i \in 1..(r2 - r1 + 1) |-> [j \in 1..(c2 - c1 + 1) |-> a.v[r1 + i - 1][c1 + j - 1]]])

Rows(a) == Len(a.v)
Cols(a) == Len(a.v[1])

Cuts(R, Cn) == {<<"r", k>> : k \in 1..(R - 1)} \cup {<<"c", k>> : k \in 1..(Cn - 1)}
Parts(a, cut) == IF cut[1] = "r"
                 THEN <<Sub(a, 1, cut[2], 1, Cols(a)), Sub(a, cut[2] + 1, Rows(a), 1, Cols(a))>>
                 ELSE <<Sub(a, 1, Rows(a), 1, cut[2]), Sub(a, 1, Rows(a), cut[2] + 1, Cols(a))>>
PartLay(cut) == IF cut[1] = "r" THEN <<<<1, 1>>, <<cut[2] + 1, 1>>>> ELSE <<<<1, 1>>, <<1, cut[2] + 1>>>>

Rects(R, Cn) == {q \in (1..R) \X (1..R) \X (1..Cn) \X (1..Cn) : q[1] <= q[2] /\ q[3] <= q[4]}

Code(kd) == CASE kd = "n" -> 0 [] kd = "b" -> 1 [] OTHER -> 2
RECURSIVE PatIndex(_, _)
PatIndex(p, k) == IF k = 0 THEN 0 ELSE 3 * PatIndex(p, k - 1) + Code(p[k])

Inj(n) == {p \in [1..n -> 1..n] : \A i, j \in 1..n : i # j => p[i] # p[j]}
P1 == Inj(1)
P2 == Inj(2)
P3 == Inj(3)
P4 == Inj(4)
P6 == Inj(6)
PermsOf(n) == CASE n = 1 -> P1 [] n = 2 -> P2 [] n = 3 -> P3 [] OTHER -> P4
Orders(n) == IF n <= 3 THEN PermsOf(n) ELSE {<<1, 2, 3, 4>>, <<4, 3, 2, 1>>, <<2, 3, 4, 1>>}
Permute(s, pm) == [i \in 1..Len(s) |-> s[pm[i]]]

Extras == {<<>>, <<Rat(3, 2)>>, <<Whole(-300)>>, <<Rat(3, 2), Whole(300)>>}
Scal == {Whole(0), Whole(-5), Rat(3, 2), Whole(7)}
Shapes == {<<r, c>> : r \in 1..2, c \in 1..3}
Fixed6 == {AllN(6), Mixed(6), <<"x", "n", "n", "b", "n", "n">>}

M4a == <<Whole(1), Whole(-2), Blank, Txt(<<120>>)>>
M4b == <<Whole(3), Blank, Rat(1, 2), Whole(-4)>>
M6a == <<Whole(1), Whole(-2), Rat(7, 2), Blank, Blank, Txt(<<120>>)>>
M6b == <<Whole(-1), Whole(-6), Blank, Txt(<<121>>), Txt(<<122, 122>>), Whole(0)>>
M6(k) == IF k = 1 THEN M6a ELSE M6b

C(f, a, lay) == [f |-> f, args |-> a, lay |-> lay]
Auto(n) == [i \in 1..n |-> <<0, 0>>]

InitCase ==
  \* 1 blocks in every fill pattern
  \/ \E d \in BlockDims, w \in 1..NW :
        \E p \in Pat(d[1] * d[2]), f \in AggFuncs :
            /\ \/ d[1] * d[2] <= 6
               \/ f \in BigFuncs
               \/ f \in MidFuncs /\ PatIndex(p, d[1] * d[2]) % MidMod = 0
               \/ PatIndex(p, d[1] * d[2]) % BigMod = 0
            /\ case = C(f, <<Block(p, d[1], d[2], Wt(w))>>, <<<<1, 1>>>>)
  \* 2 splits into two sub-rectangles, extra scalars, argument orders
  \/ \E d \in SplitDims :
        \E p \in Pat(d[1] * d[2]), cut \in Cuts(d[1], d[2]), ex \in Extras,
           f \in (IF d[1] * d[2] > 6 THEN SplitBigFuncs ELSE AggFuncs) :
            LET a == Parts(Block(p, d[1], d[2], W1), cut) \o ex
                l == PartLay(cut) \o Auto(Len(ex))
            IN /\ (f = "SUMPRODUCT" => ex = <<>>)     \* a scalar next to a larger range: left open
               /\ \E pm \in Orders(Len(a)) : case = C(f, Permute(a, pm), Permute(l, pm))
  \* 3 pairs of arbitrary sub-rectangles of one 2 x 3 block
  \/ \E p \in {q \in Pat(6) : PatIndex(q, 6) % SubMod = 0}, f \in AggFuncs, a \in Rects(2, 3), b \in Rects(2, 3) :
        LET blk == Block(p, 2, 3, W1)
        IN case = C(f, <<Sub(blk, a[1], a[2], a[3], a[4]), Sub(blk, b[1], b[2], b[3], b[4])>>,
                    <<<<a[1], a[3]>>, <<b[1], b[3]>>>>)
  \* 4 SUMPRODUCT: equal shapes
  \/ \E sh \in {s \in Shapes : s[1] * s[2] <= 4} :
        \E p \in Pat(sh[1] * sh[2]), q \in Pat(sh[1] * sh[2]) :
            case = C("SUMPRODUCT", <<Block(p, sh[1], sh[2], W1), Block(q, sh[1], sh[2], VB)>>, Auto(2))
  \/ \E p \in Pat(6), q \in Fixed6 :
        \/ case = C("SUMPRODUCT", <<Block(p, 2, 3, W1), Block(q, 2, 3, VB)>>, Auto(2))
        \/ case = C("SUMPRODUCT", <<Block(q, 2, 3, VB), Block(p, 2, 3, W1)>>, Auto(2))
  \*   unequal shapes
  \/ \E s1 \in Shapes, s2 \in Shapes :
        /\ s1 # s2
        /\ \E p \in {AllN(6), Mixed(6)}, q \in {AllN(6), Mixed(6)} :
              case = C("SUMPRODUCT", <<Block(p, s1[1], s1[2], W1), Block(q, s2[1], s2[2], VB)>>, Auto(2))
  \*   three ranges, equal and unequal; a 1 x 1 range with a scalar
  \/ \E p \in Pat(2), q \in Pat(2), r \in Pat(2) :
        \/ case = C("SUMPRODUCT", <<Block(p, 1, 2, W1), Block(q, 1, 2, VB), Block(r, 1, 2, VC)>>, Auto(3))
        \/ case = C("SUMPRODUCT", <<Block(p, 2, 1, W1), Block(q, 2, 1, VB), Block(r, 2, 1, VC)>>, Auto(3))
        \/ case = C("SUMPRODUCT", <<Block(p, 1, 2, W1), Block(q, 2, 1, VB), Block(r, 1, 2, VC)>>, Auto(3))
  \/ \E p \in Pat(1), s \in Scal :
        \/ case = C("SUMPRODUCT", <<Block(p, 1, 1, VB), s>>, Auto(2))
        \/ case = C("SUMPRODUCT", <<s, Block(p, 1, 1, VB)>>, Auto(2))
  \* 5 every placement of a multiset of contents
  \/ \E f \in AggFuncs, m \in {M4a, M4b}, pm \in P4 : case = C(f, <<FromFlat(Permute(m, pm), 2, 2)>>, Auto(1))
  \/ \E pm \in P4 : case = C("SUMPRODUCT", <<FromFlat(Permute(M4a, pm), 2, 2), FromFlat(Permute(M4b, pm), 2, 2)>>, Auto(2))
  \/ \E f \in AggFuncs, k \in 1..NPerm, pm \in P6 : case = C(f, <<FromFlat(Permute(M6(k), pm), 2, 3)>>, Auto(1))
  \* 6 scalars only
  \/ \E f \in AggFuncs, n \in 1..3 : \E s \in [1..n -> Scal] : case = C(f, s, Auto(n))

Pending == [t |-> "pending"]

\* instance parameters (referred to by the cfg files)
QBlockDims == {<<2, 3>>, <<3, 3>>}
QSplitDims == {<<2, 2>>}
TBlockDims == {<<2, 3>>, <<3, 3>>}
TSplitDims == {<<2, 3>>}
SumAvg == {"SUM", "AVERAGE"}
OnlyAvg == {"AVERAGE"}
OnlySum == {"SUM"}
NoFuncs == {}

Init == InitCase /\ res = Pending
Call == res = Pending /\ res' = AggCall(case.f, case.args) /\ UNCHANGED case
Next == Call
Spec == Init /\ [][Next]_vars

Done == res # Pending
A == case.args
F == case.f

ReplaceAt(s, i, new) == SubSeq(s, 1, i - 1) \o new \o SubSeq(s, i + 1, Len(s))

SwapArr(a, x, y) ==
    LET Cn == Cols(a)
        At(k) == a.v[(k - 1) \div Cn + 1][((k - 1) % Cn) + 1]
    IN Arr([i \in 1..Rows(a) |-> [j \in 1..Cn |->
            LET k == (i - 1) * Cn + j IN At(IF k = x THEN y ELSE IF k = y THEN x ELSE k)]])

MapCells(a, G(_)) == Arr([i \in 1..Rows(a) |-> [j \in 1..Cols(a) |-> G(a.v[i][j])]])

SameShapes == \A i \in 1..Len(A) : Shape(A[i]) = Shape(A[1])

(* --------- the consequences stated by the property, on the spec --------- *)
\* the result does not change when arguments are permuted
LawArgPerm ==
    (Done /\ Len(A) >= 2 /\ Len(A) <= 4) => \A pm \in PermsOf(Len(A)) : AggCall(F, Permute(A, pm)) = res

\* ... or when cell contents are permuted within a range: every transposition
\* (quick tier: three of them for ranges of more than 4 cells; every placement
\* of whole multisets is LawPlacement over family 5); for SUMPRODUCT the same
\* transposition in every range
LawCellPerm ==
    Done => \A i \in 1..Len(A) :
        A[i].t = "arr" =>
            LET K == Rows(A[i]) * Cols(A[i]) IN
            \A x \in 1..K, y \in 1..K :
                (x < y /\ (K <= 4 \/ AllSwaps \/ (x = 1 /\ y = K) \/ (x = 2 /\ y = 3) \/ (x = K - 1 /\ y = K))) =>
                    IF F # "SUMPRODUCT"
                    THEN AggCall(F, ReplaceAt(A, i, <<SwapArr(A[i], x, y)>>)) = res
                    ELSE (SameShapes /\ i = 1) =>
                         AggCall(F, [j \in 1..Len(A) |-> IF A[j].t = "arr" THEN SwapArr(A[j], x, y) ELSE A[j]]) = res

\* every placement of a multiset gives the result of the first placement
IsPerm(m, s) == /\ Len(m) = Len(s)
                /\ \A i \in 1..Len(m) : Cardinality({j \in 1..Len(s) : s[j] = m[i]})
                                          = Cardinality({j \in 1..Len(m) : m[j] = m[i]})
LawPlacement ==
    (Done /\ Len(A) = 1 /\ A[1].t = "arr" /\ Rows(A[1]) = 2) =>
        LET flat == FlatRows(A[1].v) IN
        \A m \in {M4a, M4b, M6a, M6b} :
            IsPerm(m, flat) => AggCall(F, <<FromFlat(m, 2, Len(m) \div 2)>>) = res

\* SUM is additive over every split of a range into sub-ranges
LawSumSplit ==
    (Done /\ F = "SUM" /\ res.t = "num") => \A i \in 1..Len(A) :
        A[i].t = "arr" =>
            /\ \A cut \in Cuts(Rows(A[i]), Cols(A[i])) :
                 LET ps == Parts(A[i], cut) IN
                 /\ AggCall("SUM", ReplaceAt(A, i, ps)) = res
                 /\ Len(A) = 1 => RAdd(AggCall("SUM", <<ps[1]>>), AggCall("SUM", <<ps[2]>>)) = res
            /\ \A rc \in 1..(Rows(A[i]) - 1), cc \in 1..(Cols(A[i]) - 1) :
                 LET tb == Parts(A[i], <<"r", rc>>)
                     q  == Parts(tb[1], <<"c", cc>>) \o Parts(tb[2], <<"c", cc>>)
                 IN AggCall("SUM", ReplaceAt(A, i, q)) = res

LawMinAvgMax ==
    (Done /\ F = "AVERAGE" /\ res.t = "num") =>
        LET mn == AggCall("MIN", A)  mx == AggCall("MAX", A)
        IN mn.t = "num" /\ mx.t = "num" /\ RLe(mn, res) /\ RLe(res, mx)

LawCountLe ==
    (Done /\ F = "COUNT") =>
        LET ca == AggCall("COUNTA", A) IN res.t = "num" /\ ca.t = "num" /\ res.n <= ca.n

\* --- keeping the oracle honest: independent characterisations ---
LawAvgDef ==
    (Done /\ F = "AVERAGE" /\ res.t = "num") => RMul(res, AggCall("COUNT", A)) = AggCall("SUM", A)

LawMinMaxMember == \* the extremum is an addressed number and bounds all of them
    (Done /\ F \in {"MIN", "MAX"} /\ res.t = "num") =>
        LET ns == Nums(AllVals(A)) IN
        /\ \E k \in 1..Len(ns) : ns[k] = res
        /\ \A k \in 1..Len(ns) : IF F = "MIN" THEN RLe(res, ns[k]) ELSE RLe(ns[k], res)

\* homogeneity: multiplying every addressed number by k multiplies SUM / AVERAGE / MIN / MAX by k and SUMPRODUCT by k to the
\* number of its ranges (the replay uses it with k = 2^32: whole numbers whose products leave the 64-bit integers)
ScaleVal(x, k) == IF x.t = "num" THEN RMul(x, Whole(k)) ELSE x
ScaleArg(a, k) == IF a.t = "arr" THEN [t |-> "arr", v |-> [r \in 1..Len(a.v) |-> [c \in 1..Len(a.v[r]) |-> ScaleVal(a.v[r][c], k)]]]
                  ELSE ScaleVal(a, k)
LawScale ==
    (Done /\ res.t = "num" /\ F \in {"SUM", "SUMPRODUCT", "MAX", "MIN", "AVERAGE"} /\ (F = "SUMPRODUCT" => \A i \in 1..Len(A) : A[i].t = "arr")) =>
        LET r2 == AggCall(F, [i \in 1..Len(A) |-> ScaleArg(A[i], 3)])
            kk == IF F = "SUMPRODUCT" THEN RPowNat(Whole(3), Len(A)) ELSE Whole(3)
        IN r2.t = "open" \/ kk.t = "open" \/ RMul(res, kk).t = "open" \/ r2 = RMul(res, kk)

LawSumProdOne == (Done /\ F = "SUMPRODUCT" /\ Len(A) = 1) => res = AggCall("SUM", A)

LawShape ==
    (Done /\ F = "SUMPRODUCT" /\ (\A i \in 1..Len(A) : A[i].t = "arr") /\ ~SameShapes) => res = Err("#VALUE!")

\* text in a range is ignored: emptying every text cell changes nothing (COUNTA: it counts)
LawTextIgnored ==
    (Done /\ F # "COUNTA") =>
        AggCall(F, [j \in 1..Len(A) |->
            IF A[j].t = "arr" THEN MapCells(A[j], LAMBDA x : IF x.t = "txt" THEN Blank ELSE x) ELSE A[j]]) = res
LawCountaCountsText ==
    (Done /\ F = "COUNTA") =>
        AggCall(F, [j \in 1..Len(A) |->
            IF A[j].t = "arr" THEN MapCells(A[j], LAMBDA x : IF x.t = "txt" THEN Whole(9) ELSE x) ELSE A[j]]) = res

\* vacuity guard: in this instance only "no number at all" is undetermined
LawDetermined ==
    (Done /\ res.t = "open") => (F \in {"AVERAGE", "MIN", "MAX"} /\ Len(Nums(AllVals(A))) = 0)
LawResultType == Done => res.t \in {"num", "err", "open"}
=============================================================================

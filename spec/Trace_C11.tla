---------------------------- MODULE Trace_C11 ----------------------------
(***************************************************************************)
(* Trace specification for C11 (code -> spec).  Each line of $TRACE_FILE   *)
(* is one stored cell or one defined name of a real .xlsx file, as read by *)
(* the harness's own XML reader, together with what the model loaded by    *)
(* the library holds for it:                                               *)
(*   {k: "cell", c: [sh, col, row, form], m: master cell (c itself when    *)
(*    there is none), res: [present, value, formula]}                      *)
(*   {k: "name", nm: [name, sh, c1, r1, c2, r2], ignored, stored, res}     *)
(* One step consumes one line and yields a TOTAL verdict: "ok", "open" or  *)
(* the violated clause.                                                    *)
(***************************************************************************)
EXTENDS XlReader, Json, IOUtils

Trace == ndJsonDeserialize(IOEnv.TRACE_FILE)

VARIABLES l, verdict, exp
vars == <<l, verdict, exp>>

CellExpected(e) == LET x == LoadCell(<<e.m, e.c>>, e.c)
                   IN [addr |-> x.addr, value |-> x.value, formula |-> x.formula]
CellVerdict(e, x) ==
    IF ~e.res.present THEN (IF x.value.t = "open" THEN "open" ELSE "missing-cell")
    ELSE IF ~LoadAgrees(e.res.value, x.value) THEN "wrong-value"
    ELSE IF x.formula.t # "open" /\ e.res.formula # x.formula THEN "wrong-formula"
    ELSE IF x.value.t = "open" /\ x.formula.t \in {"open", "none"} THEN "open"
    ELSE "ok"

NameExpected(e) == LoadName(e.nm, e.ignored, e.stored)
NameVerdict(e, x) ==
    IF x.kind = "open" THEN "open"
    ELSE IF e.res.kind # x.kind THEN "wrong-name"
    ELSE IF x.kind = "cell" THEN (IF e.res.addr = x.addr THEN "ok" ELSE "wrong-name")
    ELSE IF e.res.cells = x.cells THEN "ok" ELSE "wrong-name"

Init == l = 0 /\ verdict = "start" /\ exp = [t |-> "none"]
Step == /\ l < Len(Trace)
        /\ l' = l + 1
        /\ LET e == Trace[l + 1] IN
           IF e.k = "cell"
           THEN LET x == CellExpected(e) IN exp' = x /\ verdict' = CellVerdict(e, x)
           ELSE LET x == NameExpected(e) IN exp' = x /\ verdict' = NameVerdict(e, x)
Spec == Init /\ [][Step]_vars

AllConsumed == TLCGet("stats").diameter - 1 = Len(Trace)
=============================================================================

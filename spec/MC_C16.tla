------------------------------ MODULE MC_C16 ------------------------------
(***************************************************************************)
(* Bounded instance for C16.  Numbers are all signed decimals with up to   *)
(* MaxDig significant digits and exponents EMin..EMax, plus the tie        *)
(* families  p5, p49999, p50001, p4999999999999, p5000000000001  placed at *)
(* every rounding position; digit counts DMin..DMax; CEILING / FLOOR over  *)
(* the four sign combinations and the significances 1 2 5 0.1 0.25 3 10;   *)
(* MOD over all sign combinations; the domain edges of every elementary    *)
(* function.  Each case is a behaviour pending -> done; the laws of the    *)
(* property are invariants of the done states; the dump of the done states *)
(* is the replay table for the implementation.                             *)
(***************************************************************************)
EXTENDS XlMath

CONSTANTS MaxDig,        \* 2 or 3: longest digit string enumerated
          DSpan,         \* digit counts -DSpan..DSpan
          ELo, EMax      \* exponents -ELo..EMax of the enumerated numbers

DMin == -DSpan
DMax == DSpan
EMin == -ELo

VARIABLES case, res
vars == <<case, res>>

Dig1 == {<<a>> : a \in 1..9}
Dig2 == {<<a, b>> : a \in 1..9, b \in 1..9}
Dig3 == {<<a, b, c>> : a \in 1..9, b \in 0..9, c \in 1..9}
DigStr  == IF MaxDig >= 3 THEN Dig1 \cup Dig2 \cup Dig3 ELSE Dig1 \cup Dig2
DigStr2 == Dig1 \cup Dig2

D(ng, s, e) == [t |-> "dec", neg |-> ng, dg |-> s, e |-> e]      \* s is normalised by construction

TieTails == {<<5>>, <<4, 9, 9, 9, 9>>, <<5, 0, 0, 0, 1>>, <<4>> \o Nines(12), <<5>> \o Zeros(11) \o <<1>>}
TiePre   == {<<>>, <<1>>, <<2>>, <<3>>, <<4>>, <<5>>, <<6>>, <<7>>, <<8>>, <<9>>, <<1, 0>>, <<2, 6>>, <<9, 9>>}

Sigs == {DInt(1), DInt(2), DInt(5), D(FALSE, <<1>>, -1), D(FALSE, <<2, 5>>, -2), DInt(3), DInt(10)}
SigsAll == Sigs \cup {DNeg(s) : s \in Sigs} \cup {DZero}

Divs == {DInt(1), DInt(2), DInt(3), DInt(5), DInt(7), DInt(10), D(FALSE, <<5>>, -1), D(FALSE, <<2, 5>>, -2),
         D(FALSE, <<2, 5>>, -1), D(FALSE, <<1, 5>>, -1), D(FALSE, <<1>>, -1), D(FALSE, <<3>>, -1)}
DivsAll == Divs \cup {DNeg(s) : s \in Divs} \cup {DZero}

Special == \* domain edges and range edges
    {DZero, DInt(1), DInt(-1), DInt(2), DInt(-2), D(FALSE, Nines(15), -15), D(TRUE, Nines(15), -15),
     D(FALSE, <<1>> \o Zeros(13) \o <<1>>, -14), D(TRUE, <<1>> \o Zeros(13) \o <<1>>, -14),
     DInt(709), DInt(710), D(FALSE, <<7, 0, 9, 5>>, -1), DInt(-709), DInt(-710), DInt(711), DInt(-711),
     DInt(1000), DInt(-1000), DInt(134217728), DInt(134217727), DInt(-134217728),
     D(FALSE, <<1>>, 300), D(TRUE, <<1>>, 300), D(FALSE, <<1>>, -300), D(TRUE, <<1>>, -300),
     D(FALSE, <<1>>, 308), D(FALSE, <<1>>, 306), D(FALSE, <<1, 7>>, 307), D(FALSE, <<5>>, -1), D(TRUE, <<5>>, -1)}

Bases == {DZero, DInt(1), DInt(-1), DInt(2), DInt(-2), DInt(8), DInt(-8), DInt(10), D(FALSE, <<5>>, -1),
          D(FALSE, <<2, 5>>, -1), DInt(3), DInt(125), DInt(100), DInt(1024), D(FALSE, <<1>>, -3),
          D(FALSE, <<1>>, 300), D(FALSE, <<1>>, 308), D(FALSE, <<1>>, 200), D(FALSE, <<1>>, 154), D(TRUE, <<1>>, 200),
          D(FALSE, <<1>>, -200), D(TRUE, <<1>>, -200), D(FALSE, <<1>>, -300)}
FracExps == {D(FALSE, <<5>>, -1), D(TRUE, <<5>>, -1), D(FALSE, <<1, 5>>, -1), D(FALSE, [i \in 1..15 |-> 3], -15),
             D(TRUE, <<2, 5>>, -1)}
BigExps == {DInt(308), DInt(309), DInt(-308), DInt(-309), DInt(1023), DInt(1024), DInt(-1074), DInt(-1080), DInt(400), DInt(-400)}

C(f, a) == [f |-> f, args |-> a]

InitCase ==
  \* ---- rounding to a digit count
  \/ \E f \in RoundFuncs, s \in DigStr, e \in EMin..EMax, ng \in BOOLEAN, d \in DMin..DMax :
        case = C(f, <<D(ng, s, e), DInt(d)>>)
  \* the tail starts one position above, at, or one position below the first dropped digit
  \/ \E f \in RoundFuncs, p \in TiePre, t \in TieTails, ng \in BOOLEAN, d \in DMin..DMax, j \in -1..1 :
        case = C(f, <<D(ng, p \o t, -d + j - Len(t)), DInt(d)>>)
  \/ \E f \in RoundFuncs, d \in DMin..DMax : case = C(f, <<DZero, DInt(d)>>)
  \/ \E f \in {"ROUND", "TRUNC", "ROUNDUP", "ROUNDDOWN"}, s \in DigStr2, e \in -2..1, ng \in BOOLEAN : case = C(f, <<D(ng, s, e)>>)
  \/ \E f \in RoundFuncs, x \in Special, d \in {DMin, -1, 0, 1, DMax} : case = C(f, <<x, DInt(d)>>)
  \* ---- one-argument exact functions
  \/ \E f \in {"INT", "EVEN", "ABS", "SIGN", "ISEVEN", "ISODD"}, s \in DigStr, e \in EMin..EMax, ng \in BOOLEAN :
        case = C(f, <<D(ng, s, e)>>)
  \/ \E f \in {"INT", "EVEN", "ABS", "SIGN", "ISEVEN", "ISODD"}, p \in TiePre, t \in TieTails, ng \in BOOLEAN, k \in -1..1 :
        case = C(f, <<D(ng, p \o t, k - Len(t))>>)
  \/ \E f \in {"INT", "EVEN", "ABS", "SIGN", "ISEVEN", "ISODD"}, x \in Special : case = C(f, <<x>>)
  \* ---- multiples of a significance
  \/ \E f \in {"CEILING", "FLOOR"}, s \in DigStr2, e \in -2..1, ng \in BOOLEAN, g \in SigsAll : case = C(f, <<D(ng, s, e), g>>)
  \/ \E f \in {"CEILING", "FLOOR"}, g \in SigsAll : case = C(f, <<DZero, g>>)
  \* ---- MOD
  \/ \E s \in DigStr2, e \in -1..1, ng \in BOOLEAN, g \in DivsAll : case = C("MOD", <<D(ng, s, e), g>>)
  \/ \E g \in DivsAll : case = C("MOD", <<DZero, g>>)
  \* ---- powers
  \/ \E f \in {"POWER", "OP_POW"}, s \in DigStr2, e \in -1..0, ng \in BOOLEAN, y \in -4..6 : case = C(f, <<D(ng, s, e), DInt(y)>>)
  \/ \E f \in {"POWER", "OP_POW"}, x \in Bases, y \in -4..6 : case = C(f, <<x, DInt(y)>>)
  \/ \E f \in {"POWER", "OP_POW"}, x \in Bases, y \in FracExps \cup BigExps : case = C(f, <<x, y>>)
  \* ---- factorials
  \/ \E f \in {"FACT", "FACTDOUBLE"}, n \in -2..172 : case = C(f, <<DInt(n)>>)
  \/ \E f \in {"FACT", "FACTDOUBLE"}, x \in {D(FALSE, <<5>>, -1), D(FALSE, <<5, 9>>, -1), D(TRUE, <<5>>, -1), D(TRUE, <<1, 5>>, -1),
                                              D(FALSE, <<1, 7, 0, 9>>, -1)} : case = C(f, <<x>>)
  \* ---- elementary functions
  \/ \E f \in Unary1, s \in DigStr2, e \in -2..2, ng \in BOOLEAN : case = C(f, <<D(ng, s, e)>>)
  \/ \E f \in Unary1, x \in Special : case = C(f, <<x>>)
  \/ \E f \in {"LOG10", "LOG", "SQRT"}, e \in -20..20 : case = C(f, <<D(FALSE, <<1>>, e)>>)
  \/ \E s \in DigStr2, e \in -2..2, ng \in BOOLEAN : case = C("LOG", <<D(ng, s, e)>>)
  \/ \E x \in Bases, b \in Bases \cup {DInt(5), DInt(-5)} : case = C("LOG", <<x, b>>)
  \/ \E x \in Bases \cup Special, y \in Bases \cup Special : case = C("ATAN2", <<x, y>>)
  \/ case = C("PI", <<>>)

Pending == [t |-> "pending"]

Init == InitCase /\ res = Pending
Call == res = Pending /\ res' = MathCall(case.f, case.args) /\ UNCHANGED case
Next == Call
Spec == Init /\ [][Next]_vars

Done == res # Pending
A == case.args
X == A[1]
IsD(r) == r.t = "dec"

Digs == IF Len(A) = 2 THEN IntVal(A[2]) ELSE 0
Unit == D(FALSE, <<1>>, -Digs)                     \* 10^-d
HalfUnit == D(FALSE, <<5>>, -Digs - 1)

\* --- the consequences stated by the property, as invariants of the spec ---
LawRoundOrder == \* |ROUNDDOWN| <= |ROUND| <= |ROUNDUP|, all with the sign of x
    (Done /\ case.f = "ROUND" /\ IsD(res))
    => LET dn == MathCall("ROUNDDOWN", A)  up == MathCall("ROUNDUP", A) IN
       /\ DCmpAbs(dn, res) <= 0 /\ DCmpAbs(res, up) <= 0
       /\ DCmpAbs(dn, X) <= 0 /\ DCmpAbs(X, up) <= 0
       /\ (res = dn \/ res = up)
       /\ (IsZero(res) \/ res.neg = X.neg)
LawRoundError == \* |x - ROUND(x,d)| <= half a unit, ties away from zero; one unit for the directed ones
    (Done /\ case.f \in RoundFuncs /\ IsD(res) /\ Gap(X, Unit) <= GapMax)
    => LET err == DAbs(DSub(X, res)) IN
       CASE case.f = "ROUND" -> DCmp(err, HalfUnit) <= 0 /\ (err = HalfUnit => DCmpAbs(res, X) > 0)
         [] OTHER -> DCmp(err, Unit) < 0
LawMultipleOfUnit == \* the result is a multiple of 10^-d
    (Done /\ case.f \in RoundFuncs /\ IsD(res)) => (IsZero(res) \/ res.e >= -Digs)
LawIdempotent ==
    (Done /\ case.f \in RoundFuncs \cup {"INT", "EVEN", "ABS"} /\ IsD(res))
    => MathCall(case.f, [A EXCEPT ![1] = res]) = res
LawCeilFloorIdem ==
    (Done /\ case.f \in {"CEILING", "FLOOR"} /\ IsD(res) /\ ~IsZero(res)) => MathCall(case.f, <<res, A[2]>>) = res
LawTruncIsRoundDown == (Done /\ case.f = "TRUNC") => res = MathCall("ROUNDDOWN", A)
LawInt == \* INT(x) <= x < INT(x) + 1, INT(x) integral
    (Done /\ case.f = "INT" /\ IsD(res) /\ Gap(X, DOne) <= GapMax)
    => IsIntegral(res) /\ DLe(res, X) /\ DLt(X, DAdd(res, DOne))
LawEven == \* EVEN(x): even integer, |x| <= |EVEN(x)| < |x| + 2, sign of x
    (Done /\ case.f = "EVEN" /\ IsD(res) /\ Gap(X, DOne) <= GapMax)
    => /\ IsIntegral(res) /\ ~TruncParityOdd(res)
       /\ DCmpAbs(X, res) <= 0 /\ DLt(DAbs(res), DAdd(DAbs(X), DInt(2)))
       /\ (IsZero(res) \/ res.neg = X.neg)
\* cross-check of the digit-sequence arithmetic with TLC's own integers (values scaled by 10^4)
Scaled(x) == IF IsZero(x) THEN 0 ELSE (IF x.neg THEN -1 ELSE 1) * NatVal(x.dg) * Pow10(x.e + 4)
Scalable(x) == IsZero(x) \/ (x.e >= -4 /\ AdjExp(x) <= 4)
LawModSignRange == \* n = d*q + r with q integral, r = 0 or sign(r) = sign(d), |r| < |d|
    (Done /\ case.f = "MOD" /\ IsD(res) /\ Scalable(X) /\ Scalable(A[2]))
    => LET n == Scaled(X)  d == Scaled(A[2])  r == Scaled(res) IN
       /\ (n - r) % Abs(d) = 0
       /\ (r = 0 \/ (r < 0) = (d < 0))
       /\ Abs(r) < Abs(d)
LawModZero == (Done /\ case.f = "MOD" /\ IsZero(A[2])) => res = AnyErr
LawCeilFloorDecomp == \* x = s*q + r : the result is a multiple s*q of s no further than |s| from x, on the right side
    (Done /\ case.f \in {"CEILING", "FLOOR"} /\ IsD(res) /\ ~IsZero(A[2]) /\ Scalable(X) /\ Scalable(A[2]))
    => LET x == Scaled(X)  s == Scaled(A[2])  m == Scaled(res)
           up == case.f = "CEILING"
       IN /\ m % Abs(s) = 0
          /\ Abs(m - x) < Abs(s)
          /\ IF s > 0 THEN (IF up THEN m >= x ELSE m <= x)
                      ELSE (IF up THEN m <= x ELSE m >= x)       \* x, s < 0 : CEILING away from zero
LawCeilFloorErrors ==
    (Done /\ case.f \in {"CEILING", "FLOOR"})
    => /\ (A[2].neg /\ DSign(X) > 0 => res = AnyErr)
       /\ (case.f = "CEILING" /\ IsZero(A[2]) => res = DZero)
       /\ (case.f = "FLOOR" /\ IsZero(A[2]) /\ ~IsZero(X) => res = AnyErr)
LawAbsSign ==
    (Done /\ case.f \in {"ABS", "SIGN"})
    => IF case.f = "ABS" THEN ~res.neg /\ DCmpAbs(res, X) = 0
       ELSE DMul(res, DAbs(X)) = X
LawParity == (Done /\ case.f \in {"ISEVEN", "ISODD"})
    => res.t = "bool" /\ res.v # MathCall(IF case.f = "ISEVEN" THEN "ISODD" ELSE "ISEVEN", A).v
LawPowMul == \* x^(n+1) = x^n * x for the exactly decided powers
    (Done /\ case.f = "POWER" /\ res.t \in {"dec", "near"} /\ SmallInt(A[2]) /\ IntVal(A[2]) >= 0 /\ IntVal(A[2]) < 6 /\ ~IsZero(X))
    => LET nx == MathCall("POWER", <<X, DInt(IntVal(A[2]) + 1)>>) IN
       nx.t \in {"dec", "near"} => DMul([res EXCEPT !.t = "dec"], X) = [nx EXCEPT !.t = "dec"]
LawFactRec == \* n! = n * (n-1)!
    (Done /\ case.f = "FACT" /\ res.t = "near" /\ SmallInt(X) /\ IntVal(X) >= 1)
    => LET p == MathCall("FACT", <<DInt(IntVal(X) - 1)>>) IN DMul([p EXCEPT !.t = "dec"], X) = [res EXCEPT !.t = "dec"]
LawDomain == \* outside the domain: an Excel error value; inside: never
    (Done /\ case.f \in Unary1 \cup {"LOG", "ATAN2", "MOD", "FACT", "FACTDOUBLE", "POWER", "OP_POW"})
    => (~InDomain(case.f, A) => res.t \in {"anyerr", "open"})
       /\ (res.t = "ref" => res.expr = RefExpr(case.f, Len(A)) /\ InDomain(case.f, A))
LawResultType == Done => res.t \in {"dec", "near", "ref", "bool", "anyerr", "open"}
=============================================================================

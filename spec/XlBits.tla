------------------------------ MODULE XlBits ------------------------------
(***************************************************************************)
(* Base-conversion functions as exact two's-complement conversions (C19).  *)
(*                                                                         *)
(* A number in base 2 / 8 / 16 is a string of at most 10 digits read as a  *)
(* 10 / 30 / 40-bit two's-complement pattern.  TLC integers are 32 bit, so *)
(* nothing here computes with the VALUE of a 40-bit number:                *)
(*   - bit patterns are sequences over {0,1}, most significant bit first;  *)
(*   - decimal numbers are sign + sequence of decimal digits               *)
(*         [t |-> "dec", neg |-> BOOLEAN, dg |-> Seq(0..9)]                *)
(*     (canonical: no leading zero, zero is not negative);                 *)
(*   - decimal <-> bits is schoolbook halving / doubling on the digits     *)
(*     (taken six at a time);                                              *)
(*   - base 2 / 8 / 16 <-> bits is regrouping of 1 / 3 / 4 bits.           *)
(* A conversion is defined iff the value lies in the window of every base  *)
(* involved, i.e. iff the source pattern can be sign-extended or truncated *)
(* to the destination width without loss.                                  *)
(***************************************************************************)
EXTENDS XlValues

BitsFuncs == {"DEC2BIN", "DEC2OCT", "DEC2HEX", "BIN2DEC", "BIN2OCT", "BIN2HEX",
              "OCT2DEC", "OCT2BIN", "OCT2HEX", "HEX2DEC", "HEX2BIN", "HEX2OCT"}

Src(f) == CASE f \in {"DEC2BIN", "DEC2OCT", "DEC2HEX"} -> "DEC"
            [] f \in {"BIN2DEC", "BIN2OCT", "BIN2HEX"} -> "BIN"
            [] f \in {"OCT2DEC", "OCT2BIN", "OCT2HEX"} -> "OCT"
            [] f \in {"HEX2DEC", "HEX2BIN", "HEX2OCT"} -> "HEX"
Dst(f) == CASE f \in {"BIN2DEC", "OCT2DEC", "HEX2DEC"} -> "DEC"
            [] f \in {"DEC2BIN", "OCT2BIN", "HEX2BIN"} -> "BIN"
            [] f \in {"DEC2OCT", "BIN2OCT", "HEX2OCT"} -> "OCT"
            [] f \in {"DEC2HEX", "BIN2HEX", "OCT2HEX"} -> "HEX"
FuncOf(s, d) == CHOOSE f \in BitsFuncs : Src(f) = s /\ Dst(f) = d      \* s # d

Width(b) == CASE b = "BIN" -> 10 [] b = "OCT" -> 30 [] b = "HEX" -> 40
Group(b) == CASE b = "BIN" -> 1  [] b = "OCT" -> 3  [] b = "HEX" -> 4
Radix(b) == CASE b = "BIN" -> 2  [] b = "OCT" -> 8  [] b = "HEX" -> 16

(* ---------------------------------------------------------------------- *)
(* decimal digit sequences                                                 *)
(* ---------------------------------------------------------------------- *)
\* TLC keeps [i \in S |-> e] unevaluated and re-evaluates e at every application;
\* concatenation turns it into an explicit tuple once (a pure optimisation)
Force(s) == <<>> \o s
Pow2(e) == <<1, 2, 4, 8, 16, 32, 64, 128, 256, 512, 1024, 2048, 4096, 8192, 16384, 32768>>[e + 1]     \* e <= 15

Dec(neg, dg) == [t |-> "dec", neg |-> neg, dg |-> dg]
IsDec(x) == x.t = "dec"

RECURSIVE StripZ(_)
StripZ(dg) == IF Len(dg) > 1 /\ dg[1] = 0 THEN StripZ(Tail(dg)) ELSE dg
AllZero(dg) == \A i \in 1..Len(dg) : dg[i] = 0

RECURSIVE NatDigits(_)
NatDigits(n) == IF n < 10 THEN <<n>> ELSE Append(NatDigits(n \div 10), n % 10)
DecOfInt(n) == Dec(n < 0, NatDigits(Abs(n)))
DecNorm(x) == LET dg == StripZ(x.dg) IN Dec(x.neg /\ ~AllZero(dg), dg)

\* Halving and doubling work on "limbs": the decimal digits taken six at a
\* time (digits of base 10^6; 2 * limb + 1 stays far below 2^31), which is the
\* same schoolbook algorithm with a sixth of the steps.
LB == 1000000
RECURSIVE SeqNat(_, _, _)
SeqNat(dg, lo, hi) == IF hi < lo THEN 0 ELSE SeqNat(dg, lo, hi - 1) * 10 + dg[hi]
ToLimbs(dg) ==
    LET n == Len(dg)
        m == (n + 5) \div 6
    IN Force([j \in 1..m |-> SeqNat(dg, Max2(1, n - 6 * (m - j) - 5), n - 6 * (m - j))])
FromLimbs(l) ==      \* l without leading zero limb (or <<0>>)
    LET first == NatDigits(l[1])
        k == Len(first)
    IN Force([p \in 1..(k + 6 * (Len(l) - 1)) |->
                IF p <= k THEN first[p]
                ELSE (l[2 + ((p - k - 1) \div 6)] \div Pow10(5 - ((p - k - 1) % 6))) % 10])

\* l div 2: the carry into limb j is the parity of limb j-1
HalfL(l) == Force([j \in 1..Len(l) |-> ((IF j = 1 THEN 0 ELSE l[j - 1] % 2) * LB + l[j]) \div 2])
\* 2*l + b: the carry out of limb j+1 is 1 iff that limb is >= LB/2
DoubleL(l, b) ==
    LET n == Len(l)
        body == [j \in 1..n |-> (2 * l[j] + (IF j = n THEN b ELSE IF 2 * l[j + 1] >= LB THEN 1 ELSE 0)) % LB]
    IN (IF 2 * l[1] >= LB THEN <<1>> ELSE <<>>) \o body

Rev(s)   == Force([i \in 1..Len(s) |-> s[Len(s) + 1 - i]])
Zeros(k) == Force([i \in 1..k |-> 0])

RECURSIVE MagBitsLSB(_)     \* bits of a non-negative limb sequence, least significant first, no leading zero
MagBitsLSB(l) == IF AllZero(l) THEN <<>>
                 ELSE <<l[Len(l)] % 2>> \o MagBitsLSB(StripZ(HalfL(l)))

(* ---------------------------------------------------------------------- *)
(* two's-complement bit patterns (most significant bit first)              *)
(* ---------------------------------------------------------------------- *)
NoBits == [ok |-> FALSE, b |-> <<>>]
OkBits(b) == [ok |-> TRUE, b |-> b]

\* -x: keep everything from the last 1 to the right, invert the rest
RECURSIVE LastOne(_, _)
LastOne(b, i) == IF i = 0 THEN 0 ELSE IF b[i] = 1 THEN i ELSE LastOne(b, i - 1)
TwoNeg(b) ==
    LET j == LastOne(b, Len(b))
    IN Force([i \in 1..Len(b) |-> IF i < j THEN 1 - b[i] ELSE b[i]])

\* the W-bit pattern of a signed decimal, if it is in -2^(W-1) .. 2^(W-1)-1
DecToBits(neg, dg0, W) ==
    LET dg == StripZ(dg0) IN
    IF Len(dg) > 13 THEN NoBits                    \* > 10^13 > 2^40
    ELSE LET m == Rev(MagBitsLSB(ToLimbs(dg)))
             k == Len(m)
         IN IF ~neg \/ k = 0 THEN (IF k <= W - 1 THEN OkBits(Zeros(W - k) \o m) ELSE NoBits)
            ELSE IF k <= W - 1 THEN OkBits(TwoNeg(Zeros(W - k) \o m))
            ELSE IF k = W /\ \A i \in 2..W : m[i] = 0 THEN OkBits(m)      \* exactly -2^(W-1)
            ELSE NoBits

RECURSIVE BitsToL(_, _, _)
BitsToL(b, i, acc) == IF i > Len(b) THEN acc ELSE BitsToL(b, i + 1, DoubleL(acc, b[i]))
MagToDigits(b) == FromLimbs(BitsToL(b, 1, <<0>>))         \* decimal digits of an unsigned pattern
BitsToDec(b) ==
    LET neg == b[1] = 1
        mag == IF neg THEN TwoNeg(b) ELSE b
    IN Dec(neg, MagToDigits(mag))

\* change of width: sign extension, or truncation when no information is lost
Resize(b, W2) ==
    LET W == Len(b) IN
    IF W2 >= W THEN OkBits([i \in 1..(W2 - W) |-> b[1]] \o b)
    ELSE IF \A i \in 1..(W - W2 + 1) : b[i] = b[1] THEN OkBits(SubSeq(b, W - W2 + 1, W))
    ELSE NoBits

(* ---------------------------------------------------------------------- *)
(* digit strings of base 2 / 8 / 16 (code points)                          *)
(* ---------------------------------------------------------------------- *)
DigitVal(c) == IF c >= 48 /\ c <= 57 THEN c - 48
               ELSE IF c >= 65 /\ c <= 70 THEN c - 55
               ELSE IF c >= 97 /\ c <= 102 THEN c - 87
               ELSE 99
DigitCP(v) == IF v < 10 THEN 48 + v ELSE 55 + v           \* upper case

ValidDigits(s, base) == Len(s) <= 10 /\ \A i \in 1..Len(s) : DigitVal(s[i]) < Radix(base)

DigitsToBits(s, base) ==      \* s valid: regroup, then pad on the left (a short string is not negative)
    LET g == Group(base)
        raw == [j \in 1..(Len(s) * g) |->
                  (DigitVal(s[((j - 1) \div g) + 1]) \div Pow2(g - 1 - ((j - 1) % g))) % 2]
    IN Zeros(Width(base) - Len(raw)) \o raw

GroupVal(b, i, g) == CASE g = 1 -> b[i]
                       [] g = 3 -> 4 * b[i] + 2 * b[i + 1] + b[i + 2]
                       [] g = 4 -> 8 * b[i] + 4 * b[i + 1] + 2 * b[i + 2] + b[i + 3]
AllDigitsOf(b, base) == LET g == Group(base) IN Force([i \in 1..(Len(b) \div g) |-> DigitCP(GroupVal(b, (i - 1) * g + 1, g))])

RECURSIVE StripCP0(_)
StripCP0(s) == IF Len(s) > 1 /\ s[1] = CP0 THEN StripCP0(Tail(s)) ELSE s

\* places = 0: not given.  Negative: all ten digits, `places` ignored.
Render(b, base, places) ==
    LET all == AllDigitsOf(b, base) IN
    IF b[1] = 1 THEN Txt(all)
    ELSE LET m == StripCP0(all) IN
         IF places = 0 THEN Txt(m)
         ELSE IF Len(m) > places THEN Err("#NUM!")
         ELSE Txt(Pad0(m, places))

(* ---------------------------------------------------------------------- *)
(* arguments                                                               *)
(*   result: [k |-> "bits", b] | [k |-> "err", v] | [k |-> "open"]         *)
(* ---------------------------------------------------------------------- *)
ABits(b) == [k |-> "bits", b |-> b]
AErr(c)  == [k |-> "err", v |-> c]
AOpen    == [k |-> "open"]

FromDec(neg, dg, W) == LET r == DecToBits(neg, dg, W) IN IF r.ok THEN ABits(r.b) ELSE AErr("#NUM!")

\* the number argument of DEC2x as a pattern of the DESTINATION width W
DecArg(x, W) ==
    CASE x.t = "num"   -> IF x.d = 1 THEN FromDec(x.n < 0, NatDigits(Abs(x.n)), W)
                          ELSE AOpen                              \* fractional part: left open
      [] x.t = "dec"   -> FromDec(x.neg, x.dg, W)
      [] x.t = "bool"  -> AErr("#VALUE!")
      [] x.t = "blank" -> ABits(Zeros(W))                         \* an empty cell counts as 0 (BASES.xlsx)
      [] x.t = "txt"   -> IF TextToNum(x.v).t = "notnum" THEN AErr("#VALUE!")    \* BASES.xlsx
                          ELSE AOpen                              \* numeric text: left open
      [] OTHER         -> AOpen

FromDigits(s, base) == IF ValidDigits(s, base) THEN ABits(DigitsToBits(s, base)) ELSE AErr("#NUM!")

\* the number argument of BIN2x / OCT2x / HEX2x as a pattern of the SOURCE width:
\* a number is read by its decimal spelling, so a sign or a fraction is an invalid digit
DigitArg(x, base) ==
    CASE x.t = "txt"   -> FromDigits(IF Len(x.v) = 0 THEN <<CP0>> ELSE x.v, base)     \* "" counts as 0 (BASES.xlsx)
      [] x.t = "num"   -> IF x.d # 1 \/ x.n < 0 THEN AErr("#NUM!") ELSE FromDigits(NatToCodes(x.n), base)
      [] x.t = "dec"   -> LET n == DecNorm(x) IN
                          IF n.neg THEN AErr("#NUM!") ELSE FromDigits(Force([i \in 1..Len(n.dg) |-> CP0 + n.dg[i]]), base)
      \* a number with a fractional part, given by its digits (however many significant digits it has): the point is no digit
      [] x.t = "decfrac" -> AErr("#NUM!")
      [] x.t = "bool"  -> AErr("#VALUE!")
      [] x.t = "blank" -> ABits(Zeros(Width(base)))
      [] OTHER         -> AOpen

\* "none" | "ok" | "num" (outside 1..10) | "value" (boolean) | "open" (text, fraction, ...)
PlacesClass(a) ==
    IF Len(a) = 1 THEN "none"
    ELSE LET p == a[2] IN
         CASE p.t = "bool" -> "value"
           [] p.t = "num"  -> IF p.d # 1 THEN "open" ELSE IF p.n >= 1 /\ p.n <= 10 THEN "ok" ELSE "num"
           [] OTHER        -> "open"

BitsCall(f, a) ==
    IF f \notin BitsFuncs \/ Len(a) < 1 \/ Len(a) > (IF Dst(f) = "DEC" THEN 1 ELSE 2) THEN Open
    ELSE
    LET src == Src(f)
        dst == Dst(f)
        pc  == PlacesClass(a)
        arg == IF src = "DEC" THEN DecArg(a[1], Width(dst)) ELSE DigitArg(a[1], src)
        \* the value in the destination's width (dst = DEC: the source pattern itself)
        fit == IF arg.k # "bits" THEN NoBits
               ELSE IF src = "DEC" \/ dst = "DEC" THEN OkBits(arg.b)
               ELSE Resize(arg.b, Width(dst))
        errs == (IF arg.k = "err" THEN {arg.v} ELSE {})
                \cup (IF arg.k = "bits" /\ ~fit.ok THEN {"#NUM!"} ELSE {})
                \cup (IF pc = "value" THEN {"#VALUE!"} ELSE {})
                \cup (IF pc = "num" THEN {"#NUM!"} ELSE {})
    IN IF arg.k = "open" \/ pc = "open" THEN Open
       ELSE IF Cardinality(errs) > 1 THEN AnyErr        \* two clauses demand different codes: some error
       ELSE IF errs # {} THEN Err(CHOOSE c \in errs : TRUE)
       ELSE IF dst = "DEC" THEN BitsToDec(fit.b)
       ELSE Render(fit.b, dst, IF pc = "none" THEN 0 ELSE a[2].n)
=============================================================================

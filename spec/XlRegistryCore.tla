--------------------------- MODULE XlRegistryCore ---------------------------
(***************************************************************************)
(* The registry / evaluator-table part of XlRegistry (C08) without the     *)
(* exported history, typed for Apalache.  XlRegistry refines it (TLC,      *)
(* cfg C08_registry: RefinesCore); SnapshotInv - an evaluator's table      *)
(* never runs ahead of the registry, a formula bound per node is bound to  *)
(* a version that was registered - is an INDUCTIVE invariant (Apalache,    *)
(* MC_RegistryApa): it holds after histories of any length with any number *)
(* of re-registrations, where TLC explores histories up to length 6.       *)
(***************************************************************************)
EXTENDS Integers, FiniteSets

CONSTANTS
    \* @type: Set(Str);
    FNames,
    \* @type: Set(Int);
    Evs

VARIABLES
    \* @type: Str -> Int;
    registry,
    \* @type: Int -> (Str -> Int);
    ns,
    \* @type: Set(Int);
    live,
    \* @type: Str -> Int;
    bound,
    \* @type: Bool;
    perNode

Init == /\ registry = [f \in FNames |-> 0]
        /\ ns = [e \in Evs |-> [f \in FNames |-> 0]]
        /\ live = {}
        /\ bound = [f \in FNames |-> 0]
        /\ perNode \in BOOLEAN

Register(f) == /\ registry' = [registry EXCEPT ![f] = registry[f] + 1]
               /\ UNCHANGED <<ns, live, bound, perNode>>
NewEvaluator(e) == /\ e \notin live
                   /\ live' = live \cup {e}
                   /\ ns' = [ns EXCEPT ![e] = registry]
                   /\ UNCHANGED <<registry, bound, perNode>>
CallF(e, f) == /\ e \in live
               /\ bound' = IF perNode /\ bound[f] = 0 /\ ns[e][f] > 0 THEN [bound EXCEPT ![f] = ns[e][f]] ELSE bound
               /\ UNCHANGED <<registry, ns, live, perNode>>
Next == (\E f \in FNames : Register(f)) \/ (\E e \in Evs : NewEvaluator(e)) \/ (\E e \in Evs, f \in FNames : CallF(e, f))
vars == <<registry, ns, live, bound, perNode>>
Spec == Init /\ [][Next]_vars

SnapshotInv == /\ \A f \in FNames : registry[f] >= 0 /\ bound[f] >= 0 /\ bound[f] <= registry[f]
               /\ \A e \in Evs, f \in FNames : ns[e][f] >= 0 /\ ns[e][f] <= registry[f]
               /\ \A e \in Evs : e \notin live => \A f \in FNames : ns[e][f] = 0
               /\ live \subseteq Evs
               /\ DOMAIN registry = FNames /\ DOMAIN bound = FNames /\ DOMAIN ns = Evs
               /\ \A e \in Evs : DOMAIN ns[e] = FNames
=============================================================================

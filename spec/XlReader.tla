------------------------------ MODULE XlReader ------------------------------
(***************************************************************************)
(* C11: what loading an .xlsx workbook must yield.                         *)
(*                                                                         *)
(* Abstract workbook                                                       *)
(*   [sheets |-> <<name, ..>>, cells |-> <<cell, ..>>, names |-> <<nm, ..>>]*)
(*   cell = [sh, col, row, form]; form = the SpreadsheetML STORAGE FORM:    *)
(*     [f |-> "n", v]          <c><v>7</v></c>                  a number    *)
(*     [f |-> "s", v]          <c t="s"><v>idx</v></c>          shared str  *)
(*     [f |-> "str", v]        <c t="str"><v>text</v></c>       plain str   *)
(*     [f |-> "inlineStr", v]  <c t="inlineStr"><is><t>..                   *)
(*     [f |-> "b", v]          <c t="b"><v>1</v></c>                        *)
(*     [f |-> "e", v]          <c t="e"><v>#N/A</v></c>                     *)
(*     [f |-> "d", v]          <c s="date style"><v>serial</v></c>          *)
(*     [f |-> "iso", v]        <c t="d"><v>2020-06-18T00:00:00</v></c>      *)
(*     [f |-> "fc", toks, cached]   <f>..</f> plus cached <v> (Blank: no <v>)*)
(*     [f |-> "sm", si, toks, cached]  <f t="shared" ref=".." si="k">..</f> *)
(*     [f |-> "sx", si, cached]        <f t="shared" si="k"/>               *)
(*     [f |-> "fo", cached]    a formula whose text is left open (array, ..) *)
(*     [f |-> "empty"]         <c s=".."/>   (nothing stored but a style)   *)
(*   v / cached are values of XlValues (num, txt, bool, err, date, blank).  *)
(*   Formulas are token lists: literal text pieces and explicit reference   *)
(*   tokens, so that translating a shared formula is exact.                 *)
(*   nm = [name, sh, c1, r1, c2, r2]  a $-absolute cell (c1=c2, r1=r2) or   *)
(*   range.                                                                 *)
(* Load(wb, ignore) is the expected content of the loaded model.           *)
(***************************************************************************)
EXTENDS XlValues

Letters == <<"A", "B", "C", "D", "E", "F", "G", "H", "I", "J", "K", "L", "M",
             "N", "O", "P", "Q", "R", "S", "T", "U", "V", "W", "X", "Y", "Z">>
RECURSIVE ColName(_)
ColName(c) == IF c <= 26 THEN Letters[c]
              ELSE ColName((c - 1) \div 26) \o Letters[((c - 1) % 26) + 1]
MaxRowIdx == 1048576
MaxColIdx == 16384

Addr(sheet, col, row) == sheet \o "!" \o ColName(col) \o ToString(row)

(* ---------------------------------------------------------------------- *)
(* formula tokens                                                          *)
(*   q: the sheet qualifier exactly as spelt in the text, with its "!"     *)
(*   ("" = none, "'Data 2'!"); sheet: the sheet it denotes ("" = own).     *)
(* ---------------------------------------------------------------------- *)
Ref(q, sheet, col, row, absc, absr) ==
    [k |-> "ref", q |-> q, sheet |-> sheet, col |-> col, row |-> row, absc |-> absc, absr |-> absr]
Rel(col, row) == Ref("", "", col, row, FALSE, FALSE)
Lit(s) == [k |-> "lit", s |-> s]
NumTok(n) == [k |-> "num", n |-> n]          \* a non-negative whole literal

ShiftTok(t, dr, dc) ==
    IF t.k # "ref" THEN t
    ELSE [t EXCEPT !.col = IF t.absc THEN @ ELSE @ + dc,
                   !.row = IF t.absr THEN @ ELSE @ + dr]
Shift(toks, dr, dc) == [i \in 1..Len(toks) |-> ShiftTok(toks[i], dr, dc)]

TokInSheet(t) == t.k # "ref" \/ (t.col >= 1 /\ t.col <= MaxColIdx /\ t.row >= 1 /\ t.row <= MaxRowIdx)
InSheet(toks) == \A i \in 1..Len(toks) : TokInSheet(toks[i])

RenderTok(t) ==
    CASE t.k = "lit" -> t.s
      [] t.k = "num" -> ToString(t.n)
      [] t.k = "ref" -> t.q \o (IF t.absc THEN "$" ELSE "") \o ColName(t.col)
                            \o (IF t.absr THEN "$" ELSE "") \o ToString(t.row)
RECURSIVE RenderFrom(_, _)
RenderFrom(toks, i) == IF i > Len(toks) THEN "" ELSE RenderTok(toks[i]) \o RenderFrom(toks, i + 1)
Render(toks) == "=" \o RenderFrom(toks, 1)

(* ---------------------------------------------------------------------- *)
(* one cell                                                                *)
(* ---------------------------------------------------------------------- *)
None == [t |-> "none"]
FText(s) == [t |-> "ftxt", s |-> s]
Toks(v) == [t |-> "toks", v |-> v]

ConstForms == {"n", "s", "str", "inlineStr", "b", "e", "d", "iso"}
FormulaForms == {"fc", "sm", "sx", "fo"}
IsFormulaForm(fm) == fm.f \in FormulaForms

Before(a, b) == a.row < b.row \/ (a.row = b.row /\ a.col < b.col)     \* document (row-major) order

MasterIdx(cells, c) == {i \in 1..Len(cells) : /\ cells[i].sh = c.sh
                                             /\ cells[i].form.f = "sm"
                                             /\ cells[i].form.si = c.form.si}

\* The token list of the formula the cell would show: Toks(..), None (no
\* formula) or Open.  A member shows its master's formula moved by the
\* distance between the two cells, $-parts fixed.  Open: no / several masters,
\* a master that comes later in document order (Excel always writes the text
\* on the first cell of the group), a reference pushed off the sheet.
ToksOf(cells, c) ==
    CASE c.form.f \in {"fc", "sm"} -> Toks(c.form.toks)
      [] c.form.f = "sx" ->
            LET M == MasterIdx(cells, c) IN
            IF Cardinality(M) # 1 THEN Open
            ELSE LET m == cells[CHOOSE i \in M : TRUE] IN
                 IF ~Before(m, c) THEN Open
                 ELSE LET t == Shift(m.form.toks, c.row - m.row, c.col - m.col)
                      IN IF InSheet(t) THEN Toks(t) ELSE Open
      [] c.form.f = "fo" -> Open          \* a formula whose text the property leaves open (array formula, data table)
      [] OTHER -> None

\* the stored value: the constant, or the cached result of the formula
LoadValue(fm) ==
    CASE fm.f \in ConstForms   -> fm.v
      [] fm.f \in FormulaForms -> fm.cached
      [] OTHER                 -> Open

LoadCell(cells, c) ==
    [sh      |-> c.sh,
     addr    |-> Addr(c.sh, c.col, c.row),
     value   |-> LoadValue(c.form),
     formula |-> LET t == ToksOf(cells, c) IN
                 IF t.t = "toks" THEN FText(Render(t.v)) ELSE t]

(* ---------------------------------------------------------------------- *)
(* defined names: bound to their cell (when that cell is stored) or to the *)
(* matrix of addresses of their range.  A name whose sheet is ignored, and *)
(* a name of a cell in which nothing is stored, are left open.             *)
(* ---------------------------------------------------------------------- *)
LoadName(nm, ignored, stored) ==
    IF ignored THEN [name |-> nm.name, kind |-> "open"]
    ELSE IF nm.c1 = nm.c2 /\ nm.r1 = nm.r2
         THEN IF stored THEN [name |-> nm.name, kind |-> "cell", addr |-> Addr(nm.sh, nm.c1, nm.r1)]
              ELSE [name |-> nm.name, kind |-> "open"]
    ELSE [name |-> nm.name, kind |-> "range",
          cells |-> [r \in 1..(nm.r2 - nm.r1 + 1) |->
                        [c \in 1..(nm.c2 - nm.c1 + 1) |-> Addr(nm.sh, nm.c1 + c - 1, nm.r1 + r - 1)]]]

CellIdx(cells, sh, col, row) == {i \in 1..Len(cells) : cells[i].sh = sh /\ cells[i].col = col /\ cells[i].row = row}
Stored(cells, sh, col, row) == CellIdx(cells, sh, col, row) # {}

(* ---------------------------------------------------------------------- *)
(* evaluation of the loaded model, for a deliberately tiny formula         *)
(* language: a reference; operands joined by +; SUM of one range.  Only    *)
(* numbers are added; everything else is Open (it belongs to C03/C07/C08). *)
(* EvalAbs = FALSE leaves formulas with $-references open as well.         *)
(* ---------------------------------------------------------------------- *)
RECURSIVE EvalCell(_, _, _, _, _, _, _)
RECURSIVE EvalToks(_, _, _, _, _, _)
RECURSIVE SumVals(_, _)

SumVals(vs, i) == \* vs: sequence of values; Open unless all numbers
    IF i > Len(vs) THEN Whole(0)
    ELSE IF vs[i].t # "num" THEN Open
    ELSE LET r == SumVals(vs, i + 1) IN IF r.t # "num" THEN Open ELSE RAdd(vs[i], r)

TSheet(t, own) == IF t.sheet = "" THEN own ELSE t.sheet

EvalCell(cells, ign, sh, col, row, fuel, evalAbs) ==
    IF sh \in ign THEN Open
    ELSE LET I == CellIdx(cells, sh, col, row) IN
         IF I = {} THEN Open
         ELSE LET c == cells[CHOOSE i \in I : TRUE] IN
              IF IsFormulaForm(c.form)
              THEN LET t == ToksOf(cells, c) IN
                   IF t.t # "toks" \/ fuel = 0 THEN Open
                   ELSE EvalToks(cells, ign, sh, t.v, fuel - 1, evalAbs)
              ELSE IF c.form.f \in {"n", "s", "str", "inlineStr", "b", "d", "iso"} THEN c.form.v
              ELSE Open

IsOperand(t) == t.k \in {"ref", "num"}
HasAbs(toks) == \E i \in 1..Len(toks) : toks[i].k = "ref" /\ (toks[i].absc \/ toks[i].absr)

EvalToks(cells, ign, own, toks, fuel, evalAbs) ==
    LET n == Len(toks)
        Val(t) == IF t.k = "num" THEN Whole(t.n)
                  ELSE EvalCell(cells, ign, TSheet(t, own), t.col, t.row, fuel, evalAbs)
    IN
    IF HasAbs(toks) /\ ~evalAbs THEN Open
    ELSE IF n = 1 /\ toks[1].k = "ref" THEN Val(toks[1])
    ELSE IF /\ n = 5 /\ toks[1] = Lit("SUM(") /\ toks[2].k = "ref" /\ toks[3] = Lit(":")
            /\ toks[4].k = "ref" /\ toks[5] = Lit(")") /\ toks[4].q = ""
            /\ toks[2].col <= toks[4].col /\ toks[2].row <= toks[4].row
         THEN LET a == toks[2]  b == toks[4]
                  w == b.col - a.col + 1
                  h == b.row - a.row + 1
                  vs == [k \in 1..(w * h) |->
                           EvalCell(cells, ign, TSheet(a, own), a.col + ((k - 1) % w), a.row + ((k - 1) \div w), fuel, evalAbs)]
              IN SumVals(vs, 1)
    ELSE IF /\ n >= 3 /\ n % 2 = 1
            /\ \A i \in 1..n : IF i % 2 = 1 THEN IsOperand(toks[i]) ELSE toks[i] = Lit("+")
         THEN SumVals([k \in 1..((n + 1) \div 2) |-> Val(toks[2 * k - 1])], 1)
    ELSE Open

\* evaluating a cell of the loaded model
EvalOf(cells, ign, c, fuel, evalAbs) ==
    IF c.form.f = "e" THEN Open      \* an error constant: how it is represented is left open
    ELSE EvalCell(cells, ign, c.sh, c.col, c.row, fuel, evalAbs)

(* ---------------------------------------------------------------------- *)
(* the whole workbook                                                      *)
(* ---------------------------------------------------------------------- *)
Kept(wb, ignore) == SelectSeq(wb.cells, LAMBDA c : c.sh \notin ignore)

\* =SUM(name): the sum over the cells a defined name of the workbook stands for (numbers only, like SUM of a range)
IsNameSum(wb, c) ==
    /\ c.form.f = "fc" /\ Len(c.form.toks) = 3
    /\ c.form.toks[1] = Lit("SUM(") /\ c.form.toks[3] = Lit(")") /\ c.form.toks[2].k = "lit"
    /\ \E i \in 1..Len(wb.names) : wb.names[i].name = c.form.toks[2].s
NameSum(wb, ign, c, evalAbs) ==
    LET nm == wb.names[CHOOSE i \in 1..Len(wb.names) : wb.names[i].name = c.form.toks[2].s]
        w == nm.c2 - nm.c1 + 1
        h == nm.r2 - nm.r1 + 1
    IN IF nm.sh \in ign \/ c.sh \in ign THEN Open
       ELSE SumVals([k \in 1..(w * h) |->
                       EvalCell(wb.cells, ign, nm.sh, nm.c1 + ((k - 1) % w), nm.r1 + ((k - 1) \div w), 3, evalAbs)], 1)

Load(wb, ignore, evalAbs) ==
    LET kept == Kept(wb, ignore) IN
    [cells |-> [i \in 1..Len(kept) |->
                   LET lc == LoadCell(wb.cells, kept[i]) IN
                   [sh |-> lc.sh, addr |-> lc.addr, value |-> lc.value, formula |-> lc.formula,
                    eval |-> IF IsNameSum(wb, kept[i]) THEN NameSum(wb, ignore, kept[i], evalAbs)
                             ELSE EvalOf(wb.cells, ignore, kept[i], 4, evalAbs)]],
     names |-> [i \in 1..Len(wb.names) |->
                   LET nm == wb.names[i] IN
                   LoadName(nm, nm.sh \in ignore, Stored(wb.cells, nm.sh, nm.c1, nm.r1))]]

(* ---------------------------------------------------------------------- *)
(* agreement of an observed loaded value with the expected one: an error   *)
(* (constant or cached) must carry its code - whether as an error value or *)
(* as the text of the code is left open; a blank may be an empty text.     *)
(* ---------------------------------------------------------------------- *)
ErrText(code) ==
    CASE code = "#NULL!"  -> <<35, 78, 85, 76, 76, 33>>
      [] code = "#DIV/0!" -> <<35, 68, 73, 86, 47, 48, 33>>
      [] code = "#VALUE!" -> <<35, 86, 65, 76, 85, 69, 33>>
      [] code = "#REF!"   -> <<35, 82, 69, 70, 33>>
      [] code = "#NAME?"  -> <<35, 78, 65, 77, 69, 63>>
      [] code = "#NUM!"   -> <<35, 78, 85, 77, 33>>
      [] code = "#N/A"    -> <<35, 78, 47, 65>>
      [] OTHER            -> <<>>

LoadAgrees(obs, exp) ==
    CASE exp.t = "open"  -> TRUE
      [] exp.t = "err"   -> (obs.t = "err" /\ obs.v = exp.v) \/ (obs.t = "txt" /\ obs.v = ErrText(exp.v))
      [] exp.t = "blank" -> obs.t = "blank" \/ (obs.t = "txt" /\ obs.v = <<>>)
      [] OTHER           -> SameVal(obs, exp)
=============================================================================

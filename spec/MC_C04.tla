------------------------------ MODULE MC_C04 ------------------------------
EXTENDS XlWorkbook
\* VIEW for the exhaustive check: histories do not distinguish states
ViewNoHist == <<shape, inp, stored, evald, gmemo, obs, Len(hist), leak>>
=============================================================================

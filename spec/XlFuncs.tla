------------------------------ MODULE XlFuncs ------------------------------
(***************************************************************************)
(* Dispatcher: the expected abstract result of a call of the registered function f for  *)
(* every function family the specification models.  Operators are exposed  *)
(* under the names the library registers them with (OP_ADD ...).           *)
(***************************************************************************)
EXTENDS XlText

OpFuncs == {"OP_ADD", "OP_SUB", "OP_MUL", "OP_DIV", "OP_POW", "OP_CONCAT", "OP_EQ", "OP_NE",
            "OP_LT", "OP_GT", "OP_LE", "OP_GE", "OP_NEG", "OP_PERCENT"}

OpSym(f) == CASE f = "OP_ADD" -> "+" [] f = "OP_SUB" -> "-" [] f = "OP_MUL" -> "*" [] f = "OP_DIV" -> "/"
              [] f = "OP_POW" -> "^" [] f = "OP_CONCAT" -> "&" [] f = "OP_EQ" -> "=" [] f = "OP_NE" -> "<>"
              [] f = "OP_LT" -> "<" [] f = "OP_GT" -> ">" [] f = "OP_LE" -> "<=" [] f = "OP_GE" -> ">="

OpCall(f, a) ==
    CASE f = "OP_NEG"     -> OpNeg(a[1])
      [] f = "OP_PERCENT" -> OpPct(a[1])
      [] OTHER            -> ApplyBin(OpSym(f), a[1], a[2])

\* information functions (C07): the error inspectors and the type reporters
InfoFuncs == {"ISERROR", "ISERR", "ISNA", "NA", "ISNUMBER", "ISTEXT", "ISBLANK"}
InfoCall(f, a) ==
    CASE f = "NA" -> Err("#N/A")
      [] Len(a) >= 1 /\ a[1].t = "open" -> Open        \* an undetermined argument: nothing is known about its type
      \* "some error, which one is left open": an error all the same
      [] Len(a) >= 1 /\ a[1].t = "anyerr" -> IF f = "ISERROR" THEN Bool(TRUE) ELSE Open
      [] f = "ISERROR" -> Bool(a[1].t = "err")
      [] f = "ISERR"   -> Bool(a[1].t = "err" /\ a[1].v # "#N/A")
      [] f = "ISNA"    -> Bool(a[1].t = "err" /\ a[1].v = "#N/A")
      \* the type of a non-error value, reported without altering it (error arguments: left open)
      \* (a date is a number to Excel but a type of its own in the property's list: left open;
      \*  an empty text is how the library spells an empty cell: ISBLANK of it is left open)
      [] f = "ISNUMBER" -> IF a[1].t \in {"err", "date"} THEN Open ELSE Bool(a[1].t = "num")
      [] f = "ISTEXT"   -> IF a[1].t = "err" THEN Open ELSE Bool(a[1].t = "txt")
      [] f = "ISBLANK"  -> IF a[1].t = "err" \/ (a[1].t = "txt" /\ a[1].v = <<>>) THEN Open ELSE Bool(a[1].t = "blank")

Call(f, a) ==
    CASE f \in TextFuncs -> TextCall(f, a)
      [] f \in OpFuncs   -> OpCall(f, a)
      [] f \in InfoFuncs -> InfoCall(f, a)
      [] OTHER           -> Open
=============================================================================

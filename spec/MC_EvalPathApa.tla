--------------------------- MODULE MC_EvalPathApa ---------------------------
(* Apalache instance of XlEvalPath: IndInv is inductive for every reference graph on 8 cells.   *)
(*   apalache-mc check --cinit=ConstInit8 --init=Init    --inv=IndInv --length=0                 *)
(*   apalache-mc check --cinit=ConstInit8 --init=IndInit --inv=IndInv --length=1                 *)
(* and with ConstInit8Bad (no path check) the second call must produce a counterexample.         *)
EXTENDS XlEvalPath, Apalache

IndInit == /\ edges = Gen(64)
           /\ stack = Gen(8)
           /\ outcome \in {"running", "value", "cycle", "error"}
           /\ IndInv
ConstInit8 == N = 8 /\ PathCheck = TRUE
ConstInit8Bad == N = 8 /\ PathCheck = FALSE
=============================================================================

----------------------------- MODULE Trace_C06 -----------------------------
(***************************************************************************)
(* Trace specification for C06 (code -> spec).  Events recorded from the   *)
(* real evaluator running in a resource-limited subprocess:                *)
(*  graph  a dependency graph (refs, fail, entry) with the observed        *)
(*         outcome class and value; expected by the graph-theoretic        *)
(*         statement of the property (not by the machine):                 *)
(*         acyclic & no failing cell  -> the value                         *)
(*         a reachable cycle, no failing cell -> a cycle report            *)
(*         a reachable failing cell, no cycle -> another exception         *)
(*         both -> either report                                           *)
(*         never: timeout, memory limit, a cycle report on acyclic graphs  *)
(*  chain  a chain of depth k ending in a valid / failing leaf: the time   *)
(*         and message size of a failure are bounded polynomially in k     *)
(***************************************************************************)
EXTENDS Integers, Sequences, FiniteSets, TLC, Json, IOUtils

Trace == ndJsonDeserialize(IOEnv.TRACE_FILE)
VARIABLES l, verdict
vars == <<l, verdict>>

RECURSIVE Pow2(_)
Pow2(k) == IF k = 0 THEN 1 ELSE 2 * Pow2(k - 1)

GraphVerdict(e) ==
    LET n == Len(e.refs)
        Cells == 1..n
        Edge(a, b) == \E i \in 1..Len(e.refs[a]) : e.refs[a][i] = b
        RECURSIVE LiveN(_, _)
        LiveN(S, k) == IF k = 0 THEN S ELSE LiveN(S \cup {b \in Cells : \E a \in S : ~e.fail[a] /\ Edge(a, b)}, k - 1)
        Live == LiveN({e.entry}, n)
        Cyclic == \E c \in Live : ~e.fail[c] /\ \E b \in Cells : Edge(c, b) /\ b \in Live /\ c \in LiveN({b}, n)
        Failing == \E c \in Live : e.fail[c]
        RECURSIVE Big(_)
        Big(c) == LET RECURSIVE Sum(_, _)
                      Sum(s, i) == IF i > Len(s) THEN 0 ELSE Big(s[i]) + Sum(s, i + 1)
                  IN Pow2(c - 1) + Sum(e.refs[c], 1)
    IN IF e.outcome \in {"timeout", "memlimit"} THEN "did-not-terminate-promptly"
       ELSE IF ~Cyclic /\ ~Failing THEN
              (IF e.outcome = "cycle" THEN "false-cycle-report"
               ELSE IF e.outcome # "value" THEN "failure-on-valid-acyclic-model"
               ELSE IF e.val # Big(e.entry) THEN "wrong-value" ELSE "ok")
       ELSE IF Cyclic /\ ~Failing THEN (IF e.outcome = "cycle" THEN "ok" ELSE "cycle-not-reported")
       ELSE IF ~Cyclic /\ Failing THEN (IF e.outcome = "error" THEN "ok"
                                        ELSE IF e.outcome = "cycle" THEN "false-cycle-report" ELSE "failure-not-reported")
       ELSE (IF e.outcome \in {"cycle", "error"} THEN "ok" ELSE "failure-not-reported")

ChainVerdict(e) ==
    IF e.outcome \in {"timeout", "memlimit"} THEN "did-not-terminate-promptly"
    ELSE IF e.outcome = "cycle" THEN "false-cycle-report"
    ELSE IF e.leaf # "valid" /\ e.outcome # "error" THEN "failure-not-reported"
    ELSE IF e.leaf = "valid" /\ e.depth <= 64 /\ e.outcome # "value" THEN "failure-on-valid-acyclic-model"
    \* the message may quote the formula of the failing cell (flen = the longest formula of the chain)
    ELSE IF e.outcome = "error" /\ e.msglen > 400 * e.depth + 400 + 2 * e.flen THEN "message-size-superpolynomial"
    ELSE IF e.cpu_ms > 5 * e.depth * e.depth + 2000 THEN "time-superpolynomial"
    ELSE "ok"

Init == l = 0 /\ verdict = "start"
Step == /\ l < Len(Trace) /\ l' = l + 1
        /\ LET e == Trace[l + 1] IN
           verdict' = IF e.kind = "graph" THEN GraphVerdict(e) ELSE IF e.kind = "chain" THEN ChainVerdict(e) ELSE "unknown-event"
Spec == Init /\ [][Step]_vars
AllConsumed == TLCGet("stats").diameter - 1 = Len(Trace)
=============================================================================

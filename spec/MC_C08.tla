------------------------------ MODULE MC_C08 ------------------------------
(***************************************************************************)
(* Bounded instance for C08: arguments are coerced the Excel way, however  *)
(* the value is spelt.                                                     *)
(*   spell   every witness of XlSig x every numeric parameter position x   *)
(*           every spelling of the witness value; expected: the SAME       *)
(*           result as the base spelling ("same"); the spec shows every    *)
(*           spelling denotes the same number (LawSpellingDenotes)         *)
(*   bad     non-numeric text in a numeric position => #VALUE!             *)
(*   arith   5 arithmetic operators and & over the 7x7 scalar type matrix  *)
(*           with determined values ("3"+1=4, TRUE+1=2, blank+1=1)         *)
(*   text    text parameters accept numbers and booleans by their text form*)
(*   reg     histories of Register / NewEvaluator / Evaluate: a function   *)
(*           registered before an evaluator is created is callable through *)
(*           it, case-insensitively and with an _xlfn. prefix              *)
(***************************************************************************)
EXTENDS XlErr

VARIABLES case, res
vars == <<case, res>>

Tags == {"int", "float", "numpy", "wrapped", "wfloat", "text", "wtext", "scitext", "bool", "wbool", "blank", "wblank",
         "ltext", "ptext", "plustext"}

\* scientific text "nE-k" for v = n / 10^k
SciText(v) == LET k == DecPlaces(v.d) IN
              IF k < 0 THEN Open
              ELSE Txt(IntToCodes(v.n * (Pow10(k) \div v.d)) \o <<CPE>> \o (IF k = 0 THEN <<CPPlus, CP0>> ELSE <<CPMinus>> \o NatToCodes(k)))

\* the abstract value a spelling tag stands for (Open: the tag does not apply to this number)
Spell(tag, v) ==
    CASE tag \in {"float", "numpy", "wrapped", "wfloat"} -> v
      [] tag = "int" -> IF IsWhole(v) THEN v ELSE Open
      [] tag \in {"text", "wtext"} -> NumToText(v)
      [] tag = "scitext" -> IF Abs(v.n) <= 20000 THEN SciText(v) ELSE Open
      \* decimal text without a digit before the point (.5  -.25), a whole number with a trailing point (5.), an explicit plus sign
      [] tag = "ltext" -> LET x == NumToText(v) IN
                          IF x.t = "open" THEN Open
                          ELSE IF Len(x.v) > 2 /\ x.v[1] = CP0 /\ x.v[2] = CPDot THEN Txt(Tail(x.v))
                          ELSE IF Len(x.v) > 3 /\ x.v[1] = CPMinus /\ x.v[2] = CP0 /\ x.v[3] = CPDot THEN Txt(<<CPMinus>> \o SubSeq(x.v, 3, Len(x.v)))
                          ELSE Open
      [] tag = "ptext" -> IF IsWhole(v) /\ Abs(v.n) < 10000 THEN Txt(IntToCodes(v.n) \o <<CPDot>>) ELSE Open
      [] tag = "plustext" -> LET x == NumToText(v) IN IF x.t = "open" \/ v.n < 0 THEN Open ELSE Txt(<<CPPlus>> \o x.v)
      [] tag \in {"bool", "wbool"} -> IF v = Whole(1) THEN Bool(TRUE) ELSE IF v = Whole(0) THEN Bool(FALSE) ELSE Open
      [] tag \in {"blank", "wblank"} -> IF v = Whole(0) THEN Blank ELSE Open

Same == [t |-> "same"]
C(kind, f, a, pos, tag) == [kind |-> kind, f |-> f, args |-> a, pos |-> pos, tag |-> tag, base |-> <<>>]

BadTexts == << Txt(<<97, 98, 99>>), Txt(<<120>>), Txt(<<35>>),                  \* abc  x  #
               Txt(<<110, 97, 110>>), Txt(<<105, 110, 102>>), Txt(<<45, 73, 110, 102, 105, 110, 105, 116, 121>>) >>   \* nan  inf  -Infinity: words, not numbers
OddTexts == << Txt(<<51, 32, 97, 112, 112, 108, 101, 115>>), Txt(<<120, 51>>),     \* "3 apples" "x3": an error value or a value, never an exception
               Txt(<<49, 101, 57, 57, 57>>),                                          \* 1e999: never an infinity
               Txt(<<49, 47, 49, 47>> \o [i \in 1..20 |-> 57]),                        \* 1/1/99999999999999999999
               Txt(<<49, 50, 58>> \o [i \in 1..20 |-> 57]) >>                          \* 12:99999999999999999999
Scalars == << Whole(3), Rat(1, 2), Txt(<<51>>), Txt(<<49, 46, 53>>), Txt(<<50, 69, 43, 48>>), Bool(TRUE), Bool(FALSE), Blank,
              Txt(<<97>>), Whole(0), Txt(<<>>) >>
NS == Len(Scalars)
ArithF == {"OP_ADD", "OP_SUB", "OP_MUL", "OP_DIV", "OP_POW", "OP_CONCAT", "OP_NEG", "OP_PERCENT"}

\* witnesses with a value 0 and 1 in numeric positions, so that the boolean and blank spellings apply somewhere
ExtraW == << [f |-> "OP_ADD", kinds |-> <<"n", "n">>, args |-> <<Whole(1), Whole(0)>>],
             [f |-> "POWER", kinds |-> <<"n", "n">>, args |-> <<Whole(1), Whole(0)>>],
             [f |-> "ROUND", kinds |-> <<"n", "n">>, args |-> <<Whole(1), Whole(0)>>],
             [f |-> "ABS", kinds |-> <<"n">>, args |-> <<Whole(1)>>], [f |-> "ABS", kinds |-> <<"n">>, args |-> <<Whole(0)>>],
             \* numbers that are no date serials (beyond 9999-12-31): as text they are numbers all the same
             [f |-> "ABS", kinds |-> <<"n">>, args |-> <<Whole(3000000)>>], [f |-> "OP_SUB", kinds |-> <<"n", "n">>, args |-> <<Whole(2958466), Whole(1)>>],
             [f |-> "MOD", kinds |-> <<"n", "n">>, args |-> <<Whole(3000000), Whole(7)>>],
             [f |-> "SUM", kinds |-> <<"v", "v">>, args |-> <<Whole(1), Whole(0)>>],
             [f |-> "MOD", kinds |-> <<"n", "n">>, args |-> <<Whole(0), Whole(1)>>],
             [f |-> "LEFT", kinds |-> <<"t", "n">>, args |-> <<Txt(<<97, 98>>), Whole(1)>>],
             \* 0 at an OPTIONAL position whose default is not 0: a blank there is 0, not "argument omitted"
             [f |-> "LEFT", kinds |-> <<"t", "n">>, args |-> <<Txt(<<97, 98>>), Whole(0)>>],
             [f |-> "RIGHT", kinds |-> <<"t", "n">>, args |-> <<Txt(<<97, 98>>), Whole(0)>>],
             [f |-> "MID", kinds |-> <<"t", "n", "n">>, args |-> <<Txt(<<97, 98>>), Whole(1), Whole(0)>>],
             [f |-> "DATE", kinds |-> <<"n", "n", "n">>, args |-> <<Whole(2000), Whole(1), Whole(1)>>],
             [f |-> "PV", kinds |-> <<"n", "n", "n", "n", "n">>, args |-> <<Rat(1, 10), Whole(5), Whole(-100), Whole(0), Whole(1)>>],
             [f |-> "AVERAGE", kinds |-> <<"v", "v">>, args |-> <<Whole(1), Whole(3)>>],
             [f |-> "MAX", kinds |-> <<"v", "v">>, args |-> <<Whole(1), Whole(3)>>],
             [f |-> "MIN", kinds |-> <<"v", "v">>, args |-> <<Whole(1), Whole(3)>>],
             \* a 0 in a variadic list whose result changes when the 0 is dropped (a blank written there is 0, not nothing)
             [f |-> "AVERAGE", kinds |-> <<"v", "v">>, args |-> <<Whole(0), Whole(4)>>],
             [f |-> "MIN", kinds |-> <<"v", "v">>, args |-> <<Whole(0), Whole(5)>>],
             [f |-> "MAX", kinds |-> <<"v", "v">>, args |-> <<Whole(0), Whole(-5)>>],
             [f |-> "NPV", kinds |-> <<"n", "v", "v">>, args |-> <<Rat(1, 10), Whole(0), Whole(110)>>] >>
AllW == Witness \o ExtraW
NumKinds == {"n", "v"}
\* (sequences, not sets: TLC cannot compare records of different value kinds)
TX == << Whole(123), Rat(5, 2), Whole(-7), Bool(TRUE), Bool(FALSE), Whole(1), Whole(0) >>     \* 1 / TRUE and 0 / FALSE: equal as Python values, different as text
TY == << Whole(45), Bool(FALSE), Txt(<<97>>) >>
TZ == << Txt(<<49, 50, 51>>), Txt(TRUEcodes), Whole(123) >>

InitCase ==
  \/ \E w \in 1..Len(AllW), tag \in Tags : \E i \in 1..Len(AllW[w].args) :
        /\ AllW[w].kinds[i] \in NumKinds /\ AllW[w].args[i].t = "num"
        /\ Spell(tag, AllW[w].args[i]).t # "open"
        /\ case = [C("spell", AllW[w].f, [AllW[w].args EXCEPT ![i] = Spell(tag, AllW[w].args[i])], i, tag) EXCEPT !.base = AllW[w].args]
  \/ \E w \in 1..Len(AllW), b \in 1..Len(BadTexts) : \E i \in 1..Len(AllW[w].args) :
        /\ AllW[w].kinds[i] = "n" /\ AllW[w].args[i].t = "num"
        /\ case = C("bad", AllW[w].f, [AllW[w].args EXCEPT ![i] = BadTexts[b]], i, "badtext")
  \/ \E w \in 1..Len(AllW), b \in 1..Len(OddTexts) : \E i \in 1..Len(AllW[w].args) :
        /\ AllW[w].kinds[i] = "n" /\ AllW[w].args[i].t = "num"
        /\ case = C("odd", AllW[w].f, [AllW[w].args EXCEPT ![i] = OddTexts[b]], i, "oddtext")
  \/ \E f \in ArithF \ {"OP_NEG", "OP_PERCENT"}, i \in 1..NS, j \in 1..NS : case = C("arith", f, <<Scalars[i], Scalars[j]>>, 0, "native")
  \/ \E f \in {"OP_NEG", "OP_PERCENT"}, i \in 1..NS : case = C("arith", f, <<Scalars[i]>>, 0, "native")
  \/ \E f \in {"LEN", "UPPER", "TRIM"}, i \in 1..Len(TX) : case = C("text", f, <<TX[i]>>, 1, "native")
  \/ \E i \in 1..Len(TX), j \in 1..Len(TY) : case = C("text", "CONCAT", <<TX[i], TY[j]>>, 1, "native")
  \/ \E i \in 1..Len(TX), n \in 1..2 : case = C("text", "LEFT", <<TX[i], Whole(n)>>, 1, "native")
  \/ \E x \in {Whole(2), Whole(23)}, y \in {Whole(123), Whole(3210)} : case = C("text", "FIND", <<x, y>>, 1, "native")
  \/ \E i \in {1, 4, 6}, j \in 1..Len(TZ) : case = C("text", "EXACT", <<TX[i], TZ[j]>>, 1, "native")

Pending == [t |-> "pending"]
Init == InitCase /\ res = Pending
Expected(c) ==
    CASE c.kind = "spell" -> Same
      [] c.kind = "bad"   -> Err("#VALUE!")
      [] c.kind = "odd"   -> NoExc
      [] c.kind = "arith" -> (LET r == OpCall(c.f, c.args) IN IF r.t = "open" THEN NoExc ELSE r)
      [] c.kind = "text"  -> Call(c.f, c.args)
CallStep == res = Pending /\ res' = Expected(case) /\ UNCHANGED case
Next == CallStep
Spec == Init /\ [][Next]_vars

\* every spelling the instance uses denotes the same number as the base value
LawSpellingDenotes == \A w \in 1..Len(AllW), tag \in Tags : \A i \in 1..Len(AllW[w].args) :
    (AllW[w].kinds[i] \in NumKinds /\ AllW[w].args[i].t = "num" /\ Spell(tag, AllW[w].args[i]).t # "open")
        => SameVal(ToNum(Spell(tag, AllW[w].args[i])), AllW[w].args[i])
ASSUME LawSpellingDenotes
LawBadIsValue == \A b \in 1..Len(BadTexts) : ToNum(BadTexts[b]) = Err("#VALUE!")
ASSUME LawBadIsValue
\* the README's examples
ASSUME OpAdd(Txt(<<51>>), Whole(1)) = Whole(4) /\ OpAdd(Bool(TRUE), Whole(1)) = Whole(2) /\ OpAdd(Blank, Whole(1)) = Whole(1)
ASSUME OpConcat(Whole(1), Bool(TRUE)) = Txt(<<49>> \o TRUEcodes)
LawArithNeverOpenOnNumbers == (res # Pending /\ case.kind = "arith" /\ \A i \in 1..Len(case.args) : case.args[i].t \in {"num", "bool", "blank"}
                               /\ case.f \notin {"OP_POW", "OP_DIV"}) => res.t \in {"num", "txt"}
=============================================================================

"""C03 - references denote exactly the addressed cells on the right sheet."""
import os
import random

from harness import pool, syntax as S, xl, xlsxwriter_min
from harness.agree import agrees, klass


def addr(sheet, col, row):
    return f'{sheet}!{S.col_letters(col)}{row}'


def case_cells(case):
    """-> list of (sheet, col, row, 'const'|'formula', python value | formula text)"""
    out = []
    for key, content in case['cells']:
        sh, c, r = key
        if content['c'] == 'const':
            out.append((sh, c, r, 'const', xl.from_abs(content['v'], 'native')))
        else:
            out.append((sh, c, r, 'formula', S.formula(S.min_paren(content['ast']))))
    return out


def names_of(case):
    n = case['names']
    items = n.items() if isinstance(n, dict) else n
    return [(k, S.render(v)) for k, v in items]


def build_dict(cells):
    L = xl.lib()
    return L.ModelCompiler().read_and_parse_dict({addr(sh, c, r): v for sh, c, r, k, v in cells})


def build_xlsx(cells, names, path, scoped=None):
    L = xl.lib()
    sheets = {}
    for sh, c, r, k, v in cells:
        ref = f'{S.col_letters(c)}{r}'
        if k == 'formula':
            cell = {'ref': ref, 't': None, 'v': None, 'f': v[1:]}
        elif isinstance(v, bool):
            cell = {'ref': ref, 't': 'b', 'v': '1' if v else '0'}
        elif isinstance(v, (int, float)):
            cell = {'ref': ref, 't': 'n', 'v': repr(v)}
        else:
            cell = {'ref': ref, 't': 'inlineStr', 'v': str(v)}
        sheets.setdefault(sh, []).append(cell)
    for sh in ('S1', 'S 2', "O'x"):      # the workbook has its three sheets whether or not anything is stored on them
        sheets.setdefault(sh, [])
    order = [s for s in ('S1', 'S 2', "O'x") if s in sheets] + [s for s in sheets if s not in ('S1', 'S 2', "O'x")]
    wb = {'sheets': [{'name': s, 'cells': sheets[s]} for s in order],
          'names': [{'name': n, 'ref': ref} for n, ref in names]}
    if scoped:       # a defined name scoped to one worksheet (localSheetId)
        wb['names'].append({'name': scoped['name'], 'ref': S.render(scoped['ref']), 'local': order.index(('S1', 'S 2', "O'x")[scoped['owner'] - 1])})
    xlsxwriter_min.write_xlsx(path, wb)
    try:
        return L.ModelCompiler().read_and_parse_archive(path)
    finally:
        os.remove(path)


def evaluate(model, target, pre=(), late=None):
    L = xl.lib()
    try:
        ev = L.Evaluator(model)
        for p in pre:          # other cells evaluated first by the same evaluator
            ev.evaluate(p)
        if late is not None:   # the probe is evaluated, a cell the workbook did not hold is set, the probe is evaluated again
            ev.evaluate(target)
            ev.set_cell_value(late[0], late[1])
        return xl.to_abs(ev.evaluate(target))
    except BaseException as e:      # noqa
        if isinstance(e, (KeyboardInterrupt, SystemExit)):
            raise
        return xl.to_abs(e)


def probe_features(case, path, exp, obs):
    f = {'kind': case['kind'], 'path': path, 'exp': klass(exp), 'obs': klass(obs)}
    if case['kind'] not in ('resolve',):
        pk = tuple(case['probe'])
        for key, content in case['cells']:
            if tuple(key) == pk and content['c'] == 'formula':
                a = content['ast']
                f['probe_formula'] = S.formula(S.min_paren(a))[:40]
    return f


class Worker:
    def __init__(self, work):
        self.work = work

    def __call__(self, blocks):
        out = {'n': 0, 'open': 0, 'evals': 0, 'dis': [], 'samples': [], 'kinds': {}}
        L = xl.lib()
        for bi, b in enumerate(blocks):
            st = pool.parse_block(b)
            case, exp = st['case'], st['res']
            out['n'] += 1
            out['kinds'][case['kind']] = out['kinds'].get(case['kind'], 0) + 1
            if exp['t'] == 'open':
                out['open'] += 1
                continue
            if case['kind'] == 'resolve':
                text = S.render(case['rng'])
                want_sheet = case['rng']['sheet'] or 'Sheet1'
                want = [[addr(want_sheet, c, r) for c, r in row] for row in exp['v']]
                try:
                    got = L.utils.resolve_ranges(text)
                    got = [got[0], [list(r) for r in got[1]]]
                except BaseException as e:      # noqa
                    got = ['exc', repr(e)[:100]]
                out['evals'] += 1
                if got != [want_sheet, want]:
                    out['dis'].append({'case': {'kind': 'resolve', 'text': text}, 'exp': [want_sheet, want[:2]], 'obs': [got[0], got[1][:2] if isinstance(got[1], list) else got[1]],
                                       'features': {'kind': 'resolve', 'rows': len(want), 'cols': len(want[0])}, 'clause': 'resolve_ranges'})
                continue
            cells = case_cells(case)
            late = None
            if case.get('late'):
                lk = tuple(case['late'])
                late = [(addr(sh, c, r), v) for sh, c, r, k, v in cells if (sh, c, r) == lk][0]
                if case.get('was'):      # the cell exists from the start, holding another value
                    cells = [x if (x[0], x[1], x[2]) != lk else (x[0], x[1], x[2], 'const', xl.from_abs(case['was'], 'native')) for x in cells]
                else:
                    cells = [x for x in cells if (x[0], x[1], x[2]) != lk]
            names = names_of(case)
            target = case['pname'] or addr(*case['probe'])
            paths = []
            if not names and case['kind'] != 'empty-sheet':      # (a dict has no way to say that a sheet without cells exists)
                paths.append(('dict', lambda: build_dict(cells)))
            paths.append(('xlsx', lambda: build_xlsx(cells, names, os.path.join(self.work, f'c03-{os.getpid()}-{bi}.xlsx'), case.get('scoped'))))
            for pname, build in paths:
                try:
                    model = build()
                    obs = evaluate(model, target, [addr(*p) for p in case.get('pre', [])], late)
                except BaseException as e:      # noqa
                    if isinstance(e, (KeyboardInterrupt, SystemExit)):
                        raise
                    obs = xl.to_abs(e)
                out['evals'] += 1
                ok = agrees(obs, exp)
                if len(out['samples']) < 2 and pname == 'xlsx':
                    out['samples'].append({'kind': case['kind'], 'target': target, 'names': names,
                                           'formulas': [(addr(sh, c, r), v) for sh, c, r, k, v in cells if k == 'formula'][:4],
                                           'expected': exp, 'observed': obs})
                if ok is False:
                    out['dis'].append({'case': {'kind': case['kind'], 'target': target, 'names': names,
                                                'cells': [(addr(sh, c, r), v) for sh, c, r, k, v in cells][:40],
                                                **({'then_set_and_evaluate_again': late} if late else {})},
                                       'exp': exp, 'obs': obs, 'features': probe_features(case, pname, exp, obs), 'clause': pname})
        return out


def fixture_worker(files):
    """every formula cell of the repository's fixture workbooks, loaded and evaluated BY THE LIBRARY under the local-consistency
    recorder: one event per evaluated formula cell (nested evaluations included)"""
    from harness import evalrec
    L = xl.lib()
    with evalrec.LocalRecorder() as rec:
        for f in files:
            try:
                m = L.ModelCompiler().read_and_parse_archive(f)
            except BaseException as e:      # noqa
                if isinstance(e, (KeyboardInterrupt, SystemExit)):
                    raise
                rec.skipped['unreadable-workbook'] += 1
                continue
            ev = L.Evaluator(m)
            for a in list(m.formulae):
                try:
                    ev.evaluate(a)
                except BaseException as e:      # noqa
                    if isinstance(e, (KeyboardInterrupt, SystemExit)):
                        raise
                    rec.skipped['evaluation-raised'] += 1
    for e in rec.events:
        e['file'] = os.path.basename(files[0]) if len(files) == 1 else ''
    return rec.events, dict(rec.skipped)


def fixture_local_consistency(run):
    import glob
    from harness import evalrec
    files = sorted(glob.glob(os.path.join(xl.REPO, 'tests', 'resources', '*.xlsx')))
    events, skipped = [], {}
    for evs, sk in pool.pmap(fixture_worker, files, nchunks=len(files)):
        events += evs
        for k, v in sk.items():
            skipped[k] = skipped.get(k, 0) + v
    run.evaluations += len(events)
    verdicts = evalrec.validate(run, events, name='fixtures')
    run.notes['fixture_workbooks'] = len(files)
    run.notes['fixture_local_consistency'] = {'events': len(events), 'verdicts': dict(verdicts), 'skipped': skipped}
    if sum(n for k, n in verdicts.items() if k != 'open') < 200:
        raise xl.MachineryError(f'local consistency of the fixture workbooks is vacuous: {dict(verdicts)}')


def bug_counta_limit(d):
    """COUNTA over more than 256 cells gives #VALUE! (limit applied to cells, pinned by test_statistics)"""
    f = d['features']
    return (d['kind'] == 'probe' and f.get('kind') in ('strip',) and 'COUNTA(' in f.get('probe_formula', '')
            and d['observed'] == {'t': 'err', 'v': '#VALUE!'} and _ncells(f['probe_formula']) > 256)


def _ncells(formula):
    import re
    m = re.search(r'([A-Z]+)(\d+):([A-Z]+)(\d+)', formula)
    if not m:
        return 0
    from checks.c02 import col_num
    return (col_num(m.group(3)) - col_num(m.group(1)) + 1) * (int(m.group(4)) - int(m.group(2)) + 1)


BUG_MODELS = {'counta_cell_limit': bug_counta_limit}


def run(run):
    r = run.tlc('MC_C03', 'C03_quick.cfg' if run.tier == 'quick' else 'C03_thorough.cfg', dump=True, timeout=900)
    blocks = pool.dump_blocks(r.dump, skip_substr='"pending"')
    random.Random(run.seed).shuffle(blocks)
    kinds = {}
    for res in pool.pmap(Worker(run.work), blocks):
        run.evaluations += res['evals']
        run.traces += res['n'] - res['open']
        run.nontrivial_count += res['n'] - res['open']
        run.undetermined += res['open']
        for k, v in res['kinds'].items():
            kinds[k] = kinds.get(k, 0) + v
        for s in res['samples']:
            run.sample(s)
        for d in res['dis']:
            run.disagree('probe', d['case'], d['exp'], d['obs'], d['features'], clause=d['clause'])
    run.notes['cases_by_family'] = kinds
    # code -> spec: the fixture workbooks, evaluated by the library; every evaluated formula is judged by TLC (Trace_Local)
    fixture_local_consistency(run)
    # code -> spec: random multi-sheet workbooks (sheet names needing quotes / prefixes of one another, every reference spelling,
    # ranges, names, the same formula text on several sheets), every evaluation judged by TLC with its whole closure
    from checks import wbdrive
    v = wbdrive.run_driver(run, 600 if run.tier == 'quick' else 30000, mix='c03')
    if sum(n for k, n in v.items() if k != 'open') < 1500:
        raise xl.MachineryError(f'random workbook driver is vacuous: {dict(v)}')
    run.rule = ('cases = done-states of MC_C03: every target cell x $ spelling x qualification from a probe on every sheet; every '
                'rectangle x SUM/COUNTA x sheets, dense and with every sparse pattern of a 2x2 sub-block; cross-sheet chains; strips with '
                'long blank runs; multi-letter columns; names bound to cells and ranges; resolve_ranges. Each workbook is built twice: '
                'read_and_parse_dict and an .xlsx written by harness/xlsxwriter_min.py. Cell values are distinct powers of two, so a sum '
                'reveals which cells were read; plus every formula cell of tests/resources/*.xlsx evaluated under the '
                'local-consistency recorder (value = the specification\'s function of the values of the directly addressed cells)')
    run.exhaustive = True


def replay(path):
    import json
    d = json.load(open(path))
    print(json.dumps(d, indent=1)[:3000])
    print('(re-run ./check C03 to re-evaluate: the case needs the workbook of the TLC state)')
    return 1

"""C07 - Excel errors are values that propagate; typed operands never crash."""
import random

from harness import calls, pool, syntax as S, trace, xl
from harness.agree import agrees, klass

ERR_CELL = {'#N/A': '=NA()', '#DIV/0!': '=1/0'}


DECOYS = {'Sheet1!Y90': ('value', True), 'Sheet1!Y91': ('value', 1), 'Sheet1!Y92': ('value', 0), 'Sheet1!Y93': ('value', False),
          'Sheet1!Y94': ('value', 1.0), 'Sheet1!Y95': ('value', '1'), 'Sheet1!Y96': ('value', 0.0), 'Sheet1!Y97': ('value', '')}


def formula_cell_call(f, args, mask=None, decoys=False):
    """like calls.formula_call, but every error / scalar argument is supplied through a referenced cell:
    errors by a formula that yields them (=NA(), =1/0) or an error literal.
    mask: argument positions (i % 2 == mask) that go through cells, the others are written as literals in the formula.
    decoys: the model also holds constants that are EQUAL as Python values but of other Excel types (TRUE / 1 / 1.0 / "1",
    FALSE / 0 / 0.0 / ""), and the same evaluator has read them all before the formula is evaluated"""
    cells = {}
    parts = []
    col = 'ABCDEFGHIJKLMNOPQRSTUVWXY'
    for i, a in enumerate(args):
        if a['t'] == 'arr' or (mask is not None and i % 2 != mask and a['t'] != 'date'):
            try:
                parts.append(xl.formula_literal(a, cells))
            except xl.MachineryError:
                return None, None, None
            continue
        addr = f'{col[i]}{50 + i}'
        if a['t'] == 'err':
            cells['Sheet1!' + addr] = ('formula', ERR_CELL.get(a['v'], '=' + a['v']))
        elif a['t'] == 'blank':
            cells['Sheet1!' + addr] = ('blank',)
        else:
            cells['Sheet1!' + addr] = ('value', xl.from_abs(a, 'native'))
        parts.append(addr)
    if f.startswith('OP_'):
        text = ('=-' + parts[0]) if f == 'OP_NEG' else ('=' + parts[0] + '%') if f == 'OP_PERCENT' else '=' + parts[0] + calls.OPSYM[f] + parts[1]
    else:
        text = '=' + f + '(' + ','.join(parts) + ')'
    try:
        forms = {'Sheet1!Z1': text}
        if decoys:
            cells.update(DECOYS)
            forms['Sheet1!Y99'] = '=COUNTA(Y90:Y97)'
        model, ev = xl.build_model(cells, forms)
        if decoys:
            ev.evaluate('Sheet1!Y99')
        res = ev.evaluate('Sheet1!Z1')
        return xl.to_abs(res), xl.to_abs(ev.get_cell_value('Sheet1!Z1')), text
    except BaseException as e:      # noqa
        if isinstance(e, (KeyboardInterrupt, SystemExit)):
            raise
        return xl.to_abs(e), None, text


def features(case, exp, obs, path):
    f = calls.default_features(case, exp, obs, path)
    f['err_positions'] = [i for i, a in enumerate(case['args']) if a['t'] == 'err']
    return f


def worker(blocks):
    out = {'n': 0, 'calls': 0, 'open': 0, 'dis': [], 'samples': [], 'byf': {}}
    for b in blocks:
        st = pool.parse_block(b)
        case, exp = st['case'], st['res']
        out['n'] += 1
        out['byf'][case['f']] = out['byf'].get(case['f'], 0) + 1
        if exp['t'] == 'open':
            out['open'] += 1
            continue
        results = [('direct', calls.direct_call(case['f'], case['args'], 'native'), None),
                   ('wrapped', calls.direct_call(case['f'], case['args'], 'wrapped'), None)]
        if case['f'].startswith('OP_') and any(a['t'] == 'num' for a in case['args']):
            # numbers as numpy scalars (what LOG10, EXP, COS ... hand on to an operator)
            results.append(('numpy', calls.direct_call(case['f'], case['args'], 'numpy'), None))
        o, stored, text = calls.formula_call(case['f'], case['args'])
        if o is not None:
            results.append(('formula', o, text))
            if stored is not None:
                results.append(('formula-stored', stored, text))
        o, stored, text = formula_cell_call(case['f'], case['args'])
        results.append(('formula-cells', o, text))
        if stored is not None:
            results.append(('formula-cells-stored', stored, text))
        if len(case['args']) >= 2:      # one operand a cell, the other a literal written in the formula - both ways round
            for mask in (0, 1):
                o, stored, text = formula_cell_call(case['f'], case['args'], mask=mask)
                if o is not None:
                    results.append((f'formula-mixed-{mask}', o, text))
        o, stored, text = formula_cell_call(case['f'], case['args'], decoys=True)
        results.append(('formula-cells-decoys', o, text))
        for path, obs, text in results:
            out['calls'] += 1
            if agrees(obs, exp) is False:
                out['dis'].append({'case': case, 'exp': exp, 'obs': obs, 'path': path, 'formula': text,
                                   'features': features(case, exp, obs, path)})
        if len(out['samples']) < 2:
            out['samples'].append({'case': case, 'expected': exp, 'observed': results[-1][1], 'formula': results[-1][2]})
    return out


def bug_native_eq(d):
    from checks.c09 import bug_native_eq as f
    return f(d)


def bug_sumproduct_na(d):
    return (d['kind'] == 'call' and d['case']['f'] == 'SUMPRODUCT' and d['expected'].get('t') == 'err'
            and d['observed'] == {'t': 'err', 'v': '#N/A'})


BUG_MODELS = {'native_eq_python_semantics': bug_native_eq, 'sumproduct_error_is_na': bug_sumproduct_na}


def chain_events(codes):
    """a cell whose formula yields an error stores it and hands it on to its dependants"""
    evs = []
    for code in codes:
        src = S.call('NA', []) if code == '#N/A' else S.bin_('/', S.num('1'), S.num('0')) if code == '#DIV/0!' else {'k': 'err', 'v': code}
        cells = [
            {'sheet': 'Sheet1', 'col': 1, 'row': 1, 'ast': src},
            {'sheet': 'Sheet1', 'col': 2, 'row': 1, 'ast': S.bin_('+', S.ref(1, 1), S.num('1'))},
            {'sheet': 'Sheet1', 'col': 3, 'row': 1, 'ast': S.bin_('&', S.ref(2, 1), S.strlit('x'))},
            {'sheet': 'Sheet1', 'col': 4, 'row': 1, 'ast': S.call('ISERROR', [S.ref(3, 1)])},
            {'sheet': 'Sheet1', 'col': 5, 'row': 1, 'ast': S.call('ISNA', [S.ref(2, 1)])},
            {'sheet': 'Sheet1', 'col': 6, 'row': 1, 'ast': S.bin_('=', S.ref(3, 1), S.ref(1, 1))},
            # the same error-valued cell mentioned twice in one formula
            {'sheet': 'Sheet1', 'col': 7, 'row': 1, 'ast': S.bin_('+', S.ref(1, 1), S.ref(1, 1))},
            {'sheet': 'Sheet1', 'col': 8, 'row': 1, 'ast': S.bin_('&', S.ref(2, 1), S.ref(2, 1, '', True, True))},
            {'sheet': 'Sheet1', 'col': 9, 'row': 1, 'ast': S.call('IF', [S.call('ISERROR', [S.ref(2, 1)]), S.ref(2, 1), S.num('0')])},
            {'sheet': 'Sheet1', 'col': 10, 'row': 1, 'ast': S.bin_('+', S.call('SUM', [S.rng(1, 1, 2, 1)]), S.ref(1, 1))},
        ]
        for probe in range(1, 11):
            ast = cells[probe - 1]['ast']
            evs.append({'ast': ast, 'style': S.STYLE0, 'text': [ord(c) for c in S.formula(ast)], 'sheet': 'Sheet1', 'cells': cells,
                        'probe': probe})
    return evs


def record_chain(chunk):
    L = xl.lib()
    out = []
    for e in chunk:
        d = {f"Sheet1!{'ABCDEFGHIJ'[c['col'] - 1]}1": S.formula(c['ast']) for c in e['cells']}
        try:
            model = L.ModelCompiler().read_and_parse_dict(d)
            ev = L.Evaluator(model)
            # evaluate the LAST cell first so that the probe is read from what was stored along the chain
            ev.evaluate('Sheet1!F1')
            pa = f"Sheet1!{'ABCDEFGHIJ'[e['probe'] - 1]}1"
            if e['probe'] in (4, 5, 7, 8, 9, 10):        # not a precedent of F1: evaluate it (its precedents are already stored)
                ev.evaluate(pa)
            res = xl.to_abs(ev.get_cell_value(pa))
        except BaseException as ex:      # noqa
            if isinstance(ex, (KeyboardInterrupt, SystemExit)):
                raise
            res = xl.to_abs(ex)
        e = dict(e, res=res)
        del e['probe']
        out.append(e)
    return out


def long_gap_events():
    """an error value behind more than a hundred empty rows (columns) of a range: the aggregate still hands it on"""
    evs = []
    for n in (103, 150, 250):
        for horiz in (False, True):
            for src in ('=1/0', '=NA()'):
                for f in ('SUM', 'MAX', 'COUNTA'):
                    if f == 'COUNTA' and n + 40 > 255:
                        continue          # (COUNTA over more than 256 cells: known finding F-C03-01)
                    evs.append({'n': n, 'horiz': horiz, 'src': src, 'f': f})
    return evs


def record_long_gap(chunk):
    L = xl.lib()
    out = []
    for e in chunk:
        n = e['n']
        far = (n, 1) if e['horiz'] else (1, n)
        end = (n + 40, 1) if e['horiz'] else (1, n + 40)
        src = S.bin_('/', S.num('1'), S.num('0')) if e['src'] == '=1/0' else S.call('NA', [])
        ast = S.call(e['f'], [S.rng(1, 1, end[0], end[1])])
        d = {'Sheet1!A1': 1, f'Sheet1!{S.col_letters(far[0])}{far[1]}': S.formula(src), 'Sheet1!B5' if not e['horiz'] else 'Sheet1!E5': S.formula(ast)}
        probe = 'Sheet1!B5' if not e['horiz'] else 'Sheet1!E5'
        try:
            res = xl.to_abs(L.Evaluator(L.ModelCompiler().read_and_parse_dict(d)).evaluate(probe))
        except BaseException as ex:      # noqa
            if isinstance(ex, (KeyboardInterrupt, SystemExit)):
                raise
            res = {'t': 'exc', 'cls': type(ex).__name__}
        out.append({'ast': ast, 'sheet': 'Sheet1', 'names': [], 'res': res, 'addr': probe, 'text': S.formula(ast),
                    'cells': [{'sheet': 'Sheet1', 'col': 1, 'row': 1, 'v': {'t': 'num', 'n': 1, 'd': 1}},
                              {'sheet': 'Sheet1', 'col': far[0], 'row': far[1], 'ast': src}]})
    return out


def long_text_events():
    """operands within the limit of a cell whose concatenation is not (or just is): a value or an error value, never an exception"""
    return [{'n1': a, 'n2': b, 'form': f} for a, b in ((20000, 20000), (32767, 1), (16384, 16383), (30000, 2767), (32767, 32767), (1, 32767))
            for f in ('cells', 'mixed', 'inspected')]


def record_long_text(chunk):
    L = xl.lib()
    out = []
    for e in chunk:
        t1, t2 = 'x' * e['n1'], 'y' * e['n2']
        left, right = S.ref(1, 1), (S.ref(1, 2) if e['form'] != 'mixed' else S.strlit('y' * e['n2']))
        ast = S.bin_('&', left, right)
        d = {'Sheet1!A1': t1, 'Sheet1!A2': t2, 'Sheet1!B5': S.formula(ast), 'Sheet1!B6': '=ISERROR(B5)'}
        probe = 'Sheet1!B5'
        try:
            ev = L.Evaluator(L.ModelCompiler().read_and_parse_dict(d))
            if e['form'] == 'inspected':
                ev.evaluate('Sheet1!B6')
            res = xl.to_abs(ev.evaluate(probe))
        except BaseException as ex:      # noqa
            if isinstance(ex, (KeyboardInterrupt, SystemExit)):
                raise
            res = {'t': 'exc', 'cls': type(ex).__name__}
        out.append({'ast': ast, 'sheet': 'Sheet1', 'names': [], 'res': res, 'addr': probe, 'text': f"=A1&A2 with LEN {e['n1']} and {e['n2']} ({e['form']})",
                    'cells': [{'sheet': 'Sheet1', 'col': 1, 'row': 1, 'v': xl.to_abs(t1)}, {'sheet': 'Sheet1', 'col': 1, 'row': 2, 'v': xl.to_abs(t2)}]})
    return out


BIG_FLOATS = [1e15, 2.5e15, 9.99e15, 9999999999999998.0, 1e16, 1e14, 123456789012345.0, -1e15, -7.5e15, 1e21, 1.5e-7, 1e-5, 0.0001, 123456789012345678.0]


def big_float_events():
    """numbers as doubles around the magnitudes where their text form changes its shape (1E+15, 1E+16, 1E-4, 1E+21) under & and the
    comparisons: a value or an error value, never an exception (the specification leaves the text form of such numbers open)"""
    return [{'x': x, 'op': op, 'side': side, 'other': other} for x in BIG_FLOATS for op in ('&', '=', '<', '>=') for side in (0, 1)
            for other in ('x', 3, True)]


def record_big_float(chunk):
    L = xl.lib()
    out = []
    for e in chunk:
        ops = [S.ref(1, 1), S.ref(1, 2)] if e['side'] == 0 else [S.ref(1, 2), S.ref(1, 1)]
        ast = S.bin_(e['op'], ops[0], ops[1])
        d = {'Sheet1!A1': e['x'], 'Sheet1!A2': e['other'], 'Sheet1!B5': S.formula(ast)}
        try:
            res = xl.to_abs(L.Evaluator(L.ModelCompiler().read_and_parse_dict(d)).evaluate('Sheet1!B5'))
        except BaseException as ex:      # noqa
            if isinstance(ex, (KeyboardInterrupt, SystemExit)):
                raise
            res = {'t': 'exc', 'cls': type(ex).__name__}
        out.append({'ast': ast, 'sheet': 'Sheet1', 'names': [], 'res': res, 'addr': 'Sheet1!B5', 'text': S.formula(ast) + f" with A1 = {e['x']!r}, A2 = {e['other']!r}",
                    'cells': [{'sheet': 'Sheet1', 'col': 1, 'row': 1, 'v': xl.to_abs(e['x'])}, {'sheet': 'Sheet1', 'col': 1, 'row': 2, 'v': xl.to_abs(e['other'])}]})
    return out


def error_history_events():
    """a range with a formula member that turns from a value into an error value, into another error value and back while the
    other members keep their values: every evaluation of the consumers of the range shows the member's CURRENT outcome"""
    evs = []
    for f in ('SUM', 'MAX', 'COUNTA', 'CONCAT'):
        for vals in ((2, 0, 'x', 2), (0, 2, 0), (2, 'x', 0, 'x'), ('x', 0, 2)):
            for via in ('direct', 'dependant'):
                evs.append({'f': f, 'vals': vals, 'via': via})
    return evs


def record_error_history(chunk):
    L = xl.lib()
    out = []
    for e in chunk:
        member = S.bin_('/', S.num('10'), S.ref(1, 1))                 # B2 = 10/A1
        consumer = S.call(e['f'], [S.rng(2, 1, 2, 3)])                 # C1 = F(B1:B3)
        dep = S.bin_('&', S.ref(3, 1), S.strlit('!'))                  # D1 = C1&"!"
        d = {'Sheet1!A1': e['vals'][0], 'Sheet1!B1': 5, 'Sheet1!B2': S.formula(member), 'Sheet1!B3': 7, 'Sheet1!C1': S.formula(consumer), 'Sheet1!D1': S.formula(dep)}
        probe, past = ('Sheet1!C1', consumer) if e['via'] == 'direct' else ('Sheet1!D1', dep)
        try:
            model = L.ModelCompiler().read_and_parse_dict(d)
            ev = L.Evaluator(model)
        except BaseException as ex:      # noqa
            raise xl.MachineryError(f'error-history workbook does not build: {ex!r}')
        for step, v in enumerate(e['vals']):
            if step:
                (ev if step % 2 else model).set_cell_value('Sheet1!A1', v)
            try:
                res = xl.to_abs(ev.evaluate(probe))
            except BaseException as ex:      # noqa
                if isinstance(ex, (KeyboardInterrupt, SystemExit)):
                    raise
                res = {'t': 'exc', 'cls': type(ex).__name__}
            cells = [{'sheet': 'Sheet1', 'col': 1, 'row': 1, 'v': xl.to_abs(v)}, {'sheet': 'Sheet1', 'col': 2, 'row': 1, 'v': xl.to_abs(5)},
                     {'sheet': 'Sheet1', 'col': 2, 'row': 2, 'ast': member}, {'sheet': 'Sheet1', 'col': 2, 'row': 3, 'v': xl.to_abs(7)},
                     {'sheet': 'Sheet1', 'col': 3, 'row': 1, 'ast': consumer}]
            out.append({'ast': past, 'sheet': 'Sheet1', 'names': [], 'res': res, 'addr': probe, 'cells': cells,
                        'text': f"{S.formula(past)} after A1 := {list(e['vals'][:step + 1])!r} (B2 = 10/A1, C1 = {S.formula(consumer)})"})
    return out


ZONE_TEXTS = ['2020-04-01 00:00:00-2', '2020-01-01T00:00Z', '10:00+01:00', '12:00 UTC', '2020-04-01 00:00:00+00:00', '1 Jan 2020 10:00 GMT', '2020-04-01 EST']


def zone_text_events():
    """text that a date parser reads as a date WITH a time zone (what a date & -2 concatenates to): arithmetic on it gives a value
    or an error value - the specification leaves open which (date-looking text) - and never an exception (Trace_Local!TotalOp)"""
    return [{'t': t, 'op': op, 'side': side} for t in ZONE_TEXTS for op in ('+', '-', '*', '/', '^', '<', '=', '&') for side in (0, 1)]


def record_zone_text(chunk):
    L = xl.lib()
    out = []
    for e in chunk:
        ops = [S.ref(1, 1), S.ref(1, 2)] if e['side'] == 0 else [S.ref(1, 2), S.ref(1, 1)]
        ast = S.bin_(e['op'], ops[0], ops[1])
        d = {'Sheet1!A1': e['t'], 'Sheet1!A2': 3, 'Sheet1!B5': S.formula(ast)}
        try:
            res = xl.to_abs(L.Evaluator(L.ModelCompiler().read_and_parse_dict(d)).evaluate('Sheet1!B5'))
        except BaseException as ex:      # noqa
            if isinstance(ex, (KeyboardInterrupt, SystemExit)):
                raise
            res = {'t': 'exc', 'cls': type(ex).__name__}
        out.append({'ast': ast, 'sheet': 'Sheet1', 'names': [], 'res': res, 'addr': 'Sheet1!B5', 'text': S.formula(ast) + f" with A1 = '{e['t']}', A2 = 3",
                    'cells': [{'sheet': 'Sheet1', 'col': 1, 'row': 1, 'v': xl.to_abs(e['t'])}, {'sheet': 'Sheet1', 'col': 1, 'row': 2, 'v': xl.to_abs(3)}]})
    return out


CODES = ['#NULL!', '#DIV/0!', '#VALUE!', '#REF!', '#NAME?', '#NUM!', '#N/A']


def driver(seed, n):
    """seeded calls: random witness, 1-3 errors at random scalar / range-element positions, random call path"""
    import copy
    from checks.sig_table import SIG
    rng = random.Random(seed * 13 + 7)
    evs = []
    for i in range(n):
        f, kinds, args = rng.choice(SIG)
        args = copy.deepcopy(args)
        points = []
        for j, (k, a) in enumerate(zip(kinds, args)):
            if a['t'] == 'arr':
                if k == 'r':
                    points += [(j, r, c) for r in range(len(a['v'])) for c in range(len(a['v'][0]))]
            elif k != 'L':
                points.append((j, None, None))
        for (j, r, c) in rng.sample(points, min(len(points), rng.choice([1, 1, 2, 3]))):
            e = {'t': 'err', 'v': rng.choice(CODES)}
            if r is None:
                args[j] = e
            else:
                args[j]['v'][r][c] = e
        evs.append({'f': f, 'args': args, 'path': ['direct', 'wrapped', 'formula', 'formula-cells', 'formula-mixed-0', 'formula-mixed-1', 'formula-cells-decoys'][i % 7]})
    return evs


def record(chunk):
    out = []
    for e in chunk:
        if e['path'] == 'formula':
            res, stored, text = calls.formula_call(e['f'], e['args'])
        elif e['path'] == 'formula-cells':
            res, stored, text = formula_cell_call(e['f'], e['args'])
        elif e['path'].startswith('formula-mixed'):
            res, stored, text = formula_cell_call(e['f'], e['args'], mask=int(e['path'][-1]))
        elif e['path'] == 'formula-cells-decoys':
            res, stored, text = formula_cell_call(e['f'], e['args'], decoys=True)
        else:
            res = calls.direct_call(e['f'], e['args'], 'native' if e['path'] == 'direct' else 'wrapped')
        if res is not None:
            out.append(dict(e, res=res))
    return out


def repo_test_traces(run):
    """the repository's own test-suite as a driver: every registered-function call made while the unedited tests run is
    recorded (harness/pytest_recorder.py) and validated against the whole modelled library (Trace_Library)"""
    import glob
    import json
    import os
    import subprocess
    import sys
    from harness.core import VERIF
    rec = os.path.join(run.work, 'rec')
    os.makedirs(rec, exist_ok=True)
    env = dict(os.environ, PYTHONPATH=VERIF, VERIF_REC_FILE=os.path.join(rec, 'ev'), VERIF_DIR=VERIF, XLCALC_REPO=xl.REPO)
    subprocess.run([sys.executable, '-m', 'pytest', '-q', '-p', 'no:cacheprovider', '-p', 'harness.pytest_recorder', '-n', '8',
                    '--timeout=900'], cwd=xl.REPO, env=env, stdout=subprocess.DEVNULL, stderr=subprocess.DEVNULL, timeout=1800)
    evs = []
    for p in sorted(glob.glob(os.path.join(rec, 'ev.*'))):
        for line in open(p):
            e = json.loads(line)
            if 'python' in e.get('test', '').lower():       # tests that switch xl.COMPATIBILITY to 'PYTHON' (another definition of NPV/PMT)
                continue
            if e['res'].get('t') == 'exc' and e['f'] in ('SUMIF', 'SUMIFS') and e['res'].get('cls') == 'AttributeError':
                continue                                    # pandas 3 removed DataFrame.applymap (baseline failure, not ours)
            evs.append(e)
    if len(evs) < 300:
        raise xl.MachineryError(f'only {len(evs)} calls recorded from the repository test-suite')
    run.evaluations += len(evs)
    trace.validate(run, [dict({k: e[k] for k in ('f', 'args', 'res')}, path='direct', test=e['test']) for e in evs],
                   module='Trace_Library', kind='call', name='repotests',
                   features=lambda e, x, v: {'f': e['f'], 'verdict': v, 'test': e.get('test', '')[:80]})
    run.notes['repo_test_call_events'] = len(evs)


def run(run):
    r = run.tlc('MC_C07', 'C07_quick.cfg' if run.tier == 'quick' else 'C07_thorough.cfg', dump=True, timeout=900)
    blocks = pool.dump_blocks(r.dump, skip_substr='"pending"')
    byf = {}
    for res in pool.pmap(worker, blocks):
        run.evaluations += res['calls']
        run.undetermined += res['open']
        run.traces += res['n'] - res['open']
        run.nontrivial_count += res['n'] - res['open']
        for k, v in res['byf'].items():
            byf[k] = byf.get(k, 0) + v
        for s in res['samples']:
            run.sample(s)
        for d in res['dis']:
            run.disagree('call', d['case'], d['exp'], d['obs'], d['features'], clause=d['path'], repro=d['formula'])
    run.notes['cases_by_function'] = byf
    run.notes['functions_covered'] = len(byf)
    # the same calls in four orders, each order in ONE fresh process (state left behind by earlier calls)
    calls.replay_orders(run, blocks, worker, key=lambda b: len(b), sample=6000)
    from checks.sig_table import SIG, EXCLUDED, NOARGS
    known = {f for f, _, _ in SIG} | set(EXCLUDED) | set(NOARGS)
    run.notes['unmodelled_registered_functions'] = sorted(set(xl.lib().xl.FUNCTIONS) - known)   # reported, never a violation
    # chains: the error is stored by the cell that produced it and read back through get_cell_value after evaluating a dependant
    events = chain_events(['#N/A', '#DIV/0!', '#REF!', '#VALUE!', '#NUM!', '#NAME?', '#NULL!'])
    recorded = [e for part in pool.pmap(record_chain, events) for e in part]
    run.evaluations += len(recorded)
    res = trace.validate(run, recorded, module='Trace_Formula', features=lambda e, x, v: {'verdict': v, 'text': ''.join(map(chr, e['text']))})
    if any(v.startswith('generator') for _, v, _ in res):
        raise xl.MachineryError('chain generator disagrees with the specification rendering')
    from harness import evalrec
    lg = [e for part in pool.pmap(record_long_gap, long_gap_events(), nchunks=8) for e in part]
    lv = evalrec.validate(run, lg, name='longgap', kind='long-gap')
    run.evaluations += len(lg)
    run.notes['long_gap_events'] = dict(lv)
    lt = [e for part in pool.pmap(record_long_text, long_text_events(), nchunks=6) for e in part]
    tv = evalrec.validate(run, lt, name='longtext', kind='long-text')
    run.evaluations += len(lt)
    run.notes['long_text_events'] = dict(tv)
    if sum(n for k, n in tv.items() if k != 'open') < 3:
        raise xl.MachineryError(f'long-text events: none within the limit was judged ({dict(tv)})')
    zt = [e for part in pool.pmap(record_zone_text, zone_text_events(), nchunks=8) for e in part]
    zv = evalrec.validate(run, zt, name='zonetext', kind='zone-text')
    run.evaluations += len(zt)
    run.notes['zone_text_events'] = dict(zv)
    bf = [e for part in pool.pmap(record_big_float, big_float_events(), nchunks=8) for e in part]
    bv = evalrec.validate(run, bf, name='bigfloat', kind='big-float')
    eh = [e for part in pool.pmap(record_error_history, error_history_events(), nchunks=8) for e in part]
    hv = evalrec.validate(run, eh, name='errhist', kind='error-history')
    run.evaluations += len(bf) + len(eh)
    run.notes['big_float_events'] = dict(bv)
    run.notes['error_history_events'] = dict(hv)
    if sum(n for k, n in hv.items() if k != 'open') < len(eh) // 2:
        raise xl.MachineryError(f'error-history events: too few judged ({dict(hv)})')
    events = driver(run.seed, 3000 if run.tier == 'quick' else 40000)
    recorded = [e for part in pool.pmap(record, events) for e in part]
    run.evaluations += len(recorded)
    trace.validate(run, recorded, module='Trace_C07', kind='call',
                   features=lambda e, x, v: {'f': e['f'], 'path': e['path'], 'verdict': v})
    run.notes['trace_events'] = len(recorded)
    if run.tier == 'thorough':
        repo_test_traces(run)
    run.rule = ('every binary operator x operand position x 7 error codes x 9 partner values, both operands errors, unary operators; the 9x9 '
                'operand matrix (value or Excel error, never an exception); every witness of XlSig (104 call shapes covering every '
                'registered non-opaque function) x every scalar position and every range-element position x 7 codes, and pairs of '
                'positions (leftmost wins); inspectors and type reporters; each case through native, wrapped, literal-formula and '
                'referenced-cell-formula paths incl. the stored value; error chains read back through get_cell_value')
    run.exhaustive = True


def replay(path):
    return calls.replay_file(path)

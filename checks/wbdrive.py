"""Randomized workbook driver (code -> spec) for the stateful properties C04 / C05 / C12 / C13.

A seeded generator builds multi-sheet workbooks far beyond the enumerated shapes of XlWorkbook - sheet names that need
quotes or are prefixes of one another, constants of every scalar kind, formulas over the modelled subset (operators,
references in every spelling, ranges in SUM / COUNTA, IF / AND / OR / NOT, text and information functions, defined
names for cells and ranges), several cells with the same formula text - and drives a random HISTORY on one model:

    evaluate(cell, by evaluator 1 | 2)        set(input | a cell nobody stored, v)        set through a defined name
    persist + restore (continue on the restored model)      deepcopy (continue on the copy)      new evaluators
    extract(focus) -> evaluate the focus cells on the extracted model (side branch)

Every evaluate() is one event for TLC (Trace_Local): the formula of the evaluated cell, the dependency closure with the
constants AS THE DRIVER HAS SET THEM (the driver's own bookkeeping, never read back from the model) and the formulas as
generated, the response, and what get_cell_value returns afterwards.  The specification's Eval over that closure is the
value of a freshly compiled workbook holding the current inputs; the verdict is total (ok / open / wrong-value / ...).
"""
import copy
import json
import os
import random

from harness import fparse, syntax as S, workbook as W, xl

SHEET_SETS = [['S1', 'S1b', "O'x"], ['Data', 'Data 2'], ['S 2', 'S 2b', 'S1'], ['Jan', 'Feb', 'Sum'], ['S1', 'S 2']]
NUMS = [-2, -1, 0, 1, 2, 3, 7, 10, 100]
FRACS = [(1, 2), (5, 2), (-1, 4), (3, 10)]
TEXTS = ['ab', 'AB', 'x', '7', 'total', 'a b', "it's", 'é', '#N/A', 'TRUE', 'Infinity', 'NaN']      # (a text that merely spells an error code / a logical value is a text)
ROWS, COLS = 6, 4


def N(n, d=1):
    return {'t': 'num', 'n': n, 'd': d}


def T(s):
    return {'t': 'txt', 'v': [ord(c) for c in s]}


def B(b):
    return {'t': 'bool', 'v': b}


def rconst(rng):
    r = rng.random()
    if r < 0.5:
        return N(rng.choice(NUMS))
    if r < 0.62:
        n, d = rng.choice(FRACS)
        return N(n, d)
    if r < 0.78:
        return B(rng.random() < 0.5)
    if r < 0.82:
        return {'t': 'err', 'v': rng.choice(['#N/A', '#DIV/0!', '#VALUE!'])}
    if r < 0.86:
        return {'t': 'date', 's': rng.choice([61, 36526, 43861, 43890, 43921, 44000, 44196]), 'fn': 0, 'fd': 1}
    return T(rng.choice(TEXTS))


class Gen:
    def __init__(self, rng):
        self.rng = rng
        self.sheets = list(rng.choice(SHEET_SETS))
        self.cells = {}          # (sheet, col, row) -> ('const', abstract) | ('formula', ast)
        self.order = []          # formula cells in creation order (each mentions earlier cells only)
        self.inputs = []
        self.names = {}          # name -> ref / range ast (absolute, sheet-qualified)

    def free(self, sheet=None):
        for _ in range(200):
            k = (sheet or self.rng.choice(self.sheets), self.rng.randint(1, COLS), self.rng.randint(1, ROWS))
            if k not in self.cells:
                return k
        return None

    def ref_to(self, key, home):
        sh = '' if key[0] == home and self.rng.random() < 0.7 else key[0]
        return S.ref(key[1], key[2], sh, self.rng.random() < 0.3, self.rng.random() < 0.3)

    def any_ref(self, home, prefer_inputs=0.7):
        rng = self.rng
        if self.names and rng.random() < 0.12:
            nm = rng.choice(sorted(self.names))
            if self.names[nm]['k'] == 'ref':
                return {'k': 'name', 'v': nm}
        if rng.random() < 0.06:                      # a cell nobody stored (blank), on this or another sheet
            return S.ref(rng.randint(1, COLS), ROWS + rng.randint(1, 3), rng.choice(['', rng.choice(self.sheets)]))
        pool_ = self.inputs if (rng.random() < prefer_inputs or not self.order) else self.order
        return self.ref_to(rng.choice(pool_), home)

    def range_on(self, home):
        rng = self.rng
        sh = rng.choice(self.sheets)
        c1, r1 = rng.randint(1, COLS), rng.randint(1, ROWS)
        c2, r2 = rng.randint(c1, min(COLS, c1 + 2)), rng.randint(r1, min(ROWS + 2, r1 + 3))
        a = S.rng(c1, r1, c2, r2, '' if sh == home else sh)
        if rng.random() < 0.3:
            a.update(a1=True, b1=True, a2=True, b2=True)
        return a, sh

    def range_ok(self, a, sh, own):
        """no formula cell created later (or the cell itself) inside the range: the workbook stays acyclic"""
        for c in range(a['c1'], a['c2'] + 1):
            for r in range(a['r1'], a['r2'] + 1):
                if (sh, c, r) == own:
                    return False
        return True

    def expr(self, home, own, depth=0):
        rng = self.rng
        r = rng.random()
        if depth >= 2 or r < 0.30:
            return self.any_ref(home)
        if r < 0.40:
            c = rconst(rng)
            if c['t'] == 'num':
                return S.num(xl.fmt_rational(abs(c['n']), c['d'])) if c['n'] >= 0 else S.neg(S.num(xl.fmt_rational(-c['n'], c['d'])))
            if c['t'] == 'bool':
                return {'k': 'bool', 'v': c['v']}
            if c['t'] == 'err':
                return {'k': 'err', 'v': c['v']}
            if c['t'] == 'date':
                return S.call('DATE', [S.num('2020'), S.num(str(rng.randint(1, 12))), S.num(str(rng.randint(1, 28)))])
            return S.strlit(xl.text_of(c))
        if r < 0.62:
            op = rng.choice(['+', '+', '-', '*', '&', '=', '<', '>=', '<>', '/'])
            return S.bin_(op, self.expr(home, own, depth + 1), self.expr(home, own, depth + 1))
        if r < 0.74:
            for _ in range(5):
                a, sh = self.range_on(home)
                if self.range_ok(a, sh, own):
                    f = rng.choice(['SUM', 'SUM', 'COUNTA', 'MAX', 'MIN', 'AVERAGE', 'COUNT'])
                    args = [a] + ([self.expr(home, own, depth + 1)] if rng.random() < 0.3 else [])
                    if self.names and rng.random() < 0.2:
                        rn = [n for n, t in self.names.items() if t['k'] == 'range']
                        if rn:
                            args[0] = {'k': 'name', 'v': rng.choice(rn)}
                    return S.call(f, args)
            return self.any_ref(home)
        if r < 0.86:
            cond = rng.choice([lambda: S.bin_(rng.choice(['>', '<', '=', '<>']), self.any_ref(home), S.num(str(rng.choice([0, 1, 2])))),
                               lambda: self.any_ref(home),
                               lambda: S.call('ISNUMBER', [self.any_ref(home)])])()
            f = rng.random()
            if f < 0.6:
                return S.call('IF', [cond, self.expr(home, own, depth + 1), self.expr(home, own, depth + 1)])
            if f < 0.8:
                if rng.random() < 0.35:      # three arguments, the middle one an error value for some inputs (x/y with y = 0)
                    x, y = self.any_ref(home), self.any_ref(home)
                    g = rng.choice(['AND', 'OR'])
                    return S.call(g, [S.bin_('>' if g == 'AND' else '=', y, S.num('0')), S.bin_('>', S.bin_('/', x, y), S.num('1')), S.bin_('<', x, S.num('100'))])
                return S.call(rng.choice(['AND', 'OR']), [cond, S.bin_('>', self.any_ref(home), S.num('0'))])
            return S.call('NOT', [cond])
        f = rng.choice(['LEN', 'UPPER', 'ISNUMBER', 'ISTEXT', 'ISBLANK', 'ISERROR', 'LEFT', 'CONCAT', 'EXACT',
                        'LOWER', 'TRIM', 'MID', 'RIGHT', 'ISNA', 'CHOOSE', 'COUNTIF', 'MATCH', 'NEG', 'PCT', 'ERRLIT', 'NA',
                        'DATE', 'YEAR', 'EDATE', 'DAYS', 'FIND', 'REPLACE', 'VLOOKUP', 'NPV', 'SLN', 'WEEKDAY',
                        'ROUND', 'INT', 'ABS', 'MOD', 'CEILING', 'SIGN', 'POWER', 'SQRT', 'ISEVEN', 'DEC2BIN', 'BIN2DEC', 'TRUEF'])
        x = self.any_ref(home)
        # (a number with a fraction at a date-typed position meets the known finding F-C18-01 - the time of day of a serial is
        #  converted wrongly - which is C18's business: the driver only hands whole serials to date parameters)
        whole = S.bin_('+', S.call('INT', [x]), S.num('40000'))
        if f == 'DATE':
            return S.call('DATE', [S.num(str(rng.choice([1900, 2020, 2024]))), rng.choice([S.num(str(rng.randint(-2, 14))), x]), S.num(str(rng.randint(-3, 33)))])
        if f == 'YEAR':
            d = S.call('DATE', [S.num('2020'), S.num(str(rng.randint(1, 12))), S.num(str(rng.randint(1, 28)))])
            return S.call(rng.choice(['YEAR', 'MONTH', 'DAY']), [rng.choice([d, whole])])
        if f == 'EDATE':
            d = S.call('DATE', [S.num('2020'), S.num(str(rng.randint(1, 12))), S.num(str(rng.choice([1, 15, 28, 30, 31])))])
            return S.call(rng.choice(['EDATE', 'EOMONTH']), [rng.choice([d, d, whole]), S.num(str(rng.randint(-13, 13)))])
        if f == 'DAYS':
            d = S.call('DATE', [S.num('2021'), S.num(str(rng.randint(1, 12))), S.num(str(rng.randint(1, 28)))])
            return S.call('DAYS', [d, rng.choice([whole, S.call('DATE', [S.num('2020'), S.num('3'), S.num('1')])])])
        if f == 'WEEKDAY':
            return S.call('WEEKDAY', [S.call('DATE', [S.num('2020'), S.num(str(rng.randint(1, 12))), S.num(str(rng.randint(1, 28)))]), S.num(str(rng.choice([1, 2, 3, 11, 17])))])
        if f == 'FIND':
            return S.call('FIND', [S.strlit(rng.choice(['a', 'b', 'ab', 'x'])), x] + ([S.num(str(rng.randint(1, 3)))] if rng.random() < 0.5 else []))
        if f == 'REPLACE':
            return S.call('REPLACE', [x, S.num(str(rng.randint(1, 3))), S.num(str(rng.randint(0, 2))), S.strlit('Z')])
        if f == 'NPV':
            return S.call('NPV', [S.num(rng.choice(['0', '0.5', '1'])), x, self.any_ref(home), S.num('60')])
        if f == 'SLN':
            return S.call('SLN', [S.num('1000'), x, S.num(str(rng.choice([1, 4, 10])))])
        if f == 'VLOOKUP':
            for _ in range(5):
                a, sh = self.range_on(home)
                if a['c2'] > a['c1'] and self.range_ok(a, sh, own):
                    return S.call('VLOOKUP', [x, a, S.num(str(rng.randint(1, a['c2'] - a['c1'] + 1))), {'k': 'bool', 'v': False}])
            return x
        if f == 'ROUND':
            return S.call(rng.choice(['ROUND', 'ROUNDUP', 'ROUNDDOWN', 'TRUNC']), [rng.choice([x, S.bin_('/', x, S.num('4')), S.bin_('*', x, S.num('1.25'))]), S.num(str(rng.randint(0, 2)))])
        if f == 'INT':
            return S.call(rng.choice(['INT', 'EVEN', 'TRUNC']), [rng.choice([x, S.bin_('/', x, S.num('4'))])])
        if f == 'ABS':
            return S.call('ABS', [S.bin_('-', x, self.any_ref(home))])
        if f == 'MOD':
            return S.call('MOD', [x, rng.choice([S.num('3'), S.neg(S.num('3')), S.num('0.5'), self.any_ref(home)])])
        if f == 'CEILING':
            return S.call(rng.choice(['CEILING', 'FLOOR']), [rng.choice([x, S.bin_('/', x, S.num('4'))]), S.num(rng.choice(['1', '0.5', '0.1', '5']))])
        if f == 'SIGN':
            return S.call('SIGN', [x])
        if f == 'POWER':
            return S.call('POWER', [x, S.num(str(rng.randint(0, 3)))])
        if f == 'SQRT':
            return S.call('SQRT', [S.bin_('*', x, x)])
        if f == 'ISEVEN':
            return S.call(rng.choice(['ISEVEN', 'ISODD']), [x])
        if f == 'DEC2BIN':       # base conversions (XlLibrary!BitsBridge)
            places = [S.num(str(rng.randint(1, 10)))] if rng.random() < 0.4 else []
            return S.call(rng.choice(['DEC2BIN', 'DEC2OCT', 'DEC2HEX']), [rng.choice([x, S.bin_('*', x, S.num('37')), S.neg(x), S.call('INT', [x])])] + places)
        if f == 'BIN2DEC':
            src = rng.choice([x, x, S.strlit(rng.choice(['101', '777', 'FF', '1111111111', '7777777777', 'FFFFFFFFFE', '12', 'ff', '1000000000', '']))])
            g = rng.choice(['BIN2DEC', 'OCT2DEC', 'HEX2DEC', 'BIN2OCT', 'BIN2HEX', 'OCT2BIN', 'OCT2HEX', 'HEX2BIN', 'HEX2OCT'])
            places = [S.num(str(rng.randint(1, 10)))] if rng.random() < 0.3 and not g.endswith('DEC') else []
            return S.call(g, [src] + places)
        if f == 'TRUEF':
            return S.bin_(rng.choice(['=', '+', '&']), S.call(rng.choice(['TRUE', 'FALSE']), []), x)
        if f == 'NEG':
            return S.neg(x)
        if f == 'PCT':
            return S.bin_('*', x, S.num(rng.choice(['50%', '200%', '2.5%'])))
        if f == 'ERRLIT':
            return S.bin_(rng.choice(['+', '&', '=']), x, {'k': 'err', 'v': rng.choice(['#N/A', '#DIV/0!', '#REF!'])})
        if f == 'NA':
            return S.call('IF', [S.bin_('>', x, S.num('1')), S.call('NA', []), x])
        if f == 'MID':
            return S.call(f, [x, S.num(str(rng.randint(0, 3))), S.num(str(rng.randint(0, 3)))])
        if f == 'RIGHT':
            return S.call(f, [x, S.num(str(rng.randint(0, 3)))])
        if f == 'CHOOSE':
            return S.call(f, [self.any_ref(home), self.expr(home, own, depth + 1), self.any_ref(home), S.strlit('c')])
        if f in ('COUNTIF', 'MATCH'):
            for _ in range(5):
                a, sh = self.range_on(home)
                if f == 'MATCH':
                    a['c2'] = a['c1']
                if self.range_ok(a, sh, own):
                    if f == 'COUNTIF':
                        crit = rng.choice([S.strlit('>0'), S.strlit('<>ab'), S.strlit('ab'), S.num('1'), S.strlit('<=2'), x])
                        return S.call(f, [a, crit])
                    return S.call(f, [x, a, S.num('0')])
            return x
        if f == 'LEFT':
            return S.call(f, [x, S.num(str(rng.randint(0, 3)))])
        if f == 'CONCAT':
            return S.call(f, [x, S.strlit('-'), self.any_ref(home)])
        if f == 'EXACT':
            return S.call(f, [x, self.any_ref(home)])
        return S.call(f, [x])

    def build(self):
        rng = self.rng
        for sh in self.sheets:
            for _ in range(rng.randint(2, 4)):
                k = self.free(sh)
                if k:
                    self.cells[k] = ('const', rconst(rng))
                    self.inputs.append(k)
        if rng.random() < 0.5:
            k = rng.choice(self.inputs)
            self.names[rng.choice(['Rate', 'total_1'])] = S.ref(k[1], k[2], k[0], True, True)
        if rng.random() < 0.4:
            sh = rng.choice(self.sheets)
            a = S.rng(1, 1, rng.randint(1, 2), rng.randint(2, 4), sh)
            a.update(a1=True, b1=True, a2=True, b2=True)
            self.names['Block'] = a
        nform = rng.randint(4, 10)
        texts = []
        for i in range(nform):
            k = self.free()
            if k is None:
                break
            if texts and rng.random() < 0.2:
                ast = copy.deepcopy(rng.choice(texts))        # the SAME formula text again, on whatever sheet this cell is
                if not self.acyclic_with(ast, k):
                    ast = self.expr(k[0], k)
            else:
                ast = self.expr(k[0], k)
            if not self.acyclic_with(ast, k):
                continue
            self.cells[k] = ('formula', ast)
            self.order.append(k)
            texts.append(ast)
        return self

    def mentions(self, ast, home):
        refs, names = fparse.refs_of(ast, home)
        for n in names:
            if n in self.names:
                r2, _ = fparse.refs_of(self.names[n], home)
                refs |= r2
        return refs

    def acyclic_with(self, ast, key):
        """the formula may only mention constants, blanks and formula cells created EARLIER"""
        for m in self.mentions(ast, key[0]):
            if m == key or (m not in self.cells and False):
                return False
            if m in self.cells and self.cells[m][0] == 'formula' and m not in self.order:
                return False
            if m == key:
                return False
        # a later formula must never land inside a range an earlier formula mentions: checked when it is placed
        for other in self.order:
            if key in self.mentions(self.cells[other][1], other[0]):
                return False
        return True


def closure(gen, content, key):
    need, todo = {}, [key]
    while todo:
        k = todo.pop()
        if k in need:
            continue
        if k not in content:
            continue
        need[k] = content[k]
        if content[k][0] == 'formula':
            todo += list(gen.mentions(content[k][1], k[0]))
    return need


def event_for(gen, content, key, res, stored, meta):
    need = closure(gen, content, key)
    cells = []
    for (sh, c, r), (kind, v) in sorted(need.items()):
        if (sh, c, r) == key:
            continue
        if kind == 'const':
            if v['t'] == 'blank':
                continue
            cells.append({'sheet': sh, 'col': c, 'row': r, 'v': v})
        else:
            cells.append({'sheet': sh, 'col': c, 'row': r, 'ast': v})
    used = set()
    for k, (kind, v) in need.items():
        if kind == 'formula':
            used |= fparse.refs_of(v, k[0])[1]
    e = {'ast': content[key][1], 'sheet': key[0], 'cells': cells,
         'names': [{'n': n, 'ast': gen.names[n]} for n in sorted(used) if n in gen.names], 'res': res,
         'addr': W.addr(key), 'text': S.formula(S.min_paren(content[key][1]))[:200], 'meta': meta}
    if stored is not None:
        e['stored'] = stored
    return e


def small(a):
    from harness.evalrec import small as sm
    return sm(a)


# cumulative thresholds of the history steps: evaluate, set, persist+restore, deepcopy, new evaluators, (rest) extract
MIXES = {'c04': (0.50, 0.75, 0.83, 0.88, 0.93),
         'c05': (0.75, 0.85, 0.88, 0.91, 0.98),
         'c12': (0.45, 0.62, 0.90, 0.94, 0.97),
         'c13': (0.40, 0.60, 0.65, 0.68, 0.72),
         'c03': (0.84, 0.92, 0.93, 0.95, 1.00)}      # references: evaluations by fresh evaluators, a few sets, no extraction
MIX_INDEX = {'c04': 0, 'c05': 1, 'c12': 2, 'c13': 3, 'c03': 4}      # (fixed: a new mix must not shift the seeds of the others)


def drive(seed, work, mix='c04'):
    """one workbook, one history -> list of events"""
    t_eval, t_set, t_persist, t_copy, t_new = MIXES[mix]
    rng = random.Random(seed)
    L = xl.lib()
    gen = Gen(rng).build()
    if not gen.order:
        return []
    content = dict(gen.cells)
    pycells = {}
    for k, (kind, v) in content.items():
        pycells[W.addr(k)] = xl.from_abs(v, 'native') if kind == 'const' else S.formula(S.min_paren(v))
    names = [(n, S.render(a)) for n, a in gen.names.items()]
    try:
        model = W.build_model(pycells, names, via='xlsx' if names or rng.random() < 0.3 else 'dict', work=work)
    except BaseException as e:      # noqa
        if isinstance(e, (KeyboardInterrupt, SystemExit)):
            raise
        return [{'build_failed': type(e).__name__ + ': ' + str(e)[:200], 'cells': {a: repr(v) for a, v in pycells.items()}, 'names': names}]
    evs = [L.Evaluator(model), L.Evaluator(model)]
    events, hist = [], []

    def do_eval(m, ev, key, tag):
        a = W.addr(key)
        try:
            res = xl.to_abs(ev.evaluate(a))
        except BaseException as e:      # noqa
            if isinstance(e, (KeyboardInterrupt, SystemExit)):
                raise
            res = xl.to_abs(e)
            res = {'t': 'exc', 'cls': res.get('cls', '?')}
        try:
            stored = xl.to_abs(m.get_cell_value(a))
        except BaseException as e:      # noqa
            if isinstance(e, (KeyboardInterrupt, SystemExit)):
                raise
            stored = {'t': 'exc', 'cls': type(e).__name__}
        if res.get('t') != 'exc' and not small(res):
            res = {'t': 'other', 'of': res.get('t')}
        if not small(stored) and stored.get('t') != 'exc':
            stored = None
        hist.append([tag, a])
        e = event_for(gen, content, key, res, stored if res.get('t') != 'exc' else None, {'seed': seed, 'history': list(hist)})
        if mix == 'c04' and m is model and any(h[0] in ('set', 'set-by-name') for h in hist):
            # C04 as it is stated: the response equals that of a FRESHLY COMPILED model holding the current contents - also where the
            # specification leaves the value open (AND / OR with an error value among the arguments, functions it does not model)
            try:
                pc = {W.addr(k): (xl.from_abs(v, 'native') if kind == 'const' else S.formula(S.min_paren(v))) for k, (kind, v) in content.items()
                      if not (kind == 'const' and v.get('t') == 'blank')}
                fm = W.build_model(pc, names, via='xlsx' if names else 'dict', work=work)
                try:
                    fr = xl.to_abs(L.Evaluator(fm).evaluate(a))
                except BaseException as ex:      # noqa
                    if isinstance(ex, (KeyboardInterrupt, SystemExit)):
                        raise
                    fr = {'t': 'exc', 'cls': xl.to_abs(ex).get('cls', '?')}
                if fr.get('t') != 'exc' and not small(fr):
                    fr = {'t': 'other', 'of': fr.get('t')}
                e['fresh'] = fr
            except xl.MachineryError:
                raise
            except BaseException:      # noqa  (the fresh workbook does not build: nothing to compare with)
                pass
        events.append(e)

    nsteps = rng.randint(5, 10)
    for step in range(nsteps):
        r = rng.random()
        if r < t_eval:
            key = rng.choice(gen.order)
            i = rng.randrange(2)
            do_eval(model, evs[i], key, f'evaluate[{i + 1}]')
        elif r < t_set:
            if rng.random() < 0.15:          # a cell nobody stored so far
                key = (rng.choice(gen.sheets), rng.randint(1, COLS), rng.randint(1, ROWS + 2))
                if key in content:
                    continue
            else:
                key = rng.choice(gen.inputs)
            old = content.get(key, ('const', {'t': 'blank'}))[1]
            v = rconst(rng)
            u = rng.random()
            if u < 0.25 and old.get('t') == 'num' and old['d'] == 1:      # values that collide with the stored one as Python values
                v = {1: B(True), 0: B(False), -1: N(-2), -2: N(-1)}.get(old['n'], v)
            elif u < 0.35 and old.get('t') == 'txt':
                v = T(xl.text_of(old).swapcase())
            elif u < 0.4 and old.get('t') == 'bool':
                v = N(1 if old['v'] else 0)
            nm = [n for n, t in gen.names.items() if t['k'] == 'ref' and (t['sheet'], t['col'], t['row']) == key]
            try:
                if nm and rng.random() < 0.5:
                    evs[0].set_cell_value(nm[0], xl.from_abs(v, 'native'))
                    hist.append(['set-by-name', nm[0], v])
                elif rng.random() < 0.3:      # the model's own setter (the evaluators are not told)
                    model.set_cell_value(W.addr(key), xl.from_abs(v, 'native'))
                    hist.append(['set', W.addr(key), v])
                else:
                    evs[rng.randrange(2)].set_cell_value(W.addr(key), xl.from_abs(v, 'native'))
                    hist.append(['set', W.addr(key), v])
            except BaseException as e:      # noqa
                if isinstance(e, (KeyboardInterrupt, SystemExit)):
                    raise
                events.append({'build_failed': 'set_cell_value raised ' + type(e).__name__ + ': ' + str(e)[:160], 'history': list(hist)})
                return events
            content[key] = ('const', v)
            if key not in gen.inputs:
                gen.inputs.append(key)
        elif r < t_persist:
            path = os.path.join(work, f'wbd-{os.getpid()}-{seed}.json' + ('.gz' if rng.random() < 0.3 else ''))
            try:
                model.persist_to_json_file(path)
                m2 = L.Model()
                m2.construct_from_json_file(path, build_code=True)
                model = m2
                evs = [L.Evaluator(model), L.Evaluator(model)]
                hist.append(['persist+restore'])
            except BaseException as e:      # noqa
                if isinstance(e, (KeyboardInterrupt, SystemExit)):
                    raise
                events.append({'build_failed': 'persist / restore raised ' + type(e).__name__ + ': ' + str(e)[:160], 'history': list(hist)})
                return events
            finally:
                if os.path.exists(path):
                    os.remove(path)
        elif r < t_copy:
            try:
                model = copy.deepcopy(model)
            except BaseException as e:      # noqa
                if isinstance(e, (KeyboardInterrupt, SystemExit)):
                    raise
                events.append({'build_failed': 'deepcopy raised ' + type(e).__name__ + ': ' + str(e)[:160], 'history': list(hist)})
                return events
            evs = [L.Evaluator(model), L.Evaluator(model)]
            hist.append(['deepcopy'])
        elif r < t_new:
            evs = [L.Evaluator(model), L.Evaluator(model)]
            hist.append(['new-evaluators'])
        else:
            focus = rng.sample(gen.order, min(len(gen.order), rng.randint(1, 3)))
            try:
                ext = L.ModelCompiler.extract(model, focus=[W.addr(k) for k in focus])
                ev2 = L.Evaluator(ext)
            except BaseException as e:      # noqa
                if isinstance(e, (KeyboardInterrupt, SystemExit)):
                    raise
                events.append({'build_failed': 'extract raised ' + type(e).__name__ + ': ' + str(e)[:160], 'history': list(hist)})
                return events
            hist.append(['extract', [W.addr(k) for k in focus]])
            for k in focus:
                do_eval(ext, ev2, k, 'evaluate[extracted]')
                hist.pop()
            hist.append(['(extracted model dropped)'])
    return events


class Worker:
    def __init__(self, work, mix='c04'):
        self.work, self.mix = work, mix

    def __call__(self, seeds):
        xl.lib()
        out = []
        for s in seeds:
            out += drive(s, self.work, self.mix)
        return out


def features(e, x, v):
    a = e['ast']
    last = e.get('meta', {}).get('history', [['?']])
    ops = sorted({h[0].split('[')[0] for h in last})
    return {'verdict': v, 'top': a.get('f') or a.get('op') or a['k'], 'history_ops': ops}


from harness.agree import agrees


def run_driver(run, count, name='wbdrive', mix='c04'):
    """drive `count` random workbooks; TLC judges every evaluation; returns Counter of verdicts"""
    import collections
    from harness import pool, trace
    base = run.seed * 100003 + 17 + 1000000 * MIX_INDEX[mix]
    seeds = [base + i for i in range(count)]
    events = []
    for part in pool.pmap(Worker(run.work, mix), seeds, nchunks=64):
        events += part
    failures = [e for e in events if 'build_failed' in e]
    events = [e for e in events if 'build_failed' not in e]
    for f in failures[:20]:
        run.disagree('driver', {k: f[k] for k in f if k != 'build_failed'}, 'the workbook builds and the call returns', f['build_failed'],
                     {'clause': 'call-raised', 'what': f['build_failed'].split(':')[0][:60]}, clause='call-raised')
    run.evaluations += len(events)
    nfresh = 0
    for e in events:
        if 'fresh' in e:
            nfresh += 1
            a, b = e['res'], e['fresh']
            same = a == b or (a.get('t') != 'exc' and b.get('t') != 'exc' and a.get('t') != 'other' and b.get('t') != 'other'
                              and agrees(a, b) is not False and agrees(b, a) is not False) or (a.get('t') == 'other' and b.get('t') == 'other')
            if not same:
                run.disagree('driver', {k: e[k] for k in ('addr', 'text', 'meta', 'cells')}, {'the response of a freshly compiled model with the current contents': b}, a,
                             {'clause': 'differs-from-fresh-model', 'observed': a.get('t'), 'fresh': b.get('t')}, clause='differs-from-fresh-model')
    run.notes[name + '_compared_with_fresh_model'] = nfresh
    clean = [{k: e[k] for k in ('ast', 'sheet', 'cells', 'names', 'res', 'addr', 'text', 'meta')} | ({'stored': e['stored']} if 'stored' in e else {}) for e in events]
    res = trace.validate(run, clean, module='Trace_Local', name=name, kind='driver', features=features, batch=3000)
    verdicts = collections.Counter(v for _, v, _ in res)
    run.notes[name] = {'mix': mix, 'workbooks': count, 'evaluations': len(events), 'verdicts': dict(verdicts), 'calls_that_raised': len(failures)}
    return verdicts

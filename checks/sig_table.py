"""Signature / witness table of the registered functions (source of spec/XlSig.tla).

For every function that takes arguments: the parameter kinds and one VALID
witness argument tuple (the function returns a non-error value on it), so that
"an error in position i, all other positions valid" is well defined (C07) and
"the same value in another spelling" has a base line (C08).

kinds, one letter per witness argument:
  n numeric scalar   t text scalar   a anything scalar   d date scalar
  L lazily selected value (not injected)   r range given to an aggregating function   R lookup table (elements not injected)    v element of a variadic numeric list   s element of a variadic text list
"""
from fractions import Fraction


def N(x, d=1):
    fr = Fraction(x, d) if not isinstance(x, float) else Fraction(x).limit_denominator(1000)
    return {'t': 'num', 'n': fr.numerator, 'd': fr.denominator}


def T(s):
    return {'t': 'txt', 'v': [ord(c) for c in s]}


def D(serial):
    return {'t': 'date', 's': serial, 'fn': 0, 'fd': 1}


def R(rows):
    return {'t': 'arr', 'v': [[x if isinstance(x, dict) else N(x) for x in row] for row in rows]}


B = {'t': 'bool', 'v': False}

SIG = [
    # --- math, one numeric argument
    *[(f, 'n', [N(1, 2)]) for f in ('ABS', 'ACOS', 'ASIN', 'ASINH', 'ATAN', 'COS', 'COSH', 'DEGREES', 'EXP', 'RADIANS', 'SIGN',
                                     'SIN', 'TAN', 'INT', 'EVEN')],
    ('ACOSH', 'n', [N(2)]), ('FACT', 'n', [N(5)]), ('FACTDOUBLE', 'n', [N(5)]), ('LN', 'n', [N(2)]), ('LOG10', 'n', [N(100)]),
    ('SQRT', 'n', [N(4)]), ('SQRTPI', 'n', [N(2)]), ('ISEVEN', 'n', [N(4)]), ('ISODD', 'n', [N(3)]),
    ('DAY', 'n', [N(44000)]), ('MONTH', 'n', [N(44000)]), ('YEAR', 'n', [N(44000)]),
    ('OP_NEG', 'n', [N(3)]), ('OP_PERCENT', 'n', [N(3)]),
    # --- two numeric arguments
    ('ATAN2', 'nn', [N(1), N(2)]), ('CEILING', 'nn', [N(5, 2), N(1)]), ('FLOOR', 'nn', [N(5, 2), N(1)]), ('MOD', 'nn', [N(7), N(3)]),
    ('POWER', 'nn', [N(2), N(3)]), ('LOG', 'nn', [N(8), N(2)]), ('ROUND', 'nn', [N(2567, 1000), N(1)]),
    ('ROUNDUP', 'nn', [N(2567, 1000), N(1)]), ('ROUNDDOWN', 'nn', [N(2567, 1000), N(1)]), ('TRUNC', 'nn', [N(2567, 1000), N(1)]),
    ('WEEKDAY', 'nn', [N(44000), N(2)]),
    ('OP_ADD', 'aa', [N(6), N(3)]), ('OP_SUB', 'aa', [N(6), N(3)]), ('OP_MUL', 'aa', [N(6), N(3)]), ('OP_DIV', 'aa', [N(6), N(3)]),
    ('OP_EQ', 'aa', [N(6), N(3)]), ('OP_NE', 'aa', [N(6), N(3)]), ('OP_LT', 'aa', [N(6), N(3)]), ('OP_GT', 'aa', [N(6), N(3)]),
    ('OP_LE', 'aa', [N(6), N(3)]), ('OP_GE', 'aa', [N(6), N(3)]), ('OP_POW', 'nn', [N(6), N(3)]), ('OP_CONCAT', 'tt', [T('a'), T('b')]),
    # --- dates
    ('DATE', 'nnn', [N(2020), N(2), N(3)]), ('DATEDIF', 'ddt', [D(43000), D(44000), T('D')]), ('DAYS', 'dd', [D(44000), D(43000)]),
    ('EDATE', 'dn', [D(44000), N(1)]), ('EOMONTH', 'dn', [D(44000), N(1)]), ('ISOWEEKNUM', 'd', [D(44000)]),
    ('YEARFRAC', 'ddn', [D(43000), D(44000), N(3)]),
    # --- text
    ('LEN', 't', [T('ab c')]), ('UPPER', 't', [T('ab c')]), ('LOWER', 't', [T('Ab C')]), ('TRIM', 't', [T(' ab  c ')]),
    ('LEFT', 'tn', [T('abc'), N(2)]), ('RIGHT', 'tn', [T('abc'), N(2)]), ('MID', 'tnn', [T('abcd'), N(2), N(2)]),
    ('FIND', 'ttn', [T('b'), T('abc'), N(1)]), ('REPLACE', 'tnnt', [T('abcd'), N(2), N(1), T('X')]), ('EXACT', 'tt', [T('a'), T('a')]),
    # --- engineering
    ('DEC2BIN', 'an', [N(5), N(8)]), ('DEC2OCT', 'an', [N(5), N(8)]), ('DEC2HEX', 'an', [N(5), N(8)]),
    ('BIN2DEC', 'a', [T('101')]), ('BIN2OCT', 'an', [T('101'), N(8)]), ('BIN2HEX', 'an', [T('101'), N(8)]),
    ('OCT2DEC', 'a', [T('17')]), ('OCT2BIN', 'an', [T('17'), N(8)]), ('OCT2HEX', 'an', [T('17'), N(8)]),
    ('HEX2DEC', 'a', [T('1F')]), ('HEX2BIN', 'an', [T('1F'), N(8)]), ('HEX2OCT', 'an', [T('1F'), N(8)]),
    # --- financial
    ('PMT', 'nnnnn', [N(1, 10), N(5), N(1000), N(0), N(0)]), ('PV', 'nnnnn', [N(1, 10), N(5), N(-100), N(0), N(0)]),
    ('SLN', 'nnn', [N(1000), N(100), N(9)]), ('VDB', 'nnnnn', [N(1000), N(100), N(5), N(0), N(1)]),
    ('NPV', 'nvvv', [N(1, 10), N(-100), N(60), N(70)]),
    ('IRR', 'r', [R([[-100], [60], [70]])]),
    ('XNPV', 'nrr', [N(1, 10), R([[-100], [60], [70]]), R([[D(43831)], [D(44197)], [D(44562)]])]),
    # --- lookup
    ('CHOOSE', 'nLLL', [N(2), T('x'), T('y'), T('z')]),
    ('MATCH', 'aRa', [N(2), R([[1], [2], [3]]), N(0)]),
    ('VLOOKUP', 'aRna', [N(2), R([[1, 10], [2, 20], [3, 30]]), N(2), B]),
    # --- aggregates over argument lists and ranges
    ('SUM', 'vvv', [N(1), N(2), N(4)]), ('SUM', 'rv', [R([[1, 2, 4]]), N(8)]), ('SUM', 'r', [R([[1, 2], [4, 8]])]),
    ('AVERAGE', 'vvv', [N(1), N(2), N(6)]), ('AVERAGE', 'rv', [R([[1, 2, 6]]), N(3)]),
    ('MIN', 'vvv', [N(1), N(2), N(4)]), ('MIN', 'rv', [R([[1], [2], [4]]), N(8)]),
    ('MAX', 'vvv', [N(1), N(2), N(4)]), ('MAX', 'rv', [R([[1], [2], [4]]), N(8)]),
    ('SUMPRODUCT', 'rr', [R([[1, 2, 3]]), R([[4, 5, 6]])]),
    ('CONCAT', 'sss', [T('a'), T('b'), T('c')]), ('CONCAT', 'rs', [R([[T('a'), T('b')]]), T('c')]),
    ('CONCATENATE', 'sss', [T('a'), T('b'), T('c')]),
]

# functions that inspect errors / count values / evaluate lazily: an error argument is NOT simply handed on
EXCLUDED = ['ISERROR', 'ISERR', 'ISNA', 'COUNT', 'COUNTA', 'COUNTIF', 'COUNTIFS', 'SUMIF', 'SUMIFS', 'IF', 'AND', 'OR', 'NOT',
            'ISNUMBER', 'ISTEXT', 'ISBLANK']
# no arguments or volatile
NOARGS = ['PI', 'NA', 'TRUE', 'FALSE', 'NOW', 'TODAY', 'RAND', 'RANDBETWEEN', 'XIRR']


def tla_value(a):
    t = a['t']
    if t == 'num':
        return f"[t |-> \"num\", n |-> {a['n']}, d |-> {a['d']}]"
    if t == 'txt':
        return f"[t |-> \"txt\", v |-> <<{', '.join(map(str, a['v']))}>>]"
    if t == 'bool':
        return f"[t |-> \"bool\", v |-> {'TRUE' if a['v'] else 'FALSE'}]"
    if t == 'date':
        return f"[t |-> \"date\", s |-> {a['s']}, fn |-> {a['fn']}, fd |-> {a['fd']}]"
    if t == 'blank':
        return '[t |-> "blank"]'
    if t == 'arr':
        return '[t |-> "arr", v |-> <<' + ', '.join('<<' + ', '.join(tla_value(x) for x in row) + '>>' for row in a['v']) + '>>]'
    raise ValueError(t)


def generate(path):
    lines = ['------------------------------- MODULE XlSig -------------------------------',
             '(* GENERATED by checks/sig_table.py (python -m checks.sig_table): for every registered function with *)',
             '(* arguments, the parameter kinds and one valid witness argument tuple.                              *)',
             'EXTENDS Integers, Sequences',
             'Witness == <<']
    rows = []
    for f, kinds, args in SIG:
        rows.append(f'  [f |-> "{f}", kinds |-> <<{", ".join(chr(34) + k + chr(34) for k in kinds)}>>, args |-> <<{", ".join(tla_value(a) for a in args)}>>]')
    lines.append(',\n'.join(rows))
    lines.append('>>')
    lines.append('ErrorOpaque == {' + ', '.join(f'"{f}"' for f in EXCLUDED) + '}')
    lines.append('=============================================================================')
    open(path, 'w').write('\n'.join(lines) + '\n')


if __name__ == '__main__':
    import os
    generate(os.path.join(os.path.dirname(os.path.dirname(os.path.abspath(__file__))), 'spec', 'XlSig.tla'))
    print(len(SIG), 'witnesses')

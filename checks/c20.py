"""C20 - financial functions satisfy their defining equations.

spec -> code: every done state of MC_C20 (exact rational expectations; IRR/XIRR
cases built by construction around a chosen root) is replayed through direct
calls (native, wrapped and alternating native/wrapped spellings - a native
argument meeting a Number goes through the reflected operators of the Excel
types) and compiled formulas (=IRR(A200:A204)).
code -> spec: seeded calls beyond the TLC instance (vectors up to 30, fine
rates across (-0.9, 10], irregular dates, long and fractional nper) are
recorded together with a residual measured against the defining equation and
validated by TLC with Trace_C20 (domain, exact value where 32-bit rationals
suffice, bound on the residual / root bracket otherwise).
"""
import json
import math
import os
import random
from fractions import Fraction

from harness import calls, pool, xl
from harness.agree import agrees
from harness.pool import dump_blocks, parse_block
from harness.xl import MachineryError

ROOT_TOL = 1e-6          # the property: IRR / XIRR "to within 1e-6"
REL = 1e-9               # DESIGN 4.3: doubles agree to a relative 1e-9
ERR_CAP = 2_000_000_000


# ---------------------------------------------------------------------------
# abstract values
# ---------------------------------------------------------------------------
def N(x):
    fr = Fraction(x)
    return {'t': 'num', 'n': fr.numerator, 'd': fr.denominator}


def D(s):
    return {'t': 'date', 's': int(s), 'fn': 0, 'fd': 1}


def date_num(a):
    """a date argument (a date, or its serial number possibly with a time of day) as a Fraction of days"""
    return Fraction(a['s']) if a['t'] == 'date' else Fraction(a['n'], a['d'])


def col(xs):
    return {'t': 'arr', 'v': [[x] for x in xs]}


def row(xs):
    return {'t': 'arr', 'v': [list(xs)]}


def fr_of(a):
    return Fraction(a['n'], a['d'])


def flat(a):
    v = a['v']
    if len(v) == 1:
        return list(v[0])
    return [r[0] for r in v]


def val_of(obs):
    """observed abstract number -> python float (None if not a number)"""
    if obs['t'] == 'num':
        return obs['n'] / obs['d']
    if obs['t'] == 'float':
        try:
            x = float(obs['v'])
        except ValueError:
            return None
        return x if math.isfinite(x) else None
    return None


# ---------------------------------------------------------------------------
# the defining equations in Python: exact Fractions wherever every exponent
# is a whole number, floats (math.fsum) where an exponent is fractional
# ---------------------------------------------------------------------------
def npv_terms(r, cs, es):
    return [c / (1 + r) ** e for c, e in zip(cs, es)]


def xnpv_exps(ds):
    return [Fraction(d - ds[0], 365) for d in ds]


def exact_exps(r, es):
    return r == 0 or all(e.denominator == 1 for e in es)


def disc_sum(r, cs, es):
    """(value, kind): sum c_i/(1+r)^e_i"""
    if exact_exps(r, es):
        if r == 0:
            return sum(cs, Fraction(0)), 'fraction'
        return sum(npv_terms(r, cs, [int(e) for e in es]), Fraction(0)), 'fraction'
    rf = float(r)
    return math.fsum(float(c) / (1.0 + rf) ** float(e) for c, e in zip(cs, es)), 'float'


def reference(f, args):
    """(value, kind, formula) for the closed-form functions; args abstract, inside FinDomain"""
    if f == 'NPV':
        r = fr_of(args[0])
        cs = [fr_of(a) for a in args[1:]]
        v, k = disc_sum(r, cs, [Fraction(i + 1) for i in range(len(cs))])
        return v, k, 'sum c_i/(1+r)^i'
    if f == 'XNPV':
        r = fr_of(args[0])
        cs = [fr_of(a) for a in flat(args[1])]
        ds = [date_num(a) for a in flat(args[2])]
        v, k = disc_sum(r, cs, xnpv_exps(ds))
        return v, k, 'sum v_i/(1+r)^((d_i-d_1)/365)'
    if f == 'SLN':
        c, s, life = (fr_of(a) for a in args)
        return (c - s) / life, 'fraction', '(cost-salvage)/life'
    if f in ('PMT', 'PV'):
        r, n, x = fr_of(args[0]), fr_of(args[1]), fr_of(args[2])
        fv = fr_of(args[3]) if len(args) > 3 else Fraction(0)
        ty = int(fr_of(args[4])) if len(args) > 4 else 0
        exact = n.denominator == 1
        if exact:
            n = int(n)
            g = (1 + r) ** n
            kind = 'fraction'
        else:
            r, x, fv = float(r), float(x), float(fv)
            n = float(n)
            g = (1.0 + r) ** n
            kind = 'float'
        if f == 'PMT':
            if r == 0:
                return -(x + fv) / n, kind, '-(pv+fv)/n'
            return -(x * g + fv) * r / (g - 1), kind, '-(pv(1+r)^n+fv) r/((1+r)^n-1)'
        if r == 0:
            return -(fv + x * n), kind, '-(fv+pmt n)'
        return -(fv + x * (1 + r * ty) * (g - 1) / r) / g, kind, '-(fv+pmt(1+r type)((1+r)^n-1)/r)/(1+r)^n'
    raise MachineryError(f'no reference for {f}')


def rel_err_e12(o, ref):
    """distance of o from ref as agrees() measures it, in units of 1e-12 (0 = within the absolute floor)"""
    d = abs(o - float(ref))
    if d <= 1e-12:
        return 0
    if ref == 0:
        return ERR_CAP
    return int(min(ERR_CAP, d / abs(float(ref)) * 1e12))


def in_domain_root(cs):
    neg = [i for i, c in enumerate(cs) if c < 0]
    pos = [i for i, c in enumerate(cs) if c > 0]
    return bool(neg) and bool(pos) and max(neg) < min(pos) and sum(cs) > 0


# ---------------------------------------------------------------------------
# comparison of an observed result with an exact expectation
# ---------------------------------------------------------------------------
def ok_against(f, obs, exp):
    if f in ('IRR', 'XIRR') and exp['t'] == 'num':
        o = val_of(obs)
        return o is not None and abs(o - exp['n'] / exp['d']) <= ROOT_TOL
    return agrees(obs, exp, REL)


def check_reference(case, exp):
    """the Python reference must reproduce the specification exactly where both are exact"""
    f, args = case['f'], case['args']
    if exp['t'] != 'num':
        return None
    e = Fraction(exp['n'], exp['d'])
    if f in ('IRR', 'XIRR'):
        cs = [fr_of(a) for a in flat(args[0])]
        es = [Fraction(i) for i in range(len(cs))] if f == 'IRR' else xnpv_exps([date_num(a) for a in flat(args[1])])
        v, k = disc_sum(e, cs, es)
        return (v == 0) if k == 'fraction' else None
    v, k, _ = reference(f, args)
    return (v == e) if k == 'fraction' else None


SCALAR_FUNCS = ('NPV', 'PMT', 'PV', 'SLN')
# spellings of the scalar arguments, cycled over the positions: n = native, w = ExcelType
MIXES = ('mix-nw', 'mix-wn')
SLN_MIXES = ('mix-nnw', 'mix-nww', 'mix-wnn', 'mix-wwn')     # SLN does its arithmetic on the arguments as passed


def call_path(f, args, path):
    """direct call with the spelling of the scalar arguments given by path:
    direct = native, wrapped = ExcelType, mix-<pattern> = per position (a native
    argument meets a Number: the reflected operators of the Excel types)"""
    if path == 'direct':
        return calls.direct_call(f, args, 'native')
    if path == 'wrapped':
        return calls.direct_call(f, args, 'wrapped')
    L = xl.lib()
    pat = path[4:]
    try:
        pargs = [xl.from_abs(a, 'native' if a['t'] == 'arr' or pat[i % len(pat)] == 'n' else 'wrapped')
                 for i, a in enumerate(args)]
        return xl.to_abs(L.xl.FUNCTIONS[f](*pargs))
    except BaseException as e:      # noqa
        if isinstance(e, (KeyboardInterrupt, SystemExit)):
            raise
        return xl.to_abs(e)


def features(case, exp, obs, path):
    f = calls.default_features(case, exp, obs, path)
    a = case['args']
    if case['f'] in ('NPV', 'PMT', 'PV', 'XNPV') and a and a[0]['t'] == 'num':
        f['rate'] = 'neg' if a[0]['n'] < 0 else 'zero' if a[0]['n'] == 0 else 'le1' if a[0]['n'] <= a[0]['d'] else 'gt1'
    if case['f'] in ('IRR', 'XIRR') and exp.get('t') == 'num':
        f['root'] = 'le1' if exp['n'] <= exp['d'] else 'gt1'
    f.pop('argtypes', None)
    return f


class FinReplayer(calls.Replayer):
    def __call__(self, blocks):
        out = {'n': 0, 'calls': 0, 'open': 0, 'dis': [], 'samples': [], 'byf': {}, 'ref_ok': 0, 'ref_bad': []}
        for b in blocks:
            st = parse_block(b) if isinstance(b, str) else b
            case, exp = st[self.case_var], st[self.res_var]
            case = {'f': case['f'], 'args': case['args']}
            out['n'] += 1
            key = case['f'] + ('' if exp['t'] != 'open' else ':open')
            out['byf'][key] = out['byf'].get(key, 0) + 1
            if exp['t'] == 'open':
                out['open'] += 1
                continue
            rc = check_reference(case, exp)
            if rc is True:
                out['ref_ok'] += 1
            elif rc is False:
                out['ref_bad'].append(case)
            for path in self.paths:
                stored = None
                if path == 'formula':
                    obs, stored, text = calls.formula_call(case['f'], case['args'])
                    if obs is None:
                        continue
                else:
                    if path in SLN_MIXES and case['f'] != 'SLN':
                        continue
                    if path.startswith('mix-') and case['f'] not in SCALAR_FUNCS:
                        continue
                    obs = call_path(case['f'], case['args'], path)
                    text = None
                out['calls'] += 1
                ok = ok_against(case['f'], obs, exp)
                if len(out['samples']) < self.nsamples and path == self.paths[-1]:
                    out['samples'].append({'case': case, 'expected': exp, 'observed': obs, 'path': path, 'formula': text})
                if ok is False:
                    out['dis'].append({'case': case, 'exp': exp, 'obs': obs, 'path': path, 'formula': text,
                                       'features': self.features(case, exp, obs, path)})
                elif stored is not None and ok_against(case['f'], stored, exp) is False:
                    out['dis'].append({'case': case, 'exp': exp, 'obs': stored, 'path': 'formula-stored', 'formula': text,
                                       'features': self.features(case, exp, stored, 'formula-stored')})
        return out


def replay_dump(run, blocks, replayer):
    results = pool.pmap(replayer, blocks)
    byf = {}
    ref_ok = 0
    for r in results:
        run.evaluations += r['calls']
        run.undetermined += r['open']
        run.traces += r['n'] - r['open']
        run.nontrivial_count += r['n'] - r['open']
        ref_ok += r['ref_ok']
        if r['ref_bad']:
            raise MachineryError(f"Python reference disagrees with the specification on {json.dumps(r['ref_bad'][0])}")
        for k, v in r['byf'].items():
            byf[k] = byf.get(k, 0) + v
        for s in r['samples']:
            run.sample(s)
        for d in r['dis']:
            run.disagree('call', d['case'], d['exp'], d['obs'], d['features'], clause=d['path'],
                         repro=calls.repro_text(d))
    return byf, ref_ok


# ---------------------------------------------------------------------------
# code -> spec: the seeded driver
# ---------------------------------------------------------------------------
COARSE = [Fraction(-1, 2), Fraction(-1, 4), Fraction(-1, 10), Fraction(0), Fraction(1, 100), Fraction(1, 20),
          Fraction(1, 10), Fraction(1, 5), Fraction(1, 4), Fraction(1, 2), Fraction(1), Fraction(2), Fraction(3),
          Fraction(10)]
ROOTGRID = [Fraction(1, 100), Fraction(1, 20), Fraction(1, 10), Fraction(1, 5), Fraction(1, 4), Fraction(1, 2),
            Fraction(1), Fraction(2), Fraction(3), Fraction(10)]


def fine_rate(rng, positive=False):
    """a rate with four decimals across (-0.9, 10] (denser where rates usually live)"""
    u = rng.random()
    if u < 0.08:
        r = Fraction(0)
    elif u < 0.14:        # tiny but non-zero rates (daily / continuous compounding): NOT rate 0
        r = Fraction(rng.choice([-1, 1, 1]) * rng.randint(1, 99), 10 ** rng.choice([6, 7, 8]))
    elif u < 0.60:
        r = Fraction(rng.randint(1, 5000), 10000)
    elif u < 0.75:
        r = Fraction(rng.randint(-8999, -1), 10000)
    elif u < 0.92:
        r = Fraction(rng.randint(5000, 30000), 10000)
    else:
        r = Fraction(rng.randint(30000, 100000), 10000)
    if positive and r <= 0:
        r = Fraction(rng.randint(1, 5000), 10000)
    return r


def cents(rng, lo, hi):
    return Fraction(rng.randint(int(lo * 100), int(hi * 100)), 100)


def flows_any(rng, n, big):
    if big:
        return [cents(rng, -100000, 100000) if rng.random() > 0.1 else Fraction(0) for _ in range(n)]
    return [Fraction(rng.choice([-100, -10, 0, 10, 60, 100, 25, -40])) for _ in range(n)]


def spell_dates(rng, ds):
    """dates as dates, as whole serial numbers, or as serial numbers with a time of day"""
    u = rng.random()
    if min(ds) < 61:
        u = 0.6 + 0.4 * u        # no calendar date for serial 60 and below 1: numbers only
    if u < 0.6:
        return [D(s) for s in ds]
    if u < 0.8:
        return [N(Fraction(s)) for s in ds]
    return [N(Fraction(s) + Fraction(rng.randint(0, 3), 4)) for s in ds]


def dates_inc(rng, n, yearly=False):
    s = rng.randint(36526, 45000) if rng.random() < 0.9 else rng.randint(40, 70)        # also around the 1900 leap-day gap
    out = [s]
    for _ in range(n - 1):
        s += 365 * rng.randint(1, 2) if yearly else rng.choice([1, 7, 30, 31, 90, 182, 365, 366, rng.randint(1, 400)])
        out.append(s)
    return out


def root_case(rng, small, n, exps):
    """flows with one sign change and positive sum whose NPV at the chosen root is 0 (up to cent rounding when big)"""
    for _ in range(50):
        if small:
            r = rng.choice(ROOTGRID)
            rest = [Fraction(rng.choice([0, 10, 60, 100, 25])) for _ in range(n - 1)]
            k = rng.choice([0, 0, 1])          # additional outlays after the first
            for i in range(min(k, len(rest))):
                rest[i] = Fraction(rng.choice([-10, -5]))
        else:
            r = fine_rate(rng, positive=True)
            rest = [cents(rng, 0, 100000) if rng.random() > 0.15 else Fraction(0) for _ in range(n - 1)]
            k = rng.choice([0, 0, 0, 1, 2])
            for i in range(min(k, len(rest))):
                rest[i] = -cents(rng, 0, 2000)
        if all(e.denominator == 1 for e in exps):
            c0 = -sum(npv_terms(r, rest, [int(e) for e in exps[1:]]), Fraction(0))
        else:
            c0 = Fraction(-math.fsum(float(c) / (1.0 + float(r)) ** float(e) for c, e in zip(rest, exps[1:])))
        if not small or c0.denominator >= 2 ** 31 or abs(c0.numerator) >= 2 ** 31:
            c0 = Fraction(round(c0 * 100), 100)
        cs = [c0] + rest
        if in_domain_root(cs) and abs(c0.numerator) < 2 ** 31:
            return cs, r
    return None, None


def driver(seed, count):
    rng = random.Random(seed * 7919 + 20)
    ev = []
    while len(ev) < count:
        i = len(ev)
        f = rng.choice(['NPV', 'NPV', 'PMT', 'PV', 'PV', 'SLN', 'XNPV', 'XNPV', 'IRR', 'IRR', 'XIRR', 'XIRR'])
        small = rng.random() < 0.35
        rate = rng.choice(COARSE) if small else fine_rate(rng)
        meta = {}
        if f == 'NPV':
            n = rng.randint(1, 5) if small else rng.choice([6, 10, 17, 24, 30, rng.randint(1, 30)])
            args = [N(rate)] + [N(c) for c in flows_any(rng, n, not small)]
        elif f in ('PMT', 'PV'):
            if small:
                nper = Fraction(rng.randint(1, 8))
            elif rng.random() < 0.7:
                nper = Fraction(rng.choice([12, 24, 60, 120, 240, 360, rng.randint(1, 360)]))
                if rate > 1 or rate < Fraction(-1, 2):      # keep (1+r)^nper (and the result) inside the double range
                    nper = min(nper, Fraction(60))
            else:
                nper = Fraction(rng.randint(1, 240), rng.choice([2, 4]))
                if rate > 1 or rate < Fraction(-1, 2):
                    nper = min(nper, Fraction(121, 2))
            amt = Fraction(rng.choice([-100, -10, 10, 60, 100, 1000])) if small else cents(rng, -500000, 500000)
            if amt == 0:
                amt = Fraction(1)
            args = [N(rate), N(nper), N(amt)]
            u = rng.random()
            if u > 0.3:
                args.append(N(Fraction(rng.choice([-100, 0, 60, 1000])) if small else cents(rng, -500000, 500000)))
            if u > 0.6:
                args.append(N(rng.choice([0, 1]) if f == 'PV' else rng.choice([0, 0, 0, 1])))
        elif f == 'SLN':
            life = Fraction(rng.randint(1, 50)) if rng.random() < 0.7 else Fraction(rng.randint(1, 200), rng.choice([2, 4, 3]))
            if rng.random() < 0.05:
                life = Fraction(rng.choice([0, -1]))           # left open
            args = [N(cents(rng, 0, 1000000)), N(cents(rng, 0, 100000)), N(life)]
        elif f == 'XNPV':
            n = rng.randint(1, 4) if small else rng.choice([5, 12, 30, rng.randint(1, 30)])
            ds = dates_inc(rng, n, yearly=small and rng.random() < 0.7)
            shape = row if rng.random() < 0.2 and n <= 20 else col
            shape2 = (col if shape is row else row) if rng.random() < 0.15 and n <= 20 else shape     # flows in a row, dates in a column
            args = [N(rate), shape([N(c) for c in flows_any(rng, n, not small)]), shape2(spell_dates(rng, ds))]
        elif f == 'IRR':
            n = rng.randint(2, 5) if small else rng.choice([3, 6, 12, 20, 30, rng.randint(2, 30)])
            if rng.random() < 0.85:
                cs, r = root_case(rng, small, n, [Fraction(k) for k in range(n)])
                if cs is None:
                    continue
                meta = {'root': str(r)}
            else:       # not by construction: any outlay followed by larger returns
                cs = [-cents(rng, 1, 100000)] + [cents(rng, 0, 60000) for _ in range(n - 1)]
                if rng.random() < 0.4:      # the same in whole millions (a root is a root whatever the unit of the amounts)
                    cs = [Fraction(-rng.randint(10 ** 6, 15 * 10 ** 8))] + [Fraction(rng.randint(0, 9 * 10 ** 8)) for _ in range(n - 1)]
                if not in_domain_root(cs):
                    continue
            shape = row if rng.random() < 0.2 and n <= 20 else col
            args = [shape([N(c) for c in cs])]
        else:
            n = rng.randint(2, 4) if small else rng.choice([3, 6, 12, 20, 30, rng.randint(2, 30)])
            ds = dates_inc(rng, n, yearly=small)
            dargs = spell_dates(rng, ds)
            ds = [date_num(a) for a in dargs]
            if rng.random() < 0.85:
                cs, r = root_case(rng, small, n, xnpv_exps(ds))
                if cs is None:
                    continue
                meta = {'root': str(r)}
            else:
                cs = [-cents(rng, 1, 100000)] + [cents(rng, 0, 60000) for _ in range(n - 1)]
                if rng.random() < 0.4:
                    cs = [Fraction(-rng.randint(10 ** 6, 15 * 10 ** 8))] + [Fraction(rng.randint(0, 9 * 10 ** 8)) for _ in range(n - 1)]
                if not in_domain_root(cs):
                    continue
            args = [col([N(c) for c in cs]), (row if rng.random() < 0.1 and n <= 20 else col)(dargs)]
        path = ('formula', 'wrapped', 'direct', 'mix', 'formula', 'mix')[i % 6]
        if path == 'mix':
            path = rng.choice(MIXES + (SLN_MIXES if f == 'SLN' else ())) if f in SCALAR_FUNCS else rng.choice(['wrapped', 'direct'])
        e = {'f': f, 'args': args, 'path': path}
        if meta:
            e['meta'] = meta
        ev.append(e)
    return ev


def sign_at(f, args, r):
    """sign of NPV (IRR) / XNPV (XIRR) of the flows at rate r (a Fraction), and the arithmetic used"""
    cs = [fr_of(a) for a in flat(args[0])]
    es = [Fraction(i) for i in range(len(cs))] if f == 'IRR' else xnpv_exps([date_num(a) for a in flat(args[1])])
    if r <= -1:
        return 1, 'fraction'        # NPV -> +inf as r -> -1 for flows ending in returns
    v, kind = disc_sum(r, cs, es)
    return (1 if v > 0 else -1 if v < 0 else 0), kind


def measure(f, args, res):
    """aux of a trace event: the residual of the observed result against the defining equation"""
    aux = {'err': ERR_CAP, 'slo': -2, 'shi': 2, 's10': 0, 'ref': 'none', 'formula': 'none'}
    o = val_of(res)
    try:
        if f in ('IRR', 'XIRR'):
            cs = [fr_of(a) for a in flat(args[0])]
            if len(args) != (1 if f == 'IRR' else 2) or not in_domain_root(cs):
                return aux
            aux['s10'], aux['ref'] = sign_at(f, args, Fraction(10))
            if o is not None:
                aux['slo'] = sign_at(f, args, Fraction(o) - Fraction(ROOT_TOL))[0]
                aux['shi'] = sign_at(f, args, Fraction(o) + Fraction(ROOT_TOL))[0]
                aux['formula'] = 'sign of NPV at res -/+ 1e-6'
        elif o is not None:
            v, kind, formula = reference(f, args)
            aux.update(err=rel_err_e12(o, v), ref=kind, formula=formula)
    except (ZeroDivisionError, OverflowError, ValueError, IndexError, KeyError, TypeError):
        pass            # outside the domain: TLC says "open" from the arguments alone
    return aux


def record(chunk):
    out = []
    for e in chunk:
        if e['path'] == 'formula':
            res, stored, text = calls.formula_call(e['f'], e['args'])
            e = dict(e, formula=[ord(c) for c in text])
        else:
            res = call_path(e['f'], e['args'], e['path'])
        out.append(dict(e, res=res, aux=measure(e['f'], e['args'], res)))
    return out


def history_events():
    """financial formulas whose arguments are FORMULA cells, re-evaluated after an input two levels below was set (the result is
    the function of the current flows / amounts): rates 0, 1 (100%) and -1/2 keep every value a short rational"""
    from harness import syntax as S
    evs = []
    for rate in ('1', '0', '-0.5'):
        for amounts in ((700, 1400, 700), (-800, 0, 1600), (64, 32, 64)):
            evs.append({'kind': 'pv-of-pmt', 'rate': rate, 'amounts': amounts})
            evs.append({'kind': 'npv-of-growing', 'rate': rate, 'amounts': amounts})
    return evs


def record_history(chunk):
    from harness import syntax as S
    L = xl.lib()
    out = []
    for e in chunk:
        if e['kind'] == 'pv-of-pmt':      # A1 rate, A2 periods, A3 amount; B1 = PMT(A1,A2,A3); C1 = PV(A1,A2,B1)+A3*0
            f_b1 = S.call('PMT', [S.ref(1, 1), S.ref(1, 2), S.ref(1, 3)])
            f_c1 = S.call('PV', [S.ref(1, 1), S.ref(1, 2), S.ref(2, 1)])
            forms = {(2, 1): f_b1, (3, 1): f_c1}
            consts = {(1, 1): Fraction(e['rate']), (1, 2): Fraction(3), (1, 3): Fraction(e['amounts'][0])}
            knob, probe = (1, 3), (3, 1)
        else:                              # E1 growth; F1 first flow; F2..F4 = F(k-1)*E1; D1 = NPV(A1,F1:F4)
            forms = {(6, r): S.bin_('*', S.ref(6, r - 1), S.ref(5, 1)) for r in (2, 3, 4)}
            forms[(4, 1)] = S.call('NPV', [S.ref(1, 1), S.rng(6, 1, 6, 4)])
            consts = {(1, 1): Fraction(e['rate']), (5, 1): Fraction(2), (6, 1): Fraction(e['amounts'][0])}
            knob, probe = (5, 1), (4, 1)
            e = dict(e, amounts=(2, 1, Fraction(1, 2)))
        d = {f'Sheet1!{S.col_letters(c)}{r}': (float(v) if v.denominator != 1 else int(v)) for (c, r), v in consts.items()}
        d.update({f'Sheet1!{S.col_letters(c)}{r}': S.formula(a) for (c, r), a in forms.items()})
        try:
            model = L.ModelCompiler().read_and_parse_dict(d)
            ev = L.Evaluator(model)
        except BaseException as ex:      # noqa
            raise MachineryError(f'history workbook does not build: {ex!r}')
        paddr = f'Sheet1!{S.col_letters(probe[0])}{probe[1]}'
        for step, v in enumerate(e['amounts']):
            v = Fraction(v)
            if step:
                (ev if step % 2 else model).set_cell_value(f'Sheet1!{S.col_letters(knob[0])}{knob[1]}', float(v) if v.denominator != 1 else int(v))
                consts[knob] = v
            try:
                res = xl.to_abs(ev.evaluate(paddr))
            except BaseException as ex:      # noqa
                if isinstance(ex, (KeyboardInterrupt, SystemExit)):
                    raise
                res = {'t': 'exc', 'cls': type(ex).__name__}
            cells = [{'sheet': 'Sheet1', 'col': c, 'row': r, 'v': {'t': 'num', 'n': x.numerator, 'd': x.denominator}} for (c, r), x in sorted(consts.items())]
            cells += [{'sheet': 'Sheet1', 'col': c, 'row': r, 'ast': a} for (c, r), a in sorted(forms.items()) if (c, r) != probe]
            out.append({'ast': forms[probe], 'sheet': 'Sheet1', 'names': [], 'res': res, 'addr': paddr, 'cells': cells,
                        'text': f"{S.formula(forms[probe])} ({e['kind']}, rate {e['rate']}) after {S.col_letters(knob[0])}{knob[1]} := {[str(Fraction(x)) for x in e['amounts'][:step + 1]]}"})
    return out


def validate(run, events, timeout=900, batch=20000):
    """Trace_C20 verdicts; "cmp" verdicts are settled here against the exact expected value TLC computed"""
    out = []
    for bi in range(0, len(events), batch):
        chunk = events[bi:bi + batch]
        path = os.path.join(run.work, f'trace-{bi}.ndjson')
        with open(path, 'w') as fh:
            for e in chunk:
                fh.write(json.dumps(e, separators=(',', ':')) + '\n')
        r = run.tlc('Trace_C20', 'Trace_C20.cfg', dump=True, workers=1, timeout=timeout, env={'TRACE_FILE': path},
                    name=f'trace-{bi}')
        verdicts = {}
        for b in dump_blocks(r.dump):
            st = parse_block(b)
            verdicts[st['l']] = (st['verdict'], st.get('exp'))
        if len(verdicts) != len(chunk) + 1:
            raise MachineryError(f'Trace_C20: {len(verdicts) - 1} verdicts for {len(chunk)} events')
        out += [(e,) + verdicts[i] for i, e in enumerate(chunk, 1)]
        os.remove(path)
        os.remove(r.dump)
    stats = {}
    for e, v, x in out:
        run.traces += 1
        how = v
        if x['t'] == 'num' and v != 'open':
            if check_reference(e, x) is False:
                raise MachineryError(f"Python reference disagrees with the specification on {json.dumps(e)[:400]}")
        if v == 'aux-mismatch':
            raise MachineryError(f"harness residual contradicts the specification on {json.dumps(e)[:400]}")
        if v == 'cmp':
            good = ok_against(e['f'], e['res'], x)
            how = 'ok-exact' if good else 'wrong-value'
        elif v == 'ok':
            how = 'ok-exact' if x['t'] == 'num' else 'ok-residual-' + e['aux']['ref']
        key = e['f'] + ':' + how
        stats[key] = stats.get(key, 0) + 1
        if how == 'open':
            run.undetermined += 1
        elif how.startswith('ok'):
            run.nontrivial_count += 1
        else:
            case = {k: e[k] for k in e if k not in ('res', 'formula')}
            f = features(case, x, e['res'], e['path'])
            f['verdict'] = how
            run.disagree('trace-call', case, x, e['res'], f, clause=how)
    return out, stats


# ---------------------------------------------------------------------------
# known findings: model(d) is True exactly for the listed failing inputs AND the listed wrong outcome
# ---------------------------------------------------------------------------
def _sln_reflected_division(d):
    """SLN called with native cost and salvage and an ExcelType life: int / Number runs Number.__rtruediv__,
    an alias of __truediv__, so the quotient comes out inverted: life/(cost-salvage)"""
    c = d['case']
    path = c.get('path') or d.get('clause')
    if c['f'] != 'SLN' or path != 'mix-nnw' or len(c['args']) != 3 or any(a['t'] != 'num' for a in c['args']):
        return False
    cost, salvage, life = (fr_of(a) for a in c['args'])
    obs = d['observed']
    if cost == salvage:          # the inverted quotient divides by zero
        return obs['t'] == 'err' and obs['v'] == '#DIV/0!' or obs['t'] == 'exc' and 'DivZero' in obs['cls'] + obs.get('msg', '')
    o = val_of(obs)
    want = float(life / (cost - salvage))
    return o is not None and abs(o - want) <= 1e-9 * abs(want) + 1e-12


BUG_MODELS = {'sln-reflected-division': _sln_reflected_division}

MIN_CASES = {'NPV': 4000, 'PMT': 1000, 'PV': 2000, 'SLN': 60, 'XNPV': 2000, 'IRR': 500, 'XIRR': 500}


def run(run):
    quick = run.tier == 'quick'
    r = run.tlc('MC_C20', 'C20_quick.cfg' if quick else 'C20_thorough.cfg', dump=True, timeout=1800)
    blocks = dump_blocks(r.dump, skip_substr='"pending"')
    rp = FinReplayer(paths=('direct', 'wrapped') + MIXES + SLN_MIXES + ('formula',), features=features)
    byf, ref_ok = replay_dump(run, blocks, rp)
    # the same calls in four orders, each order in ONE fresh process (state left behind by earlier calls: numpy error mode, memos)
    calls.replay_orders(run, blocks, FinReplayer(paths=('direct', 'wrapped'), features=features), key=lambda b: len(b), sample=20000)
    os.remove(r.dump)
    run.notes['cases_by_function'] = byf
    run.notes['reference_checked_against_spec'] = ref_ok
    for f, m in MIN_CASES.items():
        if byf.get(f, 0) < m:
            raise MachineryError(f'vacuity: only {byf.get(f, 0)} determined {f} cases (< {m})')
    run.rule = ('cases = all done-states of MC_C20 (rates {-1/2,-1/10,0,1/20,1/10,1/4,1,3,10} x every flow vector over '
                '{-100,-10,0,10,60,100} up to MaxN; (rate,nper,pv,fv,type) and (cost,salvage,life) grids; date vectors at '
                'whole-year and broken offsets; IRR/XIRR flows constructed around a chosen root); distinct by TLC '
                'fingerprint; non-trivial = expected result determined (exact rational)')
    run.exhaustive = True
    run.assumptions += [
        'IRR/XIRR results are compared with the unique root to an absolute 1e-6 (the property), everything else to a '
        'relative 1e-9 (DESIGN 4.3)',
        'code->spec: where 32-bit rationals cannot evaluate the defining equation (long vectors, fine rates) TLC '
        'decides the domain and bounds a residual computed by the harness: exact fractions.Fraction arithmetic '
        'whenever every exponent is whole (ref=fraction); Python float arithmetic (math.fsum, **) is trusted only '
        'for fractional exponents: XNPV/XIRR at dates that are not whole years apart and fractional nper (ref=float)',
        'the Python reference is itself checked for exact equality with the TLA+ value on every case where both are exact',
        'the root of IRR/XIRR is itself a rate of the property (rates range over (-0.9, 10]): flows whose NPV at rate 10 is '
        'still positive (root above 10) are left open; the sign is computed by the harness and re-derived by TLC where exact',
        'left open: VDB, PMT with type=1, IRR/XIRR outside "one sign change, positive sum", the guess argument, '
        'life <= 0, nper <= 0, type not in {0,1}, non-numeric arguments (C07/C08), 2-D ranges',
    ]
    # histories: the financial functions over formula cells, re-evaluated after an input two levels below was set
    from harness import evalrec
    he = [x for part in pool.pmap(record_history, history_events(), nchunks=6) for x in part]
    hv = evalrec.validate(run, he, name='finhist', kind='financial-history')
    run.evaluations += len(he)
    run.notes['financial_history_events'] = dict(hv)
    if sum(n for k, n in hv.items() if k != 'open') < len(he) // 2:
        raise MachineryError(f'financial-history events: too few judged ({dict(hv)})')
    events = driver(run.seed, 3000 if quick else 40000)
    recorded = [e for part in pool.pmap(record, events) for e in part]
    run.evaluations += len(recorded)
    res, stats = validate(run, recorded)
    run.sample({'trace_event': res[0][0], 'verdict': res[0][1]})
    run.notes['trace_events'] = len(recorded)
    run.notes['trace_verdicts'] = dict(sorted(stats.items()))
    for f in MIN_CASES:
        if not any(k.startswith(f + ':ok') for k in stats):
            if not any(k.startswith(f + ':') and not k.endswith(':open') for k in stats):
                raise MachineryError(f'vacuity: no determined trace event for {f}')


def replay(path):
    d = json.load(open(path))
    case = d['case']
    clause = d.get('clause')
    if d.get('kind') == 'trace-call' or case.get('path') == 'formula' or clause in ('formula', 'formula-stored'):
        p = case.get('path', 'formula') if d.get('kind') == 'trace-call' else 'formula'
    else:
        p = clause
    if p in ('formula', 'formula-stored'):
        obs, stored, text = calls.formula_call(case['f'], case['args'])
        if clause == 'formula-stored':
            obs = stored
    else:
        obs = call_path(case['f'], case['args'], p if p == 'direct' or str(p).startswith('mix-') else 'wrapped')
    exp = d['expected']
    print('case', json.dumps(case)[:1000], '\nexpected', exp, '\nobserved', obs)
    if exp['t'] == 'num':
        bad = ok_against(case['f'], obs, exp) is False
    else:       # expectation not exact: the residual decides
        aux = measure(case['f'], case['args'], obs)
        print('residual', aux)
        tol = 1000
        a0 = case['args'][0] if case['args'] else {}
        if case['f'] in ('PMT', 'PV') and a0.get('t') == 'num' and a0['n'] != 0:      # (Trace_C20!TolFor)
            tol += (a0['d'] // 500) // abs(a0['n'])
        bad = (aux['s10'] <= 0 and not (aux['slo'] >= 0 >= aux['shi'])) if case['f'] in ('IRR', 'XIRR') else aux['err'] > tol
    if bad:
        print(f"VIOLATION property={d['property']} replay={path}")
        return 1
    print('agrees now')
    return 0

"""C13 - an extracted sub-model computes the same values as the full model."""
import json

from checks import c04, c05
from harness import pool, workbook as W, xl
from harness.agree import agrees, klass


class Worker:
    def __init__(self, work, shapes):
        self.work, self.shapes = work, shapes

    def __call__(self, blocks):
        L = xl.lib()
        out = {'n': 0, 'steps': 0, 'dis': [], 'samples': [], 'shapes': {}}
        for b in blocks:
            st = pool.parse_block(b)
            hist, shape = st['hist'], st['shape']
            sdef = self.shapes[shape]
            last, prefix = hist[-1], hist[:-1]
            focus_cells = [tuple(k) for k in last['focus']]
            focus_names = list(last['fnames'])
            focus = [W.addr(k) for k in focus_cells] + focus_names
            out['n'] += 1
            out['shapes'][shape] = out['shapes'].get(shape, 0) + 1
            case = {'shape': shape, 'history': c04.short(prefix), 'focus': focus}

            def bad(clause, exp, obs):
                out['dis'].append({'case': case, 'exp': exp, 'obs': obs, 'clause': clause,
                                   'features': {'shape': shape, 'clause': clause, 'prefix_ops': [x['op'] for x in prefix],
                                                'nfocus': len(focus), 'has_name': bool(focus_names),
                                                'obs': klass(obs) if isinstance(obs, dict) and 't' in obs else type(obs).__name__}})
            try:
                pycells = W.to_python_cells(sdef['cells'])
                names = [(n, W.name_ref_text(a)) for n, a in W.name_items(sdef['names'])]
                model = W.build_model(pycells, names)
                ev = L.Evaluator(model)
                for x in prefix:
                    a = W.addr(x['x'])
                    if x['op'] == 'set':
                        ev.set_cell_value(a, xl.from_abs(x['v'], 'native'))
                    elif x['op'] == 'evaluate':
                        ev.evaluate(a)
                    out['steps'] += 1
                before = c05.snapshot(model)
                stored_before = {a: xl.to_abs(c.value) for a, c in model.cells.items()}
                sub = L.ModelCompiler.extract(model, list(focus))
                after = c05.snapshot(model)
                stored_after = {a: xl.to_abs(c.value) for a, c in model.cells.items()}
            except BaseException as e:      # noqa
                if isinstance(e, (KeyboardInterrupt, SystemExit)):
                    raise
                bad('extract-raises', 'an extracted model', xl.to_abs(e))
                continue
            # extraction leaves the original unchanged
            if before != after or stored_before != stored_after:
                bad('original-changed-by-extract', 'unchanged', 'changed')
            # the extract contains the focus and everything it depends on
            missing = [W.addr(k) for k in last['closure'] if W.addr(k) not in sub.cells]
            if missing:
                bad('closure-not-contained', [W.addr(k) for k in last['closure']], {'missing': missing})
                continue
            for n in focus_names:
                if n not in sub.defined_names:
                    bad('focused-name-missing', n, sorted(sub.defined_names))
            # every focused cell / name evaluates to the same value in both models (= the fresh value)
            fresh = {tuple(k): v for k, v in W.cell_items(last['fresh'])}
            name_cell = {n: None for n in focus_names}
            for n, a in W.name_items(sdef['names']):
                if n in name_cell:
                    name_cell[n] = (a['sheet'], a['col'], a['row'])
            targets = [(W.addr(k), k) for k in focus_cells] + [(n, name_cell[n]) for n in focus_names]
            ok = True
            e_sub, e_org = L.Evaluator(sub), L.Evaluator(model)
            for target, key in targets:
                both = {}
                for which, evx in (('extracted', e_sub), ('original', e_org)):
                    try:
                        got = xl.to_abs(evx.evaluate(target))
                    except BaseException as e:      # noqa
                        if isinstance(e, (KeyboardInterrupt, SystemExit)):
                            raise
                        got = xl.to_abs(e)
                    out['steps'] += 1
                    if agrees(got, fresh[key]) is False:
                        bad(f'evaluate-{which}', fresh[key], got)
                        ok = False
                        break
                    both[which] = got
                if not ok:
                    break
                # where the specification leaves the value open, the two models must still agree with each other
                if fresh[key].get('t') == 'open' and len(both) == 2 and both['extracted'] != both['original']:
                    bad('extracted-differs-from-original', both['original'], both['extracted'])
                    ok = False
                    break
            if not ok:
                continue
            # ... also after the same input changes have been applied to both
            for akey, vals in W.cell_items(last['after']):
                a = W.addr(akey)
                try:
                    old = model.get_cell_value(a)
                    for evx in (e_sub, e_org):
                        evx.set_cell_value(a, 7)
                    exp = {tuple(k): v for k, v in W.cell_items(vals)}
                    for target, key in targets:
                        for which, evx in (('extracted', e_sub), ('original', e_org)):
                            got = xl.to_abs(evx.evaluate(target))
                            out['steps'] += 1
                            if agrees(got, exp[key]) is False:
                                bad(f'evaluate-{which}-after-set', exp[key], got)
                                raise StopIteration
                    for evx in (e_sub, e_org):
                        evx.set_cell_value(a, old)
                except StopIteration:
                    break
                except BaseException as e:      # noqa
                    if isinstance(e, (KeyboardInterrupt, SystemExit)):
                        raise
                    bad('after-set-raises', 'values', xl.to_abs(e))
                    break
            # a SECOND extraction from the same original, whose input has been changed since the first one (the first
            # extract keeps the old input), must reflect the current inputs
            if ok and not any(d['case'] is case for d in out['dis']):
                for akey, vals in W.cell_items(last['after'])[:1]:
                    try:
                        e_org.set_cell_value(W.addr(akey), 7)
                        e2 = L.Evaluator(L.ModelCompiler.extract(model, list(focus)))
                        exp = {tuple(k): v for k, v in W.cell_items(vals)}
                        for target, key in targets:
                            got = xl.to_abs(e2.evaluate(target))
                            out['steps'] += 1
                            if agrees(got, exp[key]) is False:
                                bad('evaluate-second-extract-after-set', exp[key], got)
                                break
                    except BaseException as e:      # noqa
                        if isinstance(e, (KeyboardInterrupt, SystemExit)):
                            raise
                        bad('second-extract-raises', 'values', xl.to_abs(e))
            if len(out['samples']) < 1 and len(focus) > 1:
                out['samples'].append({'case': case, 'closure': [W.addr(k) for k in last['closure']],
                                       'expected': {W.addr(k): v for k, v in fresh.items()}})
        return out


BUG_MODELS = {}


def run(run):
    quick = run.tier == 'quick'
    shapes = c04.load_shapes(run)
    r = run.tlc('MC_C04', 'C13_cases.cfg' if quick else 'C13_cases_thorough.cfg', dump=True, timeout=2400)
    blocks = [b for b in pool.dump_blocks(r.dump) if 'op |-> "extract"' in b]
    shp = {}
    for res in pool.pmap(Worker(run.work, shapes), blocks):
        run.evaluations += res['steps']
        run.traces += res['n']
        run.nontrivial_count += res['n']
        for k, v in res['shapes'].items():
            shp[k] = shp.get(k, 0) + v
        for s in res['samples']:
            run.sample(s)
        for d in res['dis']:
            run.disagree('extract', d['case'], d['exp'], d['obs'], d['features'], clause=d['clause'])
    run.notes['cases_by_shape'] = shp
    run.rule = ('6 acyclic model shapes (chains, diamond, sum over a range with a formula member, overlapping ranges, named input, '
                'cross-sheet) x every history of <= 1 (thorough 2) Set / Evaluate steps (so that originals are extracted both freshly '
                'compiled and after evaluation) x EVERY non-empty focus subset of cells and names; the extract must contain the closure the '
                'specification computes, leave the original unchanged, and evaluate every focused cell / name to the fresh value in both '
                'models, also after each input of the closure is set to another value in both')
    run.exhaustive = True
    # code -> spec: random multi-sheet workbooks under random histories, every evaluation judged by TLC (Trace_Local)
    from checks import wbdrive
    v = wbdrive.run_driver(run, 1200 if run.tier == 'quick' else 20000, mix='c13')
    if sum(n for k, n in v.items() if k != 'open') < 2000:
        raise xl.MachineryError(f'random workbook driver is vacuous: {dict(v)}')


def replay(path):
    d = json.load(open(path))
    print(json.dumps(d, indent=1)[:2500])
    return 1

"""C01 - formulas evaluate under Excel's operator precedence and associativity."""
import random

from harness import pool, trace, xl
from harness.agree import agrees, klass

CELLS = ['Sheet1!A1', 'Sheet1!B1', 'Sheet1!C1', 'Sheet1!D1']


def evaluate_text(text, env):
    """compile a model with A1..D1 = env and Z1 = text; return (result, stored) abstract values"""
    cells = {a: ('value', xl.from_abs(v, 'native')) for a, v in zip(CELLS, env)}
    try:
        model, ev = xl.build_model(cells, {'Sheet1!Z1': text})
        res = xl.to_abs(ev.evaluate('Sheet1!Z1'))
        stored = xl.to_abs(ev.get_cell_value('Sheet1!Z1'))
        return res, stored
    except BaseException as e:      # noqa
        if isinstance(e, (KeyboardInterrupt, SystemExit)):
            raise
        return xl.to_abs(e), None


def ops_of(tree, acc=None):
    acc = [] if acc is None else acc
    if tree['k'] == 'bin':
        ops_of(tree['l'], acc)
        acc.append(tree['op'])
        ops_of(tree['r'], acc)
    elif tree['k'] in ('neg', 'pct', 'paren'):
        if tree['k'] == 'neg':
            acc.append('u-')
        ops_of(tree['x'], acc)
    return acc


# ---------------------------------------------------------------------------------------------------------------------
# IEEE pass: the tree the specification assigns to a text, evaluated in double arithmetic.  The exact rationals of the
# specification decide WHICH tree a text denotes; with operands such as 1E+16, 1, 1, 1 or 0.1, 0.1, 0.1, 0.4 the value of
# that tree in doubles differs from the value of every other grouping in the last place (or grossly), so the grouping the
# library really used is observable where exact arithmetic cannot tell ((a+b)+(c+d) from ((a+b)+c)+d).
FLOAT_ENVS = [[1e16, 1.0, 1.0, 1.0], [0.1, 0.1, 0.1, 0.4], [0.1, 0.2, 0.3, 0.6], [1e16, -1e16, 1.0, 3.0],
              [3.0, 1e-17, 1.0, -1e17], [0.7, 0.1, 1e15, 0.3], [3e-16, 1e-16, 0.0, 2.5e-16], [1e-300, -1e-300, 2e-300, 1.0],
              [1e308, 1.5, 5e307, 1.2e308]]      # finite results between 1E+308 and the largest double are results
IEEE_OPS = {'+', '-', '*', '/', '=', '<>', '<', '>', '<=', '>='}


class _Div0(Exception):
    pass


def ieee_ok(tree):
    k = tree['k']
    if k == 'bin':
        return tree['op'] in IEEE_OPS and ieee_ok(tree['l']) and ieee_ok(tree['r'])
    if k in ('neg', 'paren'):
        return ieee_ok(tree['x'])
    return k in ('ref', 'num')


def ieee_eval(tree, env):
    k = tree['k']
    if k == 'ref':
        return env[tree['col'] - 1]
    if k == 'num':
        t = ''.join(map(chr, tree['txt']))
        return float(t[:-1]) / 100 if t.endswith('%') else float(t)
    if k == 'paren':
        return ieee_eval(tree['x'], env)
    if k == 'neg':
        return -float(ieee_eval(tree['x'], env))
    a, b = ieee_eval(tree['l'], env), ieee_eval(tree['r'], env)
    op = tree['op']
    if op in ('+', '-', '*', '/'):
        a, b = float(a), float(b)          # TRUE counts 1, FALSE 0
        if op == '/':
            if b == 0:
                raise _Div0()
            r = a / b
        else:
            r = a + b if op == '+' else a - b if op == '-' else a * b
        if r != r or r in (float('inf'), float('-inf')):      # beyond the double range anywhere inside: not compared (an error value is due)
            raise OverflowError
        return r
    if isinstance(a, bool) != isinstance(b, bool):      # a number is smaller than a logical value
        lt = isinstance(b, bool)
        return {'=': False, '<>': True, '<': lt, '<=': lt, '>': not lt, '>=': not lt}[op]
    return {'=': a == b, '<>': a != b, '<': a < b, '<=': a <= b, '>': a > b, '>=': a >= b}[op]


def ieee_case(text, tree, env):
    """-> None if fine, else (expected, observed)"""
    import math
    try:
        want = ieee_eval(tree, env)
    except _Div0:
        want = '#DIV/0!'
    except OverflowError:
        return None
    if isinstance(want, float) and not math.isfinite(want):
        return None
    L = xl.lib()
    try:
        model, ev = xl.build_model({a: ('value', v) for a, v in zip(CELLS, env)}, {'Sheet1!Z1': text})
        got = ev.evaluate('Sheet1!Z1')
        if isinstance(got, L.xlerrors.ExcelError):
            got = str(got.value)
        elif isinstance(got, L.ft.ExcelType):
            got = got.value
    except BaseException as e:      # noqa
        if isinstance(e, (KeyboardInterrupt, SystemExit)):
            raise
        got = 'exception ' + type(e).__name__
    same = (got == want and isinstance(got, bool) == isinstance(want, bool)) if not isinstance(want, str) else got == want
    return None if same else (want, got)


def worker(blocks):
    out = {'n': 0, 'open': 0, 'dis': [], 'samples': [], 'kinds': {}, 'ieee': 0}
    for b in blocks:
        st = pool.parse_block(b)
        case, exp = st['case'], st['res']
        out['n'] += 1
        out['kinds'][case['kind']] = out['kinds'].get(case['kind'], 0) + 1
        if exp['t'] == 'open':
            out['open'] += 1
            continue
        text = ''.join(map(chr, case['text']))
        obs, stored = evaluate_text(text, case['env'])
        ok = agrees(obs, exp)
        if ok and stored is not None and agrees(stored, exp) is False:
            ok, obs = False, stored
        if len(out['samples']) < 2:
            out['samples'].append({'formula': text, 'env': case['env'], 'expected': exp, 'observed': obs})
        if ok is False:
            out['dis'].append({'case': {'formula': text, 'env': case['env'], 'kind': case['kind']}, 'exp': exp, 'obs': obs,
                               'features': {'kind': case['kind'], 'ops': ops_of(case['tree']), 'exp': klass(exp), 'obs': klass(obs)}})
        if case['kind'] in ('triple', 'shape-min', 'shape-full', 'quad') and ieee_ok(case['tree']):
            for fenv in FLOAT_ENVS:
                out['ieee'] += 1
                bad = ieee_case(text, case['tree'], fenv)
                if bad:
                    out['dis'].append({'case': {'formula': text, 'env_doubles': [repr(x) for x in fenv], 'kind': case['kind'] + '-ieee'},
                                       'exp': repr(bad[0]), 'obs': repr(bad[1]),
                                       'features': {'kind': case['kind'] + '-ieee', 'ops': ops_of(case['tree'])}})
                    break
    return out


LITS = ['2', '3', '0.5', '50%', '5E-1', '2.5E+0', '10', '0', '1', '1.5E+1', '25%', '2.5%', '0.5%', '1E+1%', '12.5%', '300%']
VALS = [(2, 1), (3, 1), (5, 1), (-2, 1), (1, 2), (0, 1), (7, 1), (-1, 1), (3, 2), (10, 1), (1, 4), (-3, 2)]


def gen_tree(rng, nops):
    from harness import syntax as S
    if nops == 0:
        r = rng.random()
        if r < 0.55:
            leaf = S.ref(rng.randint(1, 6), 1)
        else:
            leaf = S.num(rng.choice(LITS))
        while rng.random() < 0.2:
            leaf = S.neg(leaf)
        return leaf
    k = rng.randint(0, nops - 1)
    op = rng.choice(S.BINOPS)
    left = gen_tree(rng, k)
    if op == '^':       # keep exponents small so the exact rational arithmetic of the spec stays in range
        right = rng.choice([S.num('2'), S.num('3'), S.num('0'), S.num('1'), S.neg(S.num('1')), S.neg(S.num('2'))])
        if nops - 1 - k > 0:
            right = S.bin_(rng.choice(['+', '-', '*']), right, S.num(rng.choice(['1', '0', '2'])))
    else:
        right = gen_tree(rng, nops - 1 - k)
    t = S.bin_(op, left, right)
    if rng.random() < 0.15:
        t = S.neg(t)
    return t


def add_redundant(rng, a):
    from harness import syntax as S
    k = a['k']
    if k == 'bin':
        a = S.bin_(a['op'], add_redundant(rng, a['l']), add_redundant(rng, a['r']))
    elif k in ('neg', 'paren'):
        a = dict(a, x=add_redundant(rng, a['x']))
    if rng.random() < 0.15:
        a = S.paren(a)
    return a


def driver(seed, count):
    from harness import syntax as S
    rng = random.Random(seed * 104729 + 1)
    evs = []
    for i in range(count):
        t = S.min_paren(gen_tree(rng, rng.choice([1, 2, 3, 4, 5, 6, 8])))
        if rng.random() < 0.5:
            t = add_redundant(rng, t)
        st = dict(S.STYLE0)
        if rng.random() < 0.5:
            for key in ('lead', 'trail', 'opl', 'opr', 'po', 'pc'):
                if rng.random() < 0.4:
                    st[key] = rng.choice([[32], [32, 32], [10], [32, 10]])
        env = [rng.choice(VALS) for _ in range(6)]
        cells = [{'sheet': 'Sheet1', 'col': j + 1, 'row': 1, 'v': {'t': 'num', 'n': n, 'd': d}} for j, (n, d) in enumerate(env)]
        ev = {'ast': t, 'style': st, 'text': [ord(c) for c in S.formula(t, st)], 'sheet': 'Sheet1', 'cells': cells}
        if i % 2:        # evaluated first under OTHER cell values, then the cells are set and the formula is evaluated again
            ev['pre'] = [rng.choice(VALS) for _ in range(6)]
        evs.append(ev)
    return evs


def record(chunk):
    out = []
    for e in chunk:
        cells = {f"Sheet1!{'ABCDEF'[c['col'] - 1]}1": ('value', xl.from_abs(c['v'], 'native')) for c in e['cells']}
        text = ''.join(map(chr, e['text']))
        try:
            if 'pre' in e:
                pre = {f"Sheet1!{'ABCDEF'[j]}1": ('value', n / d if d != 1 else n) for j, (n, d) in enumerate(e['pre'])}
                model, ev = xl.build_model(pre, {'Sheet1!Z1': text})
                try:
                    ev.evaluate('Sheet1!Z1')
                except Exception:
                    pass
                for a, spec in cells.items():      # through the evaluator, or through the model itself
                    (ev if len(text) % 2 else model).set_cell_value(a, spec[1])
            else:
                model, ev = xl.build_model(cells, {'Sheet1!Z1': text})
            res = xl.to_abs(ev.evaluate('Sheet1!Z1'))
        except BaseException as ex:      # noqa
            if isinstance(ex, (KeyboardInterrupt, SystemExit)):
                raise
            res = xl.to_abs(ex)
        out.append(dict({k: v for k, v in e.items() if k != 'pre'}, res=res))
    return out


BUG_MODELS = {}


def run(run):
    quick = run.tier == 'quick'
    r = run.tlc('MC_C01', 'C01_quick.cfg' if quick else 'C01_thorough.cfg', dump=True, timeout=1500)
    # non-vacuity: the shunting-yard design with a wrong table must violate the law
    for bad in ('C01_bad1.cfg', 'C01_bad2.cfg'):
        rb = run.tlc('MC_C01', bad, expect_violation=True, timeout=300)
        if not rb.violated:
            raise xl.MachineryError(f'wrong-design variant {bad} was not rejected by TLC')
        run.laws[f'variant {bad} rejected'] = rb.violated
    blocks = pool.dump_blocks(r.dump, skip_substr='"pending"')
    kinds = {}
    for res in pool.pmap(worker, blocks):
        run.evaluations += res['n'] - res['open']
        run.traces += res['n'] - res['open']
        run.nontrivial_count += res['n'] - res['open']
        run.undetermined += res['open']
        for k, v in res['kinds'].items():
            kinds[k] = kinds.get(k, 0) + v
        for s in res['samples']:
            run.sample(s)
        for d in res['dis']:
            run.disagree('formula', d['case'], d['exp'], d['obs'], d['features'], clause='value' if 'ieee' not in d['features']['kind'] else 'value-in-doubles')
        run.evaluations += res['ieee']
        run.notes['ieee_evaluations'] = run.notes.get('ieee_evaluations', 0) + res['ieee']
    run.notes['cases_by_family'] = kinds
    # code -> spec: seeded deep formulas (<= 8 operators, nested / redundant parentheses, all literal
    # spellings, gaps), evaluated by the library, validated by TLC against Eval(Erase(ast))
    events = driver(run.seed, 2500 if quick else 30000)
    recorded = [e for part in pool.pmap(record, events) for e in part]
    run.evaluations += len(recorded)
    res = trace.validate(run, recorded, module='Trace_Formula', batch=5000,
                         features=lambda e, x, v: {'verdict': v, 'text': ''.join(map(chr, e['text']))[:60]})
    bad = [v for _, v, _ in res if v.startswith('generator')]
    if bad:
        raise xl.MachineryError(f'seeded generator disagrees with the specification rendering: {bad[:3]}')
    run.sample({'trace_event_formula': ''.join(map(chr, res[0][0]['text'])), 'verdict': res[0][1], 'expected': res[0][2]})
    run.notes['trace_events'] = len(recorded)
    run.notes['trace_open'] = sum(1 for _, v, _ in res if v == 'open')
    run.rule = ('cases = done-states of MC_C01: every ordered operator pair (x 8 unary-minus placements x 8 assignments), every ordered '
                'triple, 5 tree shapes per triple with minimal and with redundant parentheses, literal spellings, gap placements; '
                'expected value = Eval of the tree the grammar (Climb) assigns; non-trivial = value determined; every non-associative '
                'operator pair is shown (ASSUME) to be discriminated by some assignment')
    run.exhaustive = True


def replay(path):
    import json
    d = json.load(open(path))
    obs, stored = evaluate_text(d['case']['formula'], d['case']['env'])
    print('formula', d['case']['formula'], 'env', d['case']['env'], '\nexpected', d['expected'], '\nobserved', obs)
    if agrees(obs, d['expected']) is False:
        print(f"VIOLATION property={d['property']} replay={path}")
        return 1
    return 0

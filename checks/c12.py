"""C12 - a persisted model restores to an equivalent model."""
import hashlib
import json
import os

from checks import c04
from harness import pool, workbook as W, xl
from harness.agree import agrees, klass

EXTS = ['.json', '.gz', '.gzip', '.GZ', '.JSON']


def abs_value(v):
    return xl.to_abs(v)


def snapshot(model):
    """what C12 lists: address -> (value, formula text), formulae keys, names -> target, ranges -> address matrix"""
    L = xl.lib()
    cells = {a: (abs_value(c.value), c.formula.formula if c.formula is not None else None) for a, c in model.cells.items()}
    formulae = {k: f.formula for k, f in model.formulae.items()}
    names = {}
    for n, d in model.defined_names.items():
        if isinstance(d, L.xltypes.XLCell):
            names[n] = ('cell', d.address)
        elif isinstance(d, L.xltypes.XLRange):
            names[n] = ('range', [list(r) for r in d.cells])
        else:
            names[n] = ('other', type(d).__name__)
    ranges = {k: [list(r) for r in v.cells] for k, v in model.ranges.items()}
    return cells, formulae, names, ranges


def same_value(a, b):
    """two projected values denote the same value (the type of carrier may differ: 1 vs 1.0 is not a difference)"""
    if a == b:
        return True
    if a.get('t') == 'date' and b.get('t') == 'date':
        return False              # a date-time is restored exactly (to the microsecond), not approximately
    r = agrees(a, b)
    return bool(r) and bool(agrees(b, a))


class Worker:
    def __init__(self, work, shapes):
        self.work, self.shapes = work, shapes

    def __call__(self, blocks):
        L = xl.lib()
        out = {'n': 0, 'steps': 0, 'dis': [], 'samples': [], 'shapes': {}, 'exts': {}}
        for bi, b in enumerate(blocks):
            st = pool.parse_block(b)
            hist, shape = st['hist'], st['shape']
            sdef = self.shapes[shape]
            last = hist[-1]
            prefix = hist[:-1]
            h = int(hashlib.md5(json.dumps([shape, [(x['op'], x['x']) for x in hist]]).encode()).hexdigest(), 16)
            ext = EXTS[h % len(EXTS)]
            uncompiled = not prefix and (h >> 4) % 2 == 0           # persisted before compilation
            out['n'] += 1
            out['shapes'][shape] = out['shapes'].get(shape, 0) + 1
            out['exts'][ext] = out['exts'].get(ext, 0) + 1
            case = {'shape': shape, 'history': c04.short(prefix), 'ext': ext, 'uncompiled': uncompiled}

            def bad(clause, exp, obs):
                out['dis'].append({'case': case, 'exp': exp, 'obs': obs, 'clause': clause,
                                   'features': {'shape': shape, 'clause': clause, 'prefix_ops': [x['op'] for x in prefix], 'ext': ext.lower(),
                                                'obs': klass(obs) if isinstance(obs, dict) and 't' in obs else str(type(obs).__name__)}})
            path = os.path.join(self.work, f'c12-{os.getpid()}-{bi}{ext}')
            try:
                pycells = W.to_python_cells(sdef['cells'])
                names = [(n, W.name_ref_text(a)) for n, a in W.name_items(sdef['names'])]
                if uncompiled:
                    model = build_uncompiled(pycells, names)
                else:
                    model = W.build_model(pycells, names)
                ev = L.Evaluator(model)
                for x in prefix:
                    a = W.addr(x['x']) if x['op'] in ('set', 'evaluate') else None
                    if x['op'] == 'set':
                        ev.set_cell_value(a, xl.from_abs(x['v'], 'native'))
                    elif x['op'] == 'evaluate':
                        ev.evaluate(a)
                    elif x['op'] == 'persistmid':          # an earlier persist of the same model object to the same file
                        model.persist_to_json_file(path)
                    out['steps'] += 1
                before = snapshot(model)
                model.persist_to_json_file(path)
                m2 = L.Model()
                m2.construct_from_json_file(path, build_code=True)
                after = snapshot(m2)
            except BaseException as e:      # noqa
                if isinstance(e, (KeyboardInterrupt, SystemExit)):
                    raise
                bad('persist-restore-raises', 'round trip', xl.to_abs(e))
                if os.path.exists(path):
                    os.remove(path)
                continue
            finally:
                pass
            if os.path.exists(path):
                # the extension selects the encoding: gzip magic for .gz / .gzip (any case), plain JSON otherwise
                with open(path, 'rb') as fh:
                    magic = fh.read(2)
                is_gz = magic == b'\x1f\x8b'
                if is_gz != (ext.lower() in ('.gz', '.gzip')):
                    bad('file-encoding-by-extension', {'gzip': ext.lower() in ('.gz', '.gzip')}, {'gzip': is_gz})
                os.remove(path)
            # 1. the restored model holds the same cells (address, value, formula text), formulae, names, ranges
            ok = True
            if set(before[0]) != set(after[0]):
                bad('cell-set', sorted(before[0]), sorted(after[0]))
                ok = False
            else:
                for a in before[0]:
                    (v1, f1), (v2, f2) = before[0][a], after[0][a]
                    if f1 != f2:
                        bad('formula-text', f1, f2)
                        ok = False
                        break
                    if not same_value(v1, v2):
                        bad('cell-value', v1, v2)
                        ok = False
                        break
            if ok and before[1] != after[1]:
                bad('formulae', before[1], after[1])
            if ok and before[2] != after[2]:
                bad('defined-names', before[2], after[2])
            if ok and before[3] != after[3]:
                bad('ranges', before[3], after[3])
            # 2. the values the specification says the model held when it was persisted
            for key, exp in W.cell_items(last['stored']):
                got = after[0].get(W.addr(key), (None, None))[0]
                if got is None or agrees(got, exp) is False:
                    bad('restored-stored-value', exp, got)
                    break
            # 3. after compilation every cell evaluates to the same value as in the original model (= the fresh value)
            if not uncompiled or True:
                try:
                    if uncompiled:
                        model.build_code()
                    e1, e2 = L.Evaluator(model), L.Evaluator(m2)
                    for key, exp in W.cell_items(last['fresh']):
                        a = W.addr(key)
                        for which, evx in (('original', e1), ('restored', e2)):
                            try:
                                got = xl.to_abs(evx.evaluate(a))
                            except BaseException as e:      # noqa
                                if isinstance(e, (KeyboardInterrupt, SystemExit)):
                                    raise
                                got = xl.to_abs(e)
                            out['steps'] += 1
                            if agrees(got, exp) is False:
                                bad(f'evaluate-{which}', exp, got)
                                raise StopIteration
                except StopIteration:
                    pass
            if len(out['samples']) < 1:
                out['samples'].append({'case': case, 'expected_fresh': {W.addr(k): v for k, v in W.cell_items(last['fresh'])}})
        return out


def build_uncompiled(pycells, names):
    return W.build_model(pycells, names, build_code=False)


BUG_MODELS = {}


def run(run):
    quick = run.tier == 'quick'
    shapes = c04.load_shapes(run)
    r = run.tlc('MC_C04', 'C12_cases.cfg' if quick else 'C12_cases_thorough.cfg', dump=True, timeout=1800)
    blocks = [b for b in pool.dump_blocks(r.dump) if 'op |-> "persist"' in b]
    shp, exts = {}, {}
    for res in pool.pmap(Worker(run.work, shapes), blocks):
        run.evaluations += res['steps']
        run.traces += res['n']
        run.nontrivial_count += res['n']
        for k, v in res['shapes'].items():
            shp[k] = shp.get(k, 0) + v
        for k, v in res['exts'].items():
            exts[k] = exts.get(k, 0) + v
        for s in res['samples']:
            run.sample(s)
        for d in res['dis']:
            run.disagree('roundtrip', d['case'], d['exp'], d['obs'], d['features'], clause=d['clause'])
    run.notes['histories_by_shape'] = shp
    run.notes['file_extensions'] = exts
    run.rule = ('every history (Set input | Evaluate cell)^{<=2 (thorough 3)} followed by Persist, on 4 model shapes incl. one holding every '
                'value kind (int, fraction, non-ASCII text, 1e300, 5e-324, boolean, date with time, error / text / logical formula '
                'results, names, a range, two sheets); persisted to .json/.gz/.gzip/.GZ/.JSON (by case hash), also before compilation; '
                'the restored model is compared on cells (address, value, formula text), formulae, names, ranges, on the stored values '
                'the specification state holds, and every cell is evaluated in both models against the fresh value')
    run.exhaustive = True
    # code -> spec: random multi-sheet workbooks under random histories, every evaluation judged by TLC (Trace_Local)
    from checks import wbdrive
    v = wbdrive.run_driver(run, 1200 if run.tier == 'quick' else 20000, mix='c12')
    if sum(n for k, n in v.items() if k != 'open') < 2000:
        raise xl.MachineryError(f'random workbook driver is vacuous: {dict(v)}')


def replay(path):
    d = json.load(open(path))
    print(json.dumps(d, indent=1)[:2500])
    return 1

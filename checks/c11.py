"""C11 - a workbook file loads into a model with the same cells and formulas.

spec -> code: every done state of MC_C11 is an abstract workbook + ignore set
with the expected loaded model (XlReader!Load).  The workbook is written as
.xlsx bytes by harness/xlsxwriter_min.py (literal SpreadsheetML, not openpyxl),
loaded with ModelCompiler().read_and_parse_archive(path, ignore_sheets=..) and
compared: cells / values / formula texts / formulae keys / defined names /
get_cell_value before evaluation / Evaluator.evaluate against the spec's value
and against a model built by read_and_parse_dict from the same content.

code -> spec: the fixture workbooks of the repository (and seeded random
workbooks beyond the bounded instance) are read by the XML reader in this file
(zipfile + ElementTree; neither the library's reader nor openpyxl); one event
per stored cell / defined name with what the loaded model holds is validated
by TLC against XlReader!LoadCell / LoadName (spec/Trace_C11.tla).
"""
import glob
import time
import json
import os
import random
import re
import zipfile
import xml.etree.ElementTree as ET

from harness import pool, trace, xl
from harness.agree import agrees, klass
from harness.xlsxwriter_min import write_xlsx, col_letters, col_index, STYLE_DATE

UTF8 = {'JAVA_TOOL_OPTIONS': '-Dfile.encoding=UTF-8'}      # TLC prints / reads non-ASCII sheet names


# --------------------------------------------------------------------------
# abstract workbook (TLA+ record, parsed) -> low-level writer input
# --------------------------------------------------------------------------
def text_of(v):
    return ''.join(chr(c) for c in v['v'])


def value_attrs(v):
    """abstract value -> (t attribute, <v> text, style) of a <c> element"""
    t = v['t']
    if t == 'num':
        return None, xl.fmt_rational(v['n'], v['d']), 0
    if t == 'txt':
        return 'str', text_of(v), 0
    if t == 'bool':
        return 'b', '1' if v['v'] else '0', 0
    if t == 'err':
        return 'e', v['v'], 0
    if t == 'date':
        return None, str(v['s']), STYLE_DATE
    if t == 'blank':
        return None, None, 0
    raise xl.MachineryError(f'no storage for {v}')


def render_tok(t):
    if t['k'] == 'lit':
        return t['s']
    if t['k'] == 'num':
        return str(t['n'])
    return (t['q'] + ('$' if t['absc'] else '') + col_letters(t['col']) + ('$' if t['absr'] else '') + str(t['row']))


def render(toks):
    """text of a token list as it is WRITTEN into the file (no leading '=')"""
    return ''.join(render_tok(t) for t in toks)


def low_cell(c):
    ref = col_letters(c['col']) + str(c['row'])
    fm = c['form']
    f = fm['f']
    out = {'ref': ref}
    if f == 'n':
        out['v'] = xl.fmt_rational(fm['v']['n'], fm['v']['d'])
    elif f == 's':
        out.update(t='s', v=text_of(fm['v']))
    elif f == 'str':
        out.update(t='str', v=text_of(fm['v']))
    elif f == 'inlineStr':
        out.update(t='inlineStr', v=text_of(fm['v']))
    elif f == 'b':
        out.update(t='b', v='1' if fm['v']['v'] else '0')
    elif f == 'e':
        out.update(t='e', v=fm['v']['v'])
    elif f == 'd':
        from fractions import Fraction
        fr = Fraction(fm['v']['fn'], fm['v']['fd'])
        out.update(v=str(fm['v']['s']) + (xl.fmt_rational(fr.numerator, fr.denominator)[1:] if fr else ''), s=STYLE_DATE)
    elif f == 'iso':
        from fractions import Fraction
        secs = int(Fraction(fm['v']['fn'], fm['v']['fd']) * 86400)
        out.update(t='d', v=xl.serial_to_date(fm['v']['s']).isoformat() + 'T%02d:%02d:%02d' % (secs // 3600, secs // 60 % 60, secs % 60))
    elif f in ('fc', 'sm', 'sx'):
        t, v, s = value_attrs(fm['cached'])
        if t:
            out['t'] = t
        if s:
            out['s'] = s
        out['v'] = v
        if f == 'fc':
            out['f'] = render(fm['toks'])
        elif f == 'sm':
            out.update(f=render(fm['toks']), ft='shared', si=fm['si'], fref=fm.get('ref') or ref)
        else:
            out.update(f='', ft='shared', si=fm['si'])
    elif f == 'empty':
        out['s'] = STYLE_DATE
    else:
        raise xl.MachineryError(f'unknown form {f}')
    return out


def quote_sheet(name):
    plain = (all(ch.isalnum() or ch in '_.' for ch in name) and not name[0].isdigit()
             and not re.match(r'^[A-Za-z]{1,3}\d+$', name))
    return name if plain else "'" + name.replace("'", "''") + "'"


def name_ref(nm):
    a = f"${col_letters(nm['c1'])}${nm['r1']}"
    if (nm['c1'], nm['r1']) != (nm['c2'], nm['r2']):
        a += f":${col_letters(nm['c2'])}${nm['r2']}"
    return quote_sheet(nm['sh']) + '!' + a


def to_low(case):
    sheets = [{'name': s, 'cells': [low_cell(c) for c in case['cells'] if c['sh'] == s]} for s in case['sheets']]
    return {'sheets': sheets, 'names': [{'name': n['name'], 'ref': name_ref(n)} for n in case['names']]}


# --------------------------------------------------------------------------
# agreement on loaded values (XlReader!LoadAgrees)
# --------------------------------------------------------------------------
def load_agrees(obs, exp):
    te = exp['t']
    if te == 'open':
        return None
    if te == 'err':
        return (obs['t'] == 'err' and obs['v'] == exp['v']) or (obs['t'] == 'txt' and text_of(obs) == exp['v'])
    if te == 'blank':
        return obs['t'] == 'blank' or (obs['t'] == 'txt' and obs['v'] == [])
    if (te == 'date') != (obs['t'] == 'date'):
        return False            # a date constant loads as a date, a number as a number
    return agrees(obs, exp)


def same_obs(a, b):
    """two observed abstract values (loaded model vs dict model) are the same"""
    if a['t'] == 'exc' or b['t'] == 'exc':
        return a['t'] == b['t'] and a.get('cls') == b.get('cls')
    if a['t'] in ('num', 'date', 'float') and b['t'] in ('num', 'date', 'float'):
        if a['t'] == 'float' and b['t'] == 'float':
            return a['v'] == b['v'] or agrees(a, {'t': 'num', 'n': 0, 'd': 1}) is None
        if b['t'] == 'float':
            a, b = b, a
        return bool(agrees(a, b))
    if a['t'] == 'other' or b['t'] == 'other':
        return a == b
    return a == b


def project(v):
    a = xl.to_abs(v)
    a.pop('msg', None)
    return a


# --------------------------------------------------------------------------
# spec -> code
# --------------------------------------------------------------------------
def observe_names(model, L):
    out = {}
    for k, v in model.defined_names.items():
        if isinstance(v, L.xltypes.XLCell):
            out[k] = {'kind': 'cell', 'addr': v.address}
        elif isinstance(v, L.xltypes.XLRange):
            out[k] = {'kind': 'range', 'cells': [list(r) for r in v.cells]}
        else:
            out[k] = {'kind': 'other', 'cls': type(v).__name__}
    return out


def safe_eval(ev, addr):
    try:
        return project(ev.evaluate(addr))
    except BaseException as e:      # noqa
        if isinstance(e, (KeyboardInterrupt, SystemExit)):
            raise
        return project(e)


def dict_model(case, res, L):
    """the model 'built directly from the same cell contents' (read_and_parse_dict); None when some formula is open"""
    kept = [c for c in case['cells'] if c['sh'] not in case['ignore']]
    d, late = {}, {}
    for c, r in zip(kept, res['cells']):
        addr = r['addr']
        fm = c['form']
        if r['formula']['t'] == 'ftxt':
            d[addr] = r['formula']['s']
            continue
        if r['formula']['t'] == 'open' or fm['f'] == 'empty':
            return None, None
        v = fm['v']
        if v['t'] == 'num':
            d[addr] = v['n'] if v['d'] == 1 else v['n'] / v['d']
        elif v['t'] == 'txt' and v['v'] and v['v'][0] != 61:
            d[addr] = text_of(v)
        elif v['t'] == 'err':
            d[addr] = v['v']
        else:
            d[addr] = 0
            late[addr] = xl.from_abs(v, 'native')
    sheets = [s for s in case['sheets'] if s not in case['ignore']]
    if not d:
        return None, None
    model = L.ModelCompiler().read_and_parse_dict(d, default_sheet=sheets[0])
    ev = L.Evaluator(model)
    for addr, v in late.items():
        ev.set_cell_value(addr, v)
    return model, ev


def uses_name(case, c):
    names = {n['name'] for n in case['names']}
    return any(t['k'] == 'lit' and t['s'] in names for t in c['form'].get('toks', []))


def unqualified_range(case, c):
    """the cell's formula contains a range without a sheet qualifier"""
    fm = c['form']
    if fm['f'] == 'sx':
        ms = [m for m in case['cells'] if m['sh'] == c['sh'] and m['form']['f'] == 'sm' and m['form']['si'] == fm['si']]
        if not ms:
            return False
        fm = ms[0]['form']
    toks = fm.get('toks') or []
    return any(t['k'] == 'lit' and t['s'] == ':' and i > 0 and toks[i - 1]['k'] == 'ref' and toks[i - 1]['q'] == ''
               for i, t in enumerate(toks))


class Replay:
    """callable for pool.pmap over dump blocks"""

    def __init__(self, work, seed=0):
        self.work = work
        self.seed = seed

    def __call__(self, blocks):
        """items: dump blocks (spec -> code) and ('fx', path, tag) / ('rnd', i) recording jobs (code -> spec),
        in one pool so that the large fixture is read while the enumerated workbooks are replayed"""
        out = {'n': 0, 'files': 0, 'cmp': 0, 'open': 0, 'dis': [], 'samples': [], 'kinds': {}, 'clauses': {}, 'recs': []}
        for i, b in enumerate(blocks):
            if isinstance(b, tuple):
                if b[0] == 'fx':
                    out['recs'] += record_files([(b[1], b[2])])
                else:
                    out['recs'] += RecordRandom(self.work, self.seed)([b[1]])
                continue
            st = pool.parse_block(b) if isinstance(b, str) else b
            path = os.path.join(self.work, f'wb-{os.getpid()}-{i}.xlsx')
            try:
                check_case(st['case'], st['res'], path, out)
            finally:
                if os.path.exists(path):
                    os.remove(path)
        return out


def check_case(case, res, path, out):
    L = xl.lib()
    out['n'] += 1
    out['kinds'][case['kind']] = out['kinds'].get(case['kind'], 0) + 1
    kept = [c for c in case['cells'] if c['sh'] not in case['ignore']]
    assert len(kept) == len(res['cells'])

    def dis(clause, exp, obs, cell=None, addr=None, extra=None):
        f = {'clause': clause, 'kind': case['kind'],
             'form': cell['form']['f'] if cell else None,
             'quoted_sheet': bool(cell and quote_sheet(cell['sh']).startswith("'")),
             'exp': klass(exp) if isinstance(exp, dict) and 't' in exp else None,
             'obs': klass(obs) if isinstance(obs, dict) and 't' in obs else None}
        if extra:
            f.update(extra)
        out['dis'].append({'case': {'wb': case, 'res': res, 'focus': addr}, 'exp': exp, 'obs': obs,
                           'clause': clause, 'features': f})

    def cmpd(clause):
        out['cmp'] += 1
        out['clauses'][clause] = out['clauses'].get(clause, 0) + 1

    write_xlsx(path, to_low(case))
    out['files'] += 1
    try:
        model = L.ModelCompiler().read_and_parse_archive(path, ignore_sheets=list(case['ignore']))
    except BaseException as e:      # noqa
        if isinstance(e, (KeyboardInterrupt, SystemExit)):
            raise
        names = case['names']
        dis('load-exception', {'t': 'loaded'}, project(e), extra={
            'name_kind': ('cell' if (names[0]['c1'], names[0]['r1']) == (names[0]['c2'], names[0]['r2']) else 'range') if names else None,
            'name_on_ignored': bool(names and names[0]['sh'] in case['ignore']),
            'name_sheet_quoted': bool(names and quote_sheet(names[0]['sh']).startswith("'")),
            'name_sheet_apostrophe': bool(names and "'" in names[0]['sh'])})
        cmpd('load')
        return
    cmpd('load')
    expected = {r['addr']: (c, r) for c, r in zip(kept, res['cells'])}
    # --- cells: one per stored cell, none with content from elsewhere ---
    for addr, (c, r) in expected.items():
        cmpd('cell-present')
        if addr not in model.cells:
            dis('missing-cell', r['value'], {'t': 'absent'}, c, addr)
    for addr, cell in model.cells.items():
        if addr in expected:
            continue
        cmpd('no-extra-cell')
        v = project(cell.value)
        if cell.formula is not None or not (v['t'] == 'blank' or (v['t'] == 'txt' and v['v'] == [])):
            sheet = addr.rsplit('!', 1)[0]
            dis('ignored-sheet-cell' if sheet in case['ignore'] else 'extra-cell', {'t': 'absent'}, v, None, addr)
    # --- value, formula text, cached value through get_cell_value (before any evaluation) ---
    for addr, (c, r) in expected.items():
        cell = model.cells.get(addr)
        if cell is None:
            continue
        v = project(cell.value)
        ok = load_agrees(v, r['value'])
        if ok is None:
            out['open'] += 1
        else:
            cmpd('value')
            if not ok:
                dis('value', r['value'], v, c, addr)
        ft = cell.formula.formula if cell.formula is not None else None
        if r['formula']['t'] == 'open':
            out['open'] += 1
        else:
            cmpd('formula-text')
            want = r['formula']['s'] if r['formula']['t'] == 'ftxt' else None
            if ft != want:
                dis('formula-text', {'t': 'formula', 's': want}, {'t': 'formula', 's': ft}, c, addr)
        if r['value']['t'] != 'open':
            cmpd('get_cell_value')
            try:
                g = project(model.get_cell_value(addr))
            except Exception as e:      # noqa
                g = project(e)
            if not load_agrees(g, r['value']):
                dis('get_cell_value', r['value'], g, c, addr)
    if not any(x['workbook_kind'] == case['kind'] for x in out['samples']):
        a0 = next((a for a, (c, r) in expected.items() if c['form']['f'] in ('sx', 'fc') and a in model.cells), None)
        if a0:
            out['samples'].append({'workbook_kind': case['kind'], 'sheets': case['sheets'], 'ignore': case['ignore'],
                                   'cell': a0, 'stored_as': expected[a0][0]['form']['f'], 'expected': expected[a0][1],
                                   'loaded_value': project(model.cells[a0].value),
                                   'loaded_formula': model.cells[a0].formula.formula if model.cells[a0].formula else None})
    # --- formulae keys ---
    want_f = {a for a, (c, r) in expected.items() if c['form']['f'] in ('fc', 'sm', 'sx')}
    got_f = {k for k in model.formulae if '!' in k}
    cmpd('formulae-keys')
    if want_f != got_f:
        dis('formulae-keys', {'t': 'keys', 'v': sorted(want_f - got_f)}, {'t': 'keys', 'v': sorted(got_f - want_f)})
    for k in model.formulae:
        if '!' not in k:
            d = model.defined_names.get(k)
            if not (isinstance(d, L.xltypes.XLCell) and d.address in want_f):
                dis('formulae-keys', {'t': 'keys', 'v': []}, {'t': 'keys', 'v': [k]})
    # --- defined names ---
    got_n = observe_names(model, L)
    for nm, rn in zip(case['names'], res['names']):
        if rn['kind'] == 'open':
            out['open'] += 1
            continue
        cmpd('name-binding')
        want = {k: rn[k] for k in rn if k != 'name'}
        got = got_n.get(nm['name'], {'kind': 'absent'})
        if got != want:
            dis('name-binding', want, got, None, nm['name'],
                {'name_kind': rn['kind'], 'name_sheet_quoted': quote_sheet(nm['sh']).startswith("'"),
                 'name_sheet_apostrophe': "'" in nm['sh'], 'got': got['kind']})
    # --- evaluation: against the spec and against the model built from the same contents ---
    ev = L.Evaluator(model)
    default_sheet = next((s for s in case['sheets'] if s not in case['ignore']), None)
    dm, dev = None, None
    try:
        dm, dev = dict_model(case, res, L)
    except BaseException as e:      # noqa
        if isinstance(e, (KeyboardInterrupt, SystemExit)):
            raise
        dis('dict-model-exception', {'t': 'built'}, project(e))
    for addr, (c, r) in expected.items():
        if addr not in model.cells:
            continue
        o = safe_eval(ev, addr)
        ok = agrees(o, r['eval'])
        if ok is None:
            out['open'] += 1
        else:
            cmpd('eval-vs-spec')
            if not ok:
                dis('eval-vs-spec', r['eval'], o, c, addr, {'formula': r['formula'].get('s')})
        if dev is not None and c['form']['f'] != 'e':
            if uses_name(case, c):
                continue        # read_and_parse_dict has no defined names: not the same content
            if c['sh'] != default_sheet and unqualified_range(case, c):
                # read_and_parse_dict gives every formula the default sheet: an unqualified range on
                # another sheet denotes other cells there (C03) - not the same content, nothing to compare
                out['open'] += 1
                continue
            cmpd('eval-vs-dict')
            d = safe_eval(dev, addr)
            if not same_obs(o, d):
                dis('eval-vs-dict', d, o, c, addr, {'formula': r['formula'].get('s')})
    for nm, rn in zip(case['names'], res['names']):
        if rn['kind'] == 'cell' and nm['name'] in model.defined_names:
            cmpd('eval-name')
            a, b = safe_eval(ev, nm['name']), safe_eval(ev, rn['addr'])
            if not same_obs(a, b):
                dis('eval-name', b, a, None, nm['name'])


# --------------------------------------------------------------------------
# the harness's own reader of .xlsx files (code -> spec)
# --------------------------------------------------------------------------
NS = '{http://schemas.openxmlformats.org/spreadsheetml/2006/main}'
RNS = '{http://schemas.openxmlformats.org/officeDocument/2006/relationships}'
PURE_DATE_FMT = {14, 15, 16, 17}
NOT_DATE_FMT = set(range(0, 14)) | set(range(37, 45)) | {48, 49}
_COORD = re.compile(r'^([A-Z]+)(\d+)$')
_ESC = re.compile(r'_x[0-9A-Fa-f]{4}_')
_TOK = re.compile(r'''"(?:[^"]|"")*"|(?<![\w.$'!])(?P<q>(?:'(?:[^']|'')*'|[^\W\d][\w.]*)!)?(?P<ac>\$?)(?P<c>[A-Z]{1,3})(?P<ar>\$?)(?P<r>[1-9]\d{0,6})(?![\w(!.])''')
_UNSIMPLE = re.compile(r'''(?<![\w$])\$?[A-Za-z]{1,3}:\$?[A-Za-z]{1,3}(?![\w(])|(?<![\w$.])\$?\d+:\$?\d+(?![\w.])|\[|\s|#REF!|(?<![\w.$'!])\$?[a-z]{1,3}\$?\d+(?![\w(])''')
_NAME = re.compile(r'''^(?:'((?:[^']|'')*)'|([^'!,:]+))!\$([A-Z]{1,3})\$(\d+)(?::\$([A-Z]{1,3})\$(\d+))?$''')


def tokenize(text):
    """master formula text -> token list (lossless), or None when it contains something whose
    translation the property does not fix (whole rows / columns, blanks, structured references)."""
    stripped = re.sub(r'"(?:[^"]|"")*"', '""', text)
    if _UNSIMPLE.search(stripped):
        return None
    toks, pos = [], 0
    for m in _TOK.finditer(text):
        if m.group('c') is None:
            continue
        if m.start() > pos:
            toks.append({'k': 'lit', 's': text[pos:m.start()]})
        toks.append({'k': 'ref', 'q': m.group('q') or '', 'col': col_index(m.group('c')), 'row': int(m.group('r')),
                     'absc': bool(m.group('ac')), 'absr': bool(m.group('ar'))})
        pos = m.end()
    if pos < len(text):
        toks.append({'k': 'lit', 's': text[pos:]})
    if ''.join(render_tok(t) for t in toks) != text:
        return None
    return toks


def _si_text(si):
    """shared string item -> (text, plain?)"""
    kids = list(si)
    if len(kids) == 1 and kids[0].tag == NS + 't':
        s = kids[0].text or ''
        return s, not _ESC.search(s)
    return ''.join(t.text or '' for t in si.iter(NS + 't')), False


def _number(text):
    try:
        x = int(text) if re.match(r'^-?\d+$', text) else float(text)
    except ValueError:
        return None
    return xl.to_abs(x)


def read_xlsx(path):
    """-> {'sheets': [names], 'cells': [ {sh,col,row,form, master?} ], 'names': [...], 'skipped': n}"""
    z = zipfile.ZipFile(path)
    wbx = ET.fromstring(z.read('xl/workbook.xml'))
    rels = ET.fromstring(z.read('xl/_rels/workbook.xml.rels'))
    relmap = {r.get('Id'): (r.get('Target'), r.get('Type')) for r in rels}
    pr = wbx.find(NS + 'workbookPr')
    date1904 = pr is not None and pr.get('date1904') in ('1', 'true')
    sst = []
    if 'xl/sharedStrings.xml' in z.namelist():
        sst = [_si_text(si) for si in ET.fromstring(z.read('xl/sharedStrings.xml')).findall(NS + 'si')]
    xfs = []
    if 'xl/styles.xml' in z.namelist():
        st = ET.fromstring(z.read('xl/styles.xml'))
        cx = st.find(NS + 'cellXfs')
        if cx is not None:
            xfs = [int(x.get('numFmtId', '0')) for x in cx]
    out = {'sheets': [], 'cells': [], 'names': [], 'skipped': 0}
    for sh in wbx.find(NS + 'sheets'):
        target, typ = relmap[sh.get(RNS + 'id')]
        if not typ.endswith('/worksheet'):
            continue
        part = target.lstrip('/') if target.startswith('/') else 'xl/' + target
        name = sh.get('name')
        out['sheets'].append(name)
        root = ET.fromstring(z.read(part))
        masters = {}
        for row in root.find(NS + 'sheetData'):
            for c in row:
                m = _COORD.match(c.get('r') or '')
                if not m:
                    out['skipped'] += 1
                    continue
                cell = {'sh': name, 'col': col_index(m.group(1)), 'row': int(m.group(2)), 'raw': c.findtext(NS + 'v'), 'rawt': c.get('t', 'n')}
                t = c.get('t', 'n')
                style = int(c.get('s', '0') or 0)
                fmt = xfs[style] if style < len(xfs) else 0
                vtext = c.findtext(NS + 'v')
                if vtext == '':
                    vtext = None
                # ---- the stored value ----
                val = {'t': 'open'}
                if t == 'inlineStr':
                    is_ = c.find(NS + 'is')
                    if is_ is not None:
                        s, plain = _si_text(is_)
                        if plain:
                            val = {'t': 'txt', 'v': [ord(ch) for ch in s]}
                elif vtext is None:
                    val = {'t': 'blank'}
                elif t == 'n':
                    num = _number(vtext)
                    if num is None or date1904:
                        pass
                    elif fmt in NOT_DATE_FMT:
                        val = num
                    elif fmt in PURE_DATE_FMT and num['t'] == 'num' and num['d'] == 1 and 61 <= num['n'] < 2958466:
                        val = {'t': 'date', 's': num['n'], 'fn': 0, 'fd': 1}
                    elif fmt in PURE_DATE_FMT and num['t'] == 'num' and num['d'] in (2, 4, 8, 16) and 61 <= num['n'] // num['d'] < 2958465:
                        # a serial with a time of day (a dyadic fraction of the day: whole seconds, exact in doubles)
                        val = {'t': 'date', 's': num['n'] // num['d'], 'fn': num['n'] % num['d'], 'fd': num['d']}
                elif t == 's':
                    s, plain = sst[int(vtext)]
                    if plain:
                        val = {'t': 'txt', 'v': [ord(ch) for ch in s]}
                elif t == 'str':
                    if not _ESC.search(vtext):
                        val = {'t': 'txt', 'v': [ord(ch) for ch in vtext]}
                elif t == 'b':
                    val = {'t': 'bool', 'v': vtext.strip() == '1'}
                elif t == 'e':
                    val = {'t': 'err', 'v': vtext}
                elif t == 'd':
                    mm = re.match(r'^(\d{4})-(\d\d)-(\d\d)T(\d\d):(\d\d):(\d\d)(?:\.0+)?Z?$', vtext)
                    if mm:
                        y, mo, d, hh, mi, ss = map(int, mm.groups())
                        s = xl.ymd_to_serial(y, mo, d)
                        if s >= 61:
                            from fractions import Fraction
                            fr = Fraction(hh * 3600 + mi * 60 + ss, 86400)
                            val = {'t': 'date', 's': s, 'fn': fr.numerator, 'fd': fr.denominator}
                # ---- the storage form ----
                f = c.find(NS + 'f')
                if f is None:
                    if vtext is None and t != 'inlineStr':
                        cell['form'] = {'f': 'empty'}
                    else:
                        form = {'n': 'n', 's': 's', 'str': 'str', 'inlineStr': 'inlineStr', 'b': 'b', 'e': 'e', 'd': 'iso'}.get(t, 'empty')
                        if form == 'n' and val['t'] == 'date':
                            form = 'd'
                        cell['form'] = {'f': form, 'v': val} if form != 'empty' else {'f': 'empty'}
                else:
                    ft = f.get('t')
                    text = f.text or ''
                    si = f.get('si')
                    if ft == 'shared' and si in masters:
                        mc = masters[si]
                        if mc is None:
                            cell['form'] = {'f': 'fo', 'cached': val}
                        else:
                            cell['form'] = {'f': 'sx', 'si': int(si), 'cached': val}
                            cell['master'] = mc
                    elif ft == 'shared' and text:
                        toks = tokenize(text)
                        if toks is None:
                            masters[si] = None
                            cell['form'] = {'f': 'fc', 'toks': [{'k': 'lit', 's': text}], 'cached': val}
                        else:
                            cell['form'] = {'f': 'sm', 'si': int(si), 'toks': toks, 'cached': val}
                            masters[si] = {k: cell[k] for k in ('sh', 'col', 'row', 'form')}
                    elif ft in (None, 'normal'):
                        cell['form'] = {'f': 'fc', 'toks': [{'k': 'lit', 's': text}], 'cached': val}
                    else:       # array formulas, data tables, a member without a master: left open
                        cell['form'] = {'f': 'fo', 'cached': val}
                out['cells'].append(cell)
    dn = wbx.find(NS + 'definedNames')
    for d in (dn if dn is not None else []):
        nm = {'name': d.get('name'), 'text': d.text or '', 'open': True}
        m = _NAME.match(nm['text'])
        if m and d.get('hidden') is None and d.get('localSheetId') is None and not d.get('name').startswith('_xlnm.'):
            sheet = m.group(1).replace("''", "'") if m.group(1) is not None else m.group(2)
            c1, r1 = col_index(m.group(3)), int(m.group(4))
            c2, r2 = (col_index(m.group(5)), int(m.group(6))) if m.group(5) else (c1, r1)
            degenerate = m.group(5) is not None and (c1, r1) == (c2, r2)      # A1:A1 - a cell or a 1x1 range: left open
            if sheet in out['sheets'] and c1 <= c2 and r1 <= r2 and (c2 - c1 + 1) * (r2 - r1 + 1) <= 400 and not degenerate:
                nm.update(open=False, sh=sheet, c1=c1, r1=r1, c2=c2, r2=r2)
        out['names'].append(nm)
    return out


def events_of_file(path, tag):
    """load `path` with the library and pair every stored cell / defined name with what the model holds"""
    L = xl.lib()
    content = read_xlsx(path)
    model = L.ModelCompiler().read_and_parse_archive(path, build_code=False)
    ev = []
    stored = set()
    for c in content['cells']:
        addr = f"{c['sh']}!{col_letters(c['col'])}{c['row']}"
        stored.add(addr)
        cell = model.cells.get(addr)
        if cell is None:
            obs = {'present': False, 'value': {'t': 'absent'}, 'formula': {'t': 'none'}}
        else:
            obs = {'present': True, 'value': project(cell.value),
                   'formula': {'t': 'ftxt', 's': cell.formula.formula} if cell.formula is not None else {'t': 'none'}}
        core = {k: c[k] for k in ('sh', 'col', 'row', 'form')}
        ev.append({'k': 'cell', 'file': tag, 'c': core, 'm': c.get('master', core), 'res': obs})
    got = observe_names(model, L)
    nopen = 0
    for nm in content['names']:
        if nm['open']:
            nopen += 1
            continue
        a = f"{nm['sh']}!{col_letters(nm['c1'])}{nm['r1']}"
        ev.append({'k': 'name', 'file': tag, 'nm': {k: nm[k] for k in ('name', 'sh', 'c1', 'r1', 'c2', 'r2')},
                   'ignored': False, 'stored': a in stored, 'res': got.get(nm['name'], {'kind': 'absent'})})
    # content that the file does not store must not appear either
    extra = [a for a, cell in model.cells.items() if a not in stored and
             (cell.formula is not None or cell.value not in (None, ''))]
    return ev, extra, nopen + content['skipped']


def record_files(items):
    out = []
    for path, tag in items:
        try:
            ev, extra, nopen = events_of_file(path, tag)
            out.append({'tag': tag, 'events': ev, 'extra': extra, 'open': nopen, 'exc': None})
        except BaseException as e:      # noqa
            if isinstance(e, (KeyboardInterrupt, SystemExit)):
                raise
            out.append({'tag': tag, 'events': [], 'extra': [], 'open': 0, 'exc': project(e)})
    return out


# --------------------------------------------------------------------------
# seeded random workbooks beyond the bounded instance (larger grids, columns
# beyond Z, more sheet names, longer texts, scattered shared groups)
# --------------------------------------------------------------------------
SHEET_POOL = ['S1', 'Data 2', "O'x", 'Σ', 'Sheet 1', 'A&B', "x'y'z", 'Лист', 'S-1', '2020', 'a.b', 'AB12', "It's", 'new sheet (2)']
COLS = [1, 2, 3, 4, 5, 6, 26, 27, 28, 702, 703]
CHARS = 'abAB xyz<>&"\'éßΩ中€,;=+-\n\t'
ERRS = ['#NULL!', '#DIV/0!', '#VALUE!', '#REF!', '#NAME?', '#NUM!', '#N/A']


def rnd_text(rng, allow_empty=True):
    n = rng.choice([0 if allow_empty else 1, 1, 2, 5, 12, 40])
    return ''.join(rng.choice(CHARS) for _ in range(n))


def rnd_number(rng):
    k = rng.random()
    if k < 0.4:
        return str(rng.randint(-1000, 100000))
    if k < 0.7:
        return xl.fmt_rational(rng.randint(-99999, 99999), rng.choice([2, 4, 5, 8, 10, 100, 1000]))
    if k < 0.8:
        return repr(rng.uniform(-1e6, 1e6))
    if k < 0.9:
        return '%.6E' % rng.uniform(-1e12, 1e12)
    return str(rng.choice([0, 2 ** 31, 10 ** 12, -2 ** 40]))


def rnd_ref(rng, sheets, shared=False):
    q = ''
    if rng.random() < 0.4:
        q = quote_sheet(rng.choice(sheets)) + '!'
    ac = rng.choice(['', '$'])
    # members of a shared group lie up to 702 columns to the left of their master: a relative
    # column is chosen so that it stays on the sheet (a reference pushed off the sheet is left open)
    col = rng.choice([704, 710, 1000, 15000]) if shared and not ac else rng.choice(COLS + [30, 60])
    return q + ac + col_letters(col) + rng.choice(['', '$']) + str(rng.randint(1, 60))


def rnd_formula(rng, sheets, shared=False):
    k = rng.randrange(7)
    a, b = rnd_ref(rng, sheets, shared), rnd_ref(rng, sheets, shared)
    if k == 0:
        return a
    if k == 1:
        return f'{a}+{b}*2'
    if k == 2:      # a small range: the second corner lies 0-2 columns / 0-3 rows beyond the first
        m = re.match(r"^(.*?)(\$?)([A-Z]+)(\$?)(\d+)$", a)
        return (f'SUM({a}:{m.group(2)}{col_letters(col_index(m.group(3)) + rng.randint(0, 2))}'
                f'{rng.choice(["", "$"])}{int(m.group(5)) + rng.randint(0, 3)})')
    if k == 3:
        return f'IF({a}>0,"B2 is {rng.randint(1, 9)}",{b})'
    if k == 4:
        return f'LOG10({a})+ROUND({b},2)&"x"'
    if k == 5:
        return f'-({a}-1.5E3)/{b}'
    return f'MAX({a},{b},{rnd_ref(rng, sheets, shared)})'


def rnd_cached(rng):
    k = rng.randrange(6)
    if k == 0:
        return {}
    if k == 1:
        return {'t': 'str', 'v': rnd_text(rng, allow_empty=False)}
    if k == 2:
        return {'t': 'b', 'v': rng.choice('01')}
    if k == 3:
        return {'t': 'e', 'v': rng.choice(ERRS)}
    if k == 4:
        return {'v': str(rng.randint(61, 60000)), 's': STYLE_DATE}
    return {'v': rnd_number(rng)}


def gen_workbook(rng):
    sheets = rng.sample(SHEET_POOL, rng.randint(1, 4))
    out = []
    for name in sheets:
        coords = sorted({(rng.randint(1, 9), rng.choice(COLS)) for _ in range(rng.randint(0, 30))})
        cells = []
        groups = {}      # si -> True once the master has been written
        for r, c in coords:
            cell = {'ref': col_letters(c) + str(r)}
            k = rng.randrange(14)
            if k == 0:
                cell['v'] = rnd_number(rng)
            elif k == 1:
                cell.update(t='s', v=rnd_text(rng))
            elif k == 2:
                cell.update(t='str', v=rnd_text(rng, False))
            elif k == 3:
                cell.update(t='inlineStr', v=rnd_text(rng))
            elif k == 4:
                cell.update(t='b', v=rng.choice('01'))
            elif k == 5:
                cell.update(t='e', v=rng.choice(ERRS))
            elif k == 6:      # a date, sometimes with a time of day (06:00, 12:00, 13:30, 18:00)
                cell.update(v=str(rng.randint(61, 60000)) + rng.choice(['', '', '.25', '.5', '.5625', '.75']), s=STYLE_DATE)
            elif k == 7:
                d = xl.serial_to_date(rng.randint(61, 60000))
                cell.update(t='d', v=d.isoformat() + rng.choice(['T00:00:00', 'T00:00:00', 'T13:30:00', 'T06:00:00', 'T23:59:59']))
            elif k == 8:
                cell.update(v=rnd_number(rng), s=2)
            elif k in (9, 10):
                cell.update(rnd_cached(rng), f=rnd_formula(rng, sheets))
            else:
                si = rng.randint(0, 2)
                cell.update(rnd_cached(rng))
                if si in groups:
                    cell.update(f='', ft='shared', si=si)
                else:
                    groups[si] = True
                    cell.update(f=rnd_formula(rng, sheets, True), ft='shared', si=si, fref=cell['ref'])
            cells.append(cell)
        out.append({'name': name, 'cells': cells})
    names = []
    for i in range(rng.randint(0, 3)):
        sh = rng.choice(out)
        if not sh['cells']:
            continue
        a = rng.choice(sh['cells'])['ref']
        m = _COORD.match(a)
        c1, r1 = col_index(m.group(1)), int(m.group(2))
        if rng.random() < 0.5:
            ref = f"${m.group(1)}${r1}"
        else:
            dc = rng.randint(0, 2)
            ref = f"${m.group(1)}${r1}:${col_letters(c1 + dc)}${r1 + rng.randint(0 if dc else 1, 2)}"
        names.append({'name': f'name_{i}', 'ref': quote_sheet(sh['name']) + '!' + ref})
    return {'sheets': out, 'names': names}


class RecordRandom:
    def __init__(self, work, seed):
        self.work = work
        self.seed = seed

    def __call__(self, idxs):
        out = []
        for i in idxs:
            rng = random.Random(self.seed * 1000003 + i)
            path = os.path.join(self.work, f'rnd-{os.getpid()}-{i}.xlsx')
            write_xlsx(path, gen_workbook(rng))
            try:
                out += record_files([(path, f'random:{self.seed}:{i}')])
            finally:
                os.remove(path)
        return out


# --------------------------------------------------------------------------
BUG_MODELS = {}


def fixture_files():
    res = os.path.join(xl.REPO, 'tests', 'resources')
    return sorted(glob.glob(os.path.join(res, '*.xlsx')) + glob.glob(os.path.join(res, '*.xlsm')))


def trace_features(e, x, v):
    f = {'verdict': v, 'k': e['k'], 'source': 'fixture' if not e['file'].startswith('random:') else 'random'}
    if e['k'] == 'cell':
        f['form'] = e['c']['form']['f']
        f['obs'] = klass(e['res']['value']) if 't' in e['res']['value'] else None
    return f


def validate_events(run, recs, name):
    events = [e for r in recs for e in r['events']]
    for r in recs:
        run.undetermined += r['open']
        if r['exc'] is not None:
            run.disagree('trace-load', {'file': r['tag']}, {'t': 'loaded'}, r['exc'],
                         {'clause': 'load-exception', 'source': r['tag'].split(':')[0], 'obs': klass(r['exc'])},
                         clause='load-exception')
        for a in r['extra']:
            run.disagree('trace-load', {'file': r['tag'], 'addr': a}, {'t': 'absent'}, {'t': 'present'},
                         {'clause': 'extra-cell', 'source': r['tag'].split(':')[0]}, clause='extra-cell')
    run.evaluations += len(events)
    res = trace.validate(run, events, module='Trace_C11', name=name, features=trace_features)
    return events, res


def run(run):
    os.environ.update(UTF8)
    quick = run.tier == 'quick'
    phase, t0 = {}, time.time()

    def lap(name):
        nonlocal t0
        phase[name] = round(time.time() - t0, 1)
        t0 = time.time()
    r = run.tlc('MC_C11', 'C11_quick.cfg' if quick else 'C11_thorough.cfg', dump=True, timeout=1800, env=UTF8)
    lap('tlc_enumerate')
    blocks = pool.dump_blocks(r.dump, skip_substr='"pending"')
    fx = sorted(fixture_files(), key=os.path.getsize, reverse=True)
    nrand = 300 if quick else 3000
    jobs = ([('fx', p, 'fixture:' + os.path.basename(p)) for p in fx] + blocks + [('rnd', i) for i in range(nrand)])
    results = pool.pmap(Replay(run.work, run.seed), jobs, nchunks=pool.NPROC * 8)
    lap('replay_and_record')
    kinds, clauses, files = {}, {}, 0
    sampled = set()
    for o in results:
        files += o['files']
        run.evaluations += o['cmp']
        run.undetermined += o['open']
        run.traces += o['n']
        run.nontrivial_count += o['n']
        for k, v in o['kinds'].items():
            kinds[k] = kinds.get(k, 0) + v
        for k, v in o['clauses'].items():
            clauses[k] = clauses.get(k, 0) + v
        for s in o['samples']:
            if s['workbook_kind'] not in sampled:
                sampled.add(s['workbook_kind'])
                run.sample(s)
        for d in o['dis']:
            run.disagree('replay', d['case'], d['exp'], d['obs'], d['features'], clause=d['clause'])
    if files != len(blocks) or files == 0:
        raise xl.MachineryError(f'{files} files written for {len(blocks)} workbooks')
    run.notes['workbooks_by_kind'] = kinds
    run.notes['comparisons_by_clause'] = clauses
    run.notes['xlsx_files_written_and_loaded'] = files
    run.rule = ('cases = all done-states of MC_C11, one abstract workbook + ignore set each (every storage form x every form as '
                'neighbour at 3 positions; shared blocks 1x3/3x1/2x2 with the master at each corner x 9 reference kinds on '
                'a plain and a quoted sheet; every ordered choice of 1-3 of the 4 sheet names x every ignore subset, 4-sheet '
                'workbooks x all 16 subsets; names of cells / ranges / unstored cells on kept and ignored sheets); distinct by '
                'TLC fingerprint; every case is non-trivial (a file is written, loaded and compared clause by clause)')
    run.exhaustive = True
    run.assumptions = [
        'an error constant / cached error must carry its code; whether as an error value or as the text of the code is left open',
        'cells the model adds for range padding are tolerated only when empty (no formula, blank or empty text)',
        'left open: array formulas, data tables, hidden names, number formats that are not the built-in pure date formats 14-17, '
        'times of day, rich text, ignore_hidden, 1904 date system, shared groups whose master is not the first cell in document order, '
        'references pushed off the sheet, spelling of a member formula when the master contains blanks / whole rows / columns, '
        'ISO date cells without a time part, names of unstored cells and names on ignored sheets (loading must still succeed)',
        'evaluation is compared with the spec only for =ref, operands joined by +, SUM(range) over numbers without $-references '
        '(EvalAbs = FALSE; $-references, names in formulas and unqualified ranges belong to C03)',
    ]
    # ---- code -> spec: fixtures of the repository + seeded random workbooks, validated by TLC ----
    recs = [x for o in results for x in o['recs']]
    events, res = validate_events(run, recs, 'trace')
    lap('tlc_trace')
    ev1 = [e for e in events if e['file'].startswith('fixture:')]
    ev2 = [e for e in events if e['file'].startswith('random:')]
    res1 = [x for x in res if x[0]['file'].startswith('fixture:')]
    res2 = [x for x in res if x[0]['file'].startswith('random:')]
    run.notes['fixture_files'] = len(fx)
    run.notes['fixture_events'] = len(ev1)
    run.notes['random_files'] = nrand
    run.notes['random_events'] = len(ev2)
    run.notes['phase_seconds'] = phase
    verd = {}
    for e, v, x in res1 + res2:
        key = f"{e['k']}:{e['c']['form']['f'] if e['k'] == 'cell' else 'name'}:{v}"
        verd[key] = verd.get(key, 0) + 1
    run.notes['trace_verdicts'] = verd
    for e, v, x in res1:
        if v == 'ok' and e['k'] == 'cell' and e['c']['form']['f'] == 'sx':
            run.sample({'trace_event': {k: e[k] for k in ('file', 'c', 'res')}, 'master': e['m'], 'verdict': v})
            break
    if not ev1 or not ev2:
        raise xl.MachineryError('no trace events')


def replay(path):
    d = json.load(open(path))
    os.environ.update(UTF8)
    if d['kind'] == 'replay':
        from harness import core
        work = os.path.join(core.VERIF, '.work', f'C11-replay-{os.getpid()}')
        os.makedirs(work, exist_ok=True)
        out = {'n': 0, 'files': 0, 'cmp': 0, 'open': 0, 'dis': [], 'samples': [], 'kinds': {}, 'clauses': {}}
        p = os.path.join(work, 'wb.xlsx')
        try:
            check_case(d['case']['wb'], d['case']['res'], p, out)
        finally:
            import shutil
            shutil.rmtree(work, ignore_errors=True)
        same = [x for x in out['dis'] if x['clause'] == d['clause']]
        for x in same[:5]:
            print('clause', x['clause'], 'focus', x['case']['focus'], '\n expected', x['exp'], '\n observed', x['obs'])
        if same:
            print(f"VIOLATION property={d['property']} replay={path}")
            return 1
        print('agrees now')
        return 0
    print(json.dumps({k: d[k] for k in ('kind', 'clause', 'case', 'expected', 'observed')}, indent=1)[:3000])
    print('trace disagreements are re-checked by running ./check C11 (fixtures and seeded workbooks are regenerated)')
    return 1

"""C15 - criteria counting and lookups agree with a linear scan of the range."""
import random
from fractions import Fraction

from harness import calls, pool, trace, xl

CRIT_FUNCS = ('COUNTIF', 'COUNTIFS', 'SUMIF', 'SUMIFS')
OPS = ['', '=', '<>', '<', '<=', '>', '>=']
WORDS = ['abc', 'ABC', 'Abc', 'b', 'B', 'bb', 'c', 'ab', 'zeta', 'Zeta', 'x y', 'q.r', '(p)', 'd', 'D']


# ---------------------------------------------------------------------------
# abstract values
# ---------------------------------------------------------------------------
def T(s):
    return {'t': 'txt', 'v': [ord(c) for c in s]}


def N(n, d=1):
    return {'t': 'num', 'n': n, 'd': d}


def B(v):
    return {'t': 'bool', 'v': v}


def ARR(rows):
    return {'t': 'arr', 'v': rows}


def col(cells):
    return ARR([[x] for x in cells])


def numtext(x):
    return xl.fmt_rational(x['n'], x['d'])


def key_of(x):
    """sort / equality key of a num or txt abstract value (texts after numbers, case-insensitive)"""
    if x['t'] == 'num':
        return (0, x['n'] / x['d'], '')
    return (1, 0, ''.join(chr(c) for c in x['v']).upper())


# ---------------------------------------------------------------------------
# does the installed pandas support SUMIF / SUMIFS?  (probe once per process)
# ---------------------------------------------------------------------------
def sumif_supported():
    L = xl.lib()
    try:
        L.xl.FUNCTIONS['SUMIF'](L.ft.Array([[1], [2]]), '>0')
        return True
    except AttributeError as e:
        if 'applymap' in str(e):
            return False
        return True
    except BaseException:      # noqa
        return True


# ---------------------------------------------------------------------------
# seeded driver (code -> spec): larger tables, random criteria strings
# ---------------------------------------------------------------------------
def rnum(rng):
    r = rng.random()
    if r < 0.7:
        return N(rng.randint(-20, 20))
    if r < 0.85:
        return N(2 * rng.randint(-20, 20) + 1, 2)
    return N(4 * rng.randint(-9, 9) + rng.choice([1, 3]), 4)


def rcell(rng, ptext=0.4):
    return T(rng.choice(WORDS)) if rng.random() < ptext else rnum(rng)


def rcrit(rng, cells):
    """a criterion related to the cells: operator prefix x (cell value | near value | other)"""
    r = rng.random()
    base = rng.choice(cells) if cells and r < 0.7 else rcell(rng)
    if base['t'] == 'num' and rng.random() < 0.3:
        base = N(base['n'] + rng.choice([-1, 1]) * base['d'], base['d']) if rng.random() < 0.5 else N(2 * base['n'] + base['d'], 2 * base['d'])
        fr = Fraction(base['n'], base['d'])
        base = N(fr.numerator, fr.denominator)
    if base['t'] == 'txt' and rng.random() < 0.4:
        s = ''.join(chr(c) for c in base['v'])
        base = T(s.swapcase() if rng.random() < 0.7 else s + rng.choice('az'))
    if base['t'] == 'num' and rng.random() < 0.15:
        return base                                   # plain number
    op = rng.choice(OPS)
    operand = numtext(base) if base['t'] == 'num' else ''.join(chr(c) for c in base['v'])
    if rng.random() < 0.04:                           # left open by the property: wildcard / empty operand
        operand = rng.choice(['a*', '?', '', 'b~'])
    return T(op + operand)


def rcolumn(rng, n, ptext=0.4):
    pool_ = [rcell(rng, ptext) for _ in range(rng.randint(1, 6))]
    return [rng.choice(pool_) if rng.random() < 0.6 else rcell(rng, ptext) for _ in range(n)]


def driver(seed, count, sumif):
    rng = random.Random(seed * 7919 + 15)
    fs = ['COUNTIF'] * 4 + ['COUNTIFS'] * 3 + ['MATCH0'] * 2 + ['MATCH1'] * 3 + ['VLOOKUP'] * 4 + ['CHOOSE']
    if sumif:
        fs += ['SUMIF', 'SUMIF', 'SUMIFS']
    ev = []
    for i in range(count):
        f = rng.choice(fs)
        n = rng.choice([1, 2, 3, 5, 8, 13, 21, 30])
        if f == 'COUNTIF':
            if rng.random() < 0.2:      # a two-dimensional range
                w = rng.randint(2, 4)
                h = rng.randint(1, 7)
                cells = rcolumn(rng, w * h)
                rng_arr = ARR([cells[r * w:(r + 1) * w] for r in range(h)])
            else:
                cells = rcolumn(rng, n)
                rng_arr = col(cells)
            args = [rng_arr, rcrit(rng, cells)]
        elif f in ('COUNTIFS', 'SUMIFS'):
            k = rng.randint(1, 4)
            if rng.random() < 0.08:       # long columns: hundreds of cells per criteria range
                n = rng.choice([127, 130, 260, 300])
                k = rng.randint(2, 3)
            args = []
            for _ in range(k):
                cells = rcolumn(rng, n, rng.choice([0.1, 0.5, 0.9]))
                args += [col(cells), rcrit(rng, cells)]
            if f == 'SUMIFS':
                args = [col([rnum(rng) for _ in range(n)])] + args
        elif f == 'SUMIF':
            cells = rcolumn(rng, n)
            args = [col(cells), rcrit(rng, cells)]
            if rng.random() < 0.7:
                args.append(col([rnum(rng) for _ in range(n)]))
        elif f == 'MATCH0':
            f = 'MATCH'
            cells = rcolumn(rng, n)
            key = rng.choice(cells) if rng.random() < 0.75 else rcell(rng)
            if key['t'] == 'txt' and rng.random() < 0.5:
                key = T(''.join(chr(c) for c in key['v']).swapcase())
            args = [key, col(cells), N(0)]
        elif f == 'MATCH1':
            f = 'MATCH'
            ptext = rng.choice([0, 0, 1])
            cells = sorted(rcolumn(rng, n, ptext), key=key_of)
            r = rng.random()
            if r < 0.5:
                key = rng.choice(cells)
            elif r < 0.6:
                key = cells[-1]
            elif ptext:
                key = T(rng.choice(WORDS + ['a', 'zz', 'A', 'zzz']))
            else:
                key = rng.choice([N(-50), N(50), rnum(rng), N(2 * cells[-1]['n'] + cells[-1]['d'], 2 * cells[-1]['d'])])
                fr = Fraction(key['n'], key['d'])
                key = N(fr.numerator, fr.denominator)
            args = [key, col(cells)] + ([N(1)] if rng.random() < 0.6 else [])
            if rng.random() < 0.05:
                args = [key, col(cells), N(-1)]      # left open
        elif f == 'VLOOKUP':
            w = rng.randint(1, 6)
            keys = rcolumn(rng, n)
            rows = [[keys[r]] + [rcell(rng) for _ in range(w - 1)] for r in range(n)]
            key = rng.choice(keys) if rng.random() < 0.8 else rcell(rng)
            if key['t'] == 'txt' and rng.random() < 0.5:
                key = T(''.join(chr(c) for c in key['v']).swapcase())
            ci = rng.choice([0, 1, 2, w, w + 1, rng.randint(1, w), rng.randint(1, w), rng.randint(1, w)])
            args = [key, ARR(rows), N(ci), rng.choice([B(False), B(False), N(0)])]
        else:
            k = rng.randint(1, 10)
            vals = [rcell(rng) if rng.random() < 0.9 else B(rng.random() < 0.5) for _ in range(k)]
            idx = rng.choice([-2, 0, 1, k, k + 1, k + 2, rng.randint(1, k), rng.randint(1, k)])
            args = [N(idx) if rng.random() < 0.9 else T(str(idx))] + vals
        path = 'formula' if i % 3 != 1 else ('wrapped' if i % 2 else 'direct')
        ev.append({'f': f, 'args': args, 'path': path})
    return ev


def record(chunk):
    out = []
    for e in chunk:
        if e['path'] == 'formula':
            res, stored, text = calls.formula_call(e['f'], e['args'])
            e = dict(e, formula=[ord(c) for c in text])
        else:
            res = calls.direct_call(e['f'], e['args'], 'native' if e['path'] == 'direct' else 'wrapped')
        out.append(dict(e, res=res))
    return out


# ---------------------------------------------------------------------------
# features of a disagreement (finding signatures)
# ---------------------------------------------------------------------------
def _crit_class(c):
    if c['t'] != 'txt':
        return 'plain-' + c['t']
    s = ''.join(chr(x) for x in c['v'])
    op = ''
    for p in ('<=', '<>', '>=', '<', '>', '='):
        if s.startswith(p):
            op = p
            break
    rest = s[len(op):]
    try:
        v = float(rest)
        kind = 'neg' if v < 0 else 'num'
    except ValueError:
        kind = 'text'
    return f'{op or "none"}:{kind}'


def features(case, exp, obs, path):
    f = calls.default_features(case, exp, obs, path)
    f.pop('argtypes', None)
    a = case['args']
    name = case['f']
    try:
        if name in CRIT_FUNCS:
            start = 1 if name in ('COUNTIF', 'COUNTIFS') else (1 if name == 'SUMIF' else 2)
            crits = [a[i] for i in range(start, len(a), 2)] if name != 'SUMIF' else [a[1]]
            f['crit'] = sorted({_crit_class(c) for c in crits})
            rng_cells = [x for r in a if r['t'] == 'arr' for row in r['v'] for x in row]
            f['cells'] = sorted({x['t'] for x in rng_cells})
        elif name == 'MATCH':
            f['mt'] = a[2]['n'] if len(a) == 3 and a[2]['t'] == 'num' else 'omitted'
            cells = [row[0] for row in a[1]['v']]
            ks = [key_of(x) for x in cells]
            k = key_of(a[0])
            f['key'] = ('present' if k in ks else 'below' if k < min(ks) else 'above' if k > max(ks) else 'between')
            f['dup'] = len(set(ks)) < len(ks)
        elif name == 'VLOOKUP':
            w = len(a[1]['v'][0])
            ci = a[2]['n']
            f['col'] = 'lt1' if ci < 1 else 'gt_width' if ci > w else 'c2' if ci == 2 else 'c1' if ci == 1 else 'other'
            ks = [key_of(row[0]) for row in a[1]['v']]
            k = key_of(a[0])
            f['key'] = 'absent' if k not in ks else 'dup' if ks.count(k) > 1 else 'unique'
        elif name == 'CHOOSE':
            i = a[0]
            n = len(a) - 1
            f['idx'] = ('text' if i['t'] != 'num' else 'frac' if i['d'] != 1 else
                        'lt1' if i['n'] < 1 else 'gt_n' if i['n'] > n else 'in')
    except Exception:      # features must never break a run
        f['features'] = 'failed'
    return f


BUG_MODELS = {}


def run(run):
    quick = run.tier == 'quick'
    sumif = sumif_supported()
    r = run.tlc('MC_C15', 'C15_quick.cfg' if quick else 'C15_thorough.cfg', dump=True, timeout=1500)
    blocks = pool.dump_blocks(r.dump, skip_substr='"pending"')
    if not sumif:
        # the property covers SUMIF/SUMIFS only "where the installed pandas supports them"
        kept = [b for b in blocks if 'f |-> "SUMIF' not in b]
        skipped = len(blocks) - len(kept)
        run.undetermined += skipped
        run.notes['sumif_cases_not_compared'] = skipped
        blocks = kept
    run.notes['sumif_supported_by_installed_pandas'] = sumif
    rp = calls.Replayer(paths=('direct', 'wrapped', 'formula'), features=features)
    byf = calls.replay_dump(run, blocks, rp)
    # the same calls in four orders, each order in ONE fresh process (state left behind by earlier calls)
    calls.replay_orders(run, blocks, calls.Replayer(paths=('direct', 'wrapped'), features=features), key=lambda b: len(b), sample=20000)
    run.notes['cases_by_function'] = byf
    run.rule = ('cases = all done-states of MC_C15: every column over {-5,0,1,10,"abc","ABC","b"} up to MaxCol cells x '
                '{7 prefixes x operands 1,-5,0.5,abc,b; plain numbers}; COUNTIFS with 1-3 criteria columns; exact MATCH with '
                'the key at every position / absent / duplicated; approximate MATCH on every ascending vector up to MaxAsc; '
                'VLOOKUP on 3x3, 2x4, 4x2 tables with every key column and column index -1..width+1; CHOOSE with every index; '
                'distinct by TLC fingerprint; non-trivial = expected result determined')
    run.exhaustive = True
    if not sumif:
        run.assumptions.append('installed pandas lacks DataFrame.applymap: SUMIF/SUMIFS cases counted as undetermined, '
                               'not compared (the property covers them only where pandas supports them)')
    # code -> spec: seeded calls on larger tables with random criteria, recorded and validated by TLC (Trace_C15)
    events = driver(run.seed, 4000 if quick else 40000, sumif)
    recorded = [e for part in pool.pmap(record, events) for e in part]
    run.evaluations += len(recorded)
    res = trace.validate(run, recorded, module='Trace_C15',
                         features=lambda e, x, v: dict(features({'f': e['f'], 'args': e['args']}, x, e['res'], e['path']),
                                                       verdict=v))
    run.sample({'trace_event': {k: res[0][0][k] for k in ('f', 'path', 'res')}, 'verdict': res[0][1]})
    run.notes['trace_events'] = len(recorded)
    byv = {}
    for e, v, x in res:
        byv[v] = byv.get(v, 0) + 1
    run.notes['trace_verdicts'] = byv


def replay(path):
    return calls.replay_file(path)

"""C14 - aggregates over ranges equal the reference fold of the addressed cells.

spec -> code: every done state of MC_C14 (spec/XlAgg.tla) is replayed
  * through xl.FUNCTIONS[f] with func_xltypes.Array arguments (direct; wrapped
    scalars when there are scalars), and
  * through a compiled model in which the range arguments are REAL ranges of
    one sheet: =SUM(C3:E3,C4:E5,1.5) with the numbers / texts in cells and the
    blanks absent (case.lay says where each range sits inside the common block,
    so sub-rectangles and overlapping rectangles address the same cells); a
    hashed part of the cases is evaluated again with the blank cells present
    but empty (value None).
code -> spec: seeded rectangles up to 10 x 10 of small rationals, blanks and
  texts, split into <= 4 sub-ranges plus scalars in random order, evaluated on
  the real library, recorded and validated by TLC (Trace_C14).
"""
import hashlib
import json
import random
import re
import time
from fractions import Fraction

from harness import calls, pool, trace, xl
from harness.agree import agrees, klass

COLS = [c for c in 'ABCDEFGHIJKLMNOPQRSTUVWXYZ'] + ['A' + c for c in 'ABCDEFGHIJKLMNOPQRSTUVWX']
RESULT = 'Sheet1!A1'


# --------------------------------------------------------------------------
# formula path with genuine ranges
# --------------------------------------------------------------------------
def _pyval(x):
    if x['t'] == 'num':
        return x['n'] if x['d'] == 1 else x['n'] / x['d']
    if x['t'] == 'txt':
        return xl.text_of(x)
    raise xl.MachineryError(f'no cell content for {x}')


OTHER = 'Data 2'


def build_formula(case, blank='absent', origin=(3, 2), split=False):
    """-> (cells, formula text).  origin = (row, 0-based column >= 1) of the common block.
    split: the FIRST range argument lives on another sheet and is written with its sheet name, the later ones stay
    unqualified on the formula's sheet; the same addresses on the respective other sheet hold decoys."""
    orow, ocol = origin
    first_range = True
    lay = case.get('lay') or [[0, 0]] * len(case['args'])
    cells = {}
    decoys = {}
    parts = []
    nauto = 0
    for a, at in zip(case['args'], lay):
        if a['t'] != 'arr':
            parts.append(xl.formula_literal(a, {}))
            continue
        rows = a['v']
        if at[0] > 0:
            r0, c0 = orow + at[0] - 1, ocol + at[1] - 1
        else:
            nauto += 1
            r0, c0 = orow + 14 * nauto, ocol
        sheet, other = ('Sheet1', OTHER)
        if split and first_range:
            sheet, other = OTHER, 'Sheet1'
        for i, row in enumerate(rows):
            for j, x in enumerate(row):
                addr = f'{sheet}!{COLS[c0 + j]}{r0 + i}'
                if split:
                    decoys[f'{other}!{COLS[c0 + j]}{r0 + i}'] = ('value', 7777)
                if x['t'] == 'blank':
                    spec = ('blank',) if blank == 'absent' else ('value', None)
                else:
                    spec = ('value', _pyval(x))
                if cells.setdefault(addr, spec) != spec:
                    raise xl.MachineryError(f'inconsistent layout at {addr}')
        q = "'Data 2'!" if split and first_range else ''
        first_range = False
        parts.append(f'{q}{COLS[c0]}{r0}:{COLS[c0 + len(rows[0]) - 1]}{r0 + len(rows) - 1}')
    for a, v in decoys.items():
        cells.setdefault(a, v)
    return cells, '=' + case['f'] + '(' + ','.join(parts) + ')'


def formula_eval(case, blank='absent', origin=(3, 2), split=False):
    cells, text = build_formula(case, blank, origin, split)
    try:
        model, ev = xl.build_model(cells, {RESULT: text})
        res = ev.evaluate(RESULT)
        stored = ev.get_cell_value(RESULT)
        return xl.to_abs(res), xl.to_abs(stored), text
    except BaseException as e:      # noqa
        if isinstance(e, (KeyboardInterrupt, SystemExit)):
            raise
        return xl.to_abs(e), None, text


K_SCALE = 2 ** 32


def scaled(case):
    """every addressed number times 2^32 (whole numbers stay whole numbers: their products leave the 64-bit integers)"""
    def sv(x):
        return dict(x, n=x['n'] * K_SCALE) if x['t'] == 'num' else x
    return dict(case, args=[dict(a, v=[[sv(x) for x in row] for row in a['v']]) if a['t'] == 'arr' else sv(a) for a in case['args']])


def scalable(case, exp):
    if exp['t'] != 'num' or case['f'] not in ('SUM', 'SUMPRODUCT', 'MAX', 'MIN', 'AVERAGE'):
        return False
    if case['f'] == 'SUMPRODUCT' and any(a['t'] != 'arr' for a in case['args']):
        return False
    return all(x['t'] != 'num' or x['d'] == 1 for x in _cells(case)) and any(x['t'] == 'num' for x in _cells(case))


def scaled_expectation(case, exp):
    deg = len(case['args']) if case['f'] == 'SUMPRODUCT' else 1
    return Fraction(exp['n'], exp['d']) * K_SCALE ** deg


def twin_eval(case, origin=(3, 2)):
    """the SAME formula text in A1 of two sheets: Sheet1 holds the case's cells, the other sheet the same cells with 1000
    added to every number; the other sheet's formula is evaluated first, by the same evaluator"""
    cells, text = build_formula(case, 'absent', origin)
    both = dict(cells)
    for a, spec in cells.items():
        sh, ref = a.split('!')
        if spec[0] == 'value' and isinstance(spec[1], (int, float)) and not isinstance(spec[1], bool):
            spec = ('value', spec[1] + 1000)
        both[f'{OTHER}!{ref}'] = spec
    try:
        model, ev = xl.build_model(both, {RESULT: text, f'{OTHER}!A1': text})
        ev.evaluate(f'{OTHER}!A1')
        res = ev.evaluate(RESULT)
        return xl.to_abs(res), xl.to_abs(ev.get_cell_value(RESULT)), text
    except BaseException as e:      # noqa
        if isinstance(e, (KeyboardInterrupt, SystemExit)):
            raise
        return xl.to_abs(e), None, text


def observe(case, path):
    """-> (observed, stored or None, formula text or None)"""
    if path == 'formula-twin':
        return twin_eval(case, case.get('origin') or (3, 2))
    if path.endswith('-scaled'):
        return observe(scaled(case), path[:-7])
    if path == 'direct':
        return calls.direct_call(case['f'], case['args'], 'native'), None, None
    if path == 'wrapped':
        return calls.direct_call(case['f'], case['args'], 'wrapped'), None, None
    if path == 'formula':
        return formula_eval(case, 'absent', case.get('origin') or (3, 2))
    if path == 'formula-none':
        return formula_eval(case, 'none', case.get('origin') or (3, 2))
    if path == 'formula-2sheets':
        return formula_eval(case, 'absent', case.get('origin') or (3, 2), split=True)
    raise xl.MachineryError(path)


def _cells(case):
    for a in case['args']:
        if a['t'] == 'arr':
            for row in a['v']:
                yield from row


def features(case, exp, obs, path):
    kinds = {x['t'] for x in _cells(case)}
    arrs = [a for a in case['args'] if a['t'] == 'arr']
    shapes = {(len(a['v']), len(a['v'][0])) for a in arrs}
    return {'f': case['f'], 'path': path, 'exp': klass(exp), 'obs': klass(obs),
            'blank': 'blank' in kinds, 'text': 'txt' in kinds,
            'ranges': min(len(arrs), 3), 'scalars': min(len(case['args']) - len(arrs), 2),
            'twoD': any(r > 1 and c > 1 for r, c in shapes), 'shapes': min(len(shapes), 2)}


def _h(case):
    return hashlib.md5(json.dumps(case, sort_keys=True).encode()).digest()[0]


DIRECT_ONLY = False      # set in the freshly forked processes of the order pass


def direct_replayer(blocks):
    global DIRECT_ONLY
    DIRECT_ONLY = True
    return replayer(blocks)


def paths_for(case):
    p = ['direct']
    if DIRECT_ONLY:
        return p + (['wrapped'] if any(a['t'] != 'arr' for a in case['args']) else [])
    if any(a['t'] != 'arr' for a in case['args']):
        p.append('wrapped')
    p.append('formula')
    if any(x['t'] == 'blank' for x in _cells(case)) and _h(case) % 4 == 0:
        p.append('formula-none')
    if sum(1 for a in case['args'] if a['t'] == 'arr') >= 2 and _h(case) % 2 == 1:
        p.append('formula-2sheets')       # a range on another sheet, then unqualified ranges
    if any(a['t'] == 'arr' for a in case['args']) and _h(case) % 8 == 3:
        p.append('formula-twin')          # the same formula text on two sheets holding different data
    return p


def replayer(blocks):
    out = {'n': 0, 'calls': 0, 'open': 0, 'dis': [], 'samples': [], 'byf': {}, 'bypath': {}}
    for b in blocks:
        st = pool.parse_block(b) if isinstance(b, str) else b
        case, exp = st['case'], st['res']
        out['n'] += 1
        out['byf'][case['f']] = out['byf'].get(case['f'], 0) + 1
        if exp['t'] == 'open':
            out['open'] += 1
            continue
        plist = paths_for(case)
        if scalable(case, exp):
            plist = plist + ['direct-scaled'] + ([] if DIRECT_ONLY else ['formula-scaled'])
        for path in plist:
            obs, stored, text = observe(case, path)
            out['calls'] += 1
            out['bypath'][path] = out['bypath'].get(path, 0) + 1
            if path.endswith('-scaled'):
                from harness.agree import _as_num, num_close
                want = scaled_expectation(case, exp)
                on = _as_num(obs) if obs['t'] in ('num', 'float') else None
                if on is None or not num_close(on, want, 1e-9):
                    out['dis'].append({'case': dict(case, every_number_times=K_SCALE), 'exp': {'t': 'float', 'v': repr(float(want))}, 'obs': obs, 'path': path,
                                       'formula': text, 'features': features(case, exp, obs, path)})
                continue
            ok = agrees(obs, exp, 1e-9)
            if len(out['samples']) < 2 and path == 'formula' and len(case['args']) > 1:
                out['samples'].append({'case': case, 'expected': exp, 'observed': obs, 'path': path, 'formula': text})
            if ok is False:
                out['dis'].append({'case': case, 'exp': exp, 'obs': obs, 'path': path, 'formula': text,
                                   'features': features(case, exp, obs, path)})
            elif stored is not None and agrees(stored, exp, 1e-9) is False:
                out['dis'].append({'case': case, 'exp': exp, 'obs': stored, 'path': path + '-stored', 'formula': text,
                                   'features': features(case, exp, stored, path + '-stored')})
    return out


def repro_text(d):
    if d.get('formula'):
        cells, text = build_formula(d['case'], 'none' if d['path'].startswith('formula-none') else 'absent',
                                    d['case'].get('origin') or (3, 2))
        dd = {k: v[1] for k, v in cells.items() if v[0] == 'value' and v[1] is not None}
        dd[RESULT] = text
        return ("from xlcalculator import ModelCompiler, Evaluator\n"
                f"m = ModelCompiler().read_and_parse_dict({dd!r})\n"
                f"print(Evaluator(m).evaluate({RESULT!r}))")
    return f"# xl.FUNCTIONS[{d['case']['f']!r}](*args) with args = {json.dumps(d['case']['args'])}"


# --------------------------------------------------------------------------
# code -> spec driver
# --------------------------------------------------------------------------
TEXTS = ['x', 'abc', 'N/A', '-', 'foo bar', 'été', 'mar', 'monday', 'inf', 'nan', 'e', '.', 'total:', ' ',
         'sept', 'Infinity', 'yes', 'T', '#N/A', '#DIV/0!', '#REF!']      # (texts that merely SPELL an error code are texts)


def N(fr):
    fr = Fraction(fr)
    return {'t': 'num', 'n': fr.numerator, 'd': fr.denominator}


def rnum(rng, dens):
    return N(Fraction(rng.randint(-12, 12), rng.choice(dens)))


def rgrid(rng, R, C, pn, pb, dens):
    g = []
    for _ in range(R):
        row = []
        for _ in range(C):
            u = rng.random()
            if u < pn:
                row.append(rnum(rng, dens))
            elif u < pn + pb:
                row.append({'t': 'blank'})
            else:
                row.append({'t': 'txt', 'v': [ord(c) for c in rng.choice(TEXTS)]})
        g.append(row)
    return g


def sub(g, r1, r2, c1, c2):
    return {'t': 'arr', 'v': [row[c1:c2 + 1] for row in g[r1:r2 + 1]]}


def guillotine(rng, R, C, k):
    rects = [(0, R - 1, 0, C - 1)]
    for _ in range(k - 1):
        cand = [q for q in rects if q[1] > q[0] or q[3] > q[2]]
        if not cand:
            break
        q = rng.choice(cand)
        rects.remove(q)
        r1, r2, c1, c2 = q
        if r2 > r1 and (c2 == c1 or rng.random() < 0.5):
            m = rng.randint(r1, r2 - 1)
            rects += [(r1, m, c1, c2), (m + 1, r2, c1, c2)]
        else:
            m = rng.randint(c1, c2 - 1)
            rects += [(r1, r2, c1, m), (r1, r2, m + 1, c2)]
    return rects


DIMS = [1, 2, 3, 4, 5, 6, 7, 8, 9, 10, 10, 10]


def driver(seed, count):
    rng = random.Random(seed * 7919 + 14)
    ev = []
    for i in range(count):
        f = rng.choice(['SUM', 'AVERAGE', 'MIN', 'MAX', 'COUNT', 'COUNTA', 'SUMPRODUCT', 'SUM', 'AVERAGE'])
        pn = rng.choice([1.0, 0.8, 0.5, 0.3, 0.1])
        pb = (1 - pn) * rng.choice([0.0, 0.5, 1.0])
        u = rng.random()
        path = 'formula' if u < 0.6 else 'formula-none' if u < 0.75 else 'direct'
        origin = (rng.randint(1, 40), rng.randint(1, 10))
        if f == 'SUMPRODUCT':
            R, C = rng.randint(1, 6), rng.randint(1, 6)
            n = rng.choice([1, 2, 2, 2, 3])
            args = []
            for k in range(n):
                r, c = R, C
                if k and rng.random() < 0.1:      # differently shaped
                    r, c = (C, R) if R != C and rng.random() < 0.5 else (R + 1, C)
                args.append({'t': 'arr', 'v': rgrid(rng, r, c, pn, pb, [1, 1, 2, 4])})
            ev.append({'f': f, 'args': args, 'lay': [[0, 0]] * n, 'path': path, 'origin': origin})
            continue
        R, C = rng.choice(DIMS), rng.choice(DIMS)
        if rng.random() < 0.04 and f in ('SUM', 'AVERAGE', 'MIN', 'MAX'):      # more than 255 numbers in one call
            R, C, pn, pb = rng.choice([16, 17]), rng.choice([16, 17]), 1.0, 0.0
        g = rgrid(rng, R, C, pn, pb, rng.choice([[1], [1, 2, 4], [1, 2, 3, 4, 5, 6]]))
        rects = guillotine(rng, R, C, rng.randint(1, 4))
        if rng.random() < 0.15:       # arbitrary, possibly overlapping, sub-rectangles
            rects = []
            for _ in range(rng.randint(1, 3)):
                r1, c1 = rng.randrange(R), rng.randrange(C)
                rects.append((r1, rng.randint(r1, R - 1), c1, rng.randint(c1, C - 1)))
        args = [(sub(g, *q), [q[0] + 1, q[2] + 1]) for q in rects]
        for _ in range(rng.choice([0, 0, 1, 1, 2])):
            args.append((rnum(rng, [1, 2, 4]), [0, 0]))
        rng.shuffle(args)
        if i % 7 == 3 and f != 'COUNTA':      # (no draw is consumed) a scalar in exponent notation with a NEGATIVE exponent, as files spell small numbers
            sc = [Fraction(1, 100000), Fraction(25, 10000), Fraction(5, 10), Fraction(-75, 100000), Fraction(3, 1000)][(i // 7) % 5]
            args.append((dict(N(sc), sci=True), [0, 0]))
        e = {'f': f, 'args': [a for a, _ in args], 'lay': [l for _, l in args], 'path': path, 'origin': origin}
        if path == 'formula' and rng.random() < 0.5:
            prev = with_previous(rng, e)
            if prev is not None:
                e['prev_args'] = prev
        ev.append(e)
    return ev


_RANGE = re.compile(r'([A-Z]+)(\d+):([A-Z]+)(\d+)')
RESULT2 = 'Sheet1!AZ2'


def reuse_eval(e):
    """the model is first built and evaluated with EARLIER cell contents (prev_args), together with a second
    formula over the bounding block (an overlapping range address); the changed cells are then set through
    set_cell_value and the formula is evaluated again by the same evaluator: the result must reflect the
    current contents (stale range values would show here)"""
    origin = e.get('origin') or (3, 2)
    cells_prev, text = build_formula(dict(e, args=e['prev_args']), 'absent', origin)
    cells_now, _ = build_formula(e, 'absent', origin)
    parts = _RANGE.findall(text)
    try:
        formulas = {RESULT: text}
        if parts:
            cols = [COLS.index(p[0]) for p in parts] + [COLS.index(p[2]) for p in parts]
            rows = [int(p[1]) for p in parts] + [int(p[3]) for p in parts]
            formulas[RESULT2] = f'=SUM({COLS[min(cols)]}{min(rows)}:{COLS[max(cols)]}{max(rows)})+COUNTA({COLS[min(cols)]}{min(rows)}:{COLS[max(cols)]}{max(rows) + 1})'
        model, ev = xl.build_model(cells_prev, formulas)
        if parts:
            ev.evaluate(RESULT2)
        ev.evaluate(RESULT)
        for addr, spec in cells_now.items():
            if cells_prev.get(addr) != spec and spec[0] == 'value':
                ev.set_cell_value(addr, spec[1])
        res = ev.evaluate(RESULT)
        return xl.to_abs(res), None, text
    except BaseException as ex:      # noqa
        if isinstance(ex, (KeyboardInterrupt, SystemExit)):
            raise
        return xl.to_abs(ex), None, text


def with_previous(rng, e):
    """a copy of the arguments in which some numeric range cells hold other numbers (same layout, same types)"""
    import copy
    prev = copy.deepcopy(e['args'])
    changed = 0
    seen = {}
    for a, at in zip(prev, e['lay']):
        if a['t'] != 'arr' or at[0] <= 0:
            continue
        for i, row in enumerate(a['v']):
            for j, x in enumerate(row):
                key = (at[0] + i, at[1] + j)
                if x['t'] == 'num':
                    if key not in seen:
                        seen[key] = N(Fraction(rng.randint(1, 9))) if rng.random() < 0.4 else x
                    if seen[key] != x:
                        changed += 1
                    row[j] = seen[key]
    return prev if changed else None


def record(chunk):
    out = []
    for e in chunk:
        if e.get('prev_args'):
            res, stored, text = reuse_eval(e)
            e = {k: v for k, v in e.items() if k != 'prev_args'}
            e['path'] = 'formula-reuse'
        else:
            res, stored, text = observe(e, e['path'])
        if res.get('t') == 'float':
            try:        # cancellation noise of a floating-point sum whose exact value is 0 (cell values are >= 1e-3 in magnitude)
                if abs(float(res['v'])) < 1e-12:
                    res = {'t': 'num', 'n': 0, 'd': 1}
            except ValueError:
                pass
        e = dict(e, res=res)
        e['args'] = [{k: v for k, v in a.items() if k != 'sci'} for a in e['args']]      # (the spelling is the harness's business, not the trace's)
        if text:
            e['formula'] = [ord(c) for c in text]
        out.append(e)
    return out


BUG_MODELS = {}


def run(run):
    quick = run.tier == 'quick'
    t0 = time.time()
    phases = run.notes.setdefault('phase_seconds', {})
    r = run.tlc('MC_C14', 'C14_quick.cfg' if quick else 'C14_thorough.cfg', dump=True, timeout=3000)
    phases['tlc'] = round(time.time() - t0, 1)
    t0 = time.time()
    blocks = pool.dump_blocks(r.dump, skip_substr='"pending"')
    byf, bypath = {}, {}
    for part in pool.pmap(replayer, blocks):
        run.evaluations += part['calls']
        run.undetermined += part['open']
        run.traces += part['n'] - part['open']
        run.nontrivial_count += part['n'] - part['open']
        for k, v in part['byf'].items():
            byf[k] = byf.get(k, 0) + v
        for k, v in part['bypath'].items():
            bypath[k] = bypath.get(k, 0) + v
        for s in part['samples']:
            run.sample(s)
        for d in part['dis']:
            run.disagree('call', d['case'], d['exp'], d['obs'], d['features'], clause=d['path'], repro=repro_text(d))
    # the same calls in four orders, each order in ONE fresh process (state left behind by earlier calls)
    calls.replay_orders(run, blocks, direct_replayer, key=lambda b: len(b), sample=20000)
    if len(byf) != 7 or min(byf.values()) < 1000:
        raise xl.MachineryError(f'vacuous replay: {byf}')
    run.notes['cases_by_function'] = byf
    run.notes['calls_by_path'] = bypath
    run.rule = ('cases = all done-states of MC_C14: every {number, blank, text} fill pattern of a weighted block as one range; '
                'every split of a block into two sub-ranges + up to two scalars in every argument order; pairs of (overlapping) '
                'sub-rectangles of one block; SUMPRODUCT over pairs/triples of rectangles <= 2x3 of equal and unequal shapes; '
                'every placement of a multiset of contents; scalars only.  distinct by TLC fingerprint; '
                'non-trivial = expected result determined (not: no number at all for AVERAGE/MIN/MAX)')
    run.exhaustive = True
    run.assumptions += [
        'left open: AVERAGE/MIN/MAX without any number; text, boolean, blank or date scalar arguments; booleans, dates, '
        'errors, empty text and number-/date-/boolean-looking text (any digit, TRUE/FALSE) inside ranges; '
        'SUMPRODUCT of a scalar with a larger range',
        'SUMPRODUCT: a blank or text entry makes its product contribute 0 (Excel: non-numeric array entries are treated as zeros)',
        'observed doubles agree with exact rationals up to 1e-9 relative',
    ]
    phases['replay'] = round(time.time() - t0, 1)
    t0 = time.time()
    # code -> spec
    events = driver(run.seed, 2500 if quick else 30000)
    recorded = [e for part in pool.pmap(record, events) for e in part]
    run.evaluations += len(recorded)
    phases['record'] = round(time.time() - t0, 1)
    t0 = time.time()
    res = trace.validate(run, recorded, module='Trace_C14', batch=5000,
                         features=lambda e, x, v: {'f': e['f'], 'path': e['path'], 'verdict': v,
                                                   'nargs': min(len(e['args']), 3)})
    phases['trace_validation'] = round(time.time() - t0, 1)
    nopen = sum(1 for _, v, _ in res if v == 'open')
    if nopen > len(res) // 3:
        raise xl.MachineryError(f'trace validation mostly undetermined: {nopen}/{len(res)}')
    ok = [(e, v) for e, v, _ in res if v == 'ok' and len(e['args']) > 2]
    if ok:
        e = ok[0][0]
        run.sample({'trace_event': {k: e[k] for k in ('f', 'lay', 'path', 'res')},
                    'formula': ''.join(map(chr, e.get('formula', []))), 'verdict': 'ok'})
    run.notes['trace_events'] = len(recorded)
    run.notes['trace_open'] = nopen


def replay(path):
    d = json.load(open(path))
    case = d['case']
    p = d.get('clause') or case.get('path') or 'formula'
    if p in ('ok', 'wrong-value', 'unexpected-error', 'python-exception', 'error-expected'):
        p = case.get('path', 'formula')
    stored_wanted = p.endswith('-stored')
    obs, stored, text = observe(case, p.replace('-stored', ''))
    if stored_wanted:
        obs = stored
    ok = agrees(obs, d['expected'])
    print('case', json.dumps(case), '\nformula', text, '\nexpected', d['expected'], '\nobserved', obs)
    if ok is False:
        print(f"VIOLATION property={d['property']} replay={path}")
        return 1
    print('agrees now')
    return 0

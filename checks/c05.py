"""C05 - evaluation is deterministic, idempotent and order-independent; no accumulation."""
import json
import os
import subprocess
import sys

from checks import c04
from harness import pool, workbook as W, xl
from harness.agree import agrees, klass


def snapshot(model):
    """constants, formula texts, defined names and the set of cells (what evaluation must never change)"""
    L = xl.lib()
    cells = {}
    nblank = 0
    for a, c in model.cells.items():
        if c.formula is None:
            v = c.value
            if v is None or (isinstance(v, str) and v == ''):
                nblank += 1          # the placeholders of whole rows / large ranges: counted, not listed one by one
                continue
            cells[a] = ('const', json.dumps(xl.to_abs(v), sort_keys=True))
        else:
            cells[a] = ('formula', c.formula.formula)
    cells['#blank-placeholders'] = ('count', nblank)
    names = {}
    for n, d in model.defined_names.items():
        names[n] = d.address if isinstance(d, L.xltypes.XLCell) else repr(getattr(d, 'cells', d))
    return cells, names


def custom_namespace(L):
    """a function table that differs from the default one in SUM and COUNTA (both answer 1000 more): what an evaluator
    computes with it is no business of the specification, but it must not depend on who evaluated what before"""
    import functools
    ns = L.xl.FUNCTIONS.copy()
    for name in ('SUM', 'COUNTA'):
        real = ns[name]

        def make(real):
            @functools.wraps(real)
            def shifted(*a, **kw):
                r = real(*a, **kw)
                try:
                    return r + 1000
                except Exception:
                    return r
            return shifted
        ns[name] = make(real)
    return ns


class Worker:
    def __init__(self, work, shapes, custom=False):
        self.work, self.shapes, self.custom = work, shapes, custom

    def __call__(self, blocks):
        L = xl.lib()
        out = {'n': 0, 'steps': 0, 'dis': [], 'samples': [], 'shapes': {}, 'responses': {}}
        for b in blocks:
            st = pool.parse_block(b)
            hist, shape = st['hist'], st['shape']
            sdef = self.shapes[shape]
            out['n'] += 1
            out['steps'] += len(hist)
            out['shapes'][shape] = out['shapes'].get(shape, 0) + 1
            pycells = W.to_python_cells(sdef['cells'])
            names = [(n, W.name_ref_text(a)) for n, a in W.name_items(sdef['names'])]
            model = W.build_model(pycells, names)
            before = snapshot(model)
            evs = [L.Evaluator(model), L.Evaluator(model, namespace=custom_namespace(L)) if self.custom else L.Evaluator(model)]
            inputs = {}
            for i, h in enumerate(hist):
                a = W.addr(h['x'])
                try:
                    if h['op'] == 'evaluate':
                        obs = xl.to_abs(evs[h['e'] - 1].evaluate(a))
                    elif h['op'] == 'set':
                        evs[0].set_cell_value(a, xl.from_abs(h['v'], 'native'))
                        before[0][a] = ('const', json.dumps(h['v'], sort_keys=True))
                        inputs[a] = json.dumps(h['v'], sort_keys=True)
                        continue
                    else:
                        continue
                except BaseException as e:      # noqa
                    if isinstance(e, (KeyboardInterrupt, SystemExit)):
                        raise
                    obs = xl.to_abs(e)
                # the response is a function of the content alone: recorded per (shape, inputs, cell) and compared across ALL
                # schedules, also where the specification leaves the value itself open
                key = json.dumps([shape, sorted(inputs.items()), a] + ([h['e']] if self.custom else []))
                if obs.get('t') == 'exc':
                    obs_key = json.dumps({'t': 'exc', 'cls': obs.get('cls')})
                else:
                    obs_key = json.dumps(obs, sort_keys=True)
                out['responses'].setdefault(key, {}).setdefault(obs_key, [[h2['op'], h2.get('e'), W.addr(h2['x'])] for h2 in hist[:i + 1]])
                bad = None
                if self.custom and h['e'] == 2:
                    pass          # the evaluator with its own function table: only the relation across schedules applies
                elif agrees(obs, h['res']) is False:
                    bad = ('evaluate-result', h['res'], obs)
                else:
                    after = snapshot(model)
                    if after != before:
                        diff = [k for k in set(after[0]) | set(before[0]) if after[0].get(k) != before[0].get(k)]
                        bad = ('model-changed-by-evaluate', 'unchanged constants/formulas/names/cells', {'cells_changed': diff[:5], 'names_changed': after[1] != before[1]})
                if bad:
                    out['dis'].append({'case': {'shape': shape, 'schedule': [[h2['op'], h2.get('e'), W.addr(h2['x'])] for h2 in hist], 'failing_step': i},
                                       'exp': bad[1], 'obs': bad[2], 'clause': bad[0],
                                       'features': {'shape': shape, 'clause': bad[0], 'step': i}})
                    break
            else:
                # evaluate() asked for something that is not a cell of the model: a defined name in another letter case, an
                # unknown name, a cell no one stored, a sheet no one has - the model must be left exactly as it was
                probes = [n for n, _ in names for n in (n.upper(), n.lower(), n.swapcase())] + ['NoSuchName', 'S1!ZZ99', 'NoSuchSheet!A1']
                for pr in probes:
                    if pr in model.defined_names or pr in model.cells:
                        continue
                    try:
                        evs[0].evaluate(pr)
                    except BaseException as e:      # noqa
                        if isinstance(e, (KeyboardInterrupt, SystemExit)):
                            raise
                    after = snapshot(model)
                    if after != before:
                        diff = [k for k in set(after[0]) | set(before[0]) if after[0].get(k) != before[0].get(k)]
                        out['dis'].append({'case': {'shape': shape, 'schedule': [[h2['op'], h2.get('e'), W.addr(h2['x'])] for h2 in hist], 'then_evaluate': pr},
                                           'exp': 'unchanged constants/formulas/names/cells',
                                           'obs': {'cells_changed': diff[:5], 'names_added': sorted(set(after[1]) - set(before[1]))[:5]},
                                           'clause': 'model-changed-by-evaluate',
                                           'features': {'shape': shape, 'clause': 'model-changed-by-evaluate', 'probe': 'not-a-cell'}})
                        break
            if len(out['samples']) < 2:
                out['samples'].append({'shape': shape, 'schedule': [[h2['op'], h2.get('e'), W.addr(h2['x'])] for h2 in hist],
                                       'responses': [h2['res'] for h2 in hist]})
        return out


def all_close(keys):
    """observed responses (JSON) that differ only by floating-point noise count as one"""
    vals = [json.loads(k) for k in keys]
    first = vals[0]
    return all(v == first or (agrees(v, first) is True and agrees(first, v) is True) for v in vals[1:])


DEEP_SCHEDULES = [[(0, 1.0)], [(0, 0.3), (0, 0.6), (0, 1.0)], [(0, 0.8), (0, 0.8), (0, 1.0)], [(0, 0.5), (1, 1.0)], [(1, 0.9), (0, 0.2), (1, 0.55), (0, 1.0)],
                  [(0, 1.0), (0, 1.0)], [(0, 0.1), (0, 0.2), (0, 0.3), (0, 0.4), (0, 0.5), (0, 0.6), (0, 0.7), (0, 0.8), (0, 0.9), (0, 1.0)]]


def deep_worker(items):
    """a chain of n formula cells (Deterministic / Idempotent of XlWorkbook in their two-run form: the specification's value lies
    beyond what the implementation's descent reaches, so the runs are compared with each other): the LAST response of every schedule"""
    L = xl.lib()
    out = []
    for n, sched in items:
        d = {'Sheet1!A1': 1, 'Sheet1!B1': 2}
        for r in range(2, n + 1):
            d[f'Sheet1!A{r}'] = f'=A{r - 1}+B1' if r % 7 else f'=A{r - 1}+1'
        model = L.ModelCompiler().read_and_parse_dict(d)
        evs = [L.Evaluator(model), L.Evaluator(model)]
        obs = None
        for e, frac in sched:
            row = max(2, int(n * frac))
            try:
                obs = xl.to_abs(evs[e].evaluate(f'Sheet1!A{row}'))
            except BaseException as ex:      # noqa
                if isinstance(ex, (KeyboardInterrupt, SystemExit)):
                    raise
                obs = {'t': 'exc', 'cls': type(ex).__name__, 'about': 'recursion' if 'ecursion' in str(ex) else str(ex)[:60]}
        out.append((n, sched, obs))
    return out


FOOTPRINT_SRC = r'''
import gc, json, sys, tracemalloc
sys.path.insert(0, %(verif)r)
from harness import xl, workbook as W
L = xl.lib()
shapes = json.load(open(%(shapes)r))
res = []
for name, sdef in shapes.items():
    pycells = W.to_python_cells(sdef['cells'])
    names = [(n, W.name_ref_text(a)) for n, a in W.name_items(sdef['names'])]
    model = W.build_model(pycells, names)
    addrs = sorted(pycells)
    def batch(n, fresh_evaluators):
        ev = L.Evaluator(model)
        for i in range(n):
            if fresh_evaluators and i %% 50 == 0:
                ev = L.Evaluator(model)
            try:
                ev.evaluate(addrs[i %% len(addrs)])
            except Exception:       # a cell that raises (unknown function) raises every time: its footprint counts all the same
                pass
    for mode in (False, True):
        batch(%(warm)d, mode)
        gc.collect()
        tracemalloc.start()
        o0, b0 = len(gc.get_objects()), tracemalloc.get_traced_memory()[0]
        marks = []
        for k in range(2):
            batch(%(n)d, mode)
            gc.collect()
            marks.append((len(gc.get_objects()) - o0, tracemalloc.get_traced_memory()[0] - b0))
        tracemalloc.stop()
        res.append({'shape': name, 'fresh_evaluators': mode, 'n': %(n)d,
                    'objs_after_1st': marks[0][0], 'objs_after_2nd': marks[1][0],
                    'bytes_after_1st': marks[0][1], 'bytes_after_2nd': marks[1][1]})
print(json.dumps(res))
'''

OBJ_SLACK = 200          # objects (allocator / interning noise)
BYTE_SLACK = 128 * 1024  # bytes


def footprint(run, shapes, n):
    path = os.path.join(run.work, 'shapes.json')
    json.dump(shapes, open(path, 'w'))
    src = FOOTPRINT_SRC % {'verif': os.path.dirname(os.path.dirname(os.path.abspath(__file__))), 'shapes': path, 'warm': 1000, 'n': n}
    p = subprocess.run([sys.executable, '-c', src], stdout=subprocess.PIPE, stderr=subprocess.PIPE, text=True,
                       env=dict(os.environ, PYTHONHASHSEED='0'), timeout=3000)
    if p.returncode != 0:
        raise xl.MachineryError('footprint subprocess failed: ' + p.stderr[-500:])
    rows = json.loads(p.stdout.strip().splitlines()[-1])
    for r in rows:
        run.evaluations += 2 * r['n']
        # growth between the 1st and the 2nd half of a long run of identical evaluations must be bounded independently of n
        dobj = r['objs_after_2nd'] - r['objs_after_1st']
        dbytes = r['bytes_after_2nd'] - r['bytes_after_1st']
        if dobj > OBJ_SLACK or dbytes > BYTE_SLACK:
            run.disagree('footprint', {'shape': r['shape'], 'fresh_evaluators': r['fresh_evaluators'], 'evaluations_per_batch': r['n']},
                         {'max_object_growth': OBJ_SLACK, 'max_byte_growth': BYTE_SLACK}, r,
                         {'clause': 'footprint', 'fresh_evaluators': r['fresh_evaluators']}, clause='footprint-grows')
    run.notes['footprint'] = rows
    run.sample({'footprint_measurement': rows[0]})


BUG_MODELS = {}


def run(run):
    quick = run.tier == 'quick'
    shapes = c04.load_shapes(run)
    run.tlc('MC_C04', 'C05_check.cfg', timeout=900)
    run.tlc('MC_C04', 'C05_mixed.cfg', timeout=900)
    for bad, inv in (('C05_bad_leaky.cfg', 'Footprint'), ('C05_bad_global_memo.cfg', 'NoStale')):
        rb = run.tlc('MC_C04', bad, expect_violation=True, timeout=300)
        if rb.violated != inv:
            raise xl.MachineryError(f'design variant {bad} was not rejected by TLC ({inv})')
        run.laws[f'variant {bad} rejected'] = rb.violated
    maxlen = 3 if quick else 4
    r = run.tlc('MC_C04', 'C05_cases.cfg' if quick else 'C05_cases_thorough.cfg', dump=True, timeout=1800)
    blocks = [b for b in pool.dump_blocks(r.dump) if b.count('op |->') >= maxlen + 1]
    # schedules that also change an input in between (two evaluators, one model)
    r2 = run.tlc('MC_C04', 'C05_mixed_cases.cfg', dump=True, timeout=1800)
    blocks += [b for b in pool.dump_blocks(r2.dump) if b.count('op |->') >= 4]
    # whole-row references (their models hold tens of thousands of placeholder cells: short schedules only)
    r3 = run.tlc('MC_C04', 'C05_rows_cases.cfg', dump=True, timeout=900)
    blocks += [b for b in pool.dump_blocks(r3.dump) if b.count('op |->') >= 3]
    # shapes with many constant cells (SUMPRODUCT next to the counting functions; XIRR with two roots next to XIRR with one):
    # all ordered pairs of evaluations
    r4 = run.tlc('MC_C04', 'C05_pairs_cases.cfg', dump=True, timeout=900)
    blocks += [b for b in pool.dump_blocks(r4.dump) if b.count('op |->') >= 3]
    shapes_n = {}
    responses = {}
    # the same schedules once more with evaluator 2 holding its OWN function table (SUM / COUNTA replaced): shapes that use them
    cblocks = [b for b in blocks if any(f'shape = "{s_}"' in b for s_ in ('range', 'overlap', 'named'))]
    nres_custom = 0
    for res in pool.pmap(Worker(run.work, shapes, custom=True), cblocks):
        nres_custom += res['steps']
        for key, variants in res['responses'].items():
            tgt = responses.setdefault('custom:' + key, {})
            for ok_, sched in variants.items():
                tgt.setdefault(ok_, sched)
        for d in res['dis']:
            run.disagree('schedule', dict(d['case'], evaluator_2_has_its_own_function_table=True), d['exp'], d['obs'], d['features'], clause=d['clause'])
    run.evaluations += nres_custom
    run.notes['custom_namespace_evaluations'] = nres_custom
    for res in pool.pmap(Worker(run.work, shapes), blocks):
        for key, variants in res['responses'].items():
            tgt = responses.setdefault(key, {})
            for ok_, sched in variants.items():
                tgt.setdefault(ok_, sched)
        run.evaluations += res['steps']
        run.traces += res['n']
        run.nontrivial_count += res['n']
        for k, v in res['shapes'].items():
            shapes_n[k] = shapes_n.get(k, 0) + v
        for s in res['samples']:
            run.sample(s)
        for d in res['dis']:
            run.disagree('schedule', d['case'], d['exp'], d['obs'], d['features'], clause=d['clause'])
    run.notes['schedules_by_shape'] = shapes_n
    run.notes['contents_compared_across_schedules'] = len(responses)
    for key, variants in responses.items():
        if len(variants) > 1 and not all_close(list(variants)):
            shape, inputs, cell = json.loads(key[7:] if key.startswith('custom:') else key)[:3]
            obs = {k: v for k, v in list(variants.items())[:3]}
            run.disagree('schedule', {'shape': shape, 'inputs_set': inputs, 'cell': cell, 'schedules': list(obs.values())},
                         'one response for one content', [json.loads(k) for k in obs],
                         {'shape': shape, 'clause': 'response-depends-on-schedule'}, clause='response-depends-on-schedule')
    # chains below, around and beyond the depth the implementation descends to: one response per chain, whatever was evaluated before
    deep = {}
    for part in pool.pmap(deep_worker, [(n, sc) for n in (60, 200, 245, 255, 300, 700) for sc in DEEP_SCHEDULES], nchunks=16):
        for n, sched, obs in part:
            run.evaluations += len(sched)
            deep.setdefault(n, {}).setdefault(json.dumps(obs, sort_keys=True), []).append(sched)
    run.notes['deep_chain_responses'] = {str(n): [json.loads(k)['t'] for k in v] for n, v in deep.items()}
    for n, variants in deep.items():
        if len(variants) > 1 and not all_close(list(variants)):
            run.disagree('schedule', {'shape': f'chain of {n} formula cells A(r) = A(r-1)+B1', 'cell': f'A{n}', 'schedules': list(variants.values())},
                         'one response for one content', [json.loads(k) for k in variants],
                         {'shape': 'deepchain', 'n': n, 'clause': 'response-depends-on-schedule'}, clause='response-depends-on-schedule')
    if not any(json.loads(k)['t'] == 'num' for k in deep[60]):
        raise xl.MachineryError('the 60-cell chain did not evaluate')
    # (whole-row references and the 36-column range hold tens of thousands of placeholder cells: one evaluation costs seconds)
    fshapes = {k: v for k, v in shapes.items() if (k in ('chain', 'range', 'kinds', 'twin') if quick else k not in ('wholerow', 'wide'))}
    footprint(run, fshapes, 2000 if quick else 8000)
    run.rule = (f'all schedules (permutations with repetition) of length {maxlen} of Evaluate(evaluator in {{1,2}}, cell) on 5 model shapes, '
                'plus all length-3 interleavings with Set(input); responses compared with the specification (hence with each other); '
                'constants / formula texts / names / cell set snapshotted before and after every evaluation; footprint: gc-object and '
                'traced-byte growth between the 1st and 2nd batch of identical evaluations in a fresh subprocess, with one evaluator and '
                'with a fresh Evaluator every 50 calls')
    run.exhaustive = True
    # code -> spec: random multi-sheet workbooks under random histories, every evaluation judged by TLC (Trace_Local)
    from checks import wbdrive
    v = wbdrive.run_driver(run, 1200 if run.tier == 'quick' else 20000, mix='c05')
    if sum(n for k, n in v.items() if k != 'open') < 2000:
        raise xl.MachineryError(f'random workbook driver is vacuous: {dict(v)}')
    run.assumptions.append('footprint is measured with gc.get_objects() and tracemalloc after gc.collect(); slack 200 objects / 128 KiB per batch')


def replay(path):
    d = json.load(open(path))
    print(json.dumps(d, indent=1)[:2500])
    return 1

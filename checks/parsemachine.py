"""The parser machine (spec/XlParser.tla) composed with the tokenizer machine (spec/XlTokenizer.tla), bound to
xlcalculator/parser.py - part of C02.

spec -> code: TLC runs the composition (MC_Parse) on the well-formed formulas of MC_C02 - proving that the tree it
              builds is the tree the formula denotes (RefinesTree) - and on every short string over six alphabets; every
              finished / failed state is replayed: ExcelParser().parse(text) -> FormulaParser.shunting_yard -> build_ast
              must give the machine's reverse polish list (token by token, with argument counts) and the machine's tree,
              or raise where the machine fails.
code -> spec: recorded parses (fixture workbook formulas, generated formulas, one-character mutilations) are validated by
              Trace_Parser, which reuses the actions of both machines.
"""
import json
import os
import random

from harness import pool, xl
from checks import tokens as T


def final_blocks(path):
    out, cur = [], []

    def flush():
        if cur:
            b = ''.join(cur)
            if 'pphase = "done"' in b or 'pphase = "fail"' in b:
                out.append(b)
    with open(path, encoding='utf-8') as fh:
        for line in fh:
            if line.startswith('State ') and line.rstrip().endswith(':'):
                flush()
                cur = []
            else:
                cur.append(line)
    flush()
    return out


def tok3(t):
    return {'v': T.tok_value(t.tvalue), 'ty': str(t.ttype), 'sub': str(t.tsubtype)}


def walk(node, A):
    if isinstance(node, A.FunctionNode):
        return {'k': 'fn', 'tok': tok3(node.token), 'args': [walk(a, A) for a in node.args]}
    if isinstance(node, A.OperatorNode):
        left = getattr(node, 'left', None)
        return {'k': 'op', 'tok': tok3(node.token), 'l': walk(left, A) if left is not None else {'k': 'nil'},
                'r': walk(node.right, A)}
    return {'k': 'leaf', 'tok': tok3(node.token)}


def parse_of(text):
    """-> {'exc': class or '', 'rpn': [...], 'tree': {...}} through the code's three stages"""
    L = xl.lib()
    A = L.ast_nodes
    try:
        fp = L.parser.FormulaParser()
        toks = L.tokenizer.ExcelParser().parse(text).items
        rpn = fp.shunting_yard(toks, {})
        q = [{'tok': tok3(n.token), 'nargs': int(getattr(n, 'num_args', 0)) if isinstance(n, A.FunctionNode) else 0} for n in rpn]
        tree = walk(fp.build_ast(rpn), A)
    except RecursionError:
        raise
    except Exception as e:       # noqa: BLE001 - the class is the observation
        return {'exc': type(e).__name__, 'rpn': [], 'tree': {'k': 'nil'}}
    return {'exc': '', 'rpn': q, 'tree': tree}


def same_tok(o, e):
    return o['ty'] == e['ty'] and o['sub'] == e['sub'] and T.same_value(o['v'], e['v'])


def same_tree(o, e):
    if o['k'] != e['k']:
        return False
    if o['k'] == 'leaf':
        return same_tok(o['tok'], e['tok'])
    if o['k'] == 'op':
        return same_tok(o['tok'], e['tok']) and same_tree(o['l'], e['l']) and same_tree(o['r'], e['r'])
    if o['k'] == 'fn':
        return same_tok(o['tok'], e['tok']) and len(o['args']) == len(e['args']) and all(same_tree(a, b) for a, b in zip(o['args'], e['args']))
    return True


FAIL_CLASSES = ('IndexError', 'ValueError', 'SyntaxError', 'KeyError')


def compare(obs, st):
    if st['pphase'] == 'fail':
        return None if obs['exc'] in FAIL_CLASSES else ('machine-fails-code-does-not', obs['exc'] or 'returned')
    if obs['exc']:
        return ('python-exception', obs['exc'])
    exp = st['pout']
    if len(exp) != len(obs['rpn']):
        return ('rpn-length', f"{len(obs['rpn'])} for {len(exp)}")
    for i, (o, e) in enumerate(zip(obs['rpn'], exp)):
        if not same_tok(o['tok'], e['tok']) or (e['tok']['ty'] == 'function' and o['nargs'] != e['nargs']):
            return ('rpn-differs', f'node {i}')
    if not same_tree(obs['tree'], st['bstack'][-1]):
        return ('tree-differs', '')
    return None


def show_rpn(q):
    return [T.show_tokens([n['tok']])[0] + (f"#{n['nargs']}" if n['tok']['ty'] == 'function' else '') for n in q]


def replay_worker(blocks):
    res = {'n': 0, 'open': 0, 'fail': 0, 'dis': [], 'samples': []}
    for b in blocks:
        st = pool.parse_block(b)
        text = ''.join(map(chr, st['src']))
        res['n'] += 1
        if st['und'] or st['pund']:
            res['open'] += 1
            continue
        if st['pphase'] == 'fail':
            res['fail'] += 1
        tobs = T.tokens_of(text)
        bad = T.compare(tobs, {'phase': st['phase'], 'out': st['out']})
        if bad:
            res['dis'].append({'case': {'formula': text, 'family': st['case']['kind']},
                               'exp': ['fail:IndexError'] if st['phase'] == 'fail' else T.show_tokens(st['out']),
                               'obs': tobs['exc'] or T.show_tokens(tobs['toks']),
                               'features': {'clause': 'tokens:' + bad[0], 'family': st['case']['kind']}})
            continue
        obs = parse_of(text)
        bad = compare(obs, st)
        if not res['samples'] and st['pphase'] == 'done' and len(st['pout']) > 3:
            res['samples'].append({'parser_text': text, 'machine_rpn': show_rpn(st['pout'])})
        if bad:
            res['dis'].append({'case': {'formula': text, 'family': st['case']['kind']},
                               'exp': ['fail'] if st['pphase'] == 'fail' else show_rpn(st['pout']),
                               'obs': obs['exc'] or show_rpn(obs['rpn']),
                               'features': {'clause': bad[0], 'family': st['case']['kind']}})
    return res


def spec_to_code(run, quick):
    import threading
    stats = {}
    cfgs = (('ast', 'Parse_ast_quick.cfg' if quick else 'Parse_ast.cfg'),
            ('raw', 'Parse_raw_quick.cfg' if quick else 'Parse_raw_thorough.cfg'))
    results, errors = {}, {}
    st0, tr0 = run.states, run.transitions          # run.tlc updates the counters unlocked: recomputed below

    def one(name, cfg):
        try:
            results[name] = run.tlc('MC_Parse', cfg, dump=True, timeout=3000, name='parse-' + name, workers=8)
        except BaseException as e:      # noqa - re-raised in the main thread
            errors[name] = e
    ths = [threading.Thread(target=one, args=c) for c in cfgs]
    [t.start() for t in ths]
    [t.join() for t in ths]
    for name, e in errors.items():
        raise e
    run.states = st0 + sum(x.distinct for x in results.values())
    run.transitions = tr0 + sum(max(x.generated - x.init, 0) for x in results.values())
    for name, cfg in cfgs:
        r = results[name]
        blocks = final_blocks(r.dump)
        os.remove(r.dump)
        n = nopen = nfail = 0
        for res in pool.pmap(replay_worker, blocks):
            n += res['n']
            nopen += res['open']
            nfail += res['fail']
            for s in res['samples'][:1]:
                run.sample(s)
            for d in res['dis']:
                run.disagree('parse-machine', d['case'], d['exp'], d['obs'], d['features'], clause=d['features']['clause'])
        run.evaluations += n - nopen
        run.traces += n - nopen
        run.nontrivial_count += n - nopen
        run.undetermined += nopen
        stats[name] = {'texts': n, 'undetermined': nopen, 'machine_fails': nfail, 'states': r.distinct}
        if n == 0:
            raise xl.MachineryError(f'MC_Parse/{cfg}: no finished machine state in the dump')
    run.notes['front_end_machines'] = stats


# ------------------------------------------------------------------ code -> spec
def record(texts):
    out = []
    for t in texts:
        o = parse_of(t)
        tk = T.tokens_of(t)
        out.append({'text': [ord(c) for c in t], 'toks': tk['toks'], 'texc': tk['exc'], 'rpn': o['rpn'], 'tree': o['tree'], 'exc': o['exc']})
    return out


def code_to_spec(run, quick):
    from checks import c02
    rng = random.Random(run.seed * 104729 + 5)
    fixtures = sorted(set(T.fixture_formulas()))
    gen = [''.join(map(chr, e['text'])) for e in c02.driver(run.seed + 211, 300 if quick else 5000)]
    if quick and len(fixtures) > 400:
        fixtures = rng.sample(fixtures, 400)
    texts = [t for t in fixtures + gen if len(t) <= 300 and all(ord(c) < 2 ** 31 for c in t)]
    texts += [T.mutilate(rng, t) for t in texts]
    recorded = [e for part in pool.pmap(record, texts) for e in part]
    run.evaluations += len(recorded)
    verdicts = validate(run, recorded)
    run.notes['parser_trace'] = {'events': len(recorded), 'ok': verdicts.count('ok'), 'open': verdicts.count('open'),
                                 'code_raises_as_machine_fails': sum(1 for e in recorded if e['exc'])}


def validate(run, events, batch=800):
    verdicts = []
    for bi in range(0, len(events), batch):
        chunk = events[bi:bi + batch]
        path = os.path.join(run.work, f'parsetrace-{bi}.ndjson')
        with open(path, 'w') as fh:
            for e in chunk:
                fh.write(json.dumps(e, separators=(',', ':')) + '\n')
        r = run.tlc('Trace_Parser', 'Trace_Parser.cfg', dump=True, workers=1, timeout=2400, env={'TRACE_FILE': path},
                    name=f'parsetrace-{bi}')
        got = {}
        cur = []

        def flush():
            if cur:
                b = ''.join(cur)
                if 'busy = FALSE' in b:
                    st = pool.parse_block(b)
                    got[st['l']] = (st['verdict'], st['exp'])
        with open(r.dump, encoding='utf-8') as fh:
            for line in fh:
                if line.startswith('State ') and line.rstrip().endswith(':'):
                    flush()
                    cur = []
                else:
                    cur.append(line)
        flush()
        os.remove(path)
        os.remove(r.dump)
        if set(got) != set(range(len(chunk) + 1)):
            raise xl.MachineryError(f'Trace_Parser: {len(got) - 1} events judged of {len(chunk)}')
        for i, e in enumerate(chunk, 1):
            v, x = got[i]
            verdicts.append(v)
            run.traces += 1
            if v == 'open':
                run.undetermined += 1
            elif v == 'ok':
                run.nontrivial_count += 1
            else:
                text = ''.join(map(chr, e['text']))
                run.disagree('trace-parse-machine', {'formula': text}, x if x == ['fail'] else show_rpn(x),
                             e['exc'] or show_rpn(e['rpn']), {'clause': v}, clause=v)
    return verdicts


def run_all(run, quick):
    spec_to_code(run, quick)
    code_to_spec(run, quick)

"""C06 - circular references are reported, acyclic sharing is never flagged, failures stay small."""
import random
import time

from harness import pool, sandbox, trace, xl


def mention(k, style, salt=0):
    """how cell A<k> is mentioned: plainly, inside a lazily evaluated argument, or more than once (value-neutral)"""
    if style == 1:
        return f'IF(TRUE,A{k},0)'
    if style == 2:
        return f'A{k}+(A{k}-$A${k})'
    if style == 3:
        return f'IF(A{k}<0,0,A{k})'
    if style == 6:      # the reference occurs ONLY as the argument of an information function (value-neutral: the term is 0)
        return f'IF(ISBLANK(A{k}),0,0)'
    if style == 7:
        return f"IF({['ISNUMBER', 'ISTEXT', 'ISERROR', 'ISNA', 'ISERR'][(k + salt) % 5]}(A{k}),0,0)"
    return f'A{k}'


def formula_for(c, refs, fail, mode, via_range, long_pad=False, style=0):
    """cell c (1-based, address A<c>) : = w(c) + refs...;  fail: own formula raises first.
    style 4: a never-stored cell is mentioned twice as well (it is blank: value-neutral, and no cycle)
    style 5: every formula starts with the error value 1/0: a value is then #DIV/0!, a cycle is still a cycle"""
    parts = []
    if fail:
        parts.append('NOSUCHFUNC(1)' if mode == 0 else 'VLOOKUP(1,Z1:Z2,1,TRUE)')
    parts.append(str(2 ** (c - 1)))
    if long_pad:          # a long (1200 character) but value-neutral term: failure reports must not depend on formula length
        parts.append('LEN("' + 'x' * 1200 + '")*0')
    i = 0
    while i < len(refs):
        if via_range and i + 1 < len(refs) and refs[i + 1] == refs[i] + 1:
            parts.append(f'SUM(A{refs[i]}:A{refs[i + 1]})')
            i += 2
        else:
            parts.append(mention(refs[i], style, c))
            i += 1
    if style == 4:
        parts.append('Z9+$Z$9')
    if style == 5 and not fail:     # an error VALUE (not an exception) to the left of everything: the references are still evaluated
        parts.insert(0, '1/0')
    return '=' + '+'.join(parts)


def evaluate_graph(refs, fail, entry, mode=0, via_range=False, long_pad=False, shared=None, style=0, crowd=0):
    def fn():
        L = xl.lib()
        d = {f'Sheet1!A{c}': formula_for(c, refs[c - 1], fail[c - 1], mode, via_range, long_pad, style) for c in range(1, len(refs) + 1)}
        for k in range(crowd):      # formula cells nothing in the graph refers to (isolated nodes of the reference graph: the outcome is the same)
            d[f'Sheet1!E{k + 1}'] = f'={k}+D{k + 1}' if k % 2 else f'={k}*2'
        t = time.process_time()
        try:
            if shared is not None and 'ev' in shared:
                ev = shared['ev']          # the SAME evaluator (and model) as earlier evaluations of this graph
            else:
                ev = L.Evaluator(L.ModelCompiler().read_and_parse_dict(d))
                if shared is not None:
                    shared['ev'] = ev
            v = ev.evaluate(f'Sheet1!A{entry}')
            a = xl.to_abs(v)
            out = {'outcome': 'value', 'val': a['n'] if a['t'] == 'num' and a['d'] == 1 else -1, 'abs': a}
        except MemoryError:
            out = {'outcome': 'memlimit'}
        except RecursionError as e:
            out = {'outcome': 'error', 'cls': 'RecursionError', 'msglen': len(str(e))}
        except BaseException as e:      # noqa
            msg = str(e)
            out = {'outcome': 'cycle' if 'cycle' in msg.lower() else 'error', 'cls': type(e).__name__, 'msglen': len(msg), 'msg': msg[:200]}
        out['cpu_ms'] = int((time.process_time() - t) * 1000)
        return out
    return sandbox.run_timed(fn)


def live_cyclic(refs, fail, entry):
    """is a cycle reachable from entry by a walk that stops at failing cells (XlEvalMachine!CyclicLive)"""
    live, todo = set(), [entry]
    while todo:
        c = todo.pop()
        if c in live:
            continue
        live.add(c)
        if not fail[c - 1]:
            todo.extend(refs[c - 1])
    for c in live:
        if fail[c - 1]:
            continue
        seen, todo = set(), list(refs[c - 1])
        while todo:
            d = todo.pop()
            if d == c:
                return True
            if d in seen or d not in live:
                continue
            seen.add(d)
            if not fail[d - 1]:
                todo.extend(refs[d - 1])
    return False


def outcome_ok(refs, fail, entry, exp, val, obs, style=0):
    if style == 5 and exp == 'value':      # the value of every cell is the error value its formula starts with
        return obs['outcome'] == 'value' and obs.get('abs') == {'t': 'err', 'v': '#DIV/0!'}
    if style in (6, 7) and exp == 'value':      # the referenced cells are evaluated (a cycle through them is a cycle) but contribute 0
        return obs['outcome'] == 'value' and obs.get('val') == 2 ** (entry - 1)
    if obs['outcome'] == exp and (exp != 'value' or obs.get('val') == val):
        return True
    # a failing cell AND a cycle both reachable: either report is right (which is met first depends on evaluation order)
    return exp in ('cycle', 'error') and obs['outcome'] in ('cycle', 'error') and any(fail) and live_cyclic(refs, fail, entry)


def graph_worker(blocks):
    out = {'n': 0, 'dis': [], 'samples': [], 'outcomes': {}}
    for b in blocks:
        st = b if isinstance(b, dict) else pool.parse_block(b)
        refs, fail, entry, exp, val = st['refs'], st['fail'], st['entry'], st['outcome'], st['val']
        h = hash((str(refs), entry)) & 0xffff
        style = (h >> 5) % 8
        crowd = 320 if (h >> 8) % 16 == 0 else 0
        via_range = (h >> 1) % 2 == 0 and style not in (6, 7)
        obs = evaluate_graph(refs, fail, entry, mode=h % 2, via_range=via_range, long_pad=(h >> 2) % 8 == 0, style=style, crowd=crowd)
        out['n'] += 1
        out['outcomes'][exp] = out['outcomes'].get(exp, 0) + 1
        ok = outcome_ok(refs, fail, entry, exp, val, obs, style)
        if len(out['samples']) < 2 and exp != 'value':
            out['samples'].append({'refs': refs, 'fail': fail, 'entry': entry, 'expected': exp, 'observed': {k: obs[k] for k in obs if k != 'abs'}})
        if not ok:
            cyc = exp == 'cycle'
            out['dis'].append({'case': {'refs': refs, 'fail': fail, 'entry': entry,
                                        'style': style, 'mode': h % 2, 'via_range': via_range, 'unrelated_formula_cells': crowd,
                                        'formulas': {f'A{c}': formula_for(c, refs[c - 1], fail[c - 1], h % 2, via_range, False, style) for c in range(1, len(refs) + 1)}},
                               'exp': {'outcome': exp, 'val': val}, 'obs': {k: obs[k] for k in obs if k != 'abs'},
                               'features': {'expected': exp, 'observed': obs['outcome'], 'self_loop': cyc and entry in refs[entry - 1],
                                            'ncells': len(refs)}})
    return out


def shared_worker(groups):
    """all entries of one graph evaluated one after the other by ONE evaluator over one model (an evaluation that failed or
    reported a cycle must leave nothing behind): every outcome must still be the one the specification gives for that entry"""
    xl.lib()
    out = {'n': 0, 'dis': []}
    for refs, fail, entries in groups:
        h = hash(str(refs)) & 0xffff
        order = sorted(entries, reverse=bool(h % 2))
        for rounds in range(2):
            shared = {}
            seq = order if rounds == 0 else order[::-1]
            for entry in seq:
                exp, val = entries[entry]
                obs = evaluate_graph(refs, fail, entry, mode=h % 2, via_range=(h >> 1) % 2 == 0, shared=shared, style=(h >> 5) % 6)
                out['n'] += 1
                ok = outcome_ok(refs, fail, entry, exp, val, obs, (h >> 5) % 6)
                if not ok:
                    out['dis'].append({'case': {'refs': refs, 'fail': fail, 'entry': entry, 'evaluated_before_by_same_evaluator': seq[:seq.index(entry)]},
                                       'exp': {'outcome': exp, 'val': val}, 'obs': {k: obs[k] for k in obs if k != 'abs'},
                                       'features': {'expected': exp, 'observed': obs['outcome'], 'shared_evaluator': True, 'ncells': len(refs)}})
                    break
    return out


def switch_formula(c, refs_c):
    """cell c of a graph whose references to cells of the same or a higher index are guarded by the switch cell Z1:
    with Z1 = FALSE they are dormant (the graph is acyclic), with Z1 = TRUE all of them are live"""
    parts = [str(2 ** (c - 1))]
    for j in refs_c:
        parts.append(f'A{j}' if j < c else f'IF($Z$1,A{j},0)')
    return '=' + '+'.join(parts)


def switch_worker(items):
    """one model, one evaluator: every cell is evaluated while the guarded references are dormant, the switch is set
    (set_cell_value), every cell is evaluated again - a cycle that has become live must be reported, whatever was
    evaluated successfully before; then the switch is cleared and everything must evaluate again"""
    out = {'n': 0, 'dis': []}
    for refs, off_exp, on_exp in items:
        n = len(refs)

        def fn():
            L = xl.lib()
            d = {f'Sheet1!A{c}': switch_formula(c, refs[c - 1]) for c in range(1, n + 1)}
            d['Sheet1!Z1'] = 0
            ev = L.Evaluator(L.ModelCompiler().read_and_parse_dict(d))
            res = []
            for phase, switch in (('off', False), ('on', True), ('off-again', False)):
                ev.set_cell_value('Sheet1!Z1', switch)
                for entry in range(1, n + 1):
                    try:
                        a = xl.to_abs(ev.evaluate(f'Sheet1!A{entry}'))
                        res.append((phase, entry, {'outcome': 'value', 'val': a['n'] if a['t'] == 'num' and a['d'] == 1 else -1}))
                    except RecursionError:
                        res.append((phase, entry, {'outcome': 'error', 'cls': 'RecursionError'}))
                    except BaseException as e:      # noqa
                        if isinstance(e, (KeyboardInterrupt, SystemExit, sandbox._Timeout, MemoryError)):
                            raise
                        msg = str(e)
                        res.append((phase, entry, {'outcome': 'cycle' if 'cycle' in msg.lower() else 'error', 'cls': type(e).__name__}))
            return {'res': res}
        r = sandbox.run_timed(fn)
        got = r.get('res', [])
        if not got:
            got = [('on', 1, {'outcome': r.get('outcome', 'timeout')})]
        for phase, entry, obs in got:
            out['n'] += 1
            exp, val = (on_exp if phase == 'on' else off_exp)[entry]
            if not (obs['outcome'] == exp and (exp != 'value' or obs.get('val') == val)):
                out['dis'].append({'case': {'refs': refs, 'entry': entry, 'phase': phase,
                                            'formulas': {f'A{c}': switch_formula(c, refs[c - 1]) for c in range(1, n + 1)},
                                            'history': 'evaluate all with Z1=FALSE; set Z1=TRUE; evaluate all; set Z1=FALSE; evaluate all'},
                                   'exp': {'outcome': exp, 'val': val}, 'obs': obs,
                                   'features': {'expected': exp, 'observed': obs['outcome'], 'phase': phase, 'switch': True}})
                break
    return out


def twin_sheet_worker(items):
    """two sheets whose cells hold the SAME formula texts (unqualified references) - except one cell, which is a constant on the
    second sheet, so that the two sheets are different graphs; one model, one evaluator, both orders of the sheets"""
    out = {'n': 0, 'dis': []}
    for refs, k, exp1, exp2 in items:
        n = len(refs)
        for first in (2, 1):
            def fn():
                L = xl.lib()
                d = {}
                for c in range(1, n + 1):
                    d[f'Sheet1!A{c}'] = formula_for(c, refs[c - 1], False, 0, False)
                    d[f'Sheet2!A{c}'] = d[f'Sheet1!A{c}'] if c != k else 2 ** (c - 1)
                ev = L.Evaluator(L.ModelCompiler().read_and_parse_dict(d))
                res = []
                for sh in ((2, 1) if first == 2 else (1, 2)):
                    for entry in range(1, n + 1):
                        try:
                            a = xl.to_abs(ev.evaluate(f'Sheet{sh}!A{entry}'))
                            res.append((sh, entry, {'outcome': 'value', 'val': a['n'] if a['t'] == 'num' and a['d'] == 1 else -1}))
                        except RecursionError:
                            res.append((sh, entry, {'outcome': 'error', 'cls': 'RecursionError'}))
                        except BaseException as e:      # noqa
                            if isinstance(e, (KeyboardInterrupt, SystemExit, sandbox._Timeout, MemoryError)):
                                raise
                            res.append((sh, entry, {'outcome': 'cycle' if 'cycle' in str(e).lower() else 'error', 'cls': type(e).__name__}))
                return {'res': res}
            r = sandbox.run_timed(fn)
            bad = False
            for sh, entry, obs in r.get('res', [(1, 1, {'outcome': r.get('outcome', 'timeout')})]):
                out['n'] += 1
                exp, val = (exp1 if sh == 1 else exp2)[entry]
                if not (obs['outcome'] == exp and (exp != 'value' or obs.get('val') == val)):
                    out['dis'].append({'case': {'refs_sheet1': refs, 'sheet2': f'the same formula texts, A{k} a constant', 'entry': f'Sheet{sh}!A{entry}',
                                                'evaluated_first': f'Sheet{first}'},
                                       'exp': {'outcome': exp, 'val': val}, 'obs': obs,
                                       'features': {'expected': exp, 'observed': obs['outcome'], 'twin_sheets': True}})
                    bad = True
                    break
            if bad:
                break
    return out


def sparse_range_worker(items):
    """the two-cell graphs 1 -> 2 (-> 1) of the instance with the reference from cell 1 being a LONG, SPARSE range on a sheet
    whose name may need quoting: cell 2 stands behind `gap` empty cells of the range (a rectangular range denotes all its cells,
    however many are empty).  items: (sheet, horizontal, gap, cyclic, expected {entry: (outcome, val)})"""
    from harness import syntax as S
    out = {'n': 0, 'dis': []}
    for sheet, horiz, gap, cyclic, exp in items:
        far = (gap + 2, 1) if horiz else (2, gap + 1)
        end = (gap + 40, 1) if horiz else (2, gap + 40)
        a1, a2 = f'{sheet}!A1' if not horiz else f'{sheet}!A2', f'{sheet}!{S.col_letters(far[0])}{far[1] if not horiz else 2}'
        if horiz:
            rng_text = f'B2:{S.col_letters(end[0])}2'
        else:
            rng_text = f'B1:B{end[1]}'
        d = {a1: f'=1+SUM({rng_text})', a2: ('=2+' + a1.split('!')[1]) if cyclic else 2, 'Other!A1': "=1+SUM(" + S.sheet_prefix(sheet) + rng_text + ")"}
        for entry, addr in ((1, a1), (2, a2), (3, 'Other!A1')):
            def fn():
                L = xl.lib()
                try:
                    a = xl.to_abs(L.Evaluator(L.ModelCompiler().read_and_parse_dict(d)).evaluate(addr))
                    return {'outcome': 'value', 'val': a['n'] if a['t'] == 'num' and a['d'] == 1 else -1}
                except RecursionError:
                    return {'outcome': 'error', 'cls': 'RecursionError'}
                except BaseException as e:      # noqa
                    if isinstance(e, (KeyboardInterrupt, SystemExit, sandbox._Timeout, MemoryError)):
                        raise
                    return {'outcome': 'cycle' if 'cycle' in str(e).lower() else 'error', 'cls': type(e).__name__}
            obs = sandbox.run_timed(fn)
            out['n'] += 1
            want, val = exp[min(entry, 2)] if entry < 3 else exp[1]      # (the cell on the other sheet reads the same range as cell 1)
            if not (obs.get('outcome') == want and (want != 'value' or obs.get('val') == val)):
                out['dis'].append({'case': {'workbook': {k: (v if len(str(v)) < 80 else str(v)[:80]) for k, v in d.items()}, 'entry': addr},
                                   'exp': {'outcome': want, 'val': val}, 'obs': obs,
                                   'features': {'expected': want, 'observed': obs.get('outcome'), 'sparse_range': True, 'quoted_sheet': sheet != 'S1', 'gap': gap}})
    return out


def wide_row_events():
    """formulas in the two-letter columns whose same-sheet ranges lie in the one-letter columns of their own rows (a row total right
    of a wide table): acyclic, whatever the column letters look like as strings"""
    from harness import syntax as S
    evs = []
    for own, rg in (((28, 2), (1, 2, 26, 2)), ((27, 2), (1, 1, 2, 2)), ((30, 3), (2, 3, 25, 3)), ((28, 1), (1, 1, 26, 3)), ((53, 2), (27, 2, 52, 2)),
                    ((27, 5), (1, 5, 26, 5)), ((703, 2), (1, 2, 30, 2))):
        cells = {}
        c1, r1, c2, r2 = rg
        k = 0
        for c in (c1, (c1 + c2) // 2, c2):
            for r in (r1, r2):
                k += 1
                cells[(c, r)] = k * 3
        for f in ('SUM', 'COUNTA'):
            ast = S.call(f, [S.rng(c1, r1, c2, r2)])
            evs.append({'own': own, 'ast': ast, 'cells': cells})
            evs.append({'own': own, 'ast': S.bin_('+', S.call(f, [S.rng(c1, r1, c2, r2)]), S.ref(c1, r1)), 'cells': cells})
    return evs


def wide_row_worker(evs):
    from harness import syntax as S
    L = xl.lib()
    out = []
    for e in evs:
        addr = f"Sheet1!{S.col_letters(e['own'][0])}{e['own'][1]}"
        d = {f'Sheet1!{S.col_letters(c)}{r}': v for (c, r), v in e['cells'].items()}
        d[addr] = S.formula(e['ast'])
        try:
            res = xl.to_abs(L.Evaluator(L.ModelCompiler().read_and_parse_dict(d)).evaluate(addr))
        except BaseException as ex:      # noqa
            if isinstance(ex, (KeyboardInterrupt, SystemExit)):
                raise
            res = {'t': 'exc', 'cls': type(ex).__name__ + (' (cycle report)' if 'cycle' in str(ex).lower() else '')}
        out.append({'ast': e['ast'], 'sheet': 'Sheet1', 'names': [], 'res': res, 'addr': addr, 'text': S.formula(e['ast']),
                    'cells': [{'sheet': 'Sheet1', 'col': c, 'row': r, 'v': {'t': 'num', 'n': v, 'd': 1}} for (c, r), v in sorted(e['cells'].items())]})
    return out


def lazy_registry_worker(_):
    """every REGISTERED function with a lazily evaluated parameter (an Expr annotation - IF, AND, OR, NOT and whatever a
    change adds): A1 = F(..B1 at one position, 1 elsewhere..), B1 = SPY()+A1.  If the spy fired, the evaluation of A1
    reached B1, whose formula refers back to A1: the dependency is live and a cycle must be reported - by A1 and by B1."""
    import inspect
    L = xl.lib()
    out = {'n': 0, 'dis': [], 'functions': []}
    lazy = []
    for name, fn in sorted(L.xl.FUNCTIONS.items()):
        try:
            params = list(inspect.signature(fn).parameters.values())
        except (TypeError, ValueError):
            continue
        pos = [i for i, p in enumerate(params) if 'Expr' in str(p.annotation)]
        if pos:
            lazy.append((name, params, pos))
    out['functions'] = [n for n, _, _ in lazy]
    for name, params, pos in lazy:
        nreq = len([p for p in params if p.default is inspect.Parameter.empty and p.kind in (p.POSITIONAL_ONLY, p.POSITIONAL_OR_KEYWORD)])
        nmax = len([p for p in params if p.kind in (p.POSITIONAL_ONLY, p.POSITIONAL_OR_KEYWORD)])
        variadic = any(p.kind == p.VAR_POSITIONAL for p in params)
        for nargs in sorted({max(nreq, 1), nmax, (nmax + 1) if variadic else nmax}):
            for at in range(nargs):
                for fill in ('1', '0'):
                    args = [fill] * nargs
                    args[at] = 'B1'
                    text = f'={name}(' + ','.join(args) + ')'
                    for entry in ('A1',):
                        log = []

                        def SPYC(k):
                            log.append(1)
                            return 0

                        def fn():
                            ev = L.Evaluator(L.ModelCompiler().read_and_parse_dict({'Sheet1!A1': text, 'Sheet1!B1': '=SPYC(1)+A1'}))
                            ev.namespace['SPYC'] = SPYC
                            try:
                                ev.evaluate('Sheet1!' + entry)
                                return {'outcome': 'value'}
                            except RecursionError:
                                return {'outcome': 'error', 'cls': 'RecursionError'}
                            except BaseException as e:      # noqa
                                if isinstance(e, (KeyboardInterrupt, SystemExit, sandbox._Timeout, MemoryError)):
                                    raise
                                return {'outcome': 'cycle' if 'cycle' in str(e).lower() else 'error', 'cls': type(e).__name__}
                        r = sandbox.run_timed(fn)
                        out['n'] += 1
                        live = bool(log)          # the spy fired: the evaluation of A1 reached B1
                        if live and r.get('outcome') != 'cycle':
                            out['dis'].append({'case': {'formulas': {'A1': text, 'B1': '=SPYC(1)+A1'}, 'entry': entry, 'function': name, 'position': at + 1},
                                               'exp': {'outcome': 'cycle'}, 'obs': dict(r, spy_fired=len(log)),
                                               'features': {'expected': 'cycle', 'observed': r.get('outcome'), 'lazy_function': True}})
    return out


def chain_event(depth, leaf, lazy=False):
    """lazy: every link mentions its predecessor inside arguments of IF (evaluated on demand)"""
    flen = [0]

    def fn():
        L = xl.lib()
        pad = '+LEN("' + 'y' * 1500 + '")*0' if depth % 3 == 1 else ''
        d = {'Sheet1!A1': {'valid': '=1', 'unknown': '=NOSUCHFUNC(1)', 'python': '=VLOOKUP(1,Z1:Z2,1,TRUE)'}[leaf] + pad}
        for i in range(2, depth + 1):
            d[f'Sheet1!A{i}'] = (f'=SUM(A{i - 1}:A{i - 1})+1' if i % 3 == 0 else f'=A{i - 1}+1') if not lazy else \
                (f'=IF(A{i - 1}>0,A{i - 1},0)+1' if i % 2 else f'=IF(TRUE,A{i - 1})+1')
        flen[0] = max(len(x) for x in d.values())
        model = L.ModelCompiler().read_and_parse_dict(d)
        ev = L.Evaluator(model)
        t = time.process_time()
        try:
            v = ev.evaluate(f'Sheet1!A{depth}')
            out = {'outcome': 'value', 'msglen': 0}
        except MemoryError:
            out = {'outcome': 'memlimit', 'msglen': 0}
        except BaseException as e:      # noqa
            msg = str(e)
            out = {'outcome': 'cycle' if 'cycle' in msg.lower() else 'error', 'msglen': len(msg), 'cls': type(e).__name__}
        out['cpu_ms'] = int((time.process_time() - t) * 1000)
        return out
    r = sandbox.run_timed(fn, wall_s=30)
    r.setdefault('msglen', 0)
    r.setdefault('cpu_ms', 0)
    return dict(r, kind='chain', depth=depth, leaf=leaf, flen=flen[0])


def chain_worker(items):
    return [chain_event(*it) for it in items]


def seeded_graphs(seed, count):
    rng = random.Random(seed * 7 + 6)
    out = []
    for _ in range(count):
        n = rng.randint(4, 10)
        acyclic = rng.random() < 0.5
        refs = []
        for c in range(1, n + 1):
            k = rng.choice([0, 1, 1, 2, 2, 3])
            pool_ = list(range(1, c)) if acyclic else list(range(1, n + 1))
            r = [rng.choice(pool_) for _ in range(k)] if pool_ else []
            if len(r) >= 2 and rng.random() < 0.4 and r[0] < n:
                r[1] = r[0] + 1 if (not acyclic or r[0] + 1 < c) else r[1]
            refs.append(r)
        fail = [False] * n
        if rng.random() < 0.3:
            fail[rng.randrange(n)] = True
        out.append({'refs': refs, 'fail': fail, 'entry': rng.randint(max(1, n - 2), n)})
    return out


def seeded_worker(items):
    evs = []
    for g in items:
        h = hash(str(g['refs'])) & 0xffff
        obs = evaluate_graph(g['refs'], g['fail'], g['entry'], mode=h % 2, via_range=h % 3 == 0, style=(h >> 5) % 5)
        evs.append({'kind': 'graph', 'refs': g['refs'], 'fail': g['fail'], 'entry': g['entry'],
                    'outcome': obs['outcome'], 'val': obs.get('val', 0), 'cpu_ms': obs.get('cpu_ms', 0)})
    return evs


BUG_MODELS = {}


def run(run):
    quick = run.tier == 'quick'
    r = run.tlc('MC_C06', 'C06_check.cfg' if quick else 'C06_check4.cfg', dump=True, timeout=3000)
    for bad, inv in (('C06_bad_context.cfg', 'StackBound'), ('C06_bad_visited.cfg', 'CycleOnlyIfCyclic')):
        rb = run.tlc('MC_C06', bad, expect_violation=True, timeout=600)
        if rb.violated != inv:
            raise xl.MachineryError(f'design variant {bad} was not rejected by TLC ({inv}); got {rb.violated}')
        run.laws[f'variant {bad} rejected'] = rb.violated
    # the machine refines the path skeleton XlEvalPath (TLC, same instance); the skeleton's invariant - the stack is a simple
    # path of the reference graph, a cycle report carries its witness - is inductive for ALL graphs on 8 cells (Apalache)
    run.tlc('MC_C06', 'C06_refines_path.cfg', timeout=900)
    rb = run.tlc('MC_C06', 'C06_bad_refines_path.cfg', expect_violation=True, timeout=600)
    if 'Action property' not in rb.out or 'is violated' not in rb.out:
        raise xl.MachineryError('the machine without a cycle check was not rejected as a refinement of XlEvalPath')
    run.laws['variant C06_bad_refines_path.cfg rejected'] = 'RefinesPath'
    run.apalache('MC_EvalPathApa', 'ConstInit8', 'Init', 'IndInv', 0)
    run.apalache('MC_EvalPathApa', 'ConstInit8', 'IndInit', 'IndInv', 1)
    run.apalache('MC_EvalPathApa', 'ConstInit8Bad', 'IndInit', 'IndInv', 1, expect_violation=True)
    run.laws['variant ConstInit8Bad rejected (Apalache)'] = 'IndInv not inductive without the path check'
    finals = {}
    import sys
    if quick:
        src, total = pool.dump_blocks(r.dump, skip_substr='outcome = "running"'), None
    else:       # millions of final states: a uniform sample of 60 000 of them, streamed from the dump
        src, total = pool.sample_blocks(r.dump, 60000, random.Random(run.seed), skip_substr='outcome = "running"')
        run.notes['final_states_in_dump'] = total
    for b in src:
        st = pool.parse_block(b)
        finals[(str(st['refs']), str(st['fail']), st['entry'])] = {k: st[k] for k in ('refs', 'fail', 'entry', 'outcome', 'val')}
    del src
    cases = list(finals.values())
    print(f'[c06] {len(cases)} graphs' + (f' (sampled from {total})' if total else ''), file=sys.stderr, flush=True)
    outcomes = {}
    for res in pool.pmap(graph_worker, cases):
        run.evaluations += res['n']
        run.traces += res['n']
        run.nontrivial_count += res['n']
        for k, v in res['outcomes'].items():
            outcomes[k] = outcomes.get(k, 0) + v
        for s in res['samples']:
            run.sample(s)
        for d in res['dis']:
            run.disagree('graph', d['case'], d['exp'], d['obs'], d['features'], clause=d['features']['expected'] + '->' + d['features']['observed'])
    run.notes['graphs_by_expected_outcome'] = outcomes
    groups = {}
    for cse in cases:
        g = groups.setdefault((str(cse['refs']), str(cse['fail'])), (cse['refs'], cse['fail'], {}))
        g[2][cse['entry']] = (cse['outcome'], cse['val'])
    glist = [g for g in groups.values() if len(g[2]) > 1]
    nshared = 0
    for res in pool.pmap(shared_worker, glist):
        nshared += res['n']
        for d in res['dis']:
            run.disagree('graph', d['case'], d['exp'], d['obs'], d['features'], clause='shared-evaluator:' + d['features']['expected'] + '->' + d['features']['observed'])
    run.evaluations += nshared
    run.notes['shared_evaluator_evaluations'] = nshared
    # dormant cycles: references guarded by a switch cell (through the lazily evaluating IF) - evaluate, set the switch, evaluate
    # (these families pair a graph with a sub-graph of it: they need the EXHAUSTIVE 3-cell instance, also in the thorough tier)
    if quick:
        cases3 = cases
    else:
        r3 = run.tlc('MC_C06', 'C06_check.cfg', dump=True, timeout=3000, name='C06_check3')
        cases3 = []
        for b in pool.dump_blocks(r3.dump, skip_substr='outcome = "running"'):
            st = pool.parse_block(b)
            cases3.append({k: st[k] for k in ('refs', 'fail', 'entry', 'outcome', 'val')})
    table = {(str(c['refs']), c['entry']): (c['outcome'], c['val']) for c in cases3 if not any(c['fail'])}
    sw_items = []
    for cse in cases3:
        refs = cse['refs']
        if any(cse['fail']) or cse['entry'] != 1 or not any(j >= c for c, rs in enumerate(refs, 1) for j in rs):
            continue
        off = [[j for j in rs if j < c] for c, rs in enumerate(refs, 1)]
        try:
            on_exp = {e: table[(str(refs), e)] for e in range(1, len(refs) + 1)}
            off_exp = {e: table[(str(off), e)] for e in range(1, len(refs) + 1)}
        except KeyError:
            continue
        sw_items.append((refs, off_exp, on_exp))
    random.Random(run.seed + 61).shuffle(sw_items)
    sw_items = sw_items[:1500 if quick else 12000]
    nsw = 0
    for res in pool.pmap(switch_worker, sw_items):
        nsw += res['n']
        for d in res['dis']:
            run.disagree('graph', d['case'], d['exp'], d['obs'], d['features'], clause='switch:' + d['features']['phase'] + ':' + d['features']['expected'] + '->' + d['features']['observed'])
    run.evaluations += nsw
    run.notes['switch_graph_evaluations'] = nsw
    if nsw < 1000:
        raise xl.MachineryError(f'vacuous switch family: {nsw} evaluations')
    # the same formula texts on two sheets that are different graphs (one cyclic, one not), one evaluator, both orders
    tw_items = []
    for cse in cases3:
        refs = cse['refs']
        if any(cse['fail']) or cse['entry'] != 1:
            continue
        for k in range(1, len(refs) + 1):
            if not refs[k - 1]:
                continue
            refs2 = [rs if c != k else [] for c, rs in enumerate(refs, 1)]
            try:
                exp1 = {e: table[(str(refs), e)] for e in range(1, len(refs) + 1)}
                exp2 = {e: table[(str(refs2), e)] for e in range(1, len(refs) + 1)}
            except KeyError:
                continue
            if [exp1[e][0] for e in exp1] != [exp2[e][0] for e in exp2]:      # the two sheets differ in what is a cycle
                tw_items.append((refs, k, exp1, exp2))
    random.Random(run.seed + 62).shuffle(tw_items)
    tw_items = tw_items[:600 if quick else 6000]
    ntw = 0
    for res in pool.pmap(twin_sheet_worker, tw_items):
        ntw += res['n']
        for d in res['dis']:
            run.disagree('graph', d['case'], d['exp'], d['obs'], d['features'], clause='twin-sheets:' + d['features']['expected'] + '->' + d['features']['observed'])
    run.evaluations += ntw
    run.notes['twin_sheet_evaluations'] = ntw
    if ntw < 500:
        raise xl.MachineryError(f'vacuous twin-sheet family: {ntw} evaluations')
    # long sparse ranges on sheets whose names need quoting: the outcomes TLC computed for the two-cell graphs 1 -> 2 and 1 <-> 2
    by = {(str(c['refs']), str(c['fail']), c['entry']): (c['outcome'], c['val']) for c in cases3}
    sp_items = []
    for cyclic in (False, True):
        refs2 = [[2], [1], []] if cyclic else [[2], [], []]      # (the instance has three cells: the third stands alone)
        try:
            exp = {e: by[(str(refs2), str([False, False, False]), e)] for e in (1, 2)}
        except KeyError:
            raise xl.MachineryError('the two-cell graphs are missing from the instance')
        for sheet in ('S1', 'My Sheet', "O'x", 'P^2'):
            for horiz, gap in ((False, 150), (False, 230), (False, 320), (True, 120), (True, 260)):
                sp_items.append((sheet, horiz, gap, cyclic, exp))
    nsp = 0
    for res in pool.pmap(sparse_range_worker, sp_items, nchunks=16):
        nsp += res['n']
        for d in res['dis']:
            run.disagree('graph', d['case'], d['exp'], d['obs'], d['features'], clause='sparse-range:' + str(d['features']['expected']) + '->' + str(d['features']['observed']))
    run.evaluations += nsp
    run.notes['sparse_range_evaluations'] = nsp
    # row totals right of a wide table: validated by TLC (Trace_Local) - a value, never a cycle report
    from harness import evalrec
    wev = [e for part in pool.pmap(wide_row_worker, wide_row_events(), nchunks=4) for e in part]
    wv = evalrec.validate(run, wev, name='widerow', kind='wide-row')
    run.evaluations += len(wev)
    run.notes['wide_row_events'] = dict(wv)
    if wv.get('ok', 0) < len(wev):
        pass          # disagreements were recorded by the validation
    lz = pool.pmap_fresh(lazy_registry_worker, [0])[0]      # (in a child: the sandbox lowers the address-space limit of its process)
    run.evaluations += lz['n']
    run.notes['lazy_functions_scanned'] = lz['functions']
    for d in lz['dis']:
        run.disagree('graph', d['case'], d['exp'], d['obs'], d['features'], clause='lazy-function-swallows-cycle')
    if not {'IF', 'AND', 'OR', 'NOT'} <= set(lz['functions']):
        raise xl.MachineryError(f"lazy parameter scan found {lz['functions']}")
    print(f'[c06] graphs replayed {outcomes}', file=sys.stderr, flush=True)
    if outcomes.get('cycle', 0) < 100 or outcomes.get('value', 0) < 100 or outcomes.get('error', 0) < 100:
        raise xl.MachineryError(f'vacuous instance: {outcomes}')
    # code -> spec: chains (message / time bounds) and seeded larger graphs, validated by TLC (Trace_C06)
    depths = [1, 2, 4, 8, 16, 32, 64, 100, 128, 200] + ([] if quick else [256, 400, 512])
    items = [(d, leaf, lazy) for d in depths for leaf in ('valid', 'unknown', 'python') for lazy in (False, True)]
    events = [e for part in pool.pmap(chain_worker, items, nchunks=len(items)) for e in part]
    events += [e for part in pool.pmap(seeded_worker, seeded_graphs(run.seed, 1500 if quick else 15000)) for e in part]
    run.evaluations += len(events)
    print(f'[c06] {len(events)} events recorded', file=sys.stderr, flush=True)
    clean = [{k: v for k, v in e.items() if k in ('kind', 'depth', 'leaf', 'outcome', 'msglen', 'cpu_ms', 'refs', 'fail', 'entry', 'val', 'flen')} for e in events]
    res = trace.validate(run, clean, module='Trace_C06', kind='trace-c06',
                         features=lambda e, x, v: {'verdict': v, 'kind': e['kind'], 'depth': e.get('depth'), 'leaf': e.get('leaf')})
    run.sample({'chain_events': [e for e in events if e['kind'] == 'chain'][-3:]})
    run.notes['chain_events'] = [{k: e[k] for k in ('depth', 'leaf', 'outcome', 'msglen', 'cpu_ms')} for e in events if e['kind'] == 'chain']
    run.rule = ('every digraph on 3 cells with up to 2 (possibly repeated) references per cell x at most one failing cell x every entry point '
                '(the final state of each TLC behaviour of XlEvalMachine), references written singly or through ranges, evaluated in a '
                'resource-limited subprocess; chains of depth up to 200/512 with valid and failing leaves; seeded graphs on 4-10 cells')
    run.exhaustive = quick
    run.assumptions.append('time is measured as process CPU time in the sandbox child; bounds 400*k+400 characters and 5*k^2+2000 ms')


def replay(path):
    import json
    d = json.load(open(path))
    c = d['case']
    if 'refs' in c:
        obs = evaluate_graph(c['refs'], c['fail'], c['entry'], mode=c.get('mode', 0), via_range=c.get('via_range', False), style=c.get('style', 0))
        print('case', c, '\nexpected', d['expected'], '\nobserved', {k: v for k, v in obs.items() if k != 'abs'})
        if obs['outcome'] != d['expected'].get('outcome') if isinstance(d['expected'], dict) else True:
            print(f"VIOLATION property=C06 replay={path}")
            return 1
        return 0
    print(json.dumps(d, indent=1)[:2000])
    return 1

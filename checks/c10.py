"""C10 - IF/AND/OR/NOT select lazily and follow Excel's truth rules."""
import random

from harness import pool, sandbox, xl
from harness.agree import agrees, klass

CELLS = ['Sheet1!A1', 'Sheet1!B1', 'Sheet1!C1', 'Sheet1!D1']


BIG_CHAIN = 80


def evaluate_case(text, asg, covered=False, big=False):
    """-> (abstract value or {'t': 'pyexc'}, spy log).  covered: another formula of the model mentions the range A1:E1, so
    that the blank cells of the assignment exist in the model (as empty cells) instead of being absent"""
    L = xl.lib()
    cells = {}
    for a, v in zip(CELLS, asg):
        if v['t'] != 'blank':
            cells[a] = ('value', xl.from_abs(v, 'native'))
    log = []

    def SPY(k):
        log.append(int(k))
        return k

    def fn():
        try:
            forms = {'Sheet1!Z1': text, 'Sheet1!Q1': '=Q1+1'}
            if covered:
                forms['Sheet1!Y1'] = '=COUNTA(A1:E1)'
            target = 'Sheet1!Z1'
            if big:       # the formula under test is reached from a cell whose dependency graph holds many formula cells,
                import re      # and its spies / unknown functions live in cells of their own, mentioned where they stood
                def cellify(m):
                    k = int(m.group(1))
                    forms[f'Sheet1!P{k + 1}'] = f'=SPY({k})'
                    return f'P{k + 1}'
                ztext = re.sub(r'SPY\((\d+)\)', cellify, text)
                if 'NOSUCHFUNC()' in ztext:
                    forms['Sheet1!O1'] = '=NOSUCHFUNC()'
                    ztext = ztext.replace('NOSUCHFUNC()', 'O1')
                forms['Sheet1!Z1'] = ztext
                forms['Sheet1!H1'] = '=1'
                for i in range(2, BIG_CHAIN + 1):
                    forms[f'Sheet1!H{i}'] = f'=H{i - 1}+1'
                forms['Sheet1!W1'] = f'=IF(H{BIG_CHAIN}>0,Z1,Z1)'
                target = 'Sheet1!W1'
            model, ev = xl.build_model(cells, forms)
            ev.namespace['SPY'] = SPY
            return {'abs': xl.to_abs(ev.evaluate(target))}
        except BaseException as e:      # noqa
            if isinstance(e, (KeyboardInterrupt, SystemExit, sandbox._Timeout)):
                raise
            return {'abs': {'t': 'pyexc', 'cls': type(e).__name__, 'msg': str(e)[:160]}}
    r = sandbox.run_timed(fn, wall_s=10)
    if 'abs' not in r:
        return {'t': 'pyexc', 'cls': r.get('outcome', 'timeout'), 'msg': ''}, list(log)
    return r['abs'], list(log)


def evaluate_reused(text, asgs, start='zeros'):
    """ONE model and ONE evaluator for the formula; the truth assignments are applied one after the other with
    set_cell_value (a blank is set as None) and the formula is evaluated after each: -> [(value, spy log)].
    start: the cells hold 0 to begin with, or ('absent') the model does not store them at all before they are first set"""
    L = xl.lib()
    log = []

    def SPY(k):
        log.append(int(k))
        return k
    out = []

    def fn():
        model, ev = xl.build_model({a: ('value', 0) for a in CELLS} if start == 'zeros' else {}, {'Sheet1!Z1': text, 'Sheet1!Q1': '=Q1+1'})
        ev.namespace['SPY'] = SPY
        for asg in asgs:
            for a, v in zip(CELLS, asg):
                ev.set_cell_value(a, None if v['t'] == 'blank' else xl.from_abs(v, 'native'))
            del log[:]
            try:
                val = xl.to_abs(ev.evaluate('Sheet1!Z1'))
            except BaseException as e:      # noqa
                if isinstance(e, (KeyboardInterrupt, SystemExit, sandbox._Timeout)):
                    raise
                val = {'t': 'pyexc', 'cls': type(e).__name__, 'msg': str(e)[:160]}
            out.append((val, list(log)))
        return {'done': True}
    r = sandbox.run_timed(fn, wall_s=20)
    while len(out) < len(asgs):
        out.append(({'t': 'pyexc', 'cls': r.get('outcome', 'timeout'), 'msg': ''}, []))
    return out


def evaluate_twin(text, asg1, asg2):
    """the SAME formula text in Z1 of two sheets that hold different truth assignments; one evaluate() of a cell on a third
    sheet reaches both: -> [(value of Sheet1!Z1, value of Sheet2!Z1)], spy log"""
    L = xl.lib()
    cells = {}
    for sh, asg in (('Sheet1', asg1), ('Sheet2', asg2)):
        for a, v in zip(CELLS, asg):
            if v['t'] != 'blank':
                cells[sh + a[6:]] = ('value', xl.from_abs(v, 'native'))
    log = []

    def SPY(k):
        log.append(int(k))
        return k

    def fn():
        try:
            model, ev = xl.build_model(cells, {'Sheet1!Z1': text, 'Sheet2!Z1': text, 'Sheet3!C1': '=COUNTA(Sheet1!Z1,Sheet2!Z1)'})
            ev.namespace['SPY'] = SPY
            ev.evaluate('Sheet3!C1')
            return {'abs': [xl.to_abs(ev.get_cell_value('Sheet1!Z1')), xl.to_abs(ev.get_cell_value('Sheet2!Z1'))]}
        except BaseException as e:      # noqa
            if isinstance(e, (KeyboardInterrupt, SystemExit, sandbox._Timeout)):
                raise
            return {'abs': None, 'exc': type(e).__name__ + ': ' + str(e)[:120]}
    r = sandbox.run_timed(fn, wall_s=10)
    return r.get('abs'), list(log), r.get('exc') or r.get('outcome')


def twin_worker(groups):
    out = {'n': 0, 'dis': []}
    for text, items in groups:
        usable = [(g, outs, kind) for g, outs, kind in items
                  if all(o['v']['t'] not in ('open', 'pyexc') for o in outs)]
        for (g1, outs1, kind), (g2, outs2, _) in zip(usable, usable[1:] + usable[:1]):
            if g1 == g2:
                continue
            vals, log, exc = evaluate_twin(text, ASSIGN[g1 - 1], ASSIGN[g2 - 1])
            out['n'] += 1
            ok = vals is not None and any(agrees(vals[0], o1['v']) is True and agrees(vals[1], o2['v']) is True and list(o1['log']) + list(o2['log']) == log
                                          for o1 in outs1 for o2 in outs2)
            if not ok:
                out['dis'].append({'case': {'formula': text, 'kind': kind, 'Sheet1_cells': ASSIGN[g1 - 1], 'Sheet2_cells': ASSIGN[g2 - 1],
                                            'evaluated': '=COUNTA(Sheet1!Z1,Sheet2!Z1) on Sheet3, the same formula text in Z1 of both sheets'},
                                   'exp': {'Sheet1!Z1': outs1, 'Sheet2!Z1': outs2},
                                   'obs': {'values': vals, 'spy_log': log, 'exception': exc},
                                   'features': {'kind': kind, 'clause': 'same-text-on-two-sheets', 'fn': text[1:text.index('(')]}})
    return out


def reuse_worker(groups):
    out = {'n': 0, 'dis': []}
    for text, items in groups:
      for start in ('zeros', 'absent'):
        obs = evaluate_reused(text, [ASSIGN[g - 1] for g, _, _ in items], start)
        for (g, outs, kind), (val, log) in zip(items, obs):
            out['n'] += 1
            ok = admissible(val, log, outs)
            if ok is False:
                out['dis'].append({'case': {'formula': text, 'cells': ASSIGN[g - 1], 'kind': kind, 'reused_model': True, 'cells_at_start': start,
                                            'assignments_before': [x[0] for x in items[:[x[0] for x in items].index(g)]]},
                                   'exp': outs, 'obs': {'value': val, 'spy_log': log},
                                   'features': {'kind': kind, 'clause': 'reused-model', 'fn': text[1:text.index('(')]}})
    return out


def helper_events():
    """AND / OR over plain single-cell REFERENCES to formula cells whose values are results of functions (IF with an omitted
    branch, the IS* functions, COUNTA, NOT, a comparison): a logical value reached through a reference is a logical value"""
    from harness import syntax as S
    helpers = [S.call('ISNUMBER', [S.ref(1, 2)]), S.call('IF', [S.ref(1, 2), {'k': 'bool', 'v': True}]), S.call('COUNTA', [S.ref(1, 2)]),
               S.call('ISBLANK', [S.ref(1, 2)]), S.call('NOT', [S.ref(1, 2)]), S.bin_('>', S.ref(1, 2), S.num('0')), S.call('ISTEXT', [S.ref(1, 2)])]
    vals = [True, False, 5, 0, None]
    return [{'f': f, 'helper': h, 'a1': a1, 'a2': a2, 'first': first} for f in ('AND', 'OR') for h in helpers for a1 in vals for a2 in vals for first in (0, 1)]


def record_helper(chunk):
    from harness import syntax as S
    L = xl.lib()
    out = []
    for e in chunk:
        args = [S.ref(1, 1), S.ref(3, 1)] if e['first'] == 0 else [S.ref(3, 1), S.ref(1, 1)]
        ast = S.call(e['f'], args)
        d = {'Sheet1!C1': S.formula(e['helper']), 'Sheet1!Z1': S.formula(ast)}
        for a, v in (('Sheet1!A1', e['a1']), ('Sheet1!A2', e['a2'])):
            if v is not None:
                d[a] = v
        try:
            res = xl.to_abs(L.Evaluator(L.ModelCompiler().read_and_parse_dict(d)).evaluate('Sheet1!Z1'))
        except BaseException as ex:      # noqa
            if isinstance(ex, (KeyboardInterrupt, SystemExit)):
                raise
            res = {'t': 'exc', 'cls': type(ex).__name__}
        cells = [{'sheet': 'Sheet1', 'col': 3, 'row': 1, 'ast': e['helper']}]
        for (c, r), v in (((1, 1), e['a1']), ((1, 2), e['a2'])):
            if v is not None:
                cells.append({'sheet': 'Sheet1', 'col': c, 'row': r, 'v': xl.to_abs(v)})
        out.append({'ast': ast, 'sheet': 'Sheet1', 'names': [], 'res': res, 'addr': 'Sheet1!Z1', 'cells': cells,
                    'text': f"{S.formula(ast)} with C1 {S.formula(e['helper'])}, A1 = {e['a1']!r}, A2 = {e['a2']!r}"})
    return out


def admissible(obs, log, outs):
    """observed (value, spy log) must be one of the admissible outcomes; None if the case is undetermined"""
    if any(o['v']['t'] == 'open' for o in outs):
        return None
    for o in outs:
        if o['v']['t'] == 'pyexc':
            okv = obs['t'] == 'pyexc'
        else:
            okv = obs['t'] != 'pyexc' and agrees(obs, o['v']) is True
        if okv and list(o['log']) == log:
            return True
    return False


def worker(blocks):
    out = {'n': 0, 'open': 0, 'dis': [], 'samples': [], 'kinds': {}}
    for b in blocks:
        st = pool.parse_block(b)
        case, outs = st['case'], st['res']
        text = ''.join(map(chr, case['text']))
        out['n'] += 1
        out['kinds'][case['kind']] = out['kinds'].get(case['kind'], 0) + 1
        asg = ASSIGN[case['asg'] - 1]
        judge(out, text, asg, case['kind'], outs, False)
        if any(v['t'] == 'blank' for v in asg) or 'E1' in text:
            judge(out, text, asg, case['kind'], outs, True)
        if hash(text) % 5 == 0 and 'Z1' not in text and 'Y1:Z1' not in text:
            judge(out, text, asg, case['kind'], outs, False, big=True)
    return out


def judge(out, text, asg, kind, outs, covered, extra=None, big=False):
    obs, log = evaluate_case(text, asg, covered, big)
    ok = admissible(obs, log, outs)
    if ok is None:
        out['open'] += 1
        return
    if len(out.get('samples', ())) < 2 and log and 'samples' in out:
        out['samples'].append({'formula': text, 'cells': dict(zip('ABCD', asg)), 'admissible': outs, 'observed': obs, 'spy_log': log})
    if not ok:
        val_ok = any((o['v']['t'] == 'pyexc') == (obs['t'] == 'pyexc') and (o['v']['t'] == 'pyexc' or agrees(obs, o['v']) is True) for o in outs)
        c = {'formula': text, 'cells': asg, 'kind': kind}
        if covered:
            c['covered'] = True
        if big:
            c['reached_through'] = f'W1 =IF(H{BIG_CHAIN}>0,Z1,Z1) over a chain of {BIG_CHAIN} formula cells'

        c.update(extra or {})
        out['dis'].append({'case': c, 'exp': outs, 'obs': {'value': obs, 'spy_log': log},
                           'features': {'kind': kind, 'clause': 'spy-log' if val_ok else 'value', 'obs': klass(obs) if obs['t'] != 'pyexc' else 'pyexc:' + obs.get('cls', ''),
                                        'fn': text[1:text.index('(')], 'covered': covered, **({'order': extra['order']} if extra else {})}})


def order_worker(item):
    """one evaluation order of many cases in ONE fresh process: state that a call leaves behind in the process (a memo keyed
    by function name, by argument count, ...) shows as a later case going wrong"""
    name, cases = item
    out = {'n': 0, 'open': 0, 'dis': []}
    for text, asg, kind, outs in cases:
        out['n'] += 1
        judge(out, text, asg, kind, outs, False, extra={'order': name})
        if out['dis'] and 'evaluated_before' not in out['dis'][-1]['case']:
            out['dis'][-1]['case']['evaluated_before'] = out['n'] - 1
            out['dis'][-1]['case']['first_in_process'] = [[t, a] for t, a, _, _ in cases[:12]]
            if len(out['dis']) >= 5:
                break
    return out


ASSIGN = [
    [{'t': 'bool', 'v': True}, {'t': 'bool', 'v': False}, {'t': 'num', 'n': 0, 'd': 1}, {'t': 'num', 'n': 2, 'd': 1}],
    [{'t': 'bool', 'v': False}, {'t': 'bool', 'v': True}, {'t': 'num', 'n': 3, 'd': 1}, {'t': 'num', 'n': 0, 'd': 1}],
    [{'t': 'num', 'n': 1, 'd': 1}, {'t': 'num', 'n': 0, 'd': 1}, {'t': 'bool', 'v': True}, {'t': 'blank'}],
    [{'t': 'blank'}, {'t': 'num', 'n': -1, 'd': 1}, {'t': 'bool', 'v': False}, {'t': 'bool', 'v': True}],
    [{'t': 'bool', 'v': True}, {'t': 'err', 'v': '#N/A'}, {'t': 'num', 'n': 1, 'd': 1}, {'t': 'bool', 'v': True}],
    [{'t': 'float', 'v': '1e-16'}, {'t': 'float', 'v': '-3e-17'}, {'t': 'float', 'v': '4e-300'}, {'t': 'num', 'n': 0, 'd': 1}],
]

BUG_MODELS = {}


def run(run):
    r = run.tlc('MC_C10', 'C10_quick.cfg' if run.tier == 'quick' else 'C10_thorough.cfg', dump=True, timeout=900)
    blocks = pool.dump_blocks(r.dump, skip_substr='"pending"')
    # the assignments are defined in MC_C10 (Assign); keep the Python copy honest
    kinds = {}
    for res in pool.pmap(worker, blocks):
        run.evaluations += res['n']
        run.undetermined += res['open']
        run.traces += res['n'] - res['open']
        run.nontrivial_count += res['n'] - res['open']
        for k, v in res['kinds'].items():
            kinds[k] = kinds.get(k, 0) + v
        for s in res['samples']:
            run.sample(s)
        for d in res['dis']:
            run.disagree('logic', d['case'], d['exp'], d['obs'], d['features'], clause=d['features']['clause'])
    run.notes['cases_by_kind'] = kinds
    # the same cases again on a REUSED model: one model / evaluator per formula, assignments applied with set_cell_value
    groups = {}
    for b in blocks:
        st = pool.parse_block(b)
        groups.setdefault(''.join(map(chr, st['case']['text'])), []).append((st['case']['asg'], st['res'], st['case']['kind']))
    glist = [(t, sorted(v, key=lambda x: x[0])) for t, v in groups.items() if len(v) > 1]
    nre = 0
    for res in pool.pmap(reuse_worker, glist):
        nre += res['n']
        for d in res['dis']:
            run.disagree('logic', d['case'], d['exp'], d['obs'], d['features'], clause='reused-model')
    run.evaluations += nre
    run.notes['reused_model_evaluations'] = nre
    # the same formula text on two sheets with different truth assignments, both reached by ONE evaluation
    ntw = 0
    tw = [(t, v) for t, v in glist if not any(k in ('if-poison', 'nested') for _, _, k in v)]
    for res in pool.pmap(twin_worker, tw):
        ntw += res['n']
        for d in res['dis']:
            run.disagree('logic', d['case'], d['exp'], d['obs'], d['features'], clause='same-text-on-two-sheets')
    run.evaluations += 2 * ntw
    run.notes['twin_sheet_evaluations'] = ntw
    # evaluation orders within one process: fewest arguments first, most arguments first, and two seeded shuffles
    allc = []
    for b in blocks:
        st = pool.parse_block(b)
        allc.append((''.join(map(chr, st['case']['text'])), ASSIGN[st['case']['asg'] - 1], st['case']['kind'], st['res']))
    rank = {'not': 0, 'junc1': 1, 'if2': 2, 'junc2': 3, 'if3': 4, 'if-poison': 5, 'junc3': 6, 'nested': 7}
    rng = random.Random(run.seed * 31 + 7)
    sample = rng.sample(allc, min(len(allc), 1500 if run.tier == 'quick' else 6000))
    asc = sorted(sample, key=lambda c: rank.get(c[2], 9))
    orders = [('fewest-arguments-first', asc), ('most-arguments-first', asc[::-1])]
    # the very first call of a function in the process has FEWER arguments than the later ones (and is no nested call): IF with two
    # arguments before every IF with three; AND / OR of one argument before those of two and three
    single = lambda c, f: c[0].count(f + '(') == 1 and not any(g + '(' in c[0] for g in ('IF', 'AND', 'OR', 'NOT') if g != f)
    orders.append(('two-argument-IF-first', sorted(sample, key=lambda c: 0 if c[2] == 'if2' and single(c, 'IF') else 1)))
    orders.append(('one-argument-AND-OR-first', sorted(sample, key=lambda c: 0 if c[2] == 'junc1' and (single(c, 'AND') or single(c, 'OR')) else 1)))
    for k in range(2):
        sh = list(sample)
        rng.shuffle(sh)
        orders.append((f'shuffle-{k}', sh))
    nord = 0
    for res in pool.pmap_fresh(order_worker, orders):
        nord += res['n']
        for d in res['dis']:
            run.disagree('logic', d['case'], d['exp'], d['obs'], d['features'], clause='order-in-process')
    run.evaluations += nord
    run.notes['ordered_process_evaluations'] = nord
    # AND / OR over references to formula cells holding results of functions (TLC-judged events with their closure)
    from harness import evalrec
    he = [e for part in pool.pmap(record_helper, helper_events(), nchunks=8) for e in part]
    hv = evalrec.validate(run, he, name='helpers', kind='logical-through-reference')
    run.evaluations += len(he)
    run.notes['logical_through_reference_events'] = dict(hv)
    if sum(n for k, n in hv.items() if k != 'open') < len(he) // 2:
        raise xl.MachineryError(f'logical-through-reference events: too few judged ({dict(hv)})')
    run.rule = ('18 conditions (constants, numbers, blank cell, references under 4 truth assignments, comparisons, nested AND/OR/NOT/IF, '
                'error values) x 6 branch expressions (constants, references, SPY, nested IF with spies) in both branches and in the '
                'two-argument form; poisoned branches (unknown function, circular reference, 1/0) on either side; AND/OR of arity 1-3 '
                'over 13 argument kinds (logicals, numbers, blank cell, error, ranges, spies, comparison, unknown function); NOT over '
                'all conditions; observed = (value, spy call log) must be one of the admissible outcomes the specification computes')
    run.exhaustive = True


def replay(path):
    import json
    d = json.load(open(path))
    c = d['case']
    for t, a in c.get('first_in_process', []):       # the cases this process evaluated first (order-in-process)
        evaluate_case(t, a)
    obs, log = evaluate_case(c['formula'], c['cells'], bool(c.get('covered')))
    print('formula', c['formula'], 'cells', c['cells'], '\nadmissible', d['expected'], '\nobserved', obs, log)
    if admissible(obs, log, d['expected']) is False:
        print(f"VIOLATION property=C10 replay={path}")
        return 1
    return 0

"""C08 - functions coerce arguments the Excel way, however the value is spelt."""
import itertools
import random

from harness import calls, pool, xl
from harness.agree import agrees, klass


def spell_value(a, tag):
    """abstract spelled value + tag -> concrete Python object"""
    L = xl.lib()
    t = a['t']
    if tag in ('int',):
        return int(a['n'])
    if tag == 'float':
        return a['n'] / a['d']
    if tag == 'numpy':
        import numpy
        return numpy.int64(a['n']) if a['d'] == 1 else numpy.float64(a['n'] / a['d'])
    if tag == 'wrapped':
        return L.ft.Number(a['n'] if a['d'] == 1 else a['n'] / a['d'])
    if tag == 'wfloat':
        return L.ft.Number(a['n'] / a['d'])
    if tag in ('text', 'scitext', 'badtext', 'oddtext', 'ltext', 'ptext', 'plustext'):
        return xl.text_of(a)
    if tag == 'wtext':
        return L.ft.Text(xl.text_of(a))
    if tag == 'bool':
        return a['v']
    if tag == 'wbool':
        return L.ft.Boolean(a['v'])
    if tag == 'blank':
        return None
    if tag == 'wblank':
        return L.ft.BLANK
    raise xl.MachineryError(tag)


def call_with(f, args, pos, tag):
    L = xl.lib()
    try:
        fn = L.xl.FUNCTIONS[calls.DIRECT_ALIAS.get(f, f)]
        pargs = [spell_value(a, tag) if i == pos - 1 else xl.from_abs(a, 'native') for i, a in enumerate(args)]
        return xl.to_abs(fn(*pargs))
    except BaseException as e:      # noqa
        if isinstance(e, (KeyboardInterrupt, SystemExit)):
            raise
        return xl.to_abs(e)


def formula_with(f, args, pos, via_cell, wrap=False):
    """the spelled argument as a literal, or in a referenced cell; wrap: the call stands in the chosen branch of an IF
    (XlLogic: IF(TRUE, x, y) = x and IF(FALSE, y, x) = x, whatever x is)"""
    cells = {}
    parts = []
    for i, a in enumerate(args):
        if i == pos - 1 and via_cell:
            addr = 'K77'
            if a['t'] == 'blank':
                cells['Sheet1!' + addr] = ('blank',)
            else:
                cells['Sheet1!' + addr] = ('value', xl.from_abs(a, 'native'))
            parts.append(addr)
        else:
            parts.append(xl.formula_literal(a, cells))
    if f.startswith('OP_'):
        p = [calls._paren(x) for x in parts]
        text = ('=-' + p[0]) if f == 'OP_NEG' else ('=' + p[0] + '%') if f == 'OP_PERCENT' else '=' + p[0] + calls.OPSYM[f] + p[1]
    else:
        text = '=' + f + '(' + ','.join(parts) + ')'
    if wrap:
        text = ('=IF(TRUE,' + text[1:] + ',0)') if pos % 2 else ('=IF(1>2,0,' + text[1:] + ')')
    try:
        model, ev = xl.build_model(cells, {'Sheet1!Z1': text})
        return xl.to_abs(ev.evaluate('Sheet1!Z1')), text
    except BaseException as e:      # noqa
        if isinstance(e, (KeyboardInterrupt, SystemExit)):
            raise
        return xl.to_abs(e), text


def noisy(a, spelling='native'):
    """a number that is not whole, a few ulps away: the double a computation such as 0.1+0.2 really yields; Excel (and the
    specification) takes it for the short decimal it displays as - the text form carries at most 15 significant digits"""
    import math
    L = xl.lib()
    x = math.nextafter(a['n'] / a['d'], math.inf)
    if spelling.endswith('numpy'):      # the scalar type numeric libraries (and some functions of this one) hand back
        import numpy
        x = numpy.float64(x)
    return L.ft.Number(x) if spelling.startswith('wrapped') else x


def noisy_results(f, args):
    """the case once more with every non-whole numeric argument replaced by its noisy double: direct, wrapped, and through cells"""
    L = xl.lib()
    res = []
    for sp in ('native', 'wrapped', 'numpy', 'wrapped-numpy'):
        try:
            fn = L.xl.FUNCTIONS[calls.DIRECT_ALIAS.get(f, f)]
            pargs = [noisy(a, sp) if a['t'] == 'num' and a['d'] != 1 else xl.from_abs(a, sp) for a in args]
            res.append(('noisy-' + sp, xl.to_abs(fn(*pargs))))
        except BaseException as e:      # noqa
            if isinstance(e, (KeyboardInterrupt, SystemExit)):
                raise
            res.append(('noisy-' + sp, xl.to_abs(e)))
    cells, parts = {}, []
    for i, a in enumerate(args):
        if a['t'] == 'num' and a['d'] != 1:
            addr = f'K{70 + i}'
            cells['Sheet1!' + addr] = ('value', noisy(a))
            parts.append(addr)
        else:
            parts.append(xl.formula_literal(a, cells))
    if f.startswith('OP_'):
        p = [calls._paren(x) for x in parts]
        text = ('=-' + p[0]) if f == 'OP_NEG' else ('=' + p[0] + '%') if f == 'OP_PERCENT' else '=' + p[0] + calls.OPSYM[f] + p[1]
    else:
        text = '=' + f + '(' + ','.join(parts) + ')'
    try:
        model, ev = xl.build_model(cells, {'Sheet1!Z1': text})
        res.append(('noisy-formula-cells', xl.to_abs(ev.evaluate('Sheet1!Z1'))))
    except BaseException as e:      # noqa
        if isinstance(e, (KeyboardInterrupt, SystemExit)):
            raise
        res.append(('noisy-formula-cells', xl.to_abs(e)))
    return res


def worker(blocks):
    out = {'n': 0, 'calls': 0, 'open': 0, 'dis': [], 'samples': [], 'kinds': {}, 'machinery': []}
    for b in blocks:
        st = pool.parse_block(b)
        case, exp = st['case'], st['res']
        kind, f, args, pos, tag = case['kind'], case['f'], case['args'], case['pos'], case['tag']
        out['n'] += 1
        out['kinds'][kind] = out['kinds'].get(kind, 0) + 1
        if exp['t'] == 'open':
            out['open'] += 1
            continue
        if kind in ('arith', 'text'):
            results = [('direct', calls.direct_call(f, args, 'native')), ('float', calls.direct_call(f, args, 'float')),
                       ('wrapped', calls.direct_call(f, args, 'wrapped'))]
            o, stored, text = calls.formula_call(f, args)
            if o is not None:
                results.append(('formula', o))
            if any(a['t'] == 'num' and a['d'] != 1 for a in args):
                results += noisy_results(f, args)
        else:
            if kind == 'spell':
                base = calls.direct_call(f, case['base'], 'native')
                if base['t'] in ('exc', 'err', 'other'):
                    out['machinery'].append(f'witness of {f} is not valid: {base}')
                    continue
                exp = base
            results = [('direct:' + tag, call_with(f, args, pos, tag))]
            if tag in ('int', 'float', 'text', 'scitext', 'bool', 'blank', 'badtext', 'oddtext', 'ltext', 'ptext', 'plustext') and f not in ('OP_POW', 'OP_CONCAT') or tag in ('int', 'text', 'bool', 'blank', 'badtext', 'ltext', 'ptext'):
                for via_cell in (False, True):
                    o, text = formula_with(f, args, pos, via_cell)
                    results.append((('formula-cell:' if via_cell else 'formula-literal:') + tag, o))
                o, text = formula_with(f, args, pos, True, wrap=True)
                results.append(('formula-cell-in-IF-branch:' + tag, o))
        for path, obs in results:
            out['calls'] += 1
            ok = agrees(obs, exp, rel=1e-9)
            if ok is False:
                out['dis'].append({'case': {k: case[k] for k in ('kind', 'f', 'args', 'pos', 'tag')}, 'exp': exp, 'obs': obs, 'path': path,
                                   'features': {'kind': kind, 'f': f, 'pos': pos, 'tag': tag, 'path': path.split(':')[0], 'exp': klass(exp), 'obs': klass(obs)}})
        if len(out['samples']) < 2:
            out['samples'].append({'case': {k: case[k] for k in ('kind', 'f', 'args', 'pos', 'tag')}, 'expected': exp, 'observed': results[0][1]})
    return out


def after_other_uses(blocks):
    """ONE fresh process: every text spelling of the run is first handed to parameters of OTHER kinds - the date parameters
    of DAYS / EDATE / ISOWEEKNUM / YEARFRAC / DATEDIF, a text parameter, a logical test - and only then used as the number
    it spells: what a value is taken for in one place must not stick to the text (a cache keyed by the text alone)"""
    L = xl.lib()
    F = L.xl.FUNCTIONS
    cases = []
    for b in blocks:
        st = pool.parse_block(b)
        c = st['case']
        if c['kind'] == 'spell' and c['tag'] in ('text', 'wtext', 'scitext', 'ltext', 'ptext', 'plustext'):
            cases.append(b)
    texts = set()
    for b in cases:
        c = pool.parse_block(b)['case']
        texts.add(xl.text_of(c['args'][c['pos'] - 1]))
    for t in sorted(texts):
        for mk in (lambda: F['DAYS'](t, 1), lambda: F['EDATE'](t, 0), lambda: F['ISOWEEKNUM'](t), lambda: F['YEARFRAC'](t, 1),
                   lambda: F['DATEDIF'](t, 2, 'D'), lambda: F['LEN'](t), lambda: F['IF'](L.ft.Expr(lambda: t), L.ft.Expr(lambda: 1), L.ft.Expr(lambda: 2)),
                   lambda: F['DAYS'](L.ft.Text(t), 1), lambda: F['OP_EQ'](L.ft.Text(t), True)):
            try:
                mk()
            except BaseException as e:      # noqa
                if isinstance(e, (KeyboardInterrupt, SystemExit)):
                    raise
    out = worker(cases)
    for d in out['dis']:
        d['path'] = 'after-date-and-text-use:' + d['path']
        d['features'] = dict(d['features'], after_other_uses=True)
    out['texts'] = len(texts)
    return out


# ----------------------------------------------------------------------------
# function names: case-insensitive, _xlfn. prefix ignored (relational: same result as the upper-case spelling)
# ----------------------------------------------------------------------------
def name_cases():
    from checks.sig_table import SIG
    out = []
    for f, kinds, args in SIG:
        if f.startswith('OP_') or any(a['t'] in ('arr', 'date') for a in args):
            continue
        for spelling in (f.lower(), f.capitalize(), '_xlfn.' + f, '_XLFN.' + f.lower(), '_xlfn.' + f.capitalize()):
            out.append((f, spelling, args))
    return out


def name_worker(items):
    out = []
    for f, spelling, args in items:
        cells = {}
        parts = [xl.formula_literal(a, cells) for a in args]
        res = []
        for name in (f, spelling):
            try:
                model, ev = xl.build_model(dict(cells), {'Sheet1!Z1': '=' + name + '(' + ','.join(parts) + ')'})
                res.append(xl.to_abs(ev.evaluate('Sheet1!Z1')))
            except BaseException as e:      # noqa
                if isinstance(e, (KeyboardInterrupt, SystemExit)):
                    raise
                res.append(xl.to_abs(e))
        if res[0]['t'] not in ('exc',) and agrees(res[1], res[0]) is False:
            out.append({'case': {'f': f, 'spelling': spelling, 'args': args}, 'exp': res[0], 'obs': res[1]})
    return out


# ----------------------------------------------------------------------------
# registry histories (XlRegistry)
# ----------------------------------------------------------------------------
_counter = itertools.count()


def registry_worker(blocks):
    L = xl.lib()
    out = {'n': 0, 'dis': [], 'samples': []}
    for b in blocks:
        st = pool.parse_block(b)
        hist = st['hist']
        if not any(h['op'] == 'call' for h in hist):
            continue
        out['n'] += 1
        uid = f'{next(_counter)}_{random.getrandbits(40):x}'
        real = {n: f'VF{uid}_{n}'.upper() for n in ('F', 'G')}
        evs = {}
        # every formula the history will evaluate is in the model from the start (compiling does not need the function)
        texts = {}
        cells = {'Sheet1!A1': 1}
        for i, h in enumerate(hist):
            if h['op'] == 'call':
                name = real[h['f']]
                inc = 1 if h['f'] == 'F' else 10
                ver = h['ver']          # the version current when the evaluator was created
                # ONE cell per function: every evaluator of the history evaluates the same formula of the shared model
                row = 1 if h['f'] == 'F' else 2
                texts[i] = [(f'Sheet1!Q{row}', f'={name.lower()}("1")', 1 + inc + 100 * ver),
                            (f'Sheet1!R{row}', f'=_xlfn.{name}(TRUE)+{name.capitalize()}(A1)', 2 + 2 * (inc + 100 * ver))]
                for addr, text, _ in texts[i]:
                    cells[addr] = text
        model = L.ModelCompiler().read_and_parse_dict(cells)
        for i, h in enumerate(hist):
            if h['op'] == 'register':
                name = real[h['f']]
                inc = 1 if h['f'] == 'F' else 10

                def make(inc):
                    @L.xl.register(name)
                    @L.xl.validate_args
                    def fn(number: L.ft.XlNumber) -> L.ft.XlNumber:
                        return number + inc
                    return fn
                make(inc + 100 * h['ver'])          # registering a name again replaces the function
            elif h['op'] == 'new':
                evs[h['e']] = L.Evaluator(model)
            else:
                ev = evs[h['e']]
                # lower-case name, numeric text argument, and the _xlfn. prefix: the same coercion rules as built-ins
                for addr, text, want in texts[i]:
                    try:
                        obs = xl.to_abs(ev.evaluate(addr))
                    except BaseException as e:      # noqa
                        if isinstance(e, (KeyboardInterrupt, SystemExit)):
                            raise
                        obs = xl.to_abs(e)
                    exp = h['res']
                    bad = None
                    if exp == 'value' and agrees(obs, {'t': 'num', 'n': want, 'd': 1}) is False:
                        bad = 'registered-before-not-callable'
                    elif exp == 'no-value' and obs['t'] in ('num', 'txt', 'bool'):
                        bad = 'unregistered-name-yields-value'
                    if bad:
                        out['dis'].append({'case': {'history': [[x['op'], x['f'], x['e']] for x in hist], 'step': i, 'formula': text},
                                           'exp': {'outcome': exp, 'value': want}, 'obs': obs, 'clause': bad})
        for n in real.values():
            L.xl.FUNCTIONS.pop(n, None)
        if len(out['samples']) < 1:
            out['samples'].append({'registry_history': [[x['op'], x['f'], x['e'], x['res']] for x in hist]})
    return out


def long_chain_events():
    """a & b & c ... and a + b + c ... over hundreds of referenced cells of every scalar type: operators have no limit on the
    length of a chain (the FUNCTIONS CONCAT / SUM stop at 254 / 255 arguments; an operator chain is no call of them)"""
    return [{'op': op, 'n': n, 'mix': mix} for op in ('&', '+', '*') for n in (3, 200, 254, 255, 256, 300) for mix in (0, 1)]


def record_long_chain(chunk):
    from harness import syntax as S
    L = xl.lib()
    out = []
    for e in chunk:
        n, op = e['n'], e['op']
        vals = []
        for i in range(n):
            k = (i * 7 + e['mix']) % 9
            if op == '&':
                vals.append([i % 10, 'ab', True, 2.5, None, 'x', 7, False, '1e1'][k])
            elif op == '+':
                vals.append([i % 10, '3', True, 2.5, None, 1, 7, False, '10'][k])
            else:
                vals.append([1, '1', True, 1, None if i == 9999 else 1, 1, 2 if i < 20 else 1, True, '1'][k])
        d = {f'Sheet1!A{i + 1}': v for i, v in enumerate(vals) if v is not None}
        d['Sheet1!C1'] = '=' + op.join(f'A{i + 1}' for i in range(n))
        ast = {'k': 'chainl', 'op': op, 'xs': [S.ref(1, i + 1) for i in range(n)]}      # (folded to the left by Trace_Local)
        try:
            res = xl.to_abs(L.Evaluator(L.ModelCompiler().read_and_parse_dict(d)).evaluate('Sheet1!C1'))
        except BaseException as ex:      # noqa
            if isinstance(ex, (KeyboardInterrupt, SystemExit)):
                raise
            res = {'t': 'exc', 'cls': type(ex).__name__}
        out.append({'ast': ast, 'sheet': 'Sheet1', 'names': [], 'res': res, 'addr': 'Sheet1!C1', 'text': f'=A1{op}A2{op}...{op}A{n}',
                    'cells': [{'sheet': 'Sheet1', 'col': 1, 'row': i + 1, 'v': xl.to_abs(v)} for i, v in enumerate(vals) if v is not None]})
    return out


BUG_MODELS = {}


def run(run):
    r = run.tlc('MC_C08', 'C08_quick.cfg' if run.tier == 'quick' else 'C08_thorough.cfg', dump=True, timeout=900)
    blocks = pool.dump_blocks(r.dump, skip_substr='"pending"')
    kinds = {}
    # the text-argument cases run in ONE process, twice and in both orders: spellings that are equal as Python values
    # (1, 1.0, True / 0, 0.0, False) must not influence each other through any per-process state
    text_blocks = [b for b in blocks if 'kind |-> "text"' in b]
    blocks = [b for b in blocks if 'kind |-> "text"' not in b]
    text_results = pool.pmap(worker, text_blocks + text_blocks[::-1], nchunks=1, procs=1) if text_blocks else []
    for res in list(pool.pmap(worker, blocks)) + list(text_results):
        if res['machinery']:
            raise xl.MachineryError(res['machinery'][0])
        run.evaluations += res['calls']
        run.undetermined += res['open']
        run.traces += res['n'] - res['open']
        run.nontrivial_count += res['n'] - res['open']
        for k, v in res['kinds'].items():
            kinds[k] = kinds.get(k, 0) + v
        for s in res['samples']:
            run.sample(s)
        for d in res['dis']:
            run.disagree('call', d['case'], d['exp'], d['obs'], d['features'], clause=d['path'])
    run.notes['cases_by_kind'] = kinds
    # the text spellings again, after the same texts were handed to date / text / logical parameters in the same process
    res = pool.pmap_fresh(after_other_uses, [blocks])[0]
    run.evaluations += res['calls']
    run.notes['texts_used_elsewhere_first'] = res['texts']
    for d in res['dis']:
        run.disagree('call', d['case'], d['exp'], d['obs'], d['features'], clause=d['path'])
    # operator chains longer than any function takes arguments
    from harness import evalrec
    lc = [e for part in pool.pmap(record_long_chain, long_chain_events(), nchunks=12) for e in part]
    lv = evalrec.validate(run, lc, name='longchain', kind='long-operator-chain')
    run.evaluations += len(lc)
    run.notes['long_chain_events'] = dict(lv)
    if sum(n for k, n in lv.items() if k != 'open') < len(lc) * 2 // 3:
        raise xl.MachineryError(f'long operator chains: too few judged ({dict(lv)})')
    # function-name matching
    ncases = name_cases()
    for part in pool.pmap(name_worker, ncases):
        for d in part:
            run.disagree('name', d['case'], d['exp'], d['obs'], {'f': d['case']['f'], 'spelling_class': d['case']['spelling'][:6]}, clause='function-name-spelling')
    run.evaluations += 2 * len(ncases)
    run.traces += len(ncases)
    run.notes['name_spelling_cases'] = len(ncases)
    # registry histories
    rr = run.tlc('XlRegistry', 'C08_registry.cfg', dump=True, timeout=600)
    rb = run.tlc('XlRegistry', 'C08_bad_registry_per_node.cfg', expect_violation=True, timeout=300)
    if rb.violated != 'CallUsesOwnTable':
        raise xl.MachineryError(f'design variant per-node binding was not rejected by TLC (CallUsesOwnTable): {rb.violated}')
    run.laws['variant C08_bad_registry_per_node.cfg rejected'] = rb.violated
    # SnapshotInv of the core the registry machine refines is inductive: histories of ANY length (Apalache)
    run.apalache('MC_RegistryApa', 'ConstInit', 'Init', 'SnapshotInv', 0)
    run.apalache('MC_RegistryApa', 'ConstInit', 'IndInit', 'SnapshotInv', 1)
    run.apalache('MC_RegistryApa', 'ConstInit', 'WeakInit', 'BoundInv', 1, expect_violation=True)
    run.laws['non-inductive candidate BoundInv refuted (Apalache)'] = 'bound[f] <= registry[f] alone is not inductive'

    rblocks = pool.dump_blocks(rr.dump)
    nreg = 0
    for res in pool.pmap(registry_worker, rblocks, procs=4):
        nreg += res['n']
        for s in res['samples']:
            run.sample(s)
        for d in res['dis']:
            run.disagree('registry', d['case'], d['exp'], d['obs'], {'clause': d['clause']}, clause=d['clause'])
    run.traces += nreg
    run.evaluations += nreg
    run.notes['registry_histories'] = nreg
    run.rule = ('every witness of XlSig (+ witnesses with values 0 and 1) x every numeric parameter position x 12 spellings (int, float, '
                'numpy scalar, Number object, decimal text, scientific text, Text object, boolean / Boolean for 0 and 1, None / BLANK for '
                '0): result compared with the native-spelling result, through direct calls and formulas with the argument as a literal '
                'and in a referenced cell; non-numeric text in every numeric position => #VALUE!; the 11x11 scalar matrix x arithmetic '
                'operators and &; numbers/booleans as text arguments; every non-operator witness under 5 function-name spellings; all '
                'registry histories of length <= 6 over 2 functions and 2 evaluators sharing one model (one formula cell per function)')
    run.exhaustive = True


def replay(path):
    import json
    d = json.load(open(path))
    c = d['case']
    if d['kind'] == 'call' and 'tag' in c and c['kind'] in ('spell', 'bad', 'odd'):
        obs = call_with(c['f'], c['args'], c['pos'], c['tag'])
        print('case', c, '\nexpected', d['expected'], '\nobserved', obs)
        if agrees(obs, d['expected']) is False:
            print(f"VIOLATION property=C08 replay={path}")
            return 1
        return 0
    if d['kind'] == 'call':
        return calls.replay_file(path)
    print(json.dumps(d, indent=1)[:2000])
    return 1

"""The tokenizer machine (spec/XlTokenizer.tla) bound to xlcalculator/tokenizer.py - part of C02.

spec -> code: TLC runs the machine on every string of a bounded alphabet (malformed text included) and on every
              well-formed formula of MC_C02 (where it also proves the machine refines the syntax specification); each
              finished / failed state is replayed: ExcelParser().getTokens(text) must return the machine's token list,
              or raise where the machine fails.
code -> spec: tokenizations recorded from the library (every formula of the fixture workbooks as the reader hands it
              to the tokenizer, generated formulas, and mutilated versions of both) are validated by Trace_Tokens, which
              reuses the machine's actions one character at a time.
"""
import glob
import json
import os
import random

from harness import pool, xl
from harness.tlaval import parse_value  # noqa: F401  (kept for replay tooling)

RAW_ALPHABETS = {
    # numbers, percent, scientific notation, unary signs
    'num': [49, 46, 69, 43, 45, 37, 65, 32],
    # calls, parentheses, argument separators, @
    'call': [65, 49, 40, 41, 44, 32, 45, 64],
    # string / path / bracket modes
    'quote': [34, 39, 65, 33, 38, 32, 91, 93],
    # comparators and operators
    'cmp': [60, 62, 61, 49, 65, 43, 32, 38],
    # array constants
    'array': [123, 125, 59, 44, 49, 65, 40, 41],
    # error literals
    'error': [35, 78, 47, 65, 43],
}


def write_cfg(spec_dir, name, alphabets, maxlen):
    path = os.path.join(spec_dir, 'cfg', name)
    sets = ', '.join('{' + ', '.join(map(str, a)) + '}' for a in alphabets)
    with open(path, 'w') as fh:
        fh.write('SPECIFICATION Spec\nCONSTANTS\n  Families = {"raw"}\n  StrLen = 1\n'
                 f'  Alphabets = {{{sets}}}\n  MaxLen = {maxlen}\n'
                 'INVARIANT StackIsOpenStarts\nINVARIANT StopsMatchStarts\nINVARIANT FinalShape\nINVARIANT PrefixPlacement\n'
                 'PROPERTY ProgressM\nCHECK_DEADLOCK FALSE\n')
    return name


def final_blocks(path):
    """stream a TLC dump, keep the blocks of finished / failed machine states"""
    out, cur = [], []
    with open(path, encoding='utf-8') as fh:
        for line in fh:
            if line.startswith('State ') and line.rstrip().endswith(':'):
                if cur:
                    b = ''.join(cur)
                    if 'phase = "done"' in b or 'phase = "fail"' in b:
                        out.append(b)
                cur = []
            else:
                cur.append(line)
    if cur:
        b = ''.join(cur)
        if 'phase = "done"' in b or 'phase = "fail"' in b:
            out.append(b)
    return out


def tok_value(v):
    if isinstance(v, str):
        return {'t': 'txt', 'v': [ord(c) for c in v]}
    a = xl.to_abs(v)
    if a.get('t') == 'num' and (abs(a['n']) >= 2 ** 31 or a['d'] >= 2 ** 31):
        return {'t': 'float', 'v': repr(v)}
    return a


def tokens_of(text):
    L = xl.lib()
    try:
        items = L.tokenizer.ExcelParser().getTokens(text).items
    except Exception as e:       # noqa: BLE001 - the class is the observation
        return {'exc': type(e).__name__, 'toks': []}
    return {'exc': '', 'toks': [{'v': tok_value(t.tvalue), 'ty': str(t.ttype), 'sub': str(t.tsubtype)} for t in items]}


def same_value(rec, mine):
    if mine.get('t') == 'open':
        return True
    if mine.get('t') == 'num' and rec.get('t') == 'num':
        return rec['n'] * mine['d'] == mine['n'] * rec['d']
    return rec == mine


def compare(obs, st):
    """observed {'exc','toks'} against a finished machine state -> None or (clause, detail)"""
    if st['phase'] == 'fail':
        return None if obs['exc'] == 'IndexError' else ('machine-fails-code-does-not', obs['exc'] or 'returned')
    if obs['exc']:
        return ('python-exception', obs['exc'])
    exp = st['out']
    if len(exp) != len(obs['toks']):
        return ('token-count', f"{len(obs['toks'])} for {len(exp)}")
    for i, (o, e) in enumerate(zip(obs['toks'], exp)):
        if o['ty'] != e['ty'] or o['sub'] != e['sub'] or not same_value(o['v'], e['v']):
            return ('token-differs', f'token {i}')
    return None


def show_tokens(toks):
    out = []
    for t in toks:
        v = t['v']
        s = ''.join(map(chr, v['v'])) if v.get('t') == 'txt' else (f"{v['n']}/{v['d']}" if v.get('t') == 'num' else str(v))
        out.append(f"{s}|{t['ty']}|{t['sub']}")
    return out


def replay_worker(blocks):
    res = {'n': 0, 'open': 0, 'fail': 0, 'dis': [], 'samples': []}
    for b in blocks:
        st = pool.parse_block(b)
        text = ''.join(map(chr, st['src']))
        res['n'] += 1
        if st['und']:
            res['open'] += 1
            continue
        if st['phase'] == 'fail':
            res['fail'] += 1
        obs = tokens_of(text)
        bad = compare(obs, st)
        if len(res['samples']) < 1 and st['phase'] == 'done' and len(st['out']) > 2:
            res['samples'].append({'tokenizer_text': text, 'machine_tokens': show_tokens(st['out'])})
        if bad:
            res['dis'].append({'case': {'formula': text, 'family': st['case']['kind']},
                               'exp': ['fail:IndexError'] if st['phase'] == 'fail' else show_tokens(st['out']),
                               'obs': obs['exc'] or show_tokens(obs['toks']),
                               'features': {'clause': bad[0], 'family': st['case']['kind']}})
    return res


def spec_to_code(run, quick):
    from harness.core import SPEC
    stats = {}
    cfgs = [('ast', 'Tok_ast.cfg' if not quick else 'Tok_ast_quick.cfg')]
    cfgs.append(('raw', 'Tok_raw_quick.cfg' if quick else 'Tok_raw_thorough.cfg'))
    for name, cfg in cfgs:
        r = run.tlc('MC_Tok', cfg, dump=True, timeout=2400, name='tok-' + name)
        blocks = final_blocks(r.dump)
        os.remove(r.dump)
        n = nopen = nfail = 0
        for res in pool.pmap(replay_worker, blocks):
            n += res['n']
            nopen += res['open']
            nfail += res['fail']
            for s in res['samples'][:1]:
                run.sample(s)
            for d in res['dis']:
                run.disagree('tokenize', d['case'], d['exp'], d['obs'], d['features'], clause=d['features']['clause'])
        run.evaluations += n - nopen
        run.traces += n - nopen
        run.nontrivial_count += n - nopen
        run.undetermined += nopen
        stats[name] = {'texts': n, 'undetermined': nopen, 'machine_fails': nfail, 'states': r.distinct}
        if n == 0:
            raise xl.MachineryError(f'MC_Tok/{cfg}: no finished machine state in the dump')
    run.notes['tokenizer_machine'] = stats


# ------------------------------------------------------------------ code -> spec
def fixture_formulas():
    L = xl.lib()
    res = os.path.join(xl.REPO, 'tests', 'resources')
    out = []
    for path in sorted(glob.glob(os.path.join(res, '*.xlsx')) + glob.glob(os.path.join(res, '*.xlsm'))):
        try:
            model = L.ModelCompiler().read_and_parse_archive(path, build_code=False)
        except Exception:        # noqa: BLE001 - C11 judges the reader; here the files are only a source of formula texts
            continue
        for addr, cell in model.cells.items():
            if cell.formula is not None and isinstance(cell.formula.formula, str):
                out.append(cell.formula.formula)
    return out


MUT_CHARS = '()",\'%+-<>= {};#!:[]@1AE.&'


def mutilate(rng, text):
    if not text:
        return text
    i = rng.randrange(len(text))
    r = rng.random()
    if r < 0.4:
        return text[:i] + text[i + 1:]
    if r < 0.8:
        return text[:i] + rng.choice(MUT_CHARS) + text[i:]
    return text[:i] + rng.choice(MUT_CHARS) + text[i + 1:]


def record(texts):
    out = []
    for t in texts:
        o = tokens_of(t)
        out.append({'text': [ord(c) for c in t], 'toks': o['toks'], 'exc': o['exc']})
    return out


def code_to_spec(run, quick):
    from checks import c02
    rng = random.Random(run.seed * 7919 + 11)
    fixtures = sorted(set(fixture_formulas()))
    gen = [''.join(map(chr, e['text'])) for e in c02.driver(run.seed + 101, 400 if quick else 6000)]
    if quick and len(fixtures) > 600:
        fixtures = rng.sample(fixtures, 600)
    texts = [t for t in fixtures + gen if len(t) <= 400 and all(ord(c) < 2 ** 31 for c in t)]
    texts += [mutilate(rng, t) for t in texts]
    recorded = [e for part in pool.pmap(record, texts) for e in part]
    run.evaluations += len(recorded)
    judged = validate(run, recorded)
    run.notes['tokenizer_trace'] = {'events': len(recorded), 'fixture_formulas': len(fixtures), 'generated': len(gen),
                                    'ok': sum(1 for v in judged if v == 'ok'), 'open': sum(1 for v in judged if v == 'open'),
                                    'code_raises_as_machine_fails': sum(1 for e in recorded if e['exc'] == 'IndexError')}


def validate(run, events, batch=1500):
    verdicts = []
    for bi in range(0, len(events), batch):
        chunk = events[bi:bi + batch]
        path = os.path.join(run.work, f'toktrace-{bi}.ndjson')
        with open(path, 'w') as fh:
            for e in chunk:
                fh.write(json.dumps(e, separators=(',', ':')) + '\n')
        r = run.tlc('Trace_Tokens', 'Trace_Tokens.cfg', dump=True, workers=1, timeout=1800, env={'TRACE_FILE': path},
                    name=f'toktrace-{bi}')
        got = {}
        cur = []

        def flush():
            if cur:
                b = ''.join(cur)
                if 'busy = FALSE' in b:
                    st = pool.parse_block(b)
                    got[st['l']] = (st['verdict'], st['exp'])
        with open(r.dump, encoding='utf-8') as fh:
            for line in fh:
                if line.startswith('State ') and line.rstrip().endswith(':'):
                    flush()
                    cur = []
                else:
                    cur.append(line)
        flush()
        os.remove(path)
        os.remove(r.dump)
        if set(got) != set(range(len(chunk) + 1)):
            raise xl.MachineryError(f'Trace_Tokens: {len(got) - 1} events judged of {len(chunk)}')
        for i, e in enumerate(chunk, 1):
            v, x = got[i]
            verdicts.append(v)
            run.traces += 1
            if v == 'open':
                run.undetermined += 1
            elif v == 'ok':
                run.nontrivial_count += 1
            else:
                text = ''.join(map(chr, e['text']))
                run.disagree('trace-tokenize', {'formula': text}, x if x == ['fail'] else show_tokens(x),
                             e['exc'] or show_tokens(e['toks']), {'clause': v}, clause=v)
    return verdicts


def run_all(run, quick):
    spec_to_code(run, quick)
    code_to_spec(run, quick)

"""C09 - comparison operators implement one total order on values."""
import random

from harness import calls, pool, trace, xl


def py_native(a):
    return xl.from_abs(a, 'native')


def bug_native_eq(d):
    """OP_EQ / OP_NE on NATIVE Python operands use Python's == (pinned by tests/xlfunctions/test_operator.py:
    OP_EQ(True, 1) is True): covered only when the observed result is exactly Python's native (in)equality."""
    c = d['case']
    path = d.get('clause') if d['kind'] == 'call' else c.get('path')
    if path != 'direct' or c['f'] not in ('OP_EQ', 'OP_NE') or d['observed'].get('t') != 'bool':
        return False
    try:
        x, y = py_native(c['args'][0]), py_native(c['args'][1])
        eq = bool(x == y)
    except Exception:
        return False
    return d['observed']['v'] == (eq if c['f'] == 'OP_EQ' else not eq)


BUG_MODELS = {'native_eq_python_semantics': bug_native_eq}

ALPHA = 'aAbB1 0é'


def rvalue(rng):
    r = rng.random()
    if r < 0.3:
        return {'t': 'num', 'n': rng.randint(-50, 50), 'd': 1}
    if r < 0.45:
        from fractions import Fraction
        fr = Fraction(rng.choice([-7, -1, 1, 3, 5, 9]), rng.choice([2, 4, 5, 8]))
        return {'t': 'num', 'n': fr.numerator, 'd': fr.denominator}
    if r < 0.8:
        base = ''.join(rng.choice(ALPHA) for _ in range(rng.choice([0, 1, 2, 3, 5])))
        if rng.random() < 0.3:
            base = base.swapcase()
        return {'t': 'txt', 'v': [ord(c) for c in base]}
    if r < 0.9:
        return {'t': 'bool', 'v': rng.random() < 0.5}
    if r < 0.95:
        return {'t': 'date', 's': rng.choice([61, 1000, 36526, 44000, 44001]), 'fn': 0, 'fd': 1}
    return {'t': 'blank'}


def driver(seed, n):
    rng = random.Random(seed * 31 + 9)
    evs = []
    ops = ['OP_EQ', 'OP_NE', 'OP_LT', 'OP_GT', 'OP_LE', 'OP_GE']
    for i in range(n):
        a = rvalue(rng)
        b = rvalue(rng) if rng.random() < 0.8 else dict(a)
        if b['t'] == 'txt' and a['t'] == 'txt' and rng.random() < 0.3:      # common prefixes / case variants
            b = {'t': 'txt', 'v': a['v'][:rng.randint(0, len(a['v']))] + b['v'][:1]}
        evs.append({'f': rng.choice(ops), 'args': [a, b], 'path': ['formula', 'wrapped', 'direct'][i % 3]})
    return evs


def record(chunk):
    out = []
    for e in chunk:
        if e['path'] == 'formula':
            res, stored, text = calls.formula_call(e['f'], e['args'])
        else:
            res = calls.direct_call(e['f'], e['args'], 'native' if e['path'] == 'direct' else 'wrapped')
        out.append(dict(e, res=res))
    return out


def run(run):
    r = run.tlc('MC_C09', 'C09_quick.cfg' if run.tier == 'quick' else 'C09_thorough.cfg', dump=True, timeout=900)
    blocks = [b for b in pool.dump_blocks(r.dump, skip_substr='"pending"') if 'third |-> [t |-> "blank"]' in b]
    rp = calls.Replayer(paths=('direct', 'wrapped', 'formula'))
    run.notes['cases_by_operator'] = calls.replay_dump(run, blocks, rp)
    events = driver(run.seed, 4000 if run.tier == 'quick' else 60000)
    recorded = [e for part in pool.pmap(record, events) for e in part]
    run.evaluations += len(recorded)
    trace.validate(run, recorded, features=lambda e, x, v: {'f': e['f'], 'path': e['path'], 'verdict': v,
                                                           'types': [e['args'][0]['t'], e['args'][1]['t']]})
    run.notes['trace_events'] = len(recorded)
    run.rule = ('all ordered pairs of 24 values (ints, fractions, negative, zero, dates with and without time, texts: empty, numeric-looking, '
                'case variants, prefixes, "true"/"FALSE", blank-only, non-ASCII; booleans; blank) x 6 operators, through native, wrapped and '
                'formula (=X op Y over literals / cells) paths; all 24^3 triples for transitivity on the spec; seeded random pairs validated by TLC')
    run.exhaustive = True


def replay(path):
    return calls.replay_file(path)

"""C09 - comparison operators implement one total order on values."""
import random

from harness import calls, pool, trace, xl


def py_native(a):
    return xl.from_abs(a, 'native')


def bug_native_eq(d):
    """OP_EQ / OP_NE on NATIVE Python operands use Python's == (pinned by tests/xlfunctions/test_operator.py:
    OP_EQ(True, 1) is True): covered only when the observed result is exactly Python's native (in)equality."""
    c = d['case']
    if not ({'direct', 'numpy'} & {d.get('clause'), c.get('path')}) or c['f'] not in ('OP_EQ', 'OP_NE') or d['observed'].get('t') != 'bool':
        return False
    try:
        x, y = py_native(c['args'][0]), py_native(c['args'][1])
        eq = bool(x == y)
    except Exception:
        return False
    return d['observed']['v'] == (eq if c['f'] == 'OP_EQ' else not eq)


BUG_MODELS = {'native_eq_python_semantics': bug_native_eq}

ALPHA = 'aAbB1 0é'


def rvalue(rng):
    r = rng.random()
    if r < 0.3:
        return {'t': 'num', 'n': rng.randint(-50, 50), 'd': 1}
    if r < 0.45:
        from fractions import Fraction
        fr = Fraction(rng.choice([-7, -1, 1, 3, 5, 9]), rng.choice([2, 4, 5, 8]))
        return {'t': 'num', 'n': fr.numerator, 'd': fr.denominator}
    if r < 0.8:
        base = ''.join(rng.choice(ALPHA) for _ in range(rng.choice([0, 1, 2, 3, 5])))
        if rng.random() < 0.3:
            base = base.swapcase()
        return {'t': 'txt', 'v': [ord(c) for c in base]}
    if r < 0.9:
        return {'t': 'bool', 'v': rng.random() < 0.5}
    if r < 0.95:
        return {'t': 'date', 's': rng.choice([61, 1000, 36526, 44000, 44001]), 'fn': 0, 'fd': 1}
    return {'t': 'blank'}


def driver(seed, n):
    rng = random.Random(seed * 31 + 9)
    evs = []
    ops = ['OP_EQ', 'OP_NE', 'OP_LT', 'OP_GT', 'OP_LE', 'OP_GE']
    for i in range(n):
        a = rvalue(rng)
        b = rvalue(rng) if rng.random() < 0.8 else dict(a)
        if b['t'] == 'txt' and a['t'] == 'txt' and rng.random() < 0.3:      # common prefixes / case variants
            b = {'t': 'txt', 'v': a['v'][:rng.randint(0, len(a['v']))] + b['v'][:1]}
        evs.append({'f': rng.choice(ops), 'args': [a, b], 'path': ['formula', 'wrapped', 'direct'][i % 3]})
    return evs


def record(chunk):
    out = []
    for e in chunk:
        if e['path'] == 'formula':
            res, stored, text = calls.formula_call(e['f'], e['args'])
        else:
            res = calls.direct_call(e['f'], e['args'], 'native' if e['path'] == 'direct' else 'wrapped')
        out.append(dict(e, res=res))
    return out


def law_values(rng, n):
    """python values for the law trace: doubles that differ in the last places, texts with characters between the
    upper- and lower-case letters, ordinary numbers / texts / booleans"""
    base = [0.1 + 0.2, 0.3, 1.0000000000000002, 1.0, 1 / 3, 0.333333333333333, 0.3333333333333333, 1e15 + 1, 1e15, 2 ** 53 + 2.0, 2.0 ** 53,
            -0.1 - 0.2, -0.3, 100 * 1.1, 110.00000000000001, 110,
            'a', 'A', '_', 'a_', 'aB', 'total_2020', 'totals', 'x^2', 'x2', 'X2', '[', ']', '`', '\\', 'Z', 'z', 'x_y', 'xy', '', ' ',
            True, False, 0, 1, -1, 0.5]
    out = list(base)
    chars = 'aAbBzZ_^[]`\\09 '
    for _ in range(n):
        r = rng.random()
        if r < 0.5:
            out.append(''.join(rng.choice(chars) for _ in range(rng.randint(1, 4))))
        elif r < 0.8:
            x = rng.choice([0.1, 0.7, 1.1, 2.3, 1 / 3, 1e-8, 123456.789])
            out.append(x * rng.randint(1, 9) / rng.randint(1, 9) if rng.random() < 0.5 else x + rng.choice([0.2, 1e-16, 2e-16, 0.6]))
        else:
            out.append(rng.randint(-3, 3))
    return out


def kind_of(v):
    import datetime
    if isinstance(v, bool):
        return 'bool'
    if isinstance(v, (int, float, datetime.datetime)):
        return 'num'
    return 'txt' if v != '' else 'other'      # (an empty text read from a cell is how the library spells an empty cell)


def special_values():
    """values the random draw would hardly ever pair up: texts beyond a cell's 32767 characters that agree on a long prefix,
    texts that look like ISO dates next to real dates and the numbers around their serials"""
    import datetime
    long_ = 'a' * 32767
    return [long_, long_ + 'b', long_ + 'c', 'A' * 32767 + 'B', 'a' * 32766, 'a' * 40000,
            '2021-06-01', '2020-02-29', '1999-12-31', '2021-6-1',
            datetime.datetime(2022, 1, 1), datetime.datetime(2021, 6, 1), datetime.datetime(2000, 1, 1), datetime.datetime(2021, 6, 1, 12, 0),
            44348, 44348.5, 44562, 50000, 36525, 0, True, False, 'abc',
            'Straße', 'STRASSE', 'ß', 'SS', 'ss', 'ﬁn', 'FIN', 'İ', 'i̇']      # case mappings that change the length of a text


def short_repr(v):
    r = repr(v)
    return r if len(r) <= 60 else r[:40] + f'...<{len(r)} chars>...' + r[-12:]


def law_worker(items):
    L = xl.lib()
    F = L.xl.FUNCTIONS
    out = []

    def tv(op, x, y, via):
        if via == 'wrapped':
            x, y = L.ft.ExcelType.cast_from_native(x), L.ft.ExcelType.cast_from_native(y)
            r = F[op](x, y)
        else:
            cells = {'Sheet1!A1': x, 'Sheet1!B1': y}
            m = L.ModelCompiler().read_and_parse_dict({'Sheet1!A1': 0, 'Sheet1!B1': 0, 'Sheet1!C1': '=A1' + calls.OPSYM[op] + 'B1'})
            ev = L.Evaluator(m)
            for a, v in cells.items():
                ev.set_cell_value(a, v)
            r = ev.evaluate('Sheet1!C1')
        a = xl.to_abs(r)
        if a['t'] != 'bool':
            raise ValueError(f'{op}({x!r},{y!r}) -> {a}')
        return a['v']
    for kind, vals, via in items:
        try:
            if kind == 'pair':
                a, b = vals
                e = {'kind': 'pair', 'via': via, 'a': short_repr(a), 'b': short_repr(b), 'ka': kind_of(a), 'kb': kind_of(b),
                     'lt': tv('OP_LT', a, b, via), 'eq': tv('OP_EQ', a, b, via), 'gt': tv('OP_GT', a, b, via),
                     'le': tv('OP_LE', a, b, via), 'ge': tv('OP_GE', a, b, via), 'ne': tv('OP_NE', a, b, via),
                     'rgt': tv('OP_GT', b, a, via), 'rlt': tv('OP_LT', b, a, via), 'req': tv('OP_EQ', b, a, via)}
            else:
                a, b, c = vals
                e = {'kind': 'triple', 'via': via, 'a': short_repr(a), 'b': short_repr(b), 'c': short_repr(c),
                     'ab': tv('OP_LT', a, b, via), 'bc': tv('OP_LT', b, c, via), 'ac': tv('OP_LT', a, c, via)}
        except BaseException as ex:      # noqa
            if isinstance(ex, (KeyboardInterrupt, SystemExit)):
                raise
            e = {'kind': 'pair', 'via': via, 'a': short_repr(vals[0]), 'b': short_repr(vals[1]), 'lt': False, 'eq': False, 'gt': False,
                 'le': False, 'ge': False, 'ne': False, 'rgt': False, 'rlt': False, 'req': False, 'exc': str(ex)[:120]}
        out.append(e)
    return out


def law_trace(run, npairs, ntriples):
    """the order laws re-checked by TLC on the OBSERVED truth table, with no order assumed for the operands"""
    rng = random.Random(run.seed * 101 + 9)
    vals = law_values(rng, 60)
    items = []
    for i in range(npairs):
        a = rng.choice(vals)
        b = rng.choice(vals[:16] if isinstance(a, float) and rng.random() < 0.7 else vals)
        items.append(('pair', (a, b), 'wrapped' if i % 2 else 'formula'))
    for i in range(ntriples):
        pool_ = [v for v in vals if isinstance(v, str)] if rng.random() < 0.5 else [v for v in vals if isinstance(v, (int, float)) and not isinstance(v, bool)]
        items.append(('triple', (rng.choice(pool_), rng.choice(pool_), rng.choice(pool_)), 'wrapped'))
    # every ordered pair of the special values, both ways of calling; triples mixing texts, dates and numbers
    sp = special_values()
    for i, a in enumerate(sp):
        for j, b in enumerate(sp):
            items.append(('pair', (a, b), 'wrapped' if (i + j) % 2 else 'formula'))
    mixed = sp[6:] + [v for v in vals if isinstance(v, str)][:6]
    for i in range(ntriples // 3):
        items.append(('triple', (rng.choice(mixed), rng.choice(mixed), rng.choice(mixed)), 'wrapped'))
    import datetime
    timed = [datetime.datetime(2021, 6, 1), datetime.datetime(2021, 6, 1, 12, 0), datetime.datetime(2021, 6, 2), datetime.datetime(2021, 6, 1, 6, 0),
             44348, 44348.5, 44349, 44348.25]
    for a in timed:
        for b in timed:
            for c in timed:
                items.append(('triple', (a, b, c), 'wrapped'))
    events = [e for part in pool.pmap(law_worker, items) for e in part]
    run.evaluations += 9 * len(events)
    trace.validate(run, events, module='Trace_C09Laws', kind='law', name='laws',
                   features=lambda e, x, v: {'law': v, 'via': e.get('via'), 'types': [e['a'][:1] in '\'"', e['b'][:1] in '\'"']})
    run.notes['law_trace_events'] = len(events)


def run(run):
    r = run.tlc('MC_C09', 'C09_quick.cfg' if run.tier == 'quick' else 'C09_thorough.cfg', dump=True, timeout=900)
    blocks = [b for b in pool.dump_blocks(r.dump, skip_substr='"pending"') if 'third |-> [t |-> "blank"]' in b]
    rp = calls.Replayer(paths=('direct', 'wrapped', 'formula'))
    run.notes['cases_by_operator'] = calls.replay_dump(run, blocks, rp)
    # the same calls in four orders, each order in ONE fresh process (state left behind by earlier calls)
    calls.replay_orders(run, blocks, calls.Replayer(paths=('direct', 'wrapped')), key=lambda b: len(b), sample=20000)
    events = driver(run.seed, 4000 if run.tier == 'quick' else 60000)
    recorded = [e for part in pool.pmap(record, events) for e in part]
    run.evaluations += len(recorded)
    trace.validate(run, recorded, features=lambda e, x, v: {'f': e['f'], 'path': e['path'], 'verdict': v,
                                                           'types': [e['args'][0]['t'], e['args'][1]['t']]})
    run.notes['trace_events'] = len(recorded)
    law_trace(run, 3000 if run.tier == 'quick' else 30000, 1500 if run.tier == 'quick' else 15000)
    run.rule = ('all ordered pairs of 24 values (ints, fractions, negative, zero, dates with and without time, texts: empty, numeric-looking, '
                'case variants, prefixes, "true"/"FALSE", blank-only, non-ASCII; booleans; blank) x 6 operators, through native, wrapped and '
                'formula (=X op Y over literals / cells) paths; all 24^3 triples for transitivity on the spec; seeded random pairs validated by TLC')
    run.exhaustive = True


def replay(path):
    return calls.replay_file(path)

"""C16 - math and rounding functions agree with exact / IEEE reference values.

Numbers travel as decimals {'t': 'dec', 'neg', 'dg': [digits], 'e'} (value = +/- dg * 10^e, the shortest
decimal representation of the double).  The specification (spec/XlMath.tla) computes the exact half on
digit sequences and fixes domain / reference expression / anchor points of the analytic half; this module
owns the binding: building the doubles, projecting results, the ulp distance to the reference expression
named by the spec (Python's math is the numeric oracle, see DESIGN C16) and the seeded driver.
"""
import decimal
import json
import math
import multiprocessing
import os
import random
import resource
import signal
import struct
from fractions import Fraction

from harness import pool, trace, xl
from harness.pool import parse_block
from harness.xl import MachineryError

ULPS = 4
os.environ.setdefault('JAVA_TOOL_OPTIONS', '-Xss64m')      # FACT(170): deep recursion on 300-digit sequences


# --------------------------------------------------------------------------- decimals <-> doubles
def dec_str(d):
    if not d['dg']:
        return '0'
    return ('-' if d['neg'] else '') + ''.join(map(str, d['dg'])) + 'E' + str(d['e'])


def dec_float(d):
    return float(dec_str(d))


def dec_native(d):
    """the natural Python spelling: int when integral and below 10^15, else float"""
    if not d['dg']:
        return 0
    if d['e'] >= 0 and len(d['dg']) + d['e'] <= 15:
        v = int(''.join(map(str, d['dg']))) * 10 ** d['e']
        return -v if d['neg'] else v
    return dec_float(d)


def float_dec(x):
    """shortest decimal representation of a finite double, normalised"""
    if x == 0:
        return {'t': 'dec', 'neg': False, 'dg': [], 'e': 0}
    sign, digits, exp = decimal.Decimal(repr(float(x))).as_tuple()
    digits = list(digits)
    while digits and digits[-1] == 0:
        digits.pop()
        exp += 1
    while digits and digits[0] == 0:
        digits.pop(0)
    return {'t': 'dec', 'neg': bool(sign), 'dg': digits, 'e': exp}


def mkdec(neg, digits, e):
    digits = list(digits)
    while digits and digits[0] == 0:
        digits.pop(0)
    while digits and digits[-1] == 0:
        digits.pop()
        e += 1
    if not digits:
        return {'t': 'dec', 'neg': False, 'dg': [], 'e': 0}
    return {'t': 'dec', 'neg': bool(neg), 'dg': digits, 'e': e}


def dint(n):
    return mkdec(n < 0, [int(c) for c in str(abs(n))], 0)


def _ord(x):
    n = struct.unpack('<q', struct.pack('<d', x))[0]
    return n if n >= 0 else -(n & 0x7FFFFFFFFFFFFFFF)


def ulps(a, b):
    """distance of two finite doubles in units in the last place"""
    return abs(_ord(a) - _ord(b))


# --------------------------------------------------------------------------- the numeric oracle
def _mod(x, y):
    X, Y = Fraction(x), Fraction(y)
    return float(X - Y * (X / Y).__floor__())


EVAL = {
    'exp(x)': lambda x: math.exp(x), 'log(x)': lambda x: math.log(x), 'log10(x)': lambda x: math.log10(x),
    'log(x)/log(y)': lambda x, y: math.log(x) / math.log(y),
    'sin(x)': lambda x: math.sin(x), 'cos(x)': lambda x: math.cos(x), 'tan(x)': lambda x: math.tan(x),
    'asin(x)': lambda x: math.asin(x), 'acos(x)': lambda x: math.acos(x), 'atan(x)': lambda x: math.atan(x),
    'sinh(x)': lambda x: math.sinh(x), 'cosh(x)': lambda x: math.cosh(x), 'tanh(x)': lambda x: math.tanh(x),
    'asinh(x)': lambda x: math.asinh(x), 'acosh(x)': lambda x: math.acosh(x), 'atanh(x)': lambda x: math.atanh(x),
    'atan2(y,x)': lambda x, y: math.atan2(y, x),
    # evaluated as x*(180/pi), x*(pi/180): no overflow in an intermediate product
    'x*180/pi': lambda x: math.degrees(x), 'x*pi/180': lambda x: math.radians(x),
    'sqrt(x)': lambda x: math.sqrt(x), 'pow(x,y)': lambda x, y: math.pow(x, y),
    'mod(x,y)': _mod, 'pi': lambda: math.pi,
}

# the harness's claim which expression a function is measured against; the spec's RefExpr must agree
_UN = {'EXP': 'exp(x)', 'LN': 'log(x)', 'LOG10': 'log10(x)', 'SIN': 'sin(x)', 'COS': 'cos(x)', 'TAN': 'tan(x)',
       'ASIN': 'asin(x)', 'ACOS': 'acos(x)', 'ATAN': 'atan(x)', 'SINH': 'sinh(x)', 'COSH': 'cosh(x)',
       'TANH': 'tanh(x)', 'ASINH': 'asinh(x)', 'ACOSH': 'acosh(x)', 'ATANH': 'atanh(x)',
       'DEGREES': 'x*180/pi', 'RADIANS': 'x*pi/180', 'SQRT': 'sqrt(x)'}
REFEXPR = {(f, 1): e for f, e in _UN.items()}
REFEXPR.update({('LOG', 1): 'log10(x)', ('LOG', 2): 'log(x)/log(y)', ('ATAN2', 2): 'atan2(y,x)',
                ('POWER', 2): 'pow(x,y)', ('OP_POW', 2): 'pow(x,y)', ('MOD', 2): 'mod(x,y)', ('PI', 0): 'pi'})


def reference(expr, args):
    """('finite', value) | ('overflow', None) | ('domain', None)"""
    try:
        r = EVAL[expr](*[dec_float(a) for a in args])
    except OverflowError:
        return 'overflow', None
    except (ValueError, ZeroDivisionError):
        return 'domain', None
    if math.isinf(r):
        return 'overflow', None
    if math.isnan(r):
        return 'domain', None
    return 'finite', r


# --------------------------------------------------------------------------- projection of results
def obs_of(v):
    L = xl.lib()
    if isinstance(v, L.xlerrors.ExcelError):
        return {'t': 'err', 'v': str(v.value)}
    if isinstance(v, BaseException):
        return {'t': 'exc', 'cls': type(v).__name__, 'msg': str(v)[:200]}
    if isinstance(v, L.ft.ExcelType):
        v = v.value
    try:
        import numpy
        if isinstance(v, numpy.generic):
            v = v.item()
    except ImportError:      # pragma: no cover
        pass
    if isinstance(v, bool):
        return {'t': 'bool', 'v': v}
    if isinstance(v, int):
        try:
            v = float(v)
        except OverflowError:
            return {'t': 'float', 'v': 'inf', 'why': 'integer beyond the double range'}
    if isinstance(v, float):
        if math.isnan(v):
            return {'t': 'float', 'v': 'nan'}
        if math.isinf(v):
            return {'t': 'float', 'v': 'inf' if v > 0 else '-inf'}
        return float_dec(v)
    return {'t': 'other', 'cls': type(v).__name__, 'repr': repr(v)[:120]}


# --------------------------------------------------------------------------- calling the library
PATHS = ('direct', 'wrapped', 'float', 'formula')


def spell(d, path):
    L = xl.lib()
    if path == 'float':
        return dec_float(d)
    v = dec_native(d)
    return L.ft.Number(v) if path == 'wrapped' else v


def plain_literal(d):
    """formula literal in plain notation, or None when the number is better put into a cell"""
    if not d['dg']:
        return '0'
    adj = len(d['dg']) + d['e'] - 1
    if d['e'] < -9 or adj > 11:
        return None
    return format(decimal.Decimal(dec_str(d)), 'f')


def formula_for(f, args):
    cells, parts = {}, []
    for i, a in enumerate(args):
        lit = plain_literal(a)
        if lit is None:
            addr = 'ABCD'[i] + '1'
            cells['Sheet1!' + addr] = ('value', dec_float(a))
            lit = addr
        parts.append(lit)
    if f == 'OP_POW':
        return cells, '=(' + parts[0] + ')^(' + parts[1] + ')'
    return cells, '=' + f + '(' + ','.join(parts) + ')'


class CallTimeout(Exception):
    pass


def _on_alarm(signum, frame):
    raise CallTimeout('call exceeded %s s' % CALL_TIMEOUT)


CALL_TIMEOUT = 5
_guarded = False


def _guard_process():
    """pool workers only: bound the memory of a runaway call (integer powers) and arm the alarm handler"""
    global _guarded
    if _guarded:
        return
    _guarded = True
    signal.signal(signal.SIGALRM, _on_alarm)
    if multiprocessing.current_process().name != 'MainProcess':
        resource.setrlimit(resource.RLIMIT_AS, (6 << 30, 6 << 30))


def call(f, args, path):
    """observed abstract result of one real call (bounded in time), or None when the path does not apply"""
    xl.lib()
    _guard_process()
    signal.setitimer(signal.ITIMER_REAL, CALL_TIMEOUT)
    try:
        return _call(f, args, path)
    except CallTimeout as e:
        return obs_of(e), None
    finally:
        signal.setitimer(signal.ITIMER_REAL, 0)


def _call(f, args, path):
    L = xl.lib()
    if path == 'formula':
        cells, text = formula_for(f, args)
        try:
            model, ev = xl.build_model(cells, {'Sheet1!Z1': text})
            return obs_of(ev.evaluate('Sheet1!Z1')), text
        except BaseException as e:      # noqa
            if isinstance(e, (KeyboardInterrupt, SystemExit, CallTimeout)):
                raise
            if isinstance(e.__cause__, CallTimeout) or isinstance(e.__context__, CallTimeout):
                raise CallTimeout('evaluate')
            return obs_of(e), text
    if f == 'OP_POW':
        return None, None
    fn = L.xl.FUNCTIONS.get(f)
    if fn is None:
        return {'t': 'exc', 'cls': 'Unregistered', 'msg': f}, None
    try:
        return obs_of(fn(*[spell(a, path) for a in args])), None
    except BaseException as e:      # noqa
        if isinstance(e, (KeyboardInterrupt, SystemExit, CallTimeout)):
            raise
        return obs_of(e), None


def registered(f):
    return f == 'OP_POW' or f in xl.lib().xl.FUNCTIONS


# --------------------------------------------------------------------------- agreement
def _is_double_tie(exp):
    """the expected decimal lies exactly half way between two doubles (left open)"""
    x = dec_float(exp)
    q = Fraction(decimal.Decimal(dec_str(exp)))
    if math.isinf(x) or Fraction(x) == q:
        return False
    other = math.nextafter(x, math.inf if q > Fraction(x) else -math.inf)
    return abs(Fraction(other) - q) == abs(Fraction(x) - q)


def compare(case, exp, obs):
    """(True | False | None, clause)"""
    te, to = exp['t'], obs['t']
    if te == 'open':
        return None, 'open'
    if to == 'exc':
        return False, 'python-exception'
    if to == 'float':
        return False, 'nan-or-infinity'
    if te == 'anyerr':
        return (to == 'err'), 'error-expected'
    if te == 'ref':
        cls, r = reference(exp['expr'], case['args'])
        if cls == 'domain':
            return False, 'oracle-domain-mismatch'
        if cls == 'overflow':
            return (to == 'err'), 'error-expected'
        if to == 'err':
            return False, 'unexpected-error'
        if to != 'dec':
            return False, 'wrong-type'
        return ulps(dec_float(obs), r) <= ULPS, 'wrong-value'
    if to == 'err':
        return False, 'unexpected-error'
    if te == 'bool':
        return (to == 'bool' and obs['v'] == exp['v']), 'wrong-value'
    if to != 'dec':
        return False, 'wrong-type'
    x = dec_float(exp)
    if math.isinf(x):
        return None, 'open'
    o = dec_float(obs)
    if te == 'dec':
        if o == x:
            return True, 'ok'
        if _is_double_tie(exp):
            return None, 'open'
        return False, 'wrong-value'
    if te == 'near':
        if x == 0:
            return o == 0, 'wrong-value'
        return ulps(o, x) <= ULPS, 'wrong-value'
    raise MachineryError(f'unknown expected kind {exp}')


def klass(a):
    t = a['t']
    if t == 'err':
        return 'err'
    if t == 'exc':
        return 'exc:' + a['cls']
    if t == 'float':
        return 'float:' + a['v']
    return t


def sgn(d):
    return 0 if not d['dg'] else (-1 if d['neg'] else 1)


def features(case, exp, obs, path, clause):
    a = case['args']
    f = {'f': case['f'], 'path': path, 'clause': clause, 'exp': klass(exp), 'obs': klass(obs),
         'signs': [sgn(x) for x in a]}
    if exp['t'] == 'ref':
        f['ref'] = reference(exp['expr'], a)[0]
    if case['f'] in ('CEILING', 'FLOOR', 'MOD') and len(a) == 2:
        f['binary_exact'] = all(x['e'] >= 0 for x in a)
    return f


class Replayer:
    """pmap callable over dump blocks (same result shape as calls.Replayer)"""

    def __init__(self, paths=PATHS, nsamples=2):
        self.paths = paths
        self.nsamples = nsamples

    def __call__(self, blocks):
        out = {'n': 0, 'calls': 0, 'open': 0, 'dis': [], 'samples': [], 'byf': {}, 'unreg': {}}
        for b in blocks:
            st = parse_block(b) if isinstance(b, str) else b
            case, exp = st['case'], st['res']
            f = case['f']
            out['n'] += 1
            out['byf'][f] = out['byf'].get(f, 0) + 1
            if exp['t'] == 'open':
                out['open'] += 1
                continue
            if not registered(f):
                out['unreg'][f] = out['unreg'].get(f, 0) + 1
                out['open'] += 1
                continue
            allfloat = not any(isinstance(dec_native(a), int) for a in case['args'])
            for path in self.paths:
                if path == 'float' and allfloat:      # identical to the direct path
                    continue
                obs, text = call(f, case['args'], path)
                if obs is None:
                    continue
                out['calls'] += 1
                ok, clause = compare(case, exp, obs)
                if len(out['samples']) < self.nsamples and path == 'formula':
                    out['samples'].append({'case': case, 'expected': exp, 'observed': obs, 'path': path, 'formula': text})
                if ok is False:
                    out['dis'].append({'case': case, 'exp': exp, 'obs': obs, 'path': path, 'formula': text,
                                       'features': features(case, exp, obs, path, clause)})
        return out


# --------------------------------------------------------------------------- code -> spec driver
ROUNDF = ['ROUND', 'ROUNDUP', 'ROUNDDOWN', 'TRUNC']
UNARY_EXACT = ['INT', 'EVEN', 'ABS', 'SIGN', 'ISEVEN', 'ISODD']
ELEM = sorted(_UN)


def rdigits(rng, n):
    d = [rng.randint(1, 9)] + [rng.randint(0, 9) for _ in range(n - 1)]
    if d[-1] == 0:
        d[-1] = rng.randint(1, 9)
    return d


def rnumber(rng, wide=True, maxdig=15):
    """a decimal with up to maxdig significant digits; adjusted exponent log-uniform"""
    n = rng.choice([1, 2, 3, 5, 8, 12, 14, 15, rng.randint(1, 15)])
    n = min(n, maxdig)
    dg = rdigits(rng, n)
    r = rng.random()
    adj = rng.randint(-3, 6) if r < 0.6 else rng.randint(-15, 15) if r < 0.85 or not wide else rng.randint(-300, 300)
    return mkdec(rng.random() < 0.5, dg, adj - n + 1)


def rtie(rng):
    """digits ending in 5 / 49999.. / 50001.. : ties and near-ties at the last kept position"""
    pre = rdigits(rng, rng.randint(1, 6)) if rng.random() < 0.9 else []
    room = 15 - len(pre)
    k = rng.randint(1, room)
    tail = rng.choice([[5], [4] + [9] * (k - 1), [5] + [0] * max(k - 2, 0) + [1], [5] + [0] * (k - 1) + [0], [4, 9, 9, 9, 9]])
    tail = tail[:room] or [5]
    r = rng.random()
    adj = rng.randint(-3, 6) if r < 0.7 else rng.randint(-15, 15) if r < 0.9 else rng.randint(-290, 290)
    x = mkdec(rng.random() < 0.5, pre + tail, adj - len(pre) - len(tail) + 1)
    # the digit count that drops exactly the tail
    return x, -(adj - len(pre) + 1) if pre else -(adj + 1)


def driver(seed, count):
    rng = random.Random(seed * 7919 + 16)
    ev = []

    def emit(f, args):
        i = len(ev)
        path = PATHS[i % 4]
        if f == 'OP_POW':
            path = 'formula'
        ev.append({'f': f, 'args': args, 'path': path})

    sig_pool = [mkdec(False, rdigits(rng, rng.randint(1, 3)), rng.randint(-4, 2)) for _ in range(60)] + \
               [mkdec(False, d, e) for d, e in (([1], 0), ([2], 0), ([5], 0), ([1], -1), ([2, 5], -2), ([3], 0), ([1], 1),
                                                ([1], -2), ([5], -2), ([7], -3), ([1, 2, 5], -3), ([1], 3), ([6], 1))]
    # numbers of 1E+15 and more whose double is not the decimal it is written as (1E+23 is 99999999999999991611392): rounding works
    # on the decimal - in every run, whatever the seed
    for dg, e in (([1], 23), ([3], 25), ([1, 2, 3, 4, 5, 6, 7, 8, 9, 0, 1, 2, 3, 4, 5], 3), ([3, 6, 8, 2, 5], 233), ([7], 22), ([1, 1], 16), ([9, 9, 9, 9, 5], 18)):
        for neg in (False, True):
            x = mkdec(neg, dg, e)
            top = e + len(dg) - 1
            for f in ROUNDF:
                for d in (-(top - 1), -(top - 3), -10, -3):
                    if -d <= top:
                        emit(f, [x, dint(d)])
            for f in ('CEILING', 'FLOOR'):
                emit(f, [x, mkdec(neg, [1], top - 1)])
    # quotients number / significance of 1E+13 and more (where neighbouring doubles are 0.002 ... 1 apart) and almost-multiples with
    # long operands: the multiple is decided on the decimals, not on a rounded quotient - in every run, whatever the seed
    for xd, xe, sd, se in (([6, 2, 3, 4, 2, 5], 6, [7, 8, 1, 4], -8), ([9, 9, 9, 9, 9, 0, 0, 0, 0, 0, 0, 0, 0, 1], -9, [1] + [0] * 13 + [1], -14),
                           ([1], 14, [1] + [0] * 13 + [1], -14), ([4, 1, 7], 9, [3], -4), ([8, 0, 0, 0, 0, 0, 0, 0, 0, 0, 0, 1], 0, [7], -2),
                           ([2, 5], 11, [9, 9, 9, 9, 9, 9, 9], -7), ([1, 2, 3, 4, 5, 6, 7, 8, 9, 0, 1, 2], 0, [1, 1], -3), ([5], 12, [6], -3)):
        for neg in (False, True):
            for f in ('CEILING', 'FLOOR'):
                emit(f, [mkdec(neg, xd, xe), mkdec(neg, sd, se)])
    while len(ev) < count:
        k = rng.random()
        if k < 0.30:
            f = rng.choice(ROUNDF)
            if rng.random() < 0.5:
                x, d = rtie(rng)
                d = d if rng.random() < 0.7 else rng.randint(-10, 10)
            else:
                x, d = rnumber(rng), rng.randint(-10, 10)
            d = max(-10, min(10, d)) if rng.random() < 0.9 else d
            emit(f, [x] if rng.random() < 0.05 else [x, dint(d)])
        elif k < 0.40:
            emit(rng.choice(UNARY_EXACT), [rtie(rng)[0] if rng.random() < 0.3 else rnumber(rng)])
        elif k < 0.55:
            f = rng.choice(['CEILING', 'FLOOR'])
            x = rnumber(rng, wide=False) if rng.random() < 0.8 else rtie(rng)[0]
            s = dict(rng.choice(sig_pool))
            r = rng.random()
            if r < 0.04:
                s = dint(0)
            elif r < 0.08:
                x = dint(0)
            else:
                s['neg'] = rng.random() < (0.8 if x['neg'] else 0.15)
                if rng.random() < 0.25:       # an exact multiple
                    q = rng.randint(0, 9999)
                    x = mkdec(x['neg'], [int(c) for c in str(q * int(''.join(map(str, s['dg']))))], s['e'])
            emit(f, [x, s])
        elif k < 0.65:
            x = rnumber(rng, wide=False, maxdig=rng.choice([2, 4, 8, 15]))
            if rng.random() < 0.5:
                y = mkdec(rng.random() < 0.5, rng.choice([[1], [2], [3], [5], [7], [1, 2], [2, 5], [5], [1, 2, 5], [3, 6, 5], [1, 0, 2, 4]]),
                          rng.choice([0, 0, 0, -1, -2, -3, 1]))
            else:
                y = rnumber(rng, wide=False, maxdig=4)
            if rng.random() < 0.04:
                y = dint(0)
            if rng.random() < 0.2:        # very small / very large magnitudes (products of the operands leave the double range)
                ex = rng.choice([-300, -250, -200, -150, -100, 100, 150, 200, 250])
                x = mkdec(rng.random() < 0.5, rdigits(rng, rng.choice([1, 2, 4])), ex)
                y = mkdec(rng.random() < 0.5, rdigits(rng, rng.choice([1, 2, 4])), ex + rng.choice([-12, -5, -1, 0, 1, 5, 10, 12]))
            emit('MOD', [x, y])
        elif k < 0.77:
            f = rng.choice(['POWER', 'OP_POW'])
            r = rng.random()
            if r < 0.5:
                x = rnumber(rng, wide=False, maxdig=rng.choice([1, 2, 3, 6]))
                y = dint(rng.randint(-8, 12))
            elif r < 0.8:
                x = rnumber(rng, wide=False, maxdig=6)
                y = rnumber(rng, wide=False, maxdig=3)
                if len(y['dg']) + y['e'] > 4 and rng.random() < 0.97:      # huge whole exponents: only a few
                    y['e'] = -rng.randint(0, 3)
            else:
                x = rng.choice([dint(0), mkdec(False, [1], 308), mkdec(False, [1], 200), mkdec(True, [1], 200), dint(2), dint(-2),
                                dint(10), mkdec(False, [1], -200), mkdec(False, [5], -1), dint(-8)])
                y = rng.choice([dint(0), dint(-1), dint(2), dint(3), dint(1024), dint(1023), dint(309), dint(308), dint(-309),
                                mkdec(False, [5], -1), mkdec(True, [5], -1), mkdec(False, [3] * 15, -15), dint(-2)])
            emit(f, [x, y])
        elif k < 0.80:
            f = rng.choice(['FACT', 'FACTDOUBLE'])
            r = rng.random()
            x = dint(rng.randint(-3, 175)) if r < 0.7 else mkdec(rng.random() < 0.2, rdigits(rng, 3), rng.choice([-1, -2]))
            if r > 0.85:       # strictly between -1 and 0 (truncation gives 0, the argument is negative all the same), and just above 0
                x = mkdec(rng.random() < 0.7, rdigits(rng, rng.choice([1, 2, 3])), rng.choice([-3, -4, -10, -16]))
            emit(f, [x])
        elif k < 0.83:
            emit('ATAN2', [rng.choice([dint(0), rnumber(rng)]) if rng.random() < 0.3 else rnumber(rng, wide=False),
                           rng.choice([dint(0), rnumber(rng)]) if rng.random() < 0.3 else rnumber(rng, wide=False)])
        elif k < 0.87:
            x = rnumber(rng) if rng.random() < 0.8 else rng.choice([dint(0), dint(1), dint(-1), dint(10), dint(8)])
            b = rng.choice([dint(2), dint(10), dint(1), dint(0), dint(-2), mkdec(False, [5], -1), dint(3), rnumber(rng, wide=False, maxdig=3), x])
            if rng.random() < 0.35:     # a hair away from a whole power of the base; a base a hair away from 1
                b = rng.choice([dint(2), dint(10), dint(5), dint(3)])
                k = rng.choice([-3, -2, -1, 1, 2, 3, 4, 6, 9])
                bb = decimal.Decimal(dec_str(b))
                with decimal.localcontext() as ctx:
                    ctx.prec = 15
                    xx = (bb ** k) * (1 + rng.choice([1, -1]) * decimal.Decimal(10) ** -rng.choice([9, 10, 11, 12, 13]))
                    xx = +xx
                x = float_dec(float(xx))
                if rng.random() < 0.15:
                    x, b = rng.choice([dint(2), dint(7), rnumber(rng, wide=False, maxdig=3)]), mkdec(False, [1] + [0] * rng.choice([8, 9, 11]) + [1], -rng.choice([9, 10, 12]))
                    b = mkdec(False, b['dg'], -(len(b['dg']) - 1))
                    if x['neg']:
                        x = dict(x, neg=False)
                emit('LOG', [x] if dec_str(b) == '1E1' and rng.random() < 0.5 else [x, b])
                continue
            emit('LOG', [x] if rng.random() < 0.3 else [x, b])
        else:
            f = rng.choice(ELEM)
            r = rng.random()
            if r < 0.55:
                x = rnumber(rng, wide=False)
            elif r < 0.75:
                x = rnumber(rng)
            elif r < 0.85:       # inside (-1, 1) and just around it
                x = mkdec(rng.random() < 0.5, rdigits(rng, rng.randint(1, 15)), 0)
                x['e'] = -len(x['dg'])
            else:
                x = rng.choice(EDGES)
            emit(f, [x])
    return ev


def _edge_decimals():
    out = [dint(0), dint(1), dint(-1), dint(709), dint(710), dint(711), dint(-745), dint(-746), dint(1000), dint(-1000),
           dint(134217727), dint(134217728), mkdec(False, [1], 300), mkdec(False, [1], -300), mkdec(False, [1], 308)]
    for v in (1.0, -1.0, 709.782712893384, 710.4758600739439, 0.0):
        for w in (math.nextafter(v, math.inf), math.nextafter(v, -math.inf)):
            if w != 0:
                out.append(float_dec(w))
    out += [mkdec(False, [9] * 15, -15), mkdec(True, [9] * 15, -15), mkdec(False, [1] + [0] * 13 + [1], -14),
            mkdec(True, [1] + [0] * 13 + [1], -14), float_dec(math.pi / 2), float_dec(math.pi), float_dec(-math.pi / 2)]
    return out


EDGES = _edge_decimals()


def record(chunk):
    out = []
    for e in chunk:
        f, args = e['f'], e['args']
        if not registered(f):
            continue
        obs, text = call(f, args, e['path'])
        if obs is None:
            continue
        expr = REFEXPR.get((f, len(args)), '')
        cls, u = 'none', -1
        if expr:
            cls, r = reference(expr, args)
            if cls == 'finite' and obs['t'] == 'dec':
                u = min(ulps(dec_float(obs), r), 10 ** 9)
        e = dict(e, res=obs, refexpr=expr, refclass=cls, ulps=u)
        if text:
            e['formula'] = text
        out.append(e)
    return out


def trace_features(e, x, v):
    f = {'f': e['f'], 'path': e['path'], 'clause': v, 'exp': klass(x) if isinstance(x, dict) else str(x),
         'obs': klass(e['res']), 'signs': [sgn(a) for a in e['args']]}
    if isinstance(x, dict) and x.get('t') == 'ref':
        f['ref'] = e['refclass']
    if e['f'] in ('CEILING', 'FLOOR', 'MOD') and len(e['args']) == 2:
        f['binary_exact'] = all(a['e'] >= 0 for a in e['args'])
    return f


# --------------------------------------------------------------------------- known findings
BUG_MODELS = {}


def check_oracle_at_anchors(blocks_sample):
    """machinery self-check: Python's math agrees with the spec's exact anchor values"""
    bad = []
    for b in blocks_sample:
        st = parse_block(b)
        case, exp = st['case'], st['res']
        expr = REFEXPR.get((case['f'], len(case['args'])), '')
        if exp['t'] != 'near' or not expr or expr == 'mod(x,y)':
            continue
        cls, r = reference(expr, case['args'])
        x = dec_float(exp)
        if cls != 'finite' or (r != x if x == 0 else ulps(r, x) > ULPS):
            bad.append((case, exp, cls, r))
    return bad


def run(run):
    quick = run.tier == 'quick'
    r = run.tlc('MC_C16', 'C16_quick.cfg' if quick else 'C16_thorough.cfg', dump=True, timeout=3000)
    blocks = pool.dump_blocks(r.dump, skip_substr='"pending"')
    bad = [x for part in pool.pmap(check_oracle_at_anchors, [b for b in blocks if '"near"' in b]) for x in part]
    if bad:
        raise MachineryError(f'numeric oracle disagrees with the specification at {len(bad)} anchor points, e.g. {bad[0]}')
    rp = Replayer()
    results = pool.pmap(rp, blocks)
    unreg = {}
    for res in results:
        for k, v in res['unreg'].items():
            unreg[k] = unreg.get(k, 0) + v
    byf = _account(run, results)
    run.notes['cases_by_function'] = byf
    # the same calls in four orders, each order in ONE fresh process (state left behind by earlier calls)
    from harness import calls as _calls
    _calls.replay_orders(run, blocks, Replayer(paths=('direct', 'wrapped')), key=lambda b: len(b), sample=20000)
    run.notes['functions_not_registered_by_the_library'] = unreg
    run.rule = ('cases = all done-states of MC_C16 (signed decimals of up to MaxDig digits x exponents -3..2, tie families '
                'p5 / p49999 / p50001 / 15-digit near-ties at every position x digit counts; CEILING/FLOOR x 15 significances; '
                'MOD x 25 divisors; integer and fractional powers; factorials 0..172; 18 elementary functions on 900 arguments '
                'and their domain edges); each replayed on 4 paths (native, wrapped Number, float, compiled formula); '
                'non-trivial = expected result determined')
    run.exhaustive = True
    run.assumptions += ["Python's math module (libm) is the numeric oracle for the analytic half: ulp distances are measured "
                        "against the expression named by the specification's RefExpr",
                        'left open: which error code; FACT/FACTDOUBLE beyond 170; SIN/COS/TAN beyond 2^27; 0^0; results within '
                        '1e-300 of zero or within the last binade below the largest double; expected decimals that are ties between doubles']
    # code -> spec
    events = driver(run.seed, 4000 if quick else 80000)
    recorded = [e for part in pool.pmap(record, events) for e in part]
    run.evaluations += len(recorded)
    res = trace.validate(run, recorded, module='Trace_C16', features=trace_features, timeout=3000)
    run.sample({'trace_event': res[0][0], 'verdict': res[0][1]})
    run.notes['trace_events'] = len(recorded)
    vc = {}
    for e, v, x in res:
        vc[v] = vc.get(v, 0) + 1
    run.notes['trace_verdicts'] = vc


def _account(run, results):
    byf = {}
    for r in results:
        run.evaluations += r['calls']
        run.undetermined += r['open']
        run.traces += r['n'] - r['open']
        run.nontrivial_count += r['n'] - r['open']
        for k, v in r['byf'].items():
            byf[k] = byf.get(k, 0) + v
        for s in r['samples']:
            run.sample(s)
        for d in r['dis']:
            run.disagree('call', d['case'], d['exp'], d['obs'], d['features'], clause=d['path'], repro=repro_text(d))
    return byf


def repro_text(d):
    if d.get('formula'):
        cells, text = formula_for(d['case']['f'], d['case']['args'])
        inputs = {k: v[1] for k, v in cells.items()}
        return ("from xlcalculator import ModelCompiler, Evaluator\n"
                f"m = ModelCompiler().read_and_parse_dict({{**{inputs!r}, 'Sheet1!Z1': {text!r}}})\n"
                "print(Evaluator(m).evaluate('Sheet1!Z1'))")
    args = ', '.join(repr(spell(a, 'float' if d['path'] == 'float' else 'direct')) for a in d['case']['args'])
    return f"from xlcalculator.xlfunctions import xl\nprint(xl.FUNCTIONS[{d['case']['f']!r}]({args}))"


def replay(path):
    d = json.load(open(path))
    case = d['case']
    p = d.get('clause') if d.get('clause') in PATHS else case.get('path', 'direct')
    obs, text = call(case['f'], case['args'], p)
    exp = d['expected']
    print('case', json.dumps(case), '\npath', p, text or '', '\nexpected', exp, '\nobserved', obs)
    if not isinstance(exp, dict) or 't' not in exp:
        print('no expected value recorded')
        return 2
    ok, clause = compare(case, exp, obs)
    if ok is False:
        print(f"VIOLATION property={d['property']} replay={path} ({clause})")
        return 1
    print('agrees now')
    return 0

"""C18 - date serials and date functions follow the 1900 date system."""
import importlib
import datetime
import os
import random
import time
import threading
from fractions import Fraction

from harness import calls, pool, trace, xl
from harness.agree import agrees

MAX_SERIAL = 2958465
FIELD_FUNCS = ('YEAR', 'MONTH', 'DAY', 'WEEKDAY', 'ISOWEEKNUM')
WD_TYPES = (1, 2, 3, 11, 12, 13, 14, 15, 16, 17)
OPS = ('OP_ADD', 'OP_SUB', 'OP_EQ', 'OP_NE', 'OP_LT', 'OP_GT', 'OP_LE', 'OP_GE')


def N(n):
    return {'t': 'num', 'n': n, 'd': 1}


def R(n, d):
    fr = Fraction(n, d)
    return {'t': 'num', 'n': fr.numerator, 'd': fr.denominator}


def D(s, secs=0):
    fr = Fraction(secs, 86400)
    return {'t': 'date', 's': s, 'fn': fr.numerator, 'fd': fr.denominator}


def T(s):
    return {'t': 'txt', 'v': [ord(c) for c in s]}


# ---------------------------------------------------------------------------
# spec -> code, sweep: one dump state per serial carries all calendar fields
# ---------------------------------------------------------------------------
def weekday_of(wd_mon, ty):
    """return-type arithmetic on the Monday=1 weekday taken from the TLC state"""
    if ty in (1, 17):
        return wd_mon % 7 + 1
    if ty in (2, 11):
        return wd_mon
    if ty == 3:
        return wd_mon - 1
    return (wd_mon - 1 - (ty - 11)) % 7 + 1


def sweep_cases(s, r, full):
    """the calls a sweep state stands for: (f, args, expected); WEEKDAY with every return
    type on the `full` serials, with one return type (rotating with the serial) on the others"""
    out = [('YEAR', [N(s)], N(r['y'])), ('MONTH', [N(s)], N(r['m'])), ('DAY', [N(s)], N(r['d'])),
           ('DATE', [N(r['y']), N(r['m']), N(r['d'])], D(s))]
    if s >= 61:
        out.append(('ISOWEEKNUM', [N(s)], N(r['iso'])))
        out.append(('WEEKDAY', [N(s)], N(weekday_of(r['wd'], 1))))
        for ty in (WD_TYPES if full else (WD_TYPES[s % 10],)):
            out.append(('WEEKDAY', [N(s), N(ty)], N(weekday_of(r['wd'], ty))))
    return out


class SweepReplayer:
    """Like calls.Replayer for the states of MC_C18S.  Every serial is replayed
    through direct calls; every `every`-th serial (and all below 130, and the last 100)
    also with all WEEKDAY return types, date-valued / wrapped arguments and a compiled formula."""

    def __init__(self, every=1):
        self.every = every

    def __call__(self, blocks):
        out = {'n': 0, 'calls': 0, 'open': 0, 'dis': [], 'samples': [], 'byf': {}}
        for b in blocks:
            st = pool.parse_block(b)
            s = st['case']['args'][0]['n']
            full = s < 130 or s % self.every == 0 or s > MAX_SERIAL - 100
            # the conversion itself (utils.number_to_datetime): the serial with a time of day, converted BEFORE the whole
            # serial is used on odd serials and AFTER on even ones - the date is the calendar date of the TLC state, the
            # time of day is the fraction, whatever this process converted earlier
            if s % 2 == 1:
                self.conversion(out, s, st['res'], s % 4)
            for f, args, exp in sweep_cases(s, st['res'], full):
                case = {'f': f, 'args': args}
                out['n'] += 1
                out['byf'][f] = out['byf'].get(f, 0) + 1
                runs = [('direct', case)]
                if full:
                    runs.append(('wrapped', case))
                    runs.append(('formula', case))
                    if f != 'DATE':      # the same day given as a date value
                        dcase = {'f': f, 'args': [D(s)] + args[1:]}
                        runs.append(('direct', dcase))
                        runs.append(('formula', dcase))
                for path, c in runs:
                    text = stored = None
                    if path == 'formula':
                        obs, stored, text = calls.formula_call(c['f'], c['args'])
                    else:
                        obs = calls.direct_call(c['f'], c['args'], 'native' if path == 'direct' else path)
                    out['calls'] += 1
                    if agrees(obs, exp) is False or (stored is not None and agrees(stored, exp) is False):
                        if agrees(obs, exp) is not False:
                            obs, path = stored, 'formula-stored'
                        out['dis'].append({'case': c, 'exp': exp, 'obs': obs, 'path': path, 'formula': text,
                                           'features': features(c, exp, obs, path)})
                if len(out['samples']) < 2 and f == 'DATE':
                    out['samples'].append({'case': case, 'expected': exp, 'observed': obs, 'path': path})
            if s % 2 == 0:
                self.conversion(out, s, st['res'], s % 4)
            self.conversion(out, s, st['res'], 0)
        return out

    def conversion(self, out, s, r, q):
        if s == 60:
            return
        L = xl.lib()
        val = s + q / 4 if q else s
        exp = {'t': 'date', 's': s, 'fn': {0: 0, 1: 1, 2: 1, 3: 3}[q], 'fd': {0: 1, 1: 4, 2: 2, 3: 4}[q]}
        try:
            dt = importlib.import_module('xlcalculator.xlfunctions.utils').number_to_datetime(val)
            obs = xl.to_abs(dt)
            fields_ok = (dt.year, dt.month, dt.day) == (r['y'], r['m'], r['d'])
        except BaseException as e:      # noqa
            if isinstance(e, (KeyboardInterrupt, SystemExit)):
                raise
            obs, fields_ok = xl.to_abs(e), False
        out['n'] += 1
        out['calls'] += 1
        out['byf']['number_to_datetime'] = out['byf'].get('number_to_datetime', 0) + 1
        if agrees(obs, exp) is False or not fields_ok:
            c = {'f': 'number_to_datetime', 'args': [R(4 * s + q, 4) if q else N(s)]}
            out['dis'].append({'case': c, 'exp': exp, 'obs': obs, 'path': 'direct', 'formula': None,
                               'features': {'f': 'number_to_datetime', 'path': 'direct', 'fraction': q, 'fields_ok': fields_ok}})


# ---------------------------------------------------------------------------
# code -> spec: seeded calls beyond the TLC instance
# ---------------------------------------------------------------------------
def rserial(rng):
    k = rng.random()
    if k < 0.15:
        return rng.randint(1, 59)
    if k < 0.30:
        return rng.randint(61, 800)
    if k < 0.70:
        return rng.randint(61, 73050)            # .. 2099
    return rng.randint(61, MAX_SERIAL)


def rdn(rng, s):
    """the day s spelt as a number or a date value"""
    return N(s) if rng.random() < 0.5 else D(s)


def driver(seed, count):
    rng = random.Random(seed * 7919 + 18)
    ev = []
    for i in range(count):
        f = rng.choice(FIELD_FUNCS + ('WEEKDAY', 'DATE', 'DATE', 'EDATE', 'EOMONTH', 'DAYS', 'DATEDIF', 'DATEDIF',
                                      'YEARFRAC', 'YEARFRAC') + OPS)
        s = rserial(rng)
        if f in FIELD_FUNCS:
            k = rng.random()
            x = N(s) if k < 0.4 else D(s) if k < 0.7 else R(s * 1440 + rng.randint(1, 1439), 1440) if k < 0.9 \
                else D(s, rng.randint(1, 86399))
            args = [x]
            if f == 'WEEKDAY' and rng.random() < 0.8:
                args.append(N(rng.choice(WD_TYPES)))
        elif f == 'DATE':
            y = rng.choice([rng.randint(1900, 9999), rng.randint(1900, 2100), rng.randint(0, 1899)])
            m = rng.choice([rng.randint(1, 12), rng.randint(-40, 60), rng.randint(-3000, 3000)])
            d = rng.choice([rng.randint(1, 28), rng.randint(-50, 100), rng.randint(-200000, 200000)])
            args = [N(y), N(m), N(d)]
        elif f in ('EDATE', 'EOMONTH'):
            k = rng.choice([rng.randint(-30, 30), rng.randint(-3000, 3000)])
            args = [rdn(rng, s), N(k)]
        elif f in OPS and rng.random() < 0.7:
            s1 = rng.randint(61, 20000) if rng.random() < 0.6 else s
            s2 = s1 + rng.choice([0, 0, 1, -1, rng.randint(-400, 400)])
            if not (61 <= s2 <= MAX_SERIAL):
                s2 = s1
            t1, t2 = rng.choice([0, 21600, 43200, rng.randint(1, 86399)]), rng.choice([0, 43200, rng.randint(1, 86399)])
            if f == 'OP_ADD':
                args = [D(s1, t1), N(rng.randint(-60, 4000))]
                if rng.random() < 0.5:
                    args.reverse()
            else:
                args = [D(s1, t1), D(s2, t2) if rng.random() < 0.8 else N(s2)]
        else:
            k = rng.random()
            s2 = rserial(rng) if k < 0.4 else s + rng.randint(0, 800) if k < 0.8 else s - rng.randint(0, 800)
            if not (1 <= s2 <= MAX_SERIAL) or s2 == 60:
                s2 = s
            if f == 'DATEDIF':
                args = [rdn(rng, min(s, s2) if rng.random() < 0.9 else max(s, s2)), rdn(rng, max(s, s2)),
                        T(rng.choice(['D', 'M', 'Y', 'd', 'm', 'y']))]
            elif f == 'YEARFRAC':
                args = [rdn(rng, s), rdn(rng, s2)]
                if rng.random() < 0.9:
                    args.append(N(rng.randint(0, 4)))
            elif f == 'OP_ADD':
                args = [D(s), N(rng.randint(-400, 4000))]
            else:
                args = [D(s), D(s2)] if f != 'DAYS' else [rdn(rng, s), rdn(rng, s2)]
        path = 'formula' if i % 3 == 0 else ('wrapped' if i % 3 == 1 else 'direct')
        ev.append({'f': f, 'args': args, 'path': path})
    return ev


def norm_obs(a):
    """a double that is no small rational (a serial with seconds) as whole part + fraction in seconds"""
    if a.get('t') == 'float':
        try:
            x = float(a['v'])
        except ValueError:
            return a
        if x != x or abs(x) > 2 ** 30:
            return a
        w = int(x // 1)
        fr = Fraction(x - w).limit_denominator(86400)
        if abs(float(fr) - (x - w)) < 1e-7 and fr < 1:
            return {'t': 'date', 's': w, 'fn': fr.numerator, 'fd': fr.denominator}
    return a


def record(chunk):
    out = []
    for e in chunk:
        if e['path'] == 'formula':
            res, stored, text = calls.formula_call(e['f'], e['args'])
            e = dict(e, formula=[ord(c) for c in text])
        else:
            res = calls.direct_call(e['f'], e['args'], 'native' if e['path'] == 'direct' else 'wrapped')
        out.append(dict(e, res=norm_obs(res)))
    return out


# ---------------------------------------------------------------------------
# features of a disagreement; models of the listed findings
# ---------------------------------------------------------------------------
def _serial_class(a):
    if a['t'] == 'date':
        s = a['s']
    elif a['t'] == 'num':
        s = a['n'] // a['d']
    else:
        return a['t']
    return 'lt1' if s < 1 else 'le59' if s <= 59 else '60' if s == 60 else 'ge61' if s <= MAX_SERIAL else 'gtmax'


def features(case, exp, obs, path):
    f = calls.default_features(case, exp, obs, path)
    a = case['args']
    f['timed'] = any(x['t'] == 'date' and x['fn'] != 0 for x in a)
    if case['f'] != 'DATE':
        f['serials'] = [_serial_class(x) for x in a[:2]]
    else:
        y, m, d = (x.get('n') for x in a)
        f['ymd'] = ['2digit' if y is not None and y < 1900 else '9999' if y == 9999 else 'year',
                    'in' if m is not None and 1 <= m <= 12 else 'out',
                    'in' if d is not None and 1 <= d <= 28 else 'out']
    if case['f'] in ('YEARFRAC', 'WEEKDAY') and len(a) > 2 - (case['f'] == 'WEEKDAY'):
        f['mode'] = a[-1].get('n')
    if case['f'] == 'DATEDIF':
        f['unit'] = ''.join(map(chr, a[2]['v'])).upper() if a[2]['t'] == 'txt' else a[2]['t']
    return f


# parameters the library declares as dates: a number given there is first turned
# into a datetime and read back as a number (ISOWEEKNUM, EDATE, ...)
DATE_TYPED = {'ISOWEEKNUM': (0,), 'EDATE': (0,), 'EOMONTH': (0,), 'DAYS': (0, 1), 'DATEDIF': (0, 1), 'YEARFRAC': (0, 1)}


def _carries_time(a, date_typed):
    return (a['t'] == 'date' and a['fn'] != 0) or (date_typed and a['t'] == 'num' and a['d'] != 1)


def _buggy_value(a):
    """the number a value with a time of day becomes under the defect:
    day + seconds / 24 * 3600 instead of day + seconds / 86400"""
    if a['t'] == 'date':
        whole, frac = a['s'], float(Fraction(a['fn'], a['fd']))
    else:
        whole, frac = a['n'] // a['d'], (a['n'] / a['d']) % 1
    # whole seconds as the library's datetime holds them (timedelta rounds to microseconds)
    secs = datetime.timedelta(seconds=frac * 86400).seconds
    return whole + (secs / 24 * 60 * 60)          # in doubles, exactly as the library computes it


def _is_overflow(obs):
    return obs.get('t') == 'exc' and (obs.get('cls') == 'OverflowError' or 'OverflowError' in obs.get('msg', ''))


def bug_time_fraction(d):
    """F-C18-01: datetime_to_number turns a time of day of n seconds into n * 150 days.  Matches a
    disagreement only if some argument carries a time of day where the library converts it
    datetime -> number AND the observed outcome is exactly what that conversion yields."""
    case, obs = d['case'], d['observed']
    f, args = case['f'], case['args']
    if f not in OPS and f not in FIELD_FUNCS and f not in DATE_TYPED:
        return False
    if not all(a['t'] in ('num', 'date') for a in args):
        return False
    typed = DATE_TYPED.get(f, ())
    hit = [i for i, a in enumerate(args) if _carries_time(a, i in typed)]
    if not hit:
        return False
    if f in OPS:
        v = [_buggy_value(a) if i in hit else a['n'] / a['d'] if a['t'] == 'num' else float(a['s'])
             for i, a in enumerate(args)]
        if f in ('OP_ADD', 'OP_SUB'):
            r = v[0] + v[1] if f == 'OP_ADD' else v[0] - v[1]
            if obs.get('t') == 'float':
                try:
                    o = float(obs['v'])
                except ValueError:
                    return False
            elif obs.get('t') == 'date':
                o = obs['s'] + obs['fn'] / obs['fd']
            elif obs.get('t') == 'num':
                o = obs['n'] / obs['d']
            else:
                return False
            return abs(o - r) <= 1e-9 * max(1.0, abs(r))
        r = {'OP_EQ': v[0] == v[1], 'OP_NE': v[0] != v[1], 'OP_LT': v[0] < v[1], 'OP_GT': v[0] > v[1],
             'OP_LE': v[0] <= v[1], 'OP_GE': v[0] >= v[1]}[f]
        return obs.get('t') == 'bool' and obs['v'] == r
    # functions take the whole part of the converted number
    repl = [N(int(_buggy_value(a))) if i in hit else a for i, a in enumerate(args)]
    if any(repl[i]['n'] > MAX_SERIAL for i in hit):       # beyond 9999-12-31: datetime overflows
        return _is_overflow(obs)
    same = calls.direct_call(f, repl)
    if same.get('t') == 'exc' or obs.get('t') == 'exc':
        return same.get('t') == obs.get('t') == 'exc' and (same['cls'] == obs['cls'] or same['cls'] in obs.get('msg', ''))
    return agrees(obs, same) is True


BUG_MODELS = {'time_fraction_times_3600': bug_time_fraction}


# ---------------------------------------------------------------------------
def run(run):
    quick = run.tier == 'quick'
    t0 = time.time()
    phases = run.notes.setdefault('phase_wall_s', {})

    def lap(name):
        nonlocal t0
        phases[name] = round(time.time() - t0, 1)
        t0 = time.time()
    # spec -> code: the enumerated calls
    r = run.tlc('MC_C18', 'C18_quick.cfg' if quick else 'C18_thorough.cfg', dump=True, timeout=1800)
    lap('tlc_calls')
    blocks = pool.dump_blocks(r.dump, skip_substr='"pending"')
    rp = calls.Replayer(paths=('direct', 'wrapped', 'formula'), features=features)
    byf = calls.replay_dump(run, blocks, rp)
    # the same calls in different orders within one process: arguments carrying a time of day first / last
    # (direct calls only: cheap enough to take every enumerated call, so that both members of an interfering pair are there)
    calls.replay_orders(run, blocks, calls.Replayer(paths=('direct',), features=features),
                        key=lambda b: 0 if ('fn |-> 1' in b or 'fn |-> 3' in b or 'fn |-> 86399' in b or 'd |-> 4' in b) else 1,
                        sample=60000 if quick else 400000)
    del blocks
    lap('replay_calls')
    # spec -> code: the sweep over serials
    if quick:
        rs = run.tlc('MC_C18S', 'C18_sweep_quick.cfg', dump=True, timeout=600)
        sweep = calls.replay_dump(run, pool.dump_blocks(rs.dump), SweepReplayer(every=13))
        nser = rs.distinct
    else:
        sweep, nser = {}, 0
        parts = 16
        step = (MAX_SERIAL + parts - 1) // parts
        ranges = [(1 + i * step, min((i + 1) * step, MAX_SERIAL)) for i in range(parts)]
        for group in (ranges[:8], ranges[8:]):
            results = {}
            st0, tr0 = run.states, run.transitions      # run.tlc updates counters unlocked: recomputed below

            def one(lo, hi):
                results[lo] = run.tlc('MC_C18S', 'C18_sweep_range.cfg', dump=True, workers=2, timeout=1800,
                                      name=f'C18S-{lo}', env={'C18_LO': str(lo), 'C18_HI': str(hi)})
            ths = [threading.Thread(target=one, args=rg) for rg in group]
            [t.start() for t in ths]
            [t.join() for t in ths]
            run.states = st0 + sum(x.distinct for x in results.values())
            run.transitions = tr0 + sum(max(x.generated - x.init, 0) for x in results.values())
            for lo, hi in group:
                if lo not in results:
                    raise xl.MachineryError(f'sweep range {lo}..{hi}: TLC failed')
                rs = results[lo]
                nser += rs.distinct
                part = calls.replay_dump(run, pool.dump_blocks(rs.dump), SweepReplayer(every=997))
                for k, v in part.items():
                    sweep[k] = sweep.get(k, 0) + v
                os.remove(rs.dump)
    lap('sweep_tlc_and_replay')
    for k, v in sweep.items():
        byf[k] = byf.get(k, 0) + v
    run.notes['cases_by_function'] = byf
    run.notes['serials_swept'] = nser
    run.rule = ('cases = all done-states of MC_C18 (DATE over 6 years x months -14..27 x days -40..70 and far carries; '
                'EDATE/EOMONTH offsets -25..25 from 60 sampled dates; DAYS, date subtraction, DATEDIF D/M/Y, YEARFRAC bases '
                'omitted/0..4 over all ordered pairs of the 60 dates; fields of date values and fractional serials; WEEKDAY x all '
                'return types; date arithmetic/comparison on stamps with times 00:00 06:00 12:00 23:59:59) plus every state of '
                'MC_C18S (one per serial: ' + ('1..1500, every 97th, +-3 around year/February boundaries' if quick else
                                               'EVERY serial 1..2958465 except 60') +
                ') expanded to YEAR, MONTH, DAY, ISOWEEKNUM, WEEKDAY (omitted + one return type rotating with the serial; all 10 types '
                'on every ' + ('13th' if quick else '997th') + ' serial, below 130 and in the last 100 days), DATE(y,m,d); distinct by TLC fingerprint; '
                'non-trivial = expected result determined')
    run.exhaustive = True
    run.assumptions += ['serial 60, serial 0, negative serials, WEEKDAY/ISOWEEKNUM below serial 61, day differences and day carries across '
                        'February 1900, dates as text, DATEDIF MD/YM/YD, 30/360 with a day 29-31 or the end of February, '
                        'YEARFRAC basis 1 across calendar years, DATE results outside 1..2958465 are left open',
                        'the observed double is compared with relative tolerance 1e-9 (exact in trace validation after '
                        'recovering the rational)']
    # code -> spec: seeded calls beyond the instance, validated by TLC (Trace_C18)
    events = driver(run.seed, 6000 if quick else 120000)
    recorded = [e for part in pool.pmap(record, events) for e in part]
    run.evaluations += len(recorded)
    lap('trace_record')
    res = trace.validate(run, recorded, module='Trace_C18',
                         features=lambda e, x, v: dict(features(e, x, e['res'], e['path']), verdict=v))
    lap('trace_validate')
    run.sample({'trace_event': res[0][0], 'verdict': res[0][1]})
    run.notes['trace_events'] = len(recorded)
    run.notes['trace_verdicts'] = {v: sum(1 for _, w, _ in res if w == v) for v in {w for _, w, _ in res}}


def replay(path):
    return calls.replay_file(path)

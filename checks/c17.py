"""C17 - text functions agree with 1-based string reference semantics."""
import random

from harness import calls, pool, trace

ALPHA = [97, 98, 99, 65, 66, 32, 32, 34, 39, 44, 40, 41, 233, 201, 223, 8364, 0x4E2D, 0x1F600, 48, 49, 46, 45,
         9, 10, 160, 0x3000, 0x2003]      # white space other than the blank: no function may take it for one


def rtext(rng, maxlen):
    n = rng.choice([0, 1, 2, 3, 5, 8, 13, 21, maxlen])
    if rng.random() < 0.4:      # repeated substrings
        unit = [rng.choice(ALPHA) for _ in range(rng.randint(1, 3))]
        s = (unit * (n // len(unit) + 1))[:n]
        if s and rng.random() < 0.5:
            s[rng.randrange(len(s))] = rng.choice(ALPHA)
        return s
    return [rng.choice(ALPHA) for _ in range(n)]


def T(s):
    return {'t': 'txt', 'v': list(s)}


def N(n):
    return {'t': 'num', 'n': n, 'd': 1}


def noisy_number(rng):
    """a short decimal n/d and a double a few ulps away from it: the number Excel shows (15 significant digits) is n/d,
    so its text form is the text form of n/d (10.1+0.2 is 10.3, not 10.299999999999999)"""
    d = rng.choice([1, 2, 4, 5, 10, 10, 100, 1000])
    n = rng.choice([1, 3, 7, 103, 205, 999, 1001, 12345, 99999, 314159, 0, 0]) * rng.choice([1, 1, -1])
    if n == 0:      # the double -0.0 (what 0/-5 or -2.5*0 computes): the number zero, whose text form is "0"
        return {'t': 'num', 'n': 0, 'd': 1}, 0
    if abs(n) >= d * 10 ** 6:
        n = n // 1000
    return {'t': 'num', 'n': n, 'd': d}, rng.choice([-2, -1, 1, 2])


def driver(seed, count):
    """seeded call events beyond the TLC-enumerated instance: longer texts, astral code points"""
    rng = random.Random(seed * 7919 + 17)
    ev = []
    for i in range(count):
        s = rtext(rng, 40)
        n = len(s)
        f = rng.choice(['LEN', 'LEFT', 'RIGHT', 'MID', 'FIND', 'REPLACE', 'UPPER', 'LOWER', 'TRIM', 'EXACT',
                        'CONCAT', 'CONCATENATE', 'MID', 'FIND', 'REPLACE'])
        pos = lambda: rng.choice([-3, -1, 0, 1, 1, 2, max(n - 1, 0), n, n + 1, n + 2, rng.randint(0, n + 3)])
        if f in ('LEN', 'UPPER', 'LOWER', 'TRIM'):
            args = [T(s)]
        elif f in ('LEFT', 'RIGHT'):
            args = [T(s)] if rng.random() < 0.1 else [T(s), N(pos())]
        elif f == 'MID':
            args = [T(s), N(pos()), N(pos())]
        elif f == 'FIND':
            if s and rng.random() < 0.7:
                a = rng.randrange(n)
                needle = s[a:a + rng.randint(0, 3)]
            else:
                needle = rtext(rng, 3)[:3]
            args = [T(needle), T(s)] if rng.random() < 0.2 else [T(needle), T(s), N(pos())]
        elif f == 'REPLACE':
            args = [T(s), N(pos()), N(pos()), T(rtext(rng, 5)[:5])]
        elif f == 'EXACT':
            t = list(s)
            if t and rng.random() < 0.5:
                k = rng.randrange(len(t))
                t[k] = t[k] ^ 32 if 65 <= (t[k] & ~32) <= 90 else rng.choice(ALPHA)
            args = [T(s), T(t)]
        else:
            args = [T(s)] + [T(rtext(rng, 8)[:8]) if rng.random() < 0.7 else N(rng.randint(-99, 999))
                             for _ in range(rng.randint(1, 4))]
        path = 'formula' if i % 3 == 0 else ('wrapped' if i % 3 == 1 else 'direct')
        e = {'f': f, 'args': args, 'path': path}
        if i % 10 == 7:      # a number with binary noise in the last places where a text is expected
            x, ulps = noisy_number(rng)
            g = rng.choice(['LEN', 'LEFT', 'RIGHT', 'MID', 'CONCAT', 'EXACT', 'UPPER', 'TRIM', 'FIND'])
            from fractions import Fraction
            fr = Fraction(x['n'], x['d'])
            x = {'t': 'num', 'n': fr.numerator, 'd': fr.denominator}
            a2 = {'LEN': [x], 'UPPER': [x], 'TRIM': [x], 'LEFT': [x, N(rng.randint(0, 9))], 'RIGHT': [x, N(rng.randint(0, 9))],
                  'MID': [x, N(rng.randint(1, 4)), N(rng.randint(0, 9))], 'CONCAT': [x, T([])], 'EXACT': [x, x],
                  'FIND': [T([46]), x]}[g]
            e = {'f': g, 'args': a2, 'path': path if path != 'formula' else 'wrapped', 'ulps': ulps}
        ev.append(e)
    return ev


def _noisy(a, ulps, spelling):
    import math
    L = calls.xl.lib()
    x = a['n'] / a['d']
    if ulps == 0:
        x = -0.0
    for _ in range(abs(ulps)):
        x = math.nextafter(x, math.inf if ulps > 0 else -math.inf)
    return L.ft.Number(x) if spelling == 'wrapped' else x


def record(chunk):
    out = []
    for e in chunk:
        if e['path'] == 'formula':
            res, stored, text = calls.formula_call(e['f'], e['args'])
            e = dict(e, formula=[ord(c) for c in text])
        elif 'ulps' in e:
            sp = 'native' if e['path'] == 'direct' else 'wrapped'
            L = calls.xl.lib()
            try:
                pargs = [_noisy(a, e['ulps'], sp) if a['t'] == 'num' and i == (1 if e['f'] == 'FIND' else 0) or (e['f'] == 'EXACT' and a['t'] == 'num')
                         else calls.xl.from_abs(a, sp) for i, a in enumerate(e['args'])]
                res = calls.xl.to_abs(L.xl.FUNCTIONS[e['f']](*pargs))
            except Exception as ex:      # noqa
                res = calls.xl.to_abs(ex)
        else:
            res = calls.direct_call(e['f'], e['args'], 'native' if e['path'] == 'direct' else 'wrapped')
        out.append(dict(e, res=res))
    return out


def features(case, exp, obs, path):
    f = calls.default_features(case, exp, obs, path)
    a = case['args']
    if a and a[0]['t'] == 'txt':
        n = len(a[0]['v'])
        for i, x in enumerate(a[1:], 1):
            if x['t'] == 'num' and x['d'] == 1:
                v = x['n']
                f[f'a{i}'] = 'neg' if v < 0 else 'zero' if v == 0 else 'le_len' if v <= n else 'gt_len'
    return f


BUG_MODELS = {}


def run(run):
    quick = run.tier == 'quick'
    r = run.tlc('MC_C17', 'C17_quick.cfg' if quick else 'C17_thorough.cfg', dump=True, timeout=900)
    blocks = pool.dump_blocks(r.dump, skip_substr='"pending"')
    rp = calls.Replayer(paths=('direct', 'wrapped', 'formula'), features=features)
    byf = calls.replay_dump(run, blocks, rp)
    # the same calls in four orders, each order in ONE fresh process (state left behind by earlier calls)
    calls.replay_orders(run, blocks, calls.Replayer(paths=('direct', 'wrapped'), features=features), key=lambda b: len(b), sample=20000)
    run.notes['cases_by_function'] = byf
    run.rule = ('cases = all done-states of MC_C17 (every text over {a,b,A,blank,",e-acute} up to MaxLen x every position/count '
                'from below 1 to beyond the end); distinct by TLC fingerprint; non-trivial = expected result determined')
    run.exhaustive = True
    # code -> spec: seeded calls on longer texts, recorded and validated by TLC (Trace_Calls)
    events = driver(run.seed, 3000 if quick else 40000)
    recorded = [e for part in pool.pmap(record, events) for e in part]
    run.evaluations += len(recorded)
    res = trace.validate(run, recorded, features=lambda e, x, v: {'f': e['f'], 'path': e['path'], 'verdict': v})
    run.sample({'trace_event': res[0][0], 'verdict': res[0][1]})
    run.notes['trace_events'] = len(recorded)


def replay(path):
    return calls.replay_file(path)

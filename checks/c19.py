"""C19 - base-conversion functions are exact two's-complement conversions.

spec -> code : every done state of MC_C19 (all integers of the binary window x every `places`
               x all twelve functions, window edges, powers of two, sampled 40-bit patterns,
               every invalid-input class) is replayed through direct calls (native, float and
               wrapped spellings), through a formula with literals and through a formula whose
               arguments are cell references.
code -> spec : (a) the Excel-computed conversions cached in tests/resources/BASES.xlsx (read with
               zipfile + ElementTree, not with the library) must be reproduced by the SPEC - a
               mismatch is a defect of the specification (exit 2);
               (b) the same inputs and (c) seeded inputs across the whole 40-bit range are run
               through the library, the observed results are validated by TLC (Trace_C19);
               (d) a fresh interpreter that does nothing but `import xlcalculator` must be
               able to evaluate the twelve functions in formulas.

40-bit values do not fit TLC's (or JSON's) 32-bit integers: they travel as
{'t': 'dec', 'neg': bool, 'dg': [decimal digits]} - see spec/XlBits.tla.
"""
import json
import os
import random
import re
import subprocess
import sys
import time
import xml.etree.ElementTree as ET
import zipfile

from harness import calls, pool, trace, xl
from harness.agree import klass
from harness.xl import MachineryError

SRC = ('DEC', 'BIN', 'OCT', 'HEX')
FUNCS = [a + '2' + b for a in SRC for b in SRC if a != b]
WIDTH = {'BIN': 10, 'OCT': 30, 'HEX': 40}
RADIX = {'BIN': 2, 'OCT': 8, 'HEX': 16}
PATHS = ('direct', 'float', 'wrapped', 'formula', 'cells')


# ---------------------------------------------------------------------------
# encoding
# ---------------------------------------------------------------------------
def dec_of_int(n):
    return {'t': 'dec', 'neg': n < 0, 'dg': [int(c) for c in str(abs(n))]}


def int_of_dec(a):
    n = int(''.join(map(str, a['dg'])) or '0')
    return -n if a['neg'] else n


def N(n):
    """an integer argument: a plain num when TLC can hold it, else a dec record"""
    return {'t': 'num', 'n': n, 'd': 1} if abs(n) < 2 ** 31 else dec_of_int(n)


def T(s):
    return {'t': 'txt', 'v': [ord(c) for c in s]}


def to_lib(a):
    """spec argument -> the harness's abstract value (python ints are unbounded)"""
    if a['t'] == 'dec':
        return {'t': 'num', 'n': int_of_dec(a), 'd': 1}
    if a['t'] == 'decfrac':       # a number with a fractional part: the double nearest to <digits>.<fraction digits>
        return {'t': 'float', 'v': ''.join(map(str, a['dg'])) + '.' + ''.join(map(str, a['fr']))}
    return a


def project(obs):
    """observed abstract value -> the spec's universe: whole numbers become dec records"""
    if obs is None:
        return None
    if obs['t'] == 'num' and obs['d'] == 1:
        return dec_of_int(obs['n'])
    if obs['t'] == 'float':
        v = obs['v']
        if re.fullmatch(r'-?\d+', v):
            return dec_of_int(int(v))
        try:
            x = float(v)
            if x.is_integer() and abs(x) < 2 ** 53:
                return dec_of_int(int(x))
        except (ValueError, OverflowError):
            pass
    return obs


def agree(obs, exp):
    """True / False / None (left open).  Strict: digit strings and numbers must be identical."""
    te = exp['t']
    if te == 'open':
        return None
    if te == 'anyerr':
        return obs['t'] == 'err'
    if te == 'err':
        return obs['t'] == 'err' and obs['v'] == exp['v']
    if te == 'txt':
        return obs['t'] == 'txt' and obs['v'] == exp['v']
    if te == 'dec':
        return obs['t'] == 'dec' and obs['neg'] == exp['neg'] and obs['dg'] == exp['dg']
    return obs == exp


# ---------------------------------------------------------------------------
# call paths
# ---------------------------------------------------------------------------
def cells_call(f, largs):
    """=F(A1,B1) with the arguments stored in input cells (the way BASES.xlsx calls them)"""
    cells, refs = {}, []
    for i, a in enumerate(largs):
        ref = 'AB'[i] + '1'
        refs.append(ref)
        if a['t'] == 'blank':
            cells['Sheet1!' + ref] = ('blank',)
        elif a['t'] in ('num', 'txt', 'bool'):
            cells['Sheet1!' + ref] = ('value', xl.from_abs(a, 'native'))
        else:
            return None, None
    text = '=' + f + '(' + ','.join(refs) + ')'
    try:
        model, ev = xl.build_model(cells, {'Sheet1!Z1': text})
        return xl.to_abs(ev.evaluate('Sheet1!Z1')), text
    except BaseException as e:      # noqa
        if isinstance(e, (KeyboardInterrupt, SystemExit)):
            raise
        return xl.to_abs(e), text


def call(f, args, path):
    """-> (observed, stored-or-None, formula text or None); observed None = path not applicable"""
    largs = [to_lib(a) for a in args]
    if path == 'formula':
        obs, stored, text = calls.formula_call(f, largs)
        return project(obs), project(stored), text
    if path == 'cells':
        obs, text = cells_call(f, largs)
        return project(obs), None, text
    if path == 'float':
        a0 = largs[0]
        if not (a0['t'] == 'num' and a0['d'] == 1 and abs(a0['n']) < 2 ** 53):
            return None, None, None
        return project(calls.direct_call(f, largs, 'float')), None, None
    return project(calls.direct_call(f, largs, 'native' if path == 'direct' else 'wrapped')), None, None


def arg_class(f, a):
    t = a['t']
    if t == 'num' and a['d'] != 1:
        return 'fraction'
    if t in ('num', 'dec'):
        n = a['n'] if t == 'num' else int_of_dec(a)
        w = [WIDTH[b] for b in f.split('2') if b != 'DEC']
        if f.startswith('DEC'):
            h = 1 << (min(w) - 1)
            edge = 'in' if -h <= n < h else 'out'
            if min(abs(n - h), abs(n + h), abs(n - h + 1), abs(n + h + 1)) <= 4:
                edge += '-edge'
            return ('neg-' if n < 0 else '') + 'number:' + edge
        return ('neg-' if n < 0 else '') + 'number-as-digits:%d' % len(str(abs(n)))
    if t == 'txt':
        s = ''.join(map(chr, a['v']))
        src = f.split('2')[0]
        if src == 'DEC':
            return 'text'
        ok = len(s) <= 10 and all(c in '0123456789ABCDEFabcdef'[:RADIX[src] + (6 if src == 'HEX' else 0)] for c in s)
        if not ok:
            return 'bad-digits'
        neg = len(s) == 10 and int(s[0], 16) * 2 >= RADIX[src]
        return 'digits:%s%d' % ('neg' if neg else '', len(s)) + (':lower' if s != s.upper() else '')
    return t


def features(case, exp, obs, path):
    f = {'f': case['f'], 'path': path, 'exp': klass(exp), 'obs': klass(obs)}
    a = case['args']
    f['arg'] = arg_class(case['f'], a[0]) if a else 'none'
    if len(a) > 1:
        p = a[1]
        f['places'] = ('ok' if 1 <= p['n'] <= 10 else 'out') if p['t'] == 'num' and p['d'] == 1 else p['t']
    else:
        f['places'] = 'omitted'
    return f


class Replayer:
    """callable for pool.pmap over dump blocks (modelled on calls.Replayer)"""

    def __init__(self, paths=PATHS, nsamples=2, cells_every=1):
        self.paths = paths
        self.nsamples = nsamples
        self.cells_every = cells_every      # the cell-reference path on every k-th case (quick tier: 4)

    def __call__(self, blocks):
        out = {'n': 0, 'calls': 0, 'open': 0, 'dis': [], 'samples': [], 'byf': {}, 'bypath': {}}
        for b in blocks:
            st = pool.parse_block(b) if isinstance(b, str) else b
            case, exp = st['case'], st['res']
            case = {'f': case['f'], 'args': case['args']}
            out['n'] += 1
            out['byf'][case['f']] = out['byf'].get(case['f'], 0) + 1
            if exp['t'] == 'open':
                out['open'] += 1
                continue
            for path in self.paths:
                if path == 'cells' and out['n'] % self.cells_every:
                    continue
                obs, stored, text = call(case['f'], case['args'], path)
                if obs is None:
                    continue
                out['calls'] += 1
                out['bypath'][path] = out['bypath'].get(path, 0) + 1
                if len(out['samples']) < self.nsamples and path == 'formula':
                    out['samples'].append({'case': case, 'expected': exp, 'observed': obs, 'path': path, 'formula': text})
                if agree(obs, exp) is False:
                    out['dis'].append({'case': case, 'exp': exp, 'obs': obs, 'path': path, 'formula': text,
                                       'features': features(case, exp, obs, path)})
                elif stored is not None and agree(stored, exp) is False:
                    out['dis'].append({'case': case, 'exp': exp, 'obs': stored, 'path': 'formula-stored', 'formula': text,
                                       'features': features(case, exp, stored, 'formula-stored')})
        return out


def replay_dump(run, blocks, cells_every=1):
    byf, bypath = {}, {}
    for r in pool.pmap(Replayer(cells_every=cells_every), blocks):
        run.evaluations += r['calls']
        run.undetermined += r['open']
        run.traces += r['n'] - r['open']
        run.nontrivial_count += r['n'] - r['open']
        for k, v in r['byf'].items():
            byf[k] = byf.get(k, 0) + v
        for k, v in r['bypath'].items():
            bypath[k] = bypath.get(k, 0) + v
        for s in r['samples']:
            run.sample(s)
        for d in r['dis']:
            run.disagree('call', d['case'], d['exp'], d['obs'], d['features'], clause=d['path'],
                         repro=calls.repro_text({'formula': d['formula'], 'case': d['case']}))
    return byf, bypath


# ---------------------------------------------------------------------------
# the anchor: Excel's own results in BASES.xlsx (stdlib reader, shared formulas expanded)
# ---------------------------------------------------------------------------
_NS = '{http://schemas.openxmlformats.org/spreadsheetml/2006/main}'
_REF = re.compile(r'(?<![A-Z0-9$])(\$?)([A-Z]{1,3})(\$?)(\d+)(?![A-Z0-9(])')
_CALL = re.compile(r'^((?:BIN|OCT|HEX|DEC)2(?:BIN|OCT|HEX|DEC))\(([A-Z]+\d+)(?:,([A-Z]+\d+))?\)$')


def _col2n(c):
    n = 0
    for ch in c:
        n = n * 26 + ord(ch) - 64
    return n


def _n2col(n):
    s = ''
    while n:
        n, r = divmod(n - 1, 26)
        s = chr(65 + r) + s
    return s


def _shift(f, dc, dr):
    def rep(m):
        c = m.group(2) if m.group(1) else _n2col(_col2n(m.group(2)) + dc)
        r = m.group(4) if m.group(3) else str(int(m.group(4)) + dr)
        return m.group(1) + c + m.group(3) + r
    return _REF.sub(rep, f)


def _cell_abs(c):
    """(type attribute, cached text) of a cell -> abstract value, None if it has no exact form"""
    if c is None:
        return {'t': 'blank'}
    t, v = c[0], c[1]
    if t in ('s', 'str', 'inlineStr'):
        return T(v or '')
    if t == 'b':
        return {'t': 'bool', 'v': v == '1'}
    if t == 'e':
        return {'t': 'err', 'v': v}
    if v is None:
        return {'t': 'blank'}
    if re.fullmatch(r'-?\d+', v):
        return N(int(v))
    return None


def anchor_cases(path):
    """[(sheet, address, f, [abstract args], abstract Excel result)] for every conversion formula"""
    z = zipfile.ZipFile(path)
    ss = []
    for si in ET.fromstring(z.read('xl/sharedStrings.xml')).findall(_NS + 'si'):
        ss.append(''.join(t.text or '' for t in si.iter(_NS + 't')))
    out = []
    skipped = 0
    for name in sorted(z.namelist()):
        m = re.match(r'xl/worksheets/(sheet\d+)\.xml', name)
        if not m:
            continue
        cells, shared = {}, {}
        for c in ET.fromstring(z.read(name)).iter(_NS + 'c'):
            r, t = c.get('r'), c.get('t')
            v, f = c.find(_NS + 'v'), c.find(_NS + 'f')
            val = v.text if v is not None else None
            if t == 's':
                val = ss[int(val)]
            ftxt = None
            if f is not None:
                mm = _REF.fullmatch(r)
                cc, rr = _col2n(mm.group(2)), int(mm.group(4))
                if f.get('t') == 'shared':
                    if f.text:
                        shared[f.get('si')] = (f.text, cc, rr)
                        ftxt = f.text
                    else:
                        b, bc, br = shared[f.get('si')]
                        ftxt = _shift(b, cc - bc, rr - br)
                else:
                    ftxt = f.text
            cells[r] = (t, val, ftxt)
        for r, (t, val, ftxt) in cells.items():
            mm = _CALL.match(ftxt.replace('$', '')) if ftxt else None
            if not mm:
                continue
            args = [_cell_abs(cells.get(a)) for a in mm.groups()[1:] if a]
            res = _cell_abs((t, val))
            if res is None or any(a is None for a in args):
                skipped += 1
                continue
            if res['t'] == 'num':
                res = dec_of_int(res['n'])
            out.append((m.group(1), r, mm.group(1), args, res))
    return out, skipped


# ---------------------------------------------------------------------------
# code -> spec drivers
# ---------------------------------------------------------------------------
def spell(n, base, rng=None):
    w = WIDTH[base]
    u = n + (1 << w) if n < 0 else n
    s = {'BIN': '{:b}', 'OCT': '{:o}', 'HEX': '{:X}'}[base].format(u)
    if rng is not None:
        if n >= 0 and len(s) < 10 and rng.random() < 0.2:
            s = s.rjust(rng.randint(len(s) + 1, 10), '0')
        if rng.random() < 0.25:
            s = ''.join(c.lower() if rng.random() < 0.6 else c for c in s)
    return s


def rand_int(rng):
    k = rng.choice([3, 8, 9, 10, 12, 20, 28, 29, 30, 31, 32, 33, 38, 39, 40, 41, 45, 52])
    r = rng.random()
    if r < 0.35:
        n = rng.getrandbits(k)
    elif r < 0.7:
        n = (1 << k) + rng.randint(-6, 6)
    else:
        n = rng.getrandbits(k) | (1 << (k - 1))
    return -n if rng.random() < 0.5 else n


def driver(seed, count):
    """seeded call events beyond the TLC instance: integers anywhere in (and around) the 40-bit range"""
    rng = random.Random(seed * 104729 + 19)
    ev = []
    # in every run, whatever the seed: a digit string with ONE character that is no digit of any base - every printable ASCII
    # punctuation mark, leading, inner and trailing - as a text literal of a formula and as a direct argument (#NUM!)
    for f in FUNCS:
        if f.startswith('DEC'):
            continue
        for ch in '$#%&!\'()*~^{}|\\?@:;<>=_/., +-':
            for s in (ch + '11', '1' + ch + '1', '11' + ch, ch):
                if (ch in '+-' and s[0] == ch) or (ch == ' ' and s.strip() != s):
                    continue          # (a sign in front / blanks around the digits: another clause of the specification)
                for path in ('formula', 'direct'):
                    ev.append({'f': f, 'args': [T(s)], 'path': path})
    count -= min(len(ev), count // 2)
    for i in range(count):
        f = rng.choice(FUNCS)
        src, dst = f.split('2')
        n = rand_int(rng)
        if src == 'DEC':
            a0 = N(n)
        else:
            h = 1 << (WIDTH[src] - 1)
            if not -h <= n < h:
                n = ((n + h) % (2 * h)) - h
            s = spell(n, src, rng)
            r = rng.random()
            if r < 0.06:        # damage one digit
                k = rng.randrange(len(s))
                s = s[:k] + rng.choice('289GgZ.-+ ,:;<=>?@[`_/') + s[k + 1:]
            elif r < 0.09:
                s = s + rng.choice('0123456789ABCDEF') * (11 - len(s))
            a0 = N(int(s)) if s.isdigit() and s[0] != '0' and rng.random() < 0.4 else T(s)
            if s.isdigit() and s[0] != '0' and rng.random() < 0.08:      # the same digits with a fractional part (ten digits and .5, a tiny fraction)
                fr = rng.choice(['5', '25', '00001', '000000001', '5', '75'])
                if len(s) + len(fr) <= 15:
                    a0 = {'t': 'decfrac', 'neg': False, 'dg': [int(c) for c in s], 'fr': [int(c) for c in fr]}
        args = [a0]
        if dst != 'DEC' and rng.random() < 0.6:
            args.append(N(rng.choice([1, 2, 3, 4, 5, 6, 7, 8, 9, 10, 10, 10, 0, 11, -1, 12, 255])))
        path = ('formula', 'cells', 'direct', 'wrapped', 'float')[i % 5]
        if args[0]['t'] == 'decfrac':
            path = ('direct', 'wrapped')[i % 2]
        if path == 'float' and not (args[0]['t'] in ('num', 'dec')):
            path = 'direct'
        ev.append({'f': f, 'args': args, 'path': path})
    return ev


def record(chunk):
    out = []
    for e in chunk:
        obs, stored, text = call(e['f'], e['args'], e['path'])
        if obs is None:
            obs, stored, text = call(e['f'], e['args'], 'direct')
            e = dict(e, path='direct')
        if text:
            e = dict(e, formula=[ord(c) for c in text])
        out.append(dict(e, res=obs))
    return out


_PKG_ONLY = r'''
import json, sys
sys.path.insert(0, sys.argv[1])
import logging
logging.disable(logging.CRITICAL)
import xlcalculator                      # nothing else: what a user of the package does
from xlcalculator import ModelCompiler, Evaluator
out = []
for f, text in json.loads(sys.argv[2]):
    try:
        m = ModelCompiler().read_and_parse_dict({'Sheet1!A1': text})
        v = Evaluator(m).evaluate('Sheet1!A1')
        v = getattr(v, 'value', v)
        if isinstance(v, float) and v.is_integer():
            v = int(v)
        out.append({'ok': True, 'v': v if isinstance(v, (int, str)) else repr(v), 'registered': f in xlcalculator.FUNCTIONS})
    except BaseException as e:
        out.append({'ok': False, 'cls': type(e).__name__, 'msg': str(e)[:200], 'registered': f in xlcalculator.FUNCTIONS})
print(json.dumps(out))
'''

PKG_CASES = [('DEC2BIN', [N(5)]), ('DEC2OCT', [N(-8), N(3)]), ('DEC2HEX', [N(255), N(4)]),
             ('BIN2DEC', [T('1111111111')]), ('BIN2OCT', [T('1000')]), ('BIN2HEX', [T('11111')]),
             ('OCT2DEC', [T('17')]), ('OCT2BIN', [T('7')]), ('OCT2HEX', [T('7777777777')]),
             ('HEX2DEC', [T('FF')]), ('HEX2BIN', [T('1f'), N(8)]), ('HEX2OCT', [T('FFFFFFFFF0')])]


def package_only_events():
    """evaluate one formula per function in an interpreter that only did `import xlcalculator`"""
    jobs = []
    for f, args in PKG_CASES:
        jobs.append((f, calls.formula_text(f, [to_lib(a) for a in args], {})))
    p = subprocess.run([sys.executable, '-c', _PKG_ONLY, xl.REPO, json.dumps(jobs)],
                       stdout=subprocess.PIPE, stderr=subprocess.PIPE, text=True, timeout=300,
                       env={k: v for k, v in os.environ.items() if k != 'PYTHONPATH'})
    if p.returncode != 0:
        raise MachineryError('package-only subprocess failed: ' + p.stderr[-500:])
    res = json.loads(p.stdout.strip().splitlines()[-1])
    ev = []
    for (f, args), (_, text), r in zip(PKG_CASES, jobs, res):
        if r['ok']:
            v = r['v']
            if isinstance(v, int):
                obs = dec_of_int(v)
            elif isinstance(v, str) and v.startswith('#'):
                obs = {'t': 'err', 'v': v}
            else:
                obs = T(v)
        else:
            obs = {'t': 'exc', 'cls': r['cls'], 'msg': r['msg']}
        ev.append({'f': f, 'args': args, 'path': 'package-only', 'formula': [ord(c) for c in text], 'res': obs})
    return ev, sum(1 for r in res if r['registered'])


def trace_features(e, x, v):
    case = {'f': e['f'], 'args': e['args']}
    f = features(case, x or {'t': 'none'}, e['res'], e.get('path'))
    f['verdict'] = v
    return f


BUG_MODELS = {}


def run(run):
    quick = run.tier == 'quick'
    L = xl.lib()
    run.notes['engineering_registered_by_package'] = bool(L.engineering_registered_by_package)

    t0 = time.time()
    phases = run.notes.setdefault('phase_seconds', {})

    # ---- spec -> code
    r = run.tlc('MC_C19', 'C19_quick.cfg' if quick else 'C19_thorough.cfg', dump=True, timeout=3000)
    phases['tlc_instance'] = round(time.time() - t0, 1)
    blocks = pool.dump_blocks(r.dump, skip_substr='"pending"')
    byf, bypath = replay_dump(run, blocks, cells_every=4 if quick else 1)
    # the same calls in four orders, each order in ONE fresh process (state left behind by earlier calls)
    from harness import calls as _calls
    _calls.replay_orders(run, blocks, Replayer(paths=('direct', 'wrapped')), key=lambda b: len(b), sample=20000)
    phases['replay'] = round(time.time() - t0, 1)
    os.remove(r.dump)
    run.notes['cases_by_function'] = byf
    run.notes['calls_by_path'] = bypath
    if len(byf) != 12 or min(byf.values()) < 1000:
        raise MachineryError(f'vacuous instance: cases by function {byf}')
    run.rule = ('cases = all done-states of MC_C19: EVERY integer of -Hi..Hi (Hi >= 520, a superset of the binary window '
                '-512..511) x places in {omitted, 0..11} x the twelve functions, spelt canonically / in lower case / with '
                'leading zeros / as a number; +-2^k+d for k = 4..41 (|d| <= 4 at the window and machine-word edges); '
                'pseudo-random 30/40-bit patterns; every invalid-input class.  Distinct by TLC fingerprint; '
                'non-trivial = expected result determined.  Each case is executed on the call paths direct, float, wrapped, '
                'formula and (quick tier: every 4th case) formula with cell references.')
    run.exhaustive = True
    run.assumptions += [
        'an empty cell and (for BIN/OCT/HEX sources) the empty text count as 0, non-numeric text given to DEC2x is '
        '#VALUE!: not stated by C19, taken from the Excel results cached in BASES.xlsx',
        'left open: `places` given as text or with a fraction, fractional numbers and numeric text for DEC2x, error arguments',
        'when two clauses demand different error codes (e.g. boolean number and places = 0) any Excel error is accepted',
    ]

    # ---- code -> spec (a): the specification must reproduce Excel's cached results
    anchor, skipped = anchor_cases(os.path.join(xl.REPO, 'tests', 'resources', 'BASES.xlsx'))
    if len(anchor) < 2500:
        raise MachineryError(f'BASES.xlsx: only {len(anchor)} conversions found')
    ev_a = [{'f': f, 'args': args, 'path': 'excel', 'cell': [ord(c) for c in sh + '!' + addr], 'res': res}
            for sh, addr, f, args, res in anchor]
    keep = run.disagreements
    run.disagreements = []
    nt0, tr0, un0 = run.nontrivial_count, run.traces, run.undetermined
    res_a = trace.validate(run, ev_a, module='Trace_C19', name='anchor')
    bad = [(e, v, x) for e, v, x in res_a if v not in ('ok', 'open')]
    n_open = sum(1 for e, v, x in res_a if v == 'open')
    run.disagreements = keep
    run.nontrivial_count, run.traces, run.undetermined = nt0, tr0, un0      # Excel's results are not implementation traces
    run.notes['anchor'] = {'excel_conversions': len(anchor), 'reproduced_by_spec': len(anchor) - n_open - len(bad),
                           'left_open_by_spec': n_open, 'skipped_no_exact_form': skipped}
    if bad:
        e, v, x = bad[0]
        raise MachineryError(f'SPEC DEFECT: {len(bad)} Excel results in BASES.xlsx are not reproduced by XlBits, e.g. '
                             f"{''.join(map(chr, e['cell']))} {e['f']} args={e['args']} excel={e['res']} spec={x} ({v})")
    if n_open > len(anchor) // 20:
        raise MachineryError(f'anchor: {n_open} of {len(anchor)} Excel results left open by the spec')

    phases['anchor'] = round(time.time() - t0, 1)

    # ---- code -> spec (b, c, d): recorded library calls validated by TLC
    events = [{'f': f, 'args': args, 'path': 'cells'} for sh, addr, f, args, res in anchor if all(a['t'] != 'err' for a in args)]
    events += driver(run.seed, 4000 if quick else 100000)
    recorded = [e for part in pool.pmap(record, events) for e in part]
    pkg, n_reg = package_only_events()
    run.notes['package_only'] = {'functions_registered_by_import_xlcalculator': n_reg, 'formulas_evaluated': len(pkg)}
    recorded += pkg
    run.evaluations += len(recorded)
    res = trace.validate(run, recorded, module='Trace_C19', features=trace_features)
    run.sample({'trace_event': res[-1][0], 'verdict': res[-1][1]})
    run.notes['trace_events'] = len(recorded) + len(ev_a)
    phases['traces'] = round(time.time() - t0, 1)


def replay(path):
    d = json.load(open(path))
    case = d['case']
    clause = d.get('clause')
    p = case.get('path') or (clause if clause in PATHS else 'formula' if clause == 'formula-stored' else 'direct')
    if p == 'package-only':
        ev, _ = package_only_events()
        obs = next(e['res'] for e in ev if e['f'] == case['f'])
    else:
        obs, stored, text = call(case['f'], case['args'], p)
        if clause == 'formula-stored':
            obs = stored
    print('case', json.dumps(case), '\nexpected', d['expected'], '\nobserved', obs)
    if obs is not None and d['expected'] and agree(obs, d['expected']) is False:
        print(f"VIOLATION property={d['property']} replay={path}")
        return 1
    print('agrees now')
    return 0

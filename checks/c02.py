"""C02 - every well-formed formula parses to the tree its text denotes."""
import random
import re
from fractions import Fraction

from harness import pool, trace, xl

_CELL = re.compile(r'^(\$?)([A-Za-z]{1,3})(\$?)(\d+)$')


def col_num(s):
    n = 0
    for ch in s.upper():
        n = n * 26 + (ord(ch) - 64)
    return n


def split_ref(text):
    sheet = ''
    if '!' in text:
        sheet, text = text.rsplit('!', 1)
        if len(sheet) >= 2 and sheet[0] == "'" and sheet[-1] == "'":
            sheet = sheet[1:-1].replace("''", "'")
    if ':' in text:
        a, b = text.split(':', 1)
        if '!' in b:
            b = b.rsplit('!', 1)[1]
        ma, mb = _CELL.match(a), _CELL.match(b)
        if ma and mb:
            return ('range', sheet, col_num(ma.group(2)), int(ma.group(4)), col_num(mb.group(2)), int(mb.group(4)))
        return ('name', sheet + '!' + text if sheet else text)
    m = _CELL.match(text)
    if m:
        return ('ref', sheet, col_num(m.group(2)), int(m.group(4)))
    return ('name', text)


def walk(node):
    """implementation parse tree -> canonical tuple"""
    L = xl.lib()
    A = L.ast_nodes
    if isinstance(node, A.FunctionNode):
        return ('call', str(node.tvalue), tuple(walk(a) for a in node.args))
    if isinstance(node, A.OperatorNode):
        if node.ttype == 'operator-prefix':
            return ('neg', walk(node.right))
        if node.ttype == 'operator-postfix':
            return ('pct', walk(node.left))
        r = node.right
        if node.tvalue == '*' and isinstance(r, A.OperandNode) and not isinstance(r, A.RangeNode) \
                and isinstance(r.tvalue, float) and r.tvalue == 0.01:
            return ('pct', walk(node.left))       # the library's encoding of a postfix % (a literal's % is folded by the tokenizer)
        return ('bin', str(node.tvalue), walk(node.left), walk(node.right))
    if isinstance(node, A.RangeNode):
        return split_ref(str(node.tvalue))
    if isinstance(node, A.OperandNode):
        st = node.tsubtype
        v = node.tvalue
        if st == 'number':
            if isinstance(v, str):
                return ('num', Fraction(v))
            return ('num', Fraction(v).limit_denominator(10 ** 9))
        if st == 'text':
            return ('str', tuple(ord(c) for c in v))
        if st == 'logical':
            return ('bool', str(v).upper() == 'TRUE')
        if st == 'error':
            return ('err', str(v))
        return ('operand?', st, repr(v))
    return ('node?', type(node).__name__)


def fold_pct(x):
    """a percent sign on a numeric literal is part of the literal (50% is the number 0.5)"""
    if x[0] == 'num':
        return ('num', None if x[1] is None else x[1] / 100)
    return ('pct', x)


def inorder(t, acc=None):
    """token sequence of a canonical tree, ignoring how operators associate"""
    acc = [] if acc is None else acc
    k = t[0]
    if k == 'bin':
        inorder(t[2], acc)
        acc.append(t[1])
        inorder(t[3], acc)
    elif k == 'pct':
        inorder(t[1], acc)
        acc.append('%')
    elif k == 'neg':
        acc.append('u-')
        inorder(t[1], acc)
    elif k == 'call':
        acc.append(('call', t[1], tuple(tuple(inorder_norm(a)) for a in t[2])))
    else:
        acc.append(t)
    return acc


def inorder_norm(t):
    """in-order tokens with the library's '* 0.01' encoding of % folded back to '%'"""
    seq = inorder(t)
    out = []
    i = 0
    while i < len(seq):
        if seq[i] == '*' and i + 1 < len(seq) and seq[i + 1] == ('num', Fraction(1, 100)):
            out.append('%')
            i += 2
        else:
            out.append(seq[i])
            i += 1
    return out


def risky_pct(t, parent=None, side=None):
    """a postfix % on a non-literal operand placed under ^ or to the right of * and /"""
    k = t[0]
    if k == 'pct':
        if parent == '^' or (parent in ('*', '/') and side == 'r'):
            return True
        return risky_pct(t[1])
    if k == 'bin':
        return risky_pct(t[2], t[1], 'l') or risky_pct(t[3], t[1], 'r')
    if k == 'neg':
        return risky_pct(t[1])
    if k == 'call':
        return any(risky_pct(a) for a in t[2])
    return False


def canon(a):
    """expected tree (TLA+ record as dict) -> canonical tuple"""
    k = a['k']
    if k == 'num':
        v = a['v']
        return ('num', Fraction(v['n'], v['d'])) if v['t'] == 'num' else ('num', None)
    if k == 'str':
        return ('str', tuple(a['v']))
    if k == 'bool':
        return ('bool', a['v'])
    if k == 'err':
        return ('err', a['v'])
    if k == 'ref':
        return ('ref', a['sheet'], a['col'], a['row'])
    if k == 'range':
        return ('range', a['sheet'], a['c1'], a['r1'], a['c2'], a['r2'])
    if k == 'name':
        return ('name', a['v'])
    if k == 'call':
        return ('call', a['f'], tuple(canon(x) for x in a['args']))
    if k == 'bin':
        return ('bin', a['op'], canon(a['l']), canon(a['r']))
    if k == 'neg':
        return ('neg', canon(a['x']))
    if k == 'pct':
        return ('pct', canon(a['x']))          # Canon has already folded a % written directly after a literal
    if k == 'paren':
        return canon(a['x'])
    raise xl.MachineryError(f'unknown node {k}')


def first_diff(e, o, path=''):
    if not (isinstance(e, tuple) and isinstance(o, tuple)) or not e or not o or e[0] != o[0]:
        return path + '/' + (str(e[0]) if isinstance(e, tuple) and e else '?') + '->' + (str(o[0]) if isinstance(o, tuple) and o else '?')
    if e[0] == 'call':
        if e[1] != o[1]:
            return path + '/call-name'
        if len(e[2]) != len(o[2]):
            return path + f'/call-arity:{len(e[2])}->{len(o[2])}'
        for i, (x, y) in enumerate(zip(e[2], o[2])):
            if x != y:
                return first_diff(x, y, path + f'/call.arg')
    if e[0] == 'bin':
        if e[1] != o[1]:
            return path + '/bin-op'
        if e[2] != o[2]:
            return first_diff(e[2], o[2], path + '/bin.l')
        return first_diff(e[3], o[3], path + '/bin.r')
    if e[0] in ('neg', 'pct'):
        return first_diff(e[1], o[1], path + '/' + e[0])
    return path + '/' + e[0] + '-value'


def literals_of(t, acc=None):
    """contents of the string literals of a canonical tree"""
    acc = set() if acc is None else acc
    if isinstance(t, tuple):
        if t and t[0] == 'str':
            acc.add(''.join(map(chr, t[1])))
        else:
            for x in t:
                literals_of(x, acc)
    elif isinstance(t, list):
        for x in t:
            literals_of(x, acc)
    return acc


def parse_text(text, names=None):
    L = xl.lib()
    try:
        tree = L.parser.FormulaParser().parse(text, dict(names or {}))
        w = walk(tree)
    except BaseException as e:      # noqa
        if isinstance(e, (KeyboardInterrupt, SystemExit)):
            raise
        return ('exc', type(e).__name__, str(e)[:120])
    try:
        L.xltypes.XLFormula(text, 'Sheet1')
    except BaseException as e:      # noqa
        if isinstance(e, (KeyboardInterrupt, SystemExit)):
            raise
        return ('exc-XLFormula', type(e).__name__, str(e)[:120])
    return w


def has_open_num(c):
    if isinstance(c, tuple):
        if c and c[0] == 'num' and c[1] is None:
            return True
        return any(has_open_num(x) for x in c)
    return False


def worker(blocks):
    out = {'n': 0, 'open': 0, 'dis': [], 'samples': [], 'kinds': {}, 'texts': {}}
    for b in blocks:
        st = pool.parse_block(b)
        case, exp = st['case'], st['res']
        out['n'] += 1
        out['kinds'][case['kind']] = out['kinds'].get(case['kind'], 0) + 1
        text = ''.join(map(chr, case['text']))
        e = canon(exp)
        if has_open_num(e):
            out['open'] += 1
            continue
        o = parse_text(text)
        if len(out['samples']) < 2:
            out['samples'].append({'formula': text, 'expected_tree': repr(e)[:300], 'observed_tree': repr(o)[:300]})
        if o != e:
            same_tokens = o[0] not in ('exc', 'exc-XLFormula') and inorder_norm(e) == inorder_norm(o)
            out['dis'].append({'case': {'formula': text, 'kind': case['kind'], 'risky_pct': risky_pct(e), 'same_tokens': same_tokens},
                               'exp': repr(e), 'obs': repr(o),
                               'features': {'kind': case['kind'], 'diff': first_diff(e, o) if o[0] not in ('exc', 'exc-XLFormula') else o[0] + ':' + o[1]}})
            continue
        # the same text parsed with a defined-name table whose names are the CONTENTS of its string literals (and a few more
        # that do not occur in it): no operand of the formula is a defined name, the tree must be the same
        import re as _re
        bare = _re.sub(r'"(?:[^"]|"")*"', '""', text).upper()
        lits = {x for x in literals_of(e)
                if _re.fullmatch(r'[A-Za-z_][A-Za-z0-9_.]*', x)              # something Excel accepts as a name ...
                and not _re.fullmatch(r'\$?[A-Za-z]{1,3}\$?[0-9]+', x)       # ... that is no cell reference
                and x.upper() not in ('TRUE', 'FALSE')
                and x.upper() not in bare}                                  # ... and occurs nowhere outside the literals
        if lits:
            names = {x: 'Sheet1!$C$3' for x in lits}
            names.update({'Rate': 'Sheet1!$C$4', 'total_1': 'Sheet1!$A$1:$B$2'})
            o2 = parse_text(text, names)
            if o2 != e:
                out['dis'].append({'case': {'formula': text, 'kind': case['kind'], 'defined_names': sorted(names)[:6]},
                                   'exp': repr(e), 'obs': repr(o2),
                                   'features': {'kind': case['kind'], 'diff': 'with-names:' + (first_diff(e, o2) if o2[0] not in ('exc', 'exc-XLFormula') else o2[0] + ':' + o2[1])}})
    return out


def to_tla(t):
    """canonical tuple -> JSON in the shape of Trace_Parse!Canon"""
    k = t[0]
    if k == 'num':
        fr = t[1]
        if fr is None or abs(fr.numerator) >= 2 ** 31 or fr.denominator >= 2 ** 31:
            return {'k': 'num', 'v': {'t': 'float', 'v': str(fr)}}
        return {'k': 'num', 'v': {'t': 'num', 'n': fr.numerator, 'd': fr.denominator}}
    if k == 'str':
        return {'k': 'str', 'v': list(t[1])}
    if k == 'bool':
        return {'k': 'bool', 'v': t[1]}
    if k == 'err':
        return {'k': 'err', 'v': t[1]}
    if k == 'ref':
        return {'k': 'ref', 'sheet': t[1], 'col': t[2], 'row': t[3], 'ac': False, 'ar': False}
    if k == 'range':
        return {'k': 'range', 'sheet': t[1], 'c1': t[2], 'r1': t[3], 'a1': False, 'b1': False,
                'c2': t[4], 'r2': t[5], 'a2': False, 'b2': False}
    if k == 'name':
        return {'k': 'name', 'v': t[1]}
    if k == 'call':
        return {'k': 'call', 'f': t[1], 'at': False, 'args': [to_tla(a) for a in t[2]]}
    if k == 'bin':
        return {'k': 'bin', 'op': t[1], 'l': to_tla(t[2]), 'r': to_tla(t[3])}
    if k in ('neg', 'pct'):
        return {'k': k, 'x': to_tla(t[1])}
    return {'k': 'exc', 'cls': str(t[1]) if len(t) > 1 else str(t)}


FUNCS = ['SUM', 'IF', 'LEN', 'CONCAT', 'MAX', 'PI', 'NA', 'ABS', 'CHOOSE', 'LEFT', 'AND', 'VLOOKUP']
SHEETS = ['', '', 'Sheet2', 'S 2', "O'x", 'Data 2', '2024', '1st Q', 'TRUE1']
STRCH = '"\'!#%(),:;[]{} aA1\u00e9=+-<>&*/^$@.'


def gen_ast(rng, budget):
    from harness import syntax as S
    if budget <= 1:
        r = rng.random()
        if r < 0.2:
            return S.num(rng.choice(['2', '0.5', '50%', '1E+2', '2.5E-1', '12345', '0', '7.25']))
        if r < 0.4:
            return S.strlit(''.join(rng.choice(STRCH) for _ in range(rng.choice([0, 1, 2, 3, 6]))))
        if r < 0.45:
            return {'k': 'bool', 'v': rng.random() < 0.5}
        if r < 0.5:
            return {'k': 'err', 'v': rng.choice(['#N/A', '#DIV/0!', '#REF!', '#NAME?', '#NULL!', '#VALUE!', '#NUM!'])}
        if r < 0.8:
            return S.ref(rng.choice([1, 2, 26, 27, 52, 703]), rng.choice([1, 2, 10, 99, 1048576]), rng.choice(SHEETS),
                         rng.random() < 0.3, rng.random() < 0.3)
        if r < 0.93:
            a = S.rng(rng.randint(1, 3), rng.randint(1, 5), rng.randint(3, 30), rng.randint(5, 40), rng.choice(SHEETS))
            for f in ('a1', 'b1', 'a2', 'b2'):
                a[f] = rng.random() < 0.3
            return a
        return S.call(rng.choice(['PI', 'NA', 'TRUE', 'NOW']), [])
    r = rng.random()
    if r < 0.4:
        n = rng.randint(1, min(4, budget - 1))
        parts = [max(1, (budget - 1) // n)] * n
        return S.call(rng.choice(FUNCS), [gen_ast(rng, p) for p in parts], at=rng.random() < 0.1)
    if r < 0.8:
        k = rng.randint(1, budget - 2) if budget > 2 else 1
        return S.bin_(rng.choice(S.BINOPS), gen_ast(rng, k), gen_ast(rng, budget - 1 - k))
    if r < 0.9:
        x = gen_ast(rng, budget - 1)
        return S.neg(x) if x['k'] != 'pct' else x
    x = gen_ast(rng, budget - 1)
    if x['k'] in ('ref', 'call', 'paren', 'bin'):          # x% on a reference, call or parenthesis
        return S.pct(x)
    return S.paren(x)


def has_neg_pct(a):
    k = a['k']
    if k == 'neg':
        return a['x']['k'] == 'pct' or has_neg_pct(a['x'])
    if k == 'pct':
        return a['x']['k'] == 'neg' or has_neg_pct(a['x'])
    if k == 'paren':
        return has_neg_pct(a['x'])
    if k == 'bin':
        return has_neg_pct(a['l']) or has_neg_pct(a['r'])
    if k == 'call':
        return any(has_neg_pct(x) for x in a['args'])
    return False


def driver(seed, count):
    from harness import syntax as S
    rng = random.Random(seed * 15485863 + 2)
    evs = []
    while len(evs) < count:
        t = gen_ast(rng, rng.choice([2, 3, 5, 8, 11, 14]))
        if has_neg_pct(t):
            continue
        t = S.min_paren(t)
        st = dict(S.STYLE0)
        if rng.random() < 0.6:
            for key in ('lead', 'trail', 'opl', 'opr', 'po', 'pc', 'cb', 'ca'):
                if rng.random() < 0.35:
                    st[key] = rng.choice([[32], [32, 32], [10], [10, 32]])
        st['eq'] = rng.random() < 0.9
        evs.append({'ast': t, 'style': st, 'text': [ord(c) for c in S.formula(t, st)]})
    return evs


def record(chunk):
    out = []
    for e in chunk:
        o = parse_text(''.join(map(chr, e['text'])))
        out.append(dict(e, tree=to_tla(o)))
    return out


def canon_tla(a):
    """expected tree as returned by Trace_Parse (already canonical) -> tuple"""
    k = a['k']
    if k == 'num':
        v = a['v']
        return ('num', Fraction(v['n'], v['d']) if v['t'] == 'num' else None)
    if k == 'pct':
        return ('pct', canon_tla(a['x']))
    return canon(a) if k not in ('bin', 'neg', 'call') else (
        ('bin', a['op'], canon_tla(a['l']), canon_tla(a['r'])) if k == 'bin' else
        ('neg', canon_tla(a['x'])) if k == 'neg' else ('call', a['f'], tuple(canon_tla(x) for x in a['args'])))


def trace_features(e, x, v):
    case = {'verdict': v}
    try:
        ex = canon_tla(x)
        ob = parse_text(''.join(map(chr, e['text'])))
        case['risky_pct'] = risky_pct(ex)
        case['same_tokens'] = ob[0] not in ('exc', 'exc-XLFormula') and inorder_norm(ex) == inorder_norm(ob)
    except Exception:
        pass
    return case


def bug_pct_encoding(d):
    c = d['case'] if d['kind'] == 'parse' else d['features']
    return d['kind'] in ('parse', 'trace-parse') and bool(c.get('risky_pct')) and bool(c.get('same_tokens'))


BUG_MODELS = {'pct_encoding_precedence': bug_pct_encoding}


def run(run):
    quick = run.tier == 'quick'
    r = run.tlc('MC_C02', 'C02_quick.cfg' if quick else 'C02_thorough.cfg', dump=True, timeout=1500)
    blocks = pool.dump_blocks(r.dump, skip_substr='"pending"')
    kinds = {}
    for res in pool.pmap(worker, blocks):
        run.evaluations += res['n'] - res['open']
        run.traces += res['n'] - res['open']
        run.nontrivial_count += res['n'] - res['open']
        run.undetermined += res['open']
        for k, v in res['kinds'].items():
            kinds[k] = kinds.get(k, 0) + v
        for s in res['samples']:
            run.sample(s)
        for d in res['dis']:
            run.disagree('parse', d['case'], d['exp'], d['obs'], d['features'], clause='tree')
    run.notes['cases_by_family'] = kinds
    # code -> spec: seeded random ASTs (<= 14 nodes) with random styles, parsed by the library, validated by TLC
    events = driver(run.seed, 3000 if quick else 40000)
    recorded = [e for part in pool.pmap(record, events) for e in part]
    run.evaluations += len(recorded)
    res = trace.validate(run, recorded, module='Trace_Parse', batch=5000, kind='trace-parse', features=trace_features)
    bad = [v for _, v, _ in res if v.startswith('generator')]
    if bad:
        raise xl.MachineryError(f'seeded generator disagrees with the specification rendering: {bad[:3]}')
    run.sample({'trace_event_formula': ''.join(map(chr, res[0][0]['text'])), 'verdict': res[0][1]})
    run.notes['trace_events'] = len(recorded)
    # the front end as two composed state machines (XlTokenizer, XlParser): TLC proves that they refine the syntax
    # specification on the well-formed families and runs them on every short string; both directions of conformance
    # with xlcalculator/tokenizer.py and parser.py (token list, reverse polish list, tree)
    from checks import parsemachine
    parsemachine.run_all(run, quick)
    run.rule = ('cases = done-states of MC_C02: every atom kind in every context in every context (two levels), every string of '
                'length <= StrLen over the tokenizer delimiter alphabet in 6 contexts, every reference spelling, call arities 0..4 '
                'with nested calls and @, every gap class x gap kind on skeleton formulas; expected tree = Erase(ast) with numeric '
                'literals by value; distinct by TLC fingerprint (distinct text or tree)')
    run.exhaustive = True


def replay(path):
    import json
    d = json.load(open(path))
    o = parse_text(d['case']['formula'])
    print('formula', d['case']['formula'], '\nexpected', d['expected'], '\nobserved', repr(o))
    if repr(o) != d['expected']:
        print(f"VIOLATION property={d['property']} replay={path}")
        return 1
    return 0

"""C04 - evaluation always reflects the current inputs (no stale results)."""
import random

from harness import pool, workbook as W, xl
from harness.agree import agrees, klass

SHAPES = {}


def shape_def(run_or_none, shape):
    return SHAPES[shape]


def load_shapes(run):
    """The shapes live in the TLA+ module; ask TLC for them once (MC_C04 prints ShapeDef)."""
    r = run.tlc('MC_C04S', 'C04_shapes.cfg', dump=True, timeout=120, workers=1, name='shapes')
    for b in pool.dump_blocks(r.dump):
        st = pool.parse_block(b)
        SHAPES[st['shape']] = st['sdef']
    return SHAPES


def apply_history(shape, hist, sdef, via='dict', work=None, nevaluators=1):
    """Replay one history on a fresh model; yield (step index, clause, expected, observed)."""
    L = xl.lib()
    pycells = W.to_python_cells(sdef['cells'])
    names = [(n, W.name_ref_text(a)) for n, a in W.name_items(sdef['names'])]
    model = W.build_model(pycells, names, via=via, work=work)
    evs = [L.Evaluator(model) for _ in range(nevaluators)]
    out = []
    cur = dict(pycells)          # the current contents, as set so far
    for i, h in enumerate(hist):
        ev = evs[h.get('e', 1) - 1] if nevaluators > 1 else evs[0]
        a = W.addr(h['x'])
        if h['op'] in ('set', 'setname'):
            cur[a] = xl.from_abs(h['v'], 'native')
        try:
            if h['op'] == 'set':
                # through the evaluator or - in histories whose first step is no evaluation - through the model's own setter
                (model if hist[0]['op'] != 'evaluate' and i % 2 else ev).set_cell_value(a, xl.from_abs(h['v'], 'native'))
                obs = None
            elif h['op'] == 'setname':
                ev.set_cell_value(h['name'], xl.from_abs(h['v'], 'native'))
                obs = None
            elif h['op'] == 'evaluate':
                obs = xl.to_abs(ev.evaluate(a))
            elif h['op'] == 'get':
                obs = xl.to_abs(ev.get_cell_value(a))
            else:
                raise xl.MachineryError(h['op'])
        except xl.MachineryError:
            raise
        except BaseException as e:      # noqa
            if isinstance(e, (KeyboardInterrupt, SystemExit)):
                raise
            obs = xl.to_abs(e)
        if obs is not None and agrees(obs, h['res']) is False:
            out.append((i, h['op'] + '-result', h['res'], obs))
            if obs['t'] == 'exc':
                break
        if h['op'] == 'evaluate' and h['res']['t'] == 'open' and any(x['op'] in ('set', 'setname') for x in hist[:i]):
            # the specification leaves the value open: C04 as it is stated - the response of a freshly compiled model with the current contents
            try:
                fm = W.build_model({k: v for k, v in cur.items() if v is not None}, names, via='dict' if not names else via, work=work)
                fr = xl.to_abs(L.Evaluator(fm).evaluate(a))
            except xl.MachineryError:
                raise
            except BaseException as e:      # noqa
                if isinstance(e, (KeyboardInterrupt, SystemExit)):
                    raise
                fr = xl.to_abs(e)
            same = (obs == fr) or (obs['t'] == 'exc' and fr['t'] == 'exc' and obs.get('cls') == fr.get('cls')) or \
                   (obs['t'] != 'exc' and fr['t'] != 'exc' and agrees(obs, fr) is not False and agrees(fr, obs) is not False)
            if not same:
                out.append((i, 'differs-from-fresh-model', fr, obs))
        for key, exp in W.cell_items(h['stored']):
            try:
                got = xl.to_abs(model.get_cell_value(W.addr(key)))
            except BaseException as e:      # noqa
                got = xl.to_abs(e)
            if agrees(got, exp) is False:
                out.append((i, 'stored-after-' + h['op'], exp, got))
                break
    return out


def short(hist):
    return [[h['op'], h.get('name') or (W.addr(h['x']) if h['x'][0] else '')] + ([h['v'].get('n', h['v'].get('v'))] if h['op'] in ('set', 'setname') else []) for h in hist]


class Worker:
    def __init__(self, work, shapes, maxlen, xlsx_every=40):
        self.work, self.shapes, self.maxlen, self.xlsx_every = work, shapes, maxlen, xlsx_every

    def __call__(self, blocks):
        out = {'n': 0, 'steps': 0, 'dis': [], 'samples': [], 'shapes': {}}
        for bi, b in enumerate(blocks):
            st = pool.parse_block(b)
            hist, shape = st['hist'], st['shape']
            out['n'] += 1
            out['steps'] += len(hist)
            out['shapes'][shape] = out['shapes'].get(shape, 0) + 1
            vias = ['dict'] + (['xlsx'] if bi % self.xlsx_every == 0 else [])
            for via in vias:
                bad = apply_history(shape, hist, self.shapes[shape], via=via, work=self.work)
                for i, clause, exp, obs in bad[:1]:
                    out['dis'].append({'case': {'shape': shape, 'history': short(hist), 'failing_step': i, 'via': via},
                                       'exp': exp, 'obs': obs, 'clause': clause,
                                       'features': {'shape': shape, 'clause': clause, 'prefix_ops': [h['op'] for h in hist[:i + 1]],
                                                    'via': via, 'obs': klass(obs)}})
            if len(out['samples']) < 2:
                out['samples'].append({'shape': shape, 'history': short(hist), 'responses': [h['res'] for h in hist]})
        return out


BUG_MODELS = {}


def replay_histories(run, blocks, maxlen):
    shapes = {}
    for res in pool.pmap(Worker(run.work, SHAPES, maxlen), blocks):
        run.evaluations += res['steps']
        run.traces += res['n']
        run.nontrivial_count += res['n']
        for k, v in res['shapes'].items():
            shapes[k] = shapes.get(k, 0) + v
        for s in res['samples']:
            run.sample(s)
        for d in res['dis']:
            run.disagree('history', d['case'], d['exp'], d['obs'], d['features'], clause=d['clause'])
    return shapes


def repo_test_local_consistency(run):
    """the repository's own, unedited test-suite as a driver: every Evaluator.evaluate() it performs (nested evaluations
    included) is recorded with the values the model holds for the directly addressed cells and judged by TLC (Trace_Local)"""
    import glob
    import json
    import os
    import subprocess
    import sys
    from harness import evalrec
    from harness.core import VERIF
    rec = os.path.join(run.work, 'repotests')
    os.makedirs(rec, exist_ok=True)
    env = dict(os.environ, PYTHONPATH=VERIF, VERIF_REC_FILE=os.path.join(rec, 'ev'), VERIF_DIR=VERIF, XLCALC_REPO=xl.REPO, VERIF_REC_EVAL='1')
    subprocess.run([sys.executable, '-m', 'pytest', '-q', '-p', 'no:cacheprovider', '-p', 'harness.pytest_recorder', '-n', '8',
                    '--timeout=900'], cwd=xl.REPO, env=env, stdout=subprocess.DEVNULL, stderr=subprocess.DEVNULL, timeout=1800)
    evs, seen = [], set()
    for p in sorted(glob.glob(os.path.join(rec, 'ev.eval.*'))):
        for line in open(p):
            e = json.loads(line)
            key = json.dumps([e['ast'], e['sheet'], e['cells'], e['names'], e['res']], sort_keys=True)
            if key not in seen:
                seen.add(key)
                evs.append(e)
    if len(evs) < 200:
        raise xl.MachineryError(f'only {len(evs)} evaluations recorded from the repository test-suite')
    run.evaluations += len(evs)
    verdicts = evalrec.validate(run, evs, name='repotests')
    run.notes['repo_test_evaluations'] = {'events': len(evs), 'verdicts': dict(verdicts)}


def run(run):
    quick = run.tier == 'quick'
    load_shapes(run)
    run.tlc('MC_C04', 'C04_check.cfg', timeout=900)
    for bad in ('C04_bad_need_update.cfg', 'C04_bad_global_memo.cfg'):
        rb = run.tlc('MC_C04', bad, expect_violation=True, timeout=300)
        if rb.violated != 'NoStale':
            raise xl.MachineryError(f'design variant {bad} was not rejected by TLC (NoStale)')
        run.laws[f'variant {bad} rejected'] = rb.violated
    blocks = []
    run.tlc('MC_C04', 'C04_check_neg.cfg', timeout=900)
    for cfg, maxlen in ((('C04_cases.cfg', 3), ('C04_cases_alt.cfg', 2), ('C04_cases_neg.cfg', 3), ('C04_cases_deep.cfg', 3)) if quick else
                        (('C04_cases_thorough.cfg', 4), ('C04_cases_se_thorough.cfg', 5), ('C04_cases_alt.cfg', 2), ('C04_cases_neg_thorough.cfg', 4),
                         ('C04_cases_deep.cfg', 3))):
        r = run.tlc('MC_C04', cfg, dump=True, timeout=2400)
        blocks += [b for b in pool.dump_blocks(r.dump) if b.count('op |->') >= maxlen + 1]   # maximal histories (obs + hist entries)
    maxlen = 4 if quick else 5
    run.notes['histories_by_shape'] = replay_histories(run, blocks, maxlen)
    run.rule = (('all histories of length 3 of Set(input,v) | SetByName | Evaluate(cell) | Get(cell) on 7 model shapes ' if quick else 'all histories of length 4 of Set | SetByName | Evaluate | Get and of length 5 of Set | Evaluate on 7 model shapes ') +
                '(chain, diamond with repeated reference, sum over a range with a formula member, overlapping ranges, named input, cross-sheet pair, the same formula text on two sheets); values set include TRUE over a stored 1; '
                'after every step the response and the stored value of every set/evaluated cell are compared with the specification state; '
                'every history is a distinct TLC state (history variable)')
    run.exhaustive = True
    # code -> spec: random multi-sheet workbooks under random histories, every evaluation judged by TLC (Trace_Local)
    from checks import wbdrive
    v = wbdrive.run_driver(run, 1500 if quick else 25000, mix='c04')
    if sum(n for k, n in v.items() if k != 'open') < 3000:
        raise xl.MachineryError(f'random workbook driver is vacuous: {dict(v)}')
    if not quick:
        repo_test_local_consistency(run)


def replay(path):
    import json
    d = json.load(open(path))
    print(json.dumps(d, indent=1)[:2500])
    return 1

#!/bin/sh
# setup_cmd: offline; verifies tools and parses every specification module.
cd "$(dirname "$0")" || exit 2
set -e
command -v java >/dev/null
test -f /opt/veriftools/tla/tla2tools.jar
/venv/bin/python -c "import xlcalculator" 
mkdir -p .work evidence replay
cd spec
command -v apalache-mc >/dev/null
for m in *.tla; do
  case "$m" in *Apa.tla)   # Apalache instances (EXTENDS Apalache, which only Apalache's own jar provides): its parser and type checker
    apalache-mc typecheck --out-dir=../.work/apa-setup "$m" > ../.work/sany.out 2>&1 || { cat ../.work/sany.out; echo "apalache typecheck failed on $m"; exit 2; }
    rm -rf ../.work/apa-setup; continue;; esac
  java -cp /opt/veriftools/tla/tla2tools.jar:/opt/veriftools/tla/CommunityModules-deps.jar tla2sany.SANY "$m" > ../.work/sany.out 2>&1 || { cat ../.work/sany.out; echo "SANY failed on $m"; exit 2; }
  if grep -q "Semantic errors\|Could not parse\|Fatal errors\|\*\*\* Errors" ../.work/sany.out; then cat ../.work/sany.out; echo "SANY failed on $m"; exit 2; fi
done
echo "setup ok"

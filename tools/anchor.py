#!/venv/bin/python
"""Excel anchor of the SPECIFICATION (DESIGN 4.9): every formula cell of tests/resources/*.xlsx whose formula lies in the
modelled subset is evaluated BY THE SPECIFICATION (TLC, Trace_Formula with Excel's cached value in the place of the
observed result) - the workbook is read by the harness's own XML reader and the formula by the harness's own parser, so
neither the reader nor the parser under test is involved.  A disagreement is a defect of the specification (or a stale
cached value), never of the library.  Usage: tools/anchor.py [file.xlsx ...]"""
import collections
import glob
import json
import os
import sys

sys.path.insert(0, os.path.dirname(os.path.dirname(os.path.abspath(__file__))))
from checks import c11                      # noqa: E402
from harness import core, fparse, trace, xl  # noqa: E402


def raw_value(cell):
    form = cell['form']
    if cell.get('rawt') == 'b' and cell.get('raw') in ('0', '1'):
        return {'t': 'bool', 'v': cell['raw'] == '1'}
    if cell.get('rawt') == 'str' and cell.get('raw') in (None, ''):
        return {'t': 'txt', 'v': []}
    v = form.get('v') or form.get('cached')
    if v and v.get('t') not in (None, 'open'):
        return v
    if cell.get('raw') is not None and cell.get('rawt') in ('n', None):
        n = c11._number(cell['raw'])
        if n is not None and n.get('t') == 'num':
            return n
    return None


def main(files):
    run = core.Run('ANCHOR', 'quick', 0)
    events, skipped = [], collections.Counter()
    for path in files:
        try:
            wb = c11.read_xlsx(path)
        except Exception as e:
            skipped['unreadable:' + type(e).__name__] += 1
            continue
        cells = {(c['sh'], c['col'], c['row']): c for c in wb['cells']}
        asts = {}
        for key, c in cells.items():
            f = c['form']
            if f['f'] in ('fc', 'fn') and f.get('toks'):
                text = ''.join(c11.render_tok(t) for t in f['toks'])
                try:
                    asts[key] = fparse.parse(text)
                except fparse.Unsupported:
                    asts[key] = None
        for key, ast in asts.items():
            cached = raw_value(cells[key]) if cells[key].get('rawt') in ('b', 'str') else cells[key]['form'].get('cached')
            if ast is None:
                skipped['formula-outside-subset'] += 1
                continue
            if cached is None or cached.get('t') in (None, 'open'):
                cached = raw_value(cells[key])
            if cached is None:
                skipped['no-usable-cached-value'] += 1
                continue
            if cached.get('t') == 'blank':
                cached = {'t': 'txt', 'v': []}          # a formula yielding "" has an empty cached string
            # closure of referenced cells
            try:
                need, todo, names = {}, [key], set()
                while todo:
                    k = todo.pop()
                    a = asts.get(k)
                    if a is None and k in asts:
                        raise fparse.Unsupported('dependency outside subset')
                    if a is None:
                        continue
                    refs, nms = fparse.refs_of(a, k[0])
                    names |= nms
                    for r in refs:
                        if r not in need and r in cells:
                            need[r] = True
                            todo.append(r)
                if names:
                    raise fparse.Unsupported('defined name')
                if len(need) > 120:
                    raise fparse.Unsupported('too many cells')
            except fparse.Unsupported:
                skipped['dependencies-outside-subset'] += 1
                continue
            evcells, ok = [], True
            for r in need:
                if r in asts:
                    evcells.append({'sheet': r[0], 'col': r[1], 'row': r[2], 'ast': asts[r]})
                else:
                    v = raw_value(cells[r])
                    if cells[r]['form']['f'] == 'empty':
                        continue
                    if v is None:
                        ok = False
                        break
                    evcells.append({'sheet': r[0], 'col': r[1], 'row': r[2], 'v': v})
            if not ok:
                skipped['referenced-value-not-readable'] += 1
                continue
            from harness import syntax as S
            events.append({'ast': ast, 'style': S.STYLE0, 'text': [ord(ch) for ch in S.formula(ast)], 'sheet': key[0], 'cells': evcells,
                           'res': cached, 'file': os.path.basename(path), 'addr': f'{key[0]}!{S.col_letters(key[1])}{key[2]}'})
    print(f'{len(events)} formula cells in the modelled subset; skipped: {dict(skipped)}')
    res = trace.validate(run, [{k: e[k] for k in ('ast', 'style', 'text', 'sheet', 'cells', 'res')} for e in events], module='Trace_Anchor', batch=2000)
    verdicts = collections.Counter(v for _, v, _ in res)
    print('verdicts:', dict(verdicts))
    byfile = collections.defaultdict(collections.Counter)
    bad = 0
    for (e, v, x), orig in zip(res, events):
        byfile[orig['file']][v] += 1
        if v == 'wrong-value' and x.get('t') == 'bool' and orig['res'] == {'t': 'num', 'n': int(x['v']), 'd': 1}:
            byfile[orig['file']]['ok(bool cached as 0/1)'] += 1          # LibreOffice-written files cache logical results as numbers
            continue
        if v not in ('ok', 'open'):
            bad += 1
            if bad <= 40:
                print(f"  {v}: {orig['file']} {orig['addr']} {''.join(map(chr, orig['text']))[:70]}  excel={json.dumps(orig['res'])[:80]} spec={json.dumps(x)[:80]}")
    print('per file:', {f: dict(c) for f, c in sorted(byfile.items())})
    import shutil
    shutil.rmtree(run.work, ignore_errors=True)
    return 1 if bad else 0


if __name__ == '__main__':
    files = sys.argv[1:] or sorted(glob.glob(os.path.join(xl.REPO, 'tests', 'resources', '*.xlsx')))
    sys.exit(main(files))

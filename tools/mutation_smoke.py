#!/usr/bin/env python3
"""Apply each given diff to a scratch git worktree of /repo, run a property's
check against it (XLCALC_REPO), expect exit 1 (un-listed VIOLATION), clean up.
Usage: mutation_smoke.py Cxx file.diff [file2.diff ...] [--tier quick]
Development tool, not a registered check."""
import os
import shutil
import subprocess
import sys
import tempfile

args = [a for a in sys.argv[1:] if not a.startswith('--')]
tier = 'quick'
if '--tier' in sys.argv:
    tier = sys.argv[sys.argv.index('--tier') + 1]
    args = [a for a in args if a != tier]
prop, diffs = args[0], args[1:]
rc_all = 0
for diff in diffs:
    wt = tempfile.mkdtemp(prefix=f'mut-{prop}-', dir='/tmp')
    out = tempfile.mkdtemp(prefix=f'mutout-{prop}-', dir='/tmp')
    os.rmdir(wt)
    try:
        subprocess.run(['git', '-C', '/repo', 'worktree', 'add', '--detach', '-q', wt, 'HEAD'], check=True)
        a = subprocess.run(['git', '-C', wt, 'apply', os.path.abspath(diff)])
        if a.returncode:
            print(f'{diff}: DOES NOT APPLY')
            rc_all = 2
            continue
        env = dict(os.environ, XLCALC_REPO=wt, VERIF_OUT=out)
        p = subprocess.run(['/verif/check', prop, '--tier', tier], env=env, stdout=subprocess.PIPE,
                           stderr=subprocess.STDOUT, text=True)
        viol = [l for l in p.stdout.splitlines() if l.startswith('VIOLATION')]
        status = 'CAUGHT' if p.returncode == 1 and viol else f'MISSED (rc={p.returncode})'
        if status != 'CAUGHT':
            rc_all = 1
            print(p.stdout[-1500:])
        print(f'{diff}: {status} ({len(viol)} violation groups)')
    finally:
        subprocess.run(['git', '-C', '/repo', 'worktree', 'remove', '--force', wt])
        shutil.rmtree(out, ignore_errors=True)
sys.exit(rc_all)

#!/venv/bin/python
"""Demonstrate that the specifications are BOUND to the code: recorded traces are accepted as they are and
rejected as soon as one recorded field is corrupted or one recorded step is dropped (DESIGN section 5.5).

  1. Trace_Parser  : a recorded parse with one token value / one argument count / the tree changed  -> rejected
  2. Trace_Formula : a recorded evaluation with the result changed                                   -> rejected
  3. Trace_Tokens  : a recorded tokenization with one token dropped                                  -> rejected
Each trace is also validated unmodified (accepted).  Exit 0 when every expectation holds.
Development tool, not a registered check."""
import copy
import os
import sys

sys.path.insert(0, os.path.dirname(os.path.dirname(os.path.abspath(__file__))))
from harness.core import Run                      # noqa: E402
from harness import trace                         # noqa: E402
from checks import c01, parsemachine as P, tokens as T   # noqa: E402

run = Run('SELFTEST', 'quick', 1)
ok = True


def expect(name, verdicts, want_ok):
    global ok
    good = all(v in ('ok', 'open') for v in verdicts) and any(v == 'ok' for v in verdicts)
    if good != want_ok:
        ok = False
    print(f"{'PASS' if good == want_ok else 'FAIL'}  {name}: verdicts {sorted(set(verdicts))} ({'accepted' if good else 'rejected'}, expected {'accepted' if want_ok else 'rejected'})")


texts = ['=SUM(A1:B2,3)*-2^2', '=IF(A1>=10%,"x""y",\'S 2\'!$C$3&"z")', '=1E+5+3', '=(1+2)*3']
base = P.record(texts)
expect('Trace_Parser, recorded parses as they are', P.validate(run, copy.deepcopy(base)), True)
e = copy.deepcopy(base)
e[0]['rpn'][0]['tok']['v']['v'][0] += 1                # one character of one token value
expect('Trace_Parser, one token value changed', P.validate(run, e)[:1], False)
e = copy.deepcopy(base)
for n in e[0]['rpn']:
    if n['tok']['ty'] == 'function':
        n['nargs'] += 1                                # the argument count of SUM
expect('Trace_Parser, argument count changed', P.validate(run, e)[:1], False)
e = copy.deepcopy(base)
e[3]['tree']['l'], e[3]['tree']['r'] = e[3]['tree']['r'], e[3]['tree']['l']   # operands of * swapped in the recorded tree
expect('Trace_Parser, tree changed', P.validate(run, e)[3:], False)
run.disagreements.clear()

tok = T.record(texts)
expect('Trace_Tokens, recorded tokenizations as they are', T.validate(run, copy.deepcopy(tok)), True)
e = copy.deepcopy(tok)
del e[1]['toks'][2]
expect('Trace_Tokens, one token dropped', T.validate(run, e)[1:2], False)
run.disagreements.clear()

evs = c01.driver(1, 6)
rec = [x for part in [c01.record(evs)] for x in part]
res = trace.validate(run, copy.deepcopy(rec), module='Trace_Formula')
expect('Trace_Formula, recorded evaluations as they are', [v for _, v, _ in res], True)
e = copy.deepcopy(rec)
for x in e:
    if x['res'].get('t') == 'num':
        x['res']['n'] += 1
res = trace.validate(run, e, module='Trace_Formula')
expect('Trace_Formula, every numeric result off by 1/d', [v for x, v, _ in res if x['res'].get('t') == 'num'], False)
import shutil
shutil.rmtree(run.work, ignore_errors=True)
print('selftest', 'ok' if ok else 'FAILED')
sys.exit(0 if ok else 1)

#!/venv/bin/python
"""Demonstrate that the specifications are BOUND to the code: recorded traces are accepted as they are and
rejected as soon as one recorded field is corrupted or one recorded step is dropped (DESIGN section 5.5).

  1. Trace_Parser  : a recorded parse with one token value / one argument count / the tree changed  -> rejected
  2. Trace_Formula : a recorded evaluation with the result changed                                   -> rejected
  3. Trace_Tokens  : a recorded tokenization with one token dropped                                  -> rejected
  4. Trace_Local   : histories of the random workbook driver; a response changed, a set_cell_value of the history
                     withheld from the driver's bookkeeping (the recorded constant keeps its old value)      -> rejected
Each trace is also validated unmodified (accepted).  Exit 0 when every expectation holds.
Development tool, not a registered check."""
import copy
import os
import sys

sys.path.insert(0, os.path.dirname(os.path.dirname(os.path.abspath(__file__))))
from harness.core import Run                      # noqa: E402
from harness import trace                         # noqa: E402
from checks import c01, parsemachine as P, tokens as T   # noqa: E402

run = Run('SELFTEST', 'quick', 1)
ok = True


def expect(name, verdicts, want_ok):
    global ok
    good = all(v in ('ok', 'open') for v in verdicts) and any(v == 'ok' for v in verdicts)
    if good != want_ok:
        ok = False
    print(f"{'PASS' if good == want_ok else 'FAIL'}  {name}: verdicts {sorted(set(verdicts))} ({'accepted' if good else 'rejected'}, expected {'accepted' if want_ok else 'rejected'})")


texts = ['=SUM(A1:B2,3)*-2^2', '=IF(A1>=10%,"x""y",\'S 2\'!$C$3&"z")', '=1E+5+3', '=(1+2)*3']
base = P.record(texts)
expect('Trace_Parser, recorded parses as they are', P.validate(run, copy.deepcopy(base)), True)
e = copy.deepcopy(base)
e[0]['rpn'][0]['tok']['v']['v'][0] += 1                # one character of one token value
expect('Trace_Parser, one token value changed', P.validate(run, e)[:1], False)
e = copy.deepcopy(base)
for n in e[0]['rpn']:
    if n['tok']['ty'] == 'function':
        n['nargs'] += 1                                # the argument count of SUM
expect('Trace_Parser, argument count changed', P.validate(run, e)[:1], False)
e = copy.deepcopy(base)
e[3]['tree']['l'], e[3]['tree']['r'] = e[3]['tree']['r'], e[3]['tree']['l']   # operands of * swapped in the recorded tree
expect('Trace_Parser, tree changed', P.validate(run, e)[3:], False)
run.disagreements.clear()

tok = T.record(texts)
expect('Trace_Tokens, recorded tokenizations as they are', T.validate(run, copy.deepcopy(tok)), True)
e = copy.deepcopy(tok)
del e[1]['toks'][2]
expect('Trace_Tokens, one token dropped', T.validate(run, e)[1:2], False)
run.disagreements.clear()

evs = c01.driver(1, 6)
rec = [x for part in [c01.record(evs)] for x in part]
res = trace.validate(run, copy.deepcopy(rec), module='Trace_Formula')
expect('Trace_Formula, recorded evaluations as they are', [v for _, v, _ in res], True)
e = copy.deepcopy(rec)
for x in e:
    if x['res'].get('t') == 'num':
        x['res']['n'] += 1
res = trace.validate(run, e, module='Trace_Formula')
expect('Trace_Formula, every numeric result off by 1/d', [v for x, v, _ in res if x['res'].get('t') == 'num'], False)
run.disagreements.clear()

# 4. the random workbook driver: events as recorded / a response changed / one set step dropped from the event's constants
from checks import wbdrive        # noqa: E402
evs = []
for seed in range(900, 1300):
    evs += [x for x in wbdrive.drive(seed, run.work, 'c04') if 'build_failed' not in x]
clean = lambda es: [{k: x[k] for k in ('ast', 'sheet', 'cells', 'names', 'res', 'addr', 'text')} for x in es]
res = trace.validate(run, clean(evs), module='Trace_Local', name='local-asis')
expect('Trace_Local, driver events as they are', [v for _, v, _ in res], True)
run.disagreements.clear()
e = copy.deepcopy(evs)
hit = [x for x in e if x['res'].get('t') == 'num']
for x in hit:
    x['res']['n'] += x['res']['d']                       # every numeric response off by one
res = trace.validate(run, clean(hit), module='Trace_Local', name='local-res')
expect('Trace_Local, numeric responses off by one', [v for _, v, _ in res if v != 'open'], False)
run.disagreements.clear()
# a set step withheld: the constant a formula reads keeps the value it had BEFORE the last set of the history
e = []
for x in copy.deepcopy(evs):
    sets = [h for h in x['meta']['history'] if h[0] == 'set' and isinstance(h[2], dict) and h[2].get('t') == 'num']
    if not sets:
        continue
    a, v = sets[-1][1], sets[-1][2]
    for c in x['cells']:
        if 'v' in c and f"{c['sheet']}!{wbdrive.S.col_letters(c['col'])}{c['row']}" == a and c['v'] == v:
            c['v'] = {'t': 'num', 'n': v['n'] + 7 * v['d'], 'd': v['d']}
            e.append(x)
            break
res = trace.validate(run, clean(e), module='Trace_Local', name='local-set')
verd = [v for _, v, _ in res]
print(f'      ({len(e)} events read a cell that the history had set; {sum(1 for v in verd if v not in ("ok", "open"))} rejected)')
expect('Trace_Local, a set step withheld from the recorded constants', verd, False)
import shutil
shutil.rmtree(run.work, ignore_errors=True)
print('selftest', 'ok' if ok else 'FAILED')
sys.exit(0 if ok else 1)

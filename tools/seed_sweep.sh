#!/bin/sh
# run every claimed check under several VERIF_SEED values; one line per (seed, check)
for s in "$@"; do
  for p in $(python3 -c "import json; print(' '.join(c['property_id'] for c in json.load(open('MANIFEST.json'))['checks']))"); do
    t0=$(date +%s)
    VERIF_SEED=$s VERIF_OUT=$PWD/.sweep timeout 3000 ./check $p --tier quick > .sweep-$p-$s.log 2>&1
    rc=$?
    echo "seed=$s $p rc=$rc wall=$(( $(date +%s) - t0 ))s violations=$(grep -c '^VIOLATION' .sweep-$p-$s.log)"
    [ $rc -eq 0 ] && rm -f .sweep-$p-$s.log
  done
done

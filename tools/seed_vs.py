#!/usr/bin/env python3
"""Run the check of ANOTHER property against a recorded seed: seed_vs.py <seed-id> <Cxx> [tier].  Prints the verdict."""
import os
import shutil
import subprocess
import sys
import tempfile

sid, prop = sys.argv[1], sys.argv[2]
tier = sys.argv[3] if len(sys.argv) > 3 else 'quick'
wt = tempfile.mkdtemp(prefix=f'sv-{sid}-', dir='/tmp')
out = tempfile.mkdtemp(prefix=f'svout-{sid}-', dir='/tmp')
os.rmdir(wt)
try:
    subprocess.run(['git', '-C', '/repo', 'worktree', 'add', '--detach', '-q', wt, 'HEAD'], check=True)
    a = subprocess.run(['git', '-C', wt, 'apply', f'/verif/seeded/{sid}/patch.diff'])
    if a.returncode:
        a = subprocess.run(['git', '-C', wt, 'apply', '-3', f'/verif/seeded/{sid}/patch.diff'])
    if a.returncode:
        print(f'{sid}: patch does not apply')
        sys.exit(2)
    p = subprocess.run(['/verif/check', prop, '--tier', tier], env=dict(os.environ, XLCALC_REPO=wt, VERIF_OUT=out),
                       stdout=subprocess.PIPE, stderr=subprocess.STDOUT, text=True)
    viol = [ln for ln in p.stdout.splitlines() if ln.startswith('VIOLATION')]
    print(f"{sid} vs {prop}: rc={p.returncode} groups={len(viol)} -> {'CAUGHT' if p.returncode == 1 and viol else 'MACHINERY' if p.returncode == 2 else 'MISSED'}")
    i = [k for k, ln in enumerate(p.stdout.splitlines()) if ln.startswith('VIOLATION')]
    if i:
        print('\n'.join(p.stdout.splitlines()[i[0]:i[0] + 3])[:900])
    elif p.returncode == 2:
        print(p.stdout[-800:])
finally:
    subprocess.run(['git', '-C', '/repo', 'worktree', 'remove', '--force', wt], stdout=subprocess.DEVNULL, stderr=subprocess.DEVNULL)
    shutil.rmtree(out, ignore_errors=True)
    shutil.rmtree(wt, ignore_errors=True)

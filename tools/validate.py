#!/usr/bin/env python3-vt
"""Validate MANIFEST.json and every evidence file against the schemas."""
import glob
import json
import sys

import jsonschema

ok = True
jsonschema.validate(json.load(open('/verif/MANIFEST.json')), json.load(open('/root/.vp/MANIFEST.schema.json')))
es = json.load(open('/root/.vp/EVIDENCE.schema.json'))
for p in sorted(glob.glob('/verif/evidence/*.json')):
    try:
        jsonschema.validate(json.load(open(p)), es)
    except jsonschema.ValidationError as e:
        ok = False
        print('INVALID', p, e.message)
print('schemas ok' if ok else 'schema errors')
sys.exit(0 if ok else 1)

#!/usr/bin/env python3
"""Print the DESIGN.md table rows for the recorded seeds whose id ends in the given suffixes (default: all)."""
import json
import os
import sys

NOTES = json.load(open('/verif/seeded/strengthening.json'))
suf = tuple(sys.argv[1:]) or None
for sid in sorted(os.listdir('/verif/seeded')):
    p = f'/verif/seeded/{sid}/meta.json'
    if not os.path.isfile(p) or (suf and not sid.endswith(suf)):
        continue
    m = json.load(open(p))
    v = m.get('verification', {})
    rc = m.get('recheck', {})
    first = v.get('verdict')
    groups = rc.get('violation_groups', v.get('violation_groups'))
    if first == 'CAUGHT' and ('pre:' + sid) in NOTES:
        verdict = f"caught ({v.get('violation_groups')} groups) - by a strengthening made from the sub-agent's report BEFORE the first run: {NOTES['pre:' + sid]}"
    elif first == 'CAUGHT':
        verdict = f"caught ({v.get('violation_groups')} groups)"
    else:
        verdict = f"**missed at first**, caught ({groups} groups) after: {NOTES.get(sid, '?')}"
    clean = lambda s: str(s).replace('|', '/').replace('\n', ' ')[:150]
    print(f"| {sid} | {v.get('property', m.get('property'))} | {clean(m.get('summary'))} | {clean(m.get('needs'))} | {verdict} |")

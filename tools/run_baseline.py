#!/usr/bin/env python3
"""Run the repository's test-suite (guard off) and compare with BASELINE.json:
every stable_pass test must pass.  Usage: run_baseline.py [repo]"""
import json
import os
import subprocess
import sys
import tempfile
import xml.etree.ElementTree as ET

repo = sys.argv[1] if len(sys.argv) > 1 else '/repo'
base = json.load(open('/root/.vp/BASELINE.json'))
with tempfile.TemporaryDirectory(dir=os.path.join(os.path.dirname(os.path.abspath(__file__)), '..', '.work')) as td:
    out = os.path.join(td, 'junit.xml')
    env = dict(os.environ)
    env.pop('XLCALCULATOR_VERIF', None)
    subprocess.run(['/venv/bin/python', '-m', 'pytest', '-q', '-p', 'no:cacheprovider', '--timeout=900', '-n', '8',
                    '--continue-on-collection-errors', f'--junitxml={out}'], cwd=repo, env=env,
                   stdout=subprocess.DEVNULL, stderr=subprocess.DEVNULL)
    if not os.path.exists(out):
        subprocess.run(['/venv/bin/python', '-m', 'pytest', '-q', '-p', 'no:cacheprovider', '--timeout=900',
                        '--continue-on-collection-errors', f'--junitxml={out}'], cwd=repo, env=env,
                       stdout=subprocess.DEVNULL, stderr=subprocess.DEVNULL)
    passed = set()
    for tc in ET.parse(out).getroot().iter('testcase'):
        if not any(c.tag in ('failure', 'error', 'skipped') for c in tc):
            passed.add(f"{tc.get('classname')}::{tc.get('name')}")
missing = [t for t in base['stable_pass'] if t not in passed]
print(f'baseline stable_pass={len(base["stable_pass"])} passed_now={len(passed)} missing={len(missing)}')
for t in missing[:20]:
    print('  NOT PASSING:', t)
sys.exit(1 if missing else 0)

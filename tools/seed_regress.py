#!/usr/bin/env python3
"""Run every recorded seeded regression (seeded/<id>/patch.diff) against the check of its property and
record the outcome in seeded/<id>/meta.json under "recheck".  Each seed gets its own scratch worktree of
/repo HEAD under /tmp, removed afterwards.  Usage: seed_regress.py [-j N] [id ...]
Development tool, not a registered check."""
import json
import os
import shutil
import subprocess
import sys
import tempfile
import time
from concurrent.futures import ThreadPoolExecutor

VERIF = '/verif'
args = sys.argv[1:]
jobs = 3
if '-j' in args:
    jobs = int(args[args.index('-j') + 1])
    del args[args.index('-j'):args.index('-j') + 2]
ids = args or sorted(d for d in os.listdir(os.path.join(VERIF, 'seeded')) if os.path.isfile(os.path.join(VERIF, 'seeded', d, 'patch.diff')))
head = subprocess.check_output(['git', '-C', '/repo', 'rev-parse', '--short', 'HEAD'], text=True).strip()


def one(sid):
    d = os.path.join(VERIF, 'seeded', sid)
    meta = json.load(open(os.path.join(d, 'meta.json')))
    prop = meta.get('verification', {}).get('property') or meta.get('property') or sid[:3]
    wt = tempfile.mkdtemp(prefix=f'sr-{sid}-', dir='/tmp')
    out = tempfile.mkdtemp(prefix=f'srout-{sid}-', dir='/tmp')
    os.rmdir(wt)
    rec = {'repo_head': head, 'at': time.strftime('%Y-%m-%d %H:%M')}
    try:
        subprocess.run(['git', '-C', '/repo', 'worktree', 'add', '--detach', '-q', wt, 'HEAD'], check=True)
        a = subprocess.run(['git', '-C', wt, 'apply', os.path.join(d, 'patch.diff')], stderr=subprocess.DEVNULL)
        if a.returncode:
            a = subprocess.run(['git', '-C', wt, 'apply', '-3', os.path.join(d, 'patch.diff')], stderr=subprocess.DEVNULL)
        rec['applies'] = a.returncode == 0
        if rec['applies']:
            demo = os.path.join(d, 'demo.py')
            if os.path.isfile(demo):      # does the change still break anything on today's tree? (a later fix: commit may have removed what it relied on)
                try:
                    r = subprocess.run(['/venv/bin/python', demo], cwd=wt, env=dict(os.environ, PYTHONPATH=wt), stdout=subprocess.DEVNULL,
                                       stderr=subprocess.DEVNULL, timeout=900)
                    rec['demo_changed_rc'] = r.returncode
                except subprocess.TimeoutExpired:
                    rec['demo_changed_rc'] = 'timeout'
            t = time.time()
            p = subprocess.run([os.path.join(VERIF, 'check'), prop, '--tier', 'quick'], env=dict(os.environ, XLCALC_REPO=wt, VERIF_OUT=out),
                               stdout=subprocess.PIPE, stderr=subprocess.STDOUT, text=True)
            viol = [ln for ln in p.stdout.splitlines() if ln.startswith('VIOLATION')]
            rec.update(check_rc=p.returncode, wall_s=round(time.time() - t), violation_groups=len(viol),
                       verdict='CAUGHT' if p.returncode == 1 and viol else ('MACHINERY' if p.returncode == 2 else
                                                                                  'NEUTRALISED' if rec.get('demo_changed_rc') == 0 else 'MISSED'))
    finally:
        subprocess.run(['git', '-C', '/repo', 'worktree', 'remove', '--force', wt], stdout=subprocess.DEVNULL, stderr=subprocess.DEVNULL)
        shutil.rmtree(out, ignore_errors=True)
        shutil.rmtree(wt, ignore_errors=True)
    meta['recheck'] = rec
    json.dump(meta, open(os.path.join(d, 'meta.json'), 'w'), indent=1)
    print(f"{sid}: {prop} {rec.get('verdict', 'DOES-NOT-APPLY')} groups={rec.get('violation_groups')} wall={rec.get('wall_s')}s", flush=True)
    return rec.get('verdict')


with ThreadPoolExecutor(jobs) as ex:
    res = list(ex.map(one, ids))
bad = [i for i, v in zip(ids, res) if v != 'CAUGHT']
print(f'{len(ids)} seeds, {len(ids) - len(bad)} caught; not caught: {bad}')
sys.exit(1 if bad else 0)

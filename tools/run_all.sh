#!/bin/sh
# run every claimed check (quick tier unless $1 given) sequentially; print one status line each
cd "$(dirname "$0")/.." || exit 2
tier=${1:-quick}
mkdir -p .work/all
for p in $(python3 -c "import json; print(' '.join(c['property_id'] for c in json.load(open('MANIFEST.json'))['checks']))"); do
  t0=$(date +%s)
  timeout 3000 ./check $p --tier $tier > .work/all/$p.log 2>&1
  rc=$?
  t1=$(date +%s)
  echo "$p rc=$rc wall=$((t1-t0))s known=$(grep -c '^KNOWN-FINDING' .work/all/$p.log) violations=$(grep -c '^VIOLATION' .work/all/$p.log)"
done

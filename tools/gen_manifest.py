#!/usr/bin/env python3
"""Generate /verif/MANIFEST.json from the table below (one entry per property)."""
import json
import os

VERIF = os.path.dirname(os.path.dirname(os.path.abspath(__file__)))

COMMON_NOTE = ('Trusted base: TLC 1.8.0 + CommunityModules (Json, IOUtils); harness/tlaval.py (dump parser), '
               'harness/xl.py (projection of implementation values to the abstract value universe), harness/agree.py. '
               'Bounded-exhaustive inside the stated instance; seeded traces beyond it are samples.')

# id -> (technique, level text, level note, design ref)
CLAIMED = {}
NOT_BUILT = {}


# what round 6 of the seeding loop added to each check (appended to the text of the claim)
ROUND6 = {
    'C01': ' Inputs are set through Evaluator.set_cell_value and through Model.set_cell_value; IEEE environments of magnitudes 1e-16 and 1e-300.',
    'C03': ' Families empty-sheet (references, ranges, COUNTA, ISBLANK into a worksheet of the file on which nothing is stored) and name-scoped '
           '(a defined name of the same spelling scoped to another worksheet next to the workbook-level name), both through generated .xlsx files.',
    'C04': ' Shape deep: a chain of 120 formula cells with a side input; all histories of length 3 of Set | Evaluate with evaluation targets near '
           'the top, in the middle and at the end (mechanisms that switch on past a depth threshold).',
    'C05': ' Chains of 60 - 700 formula cells under 7 schedules over 2 evaluators: one response per chain whatever was evaluated before '
           '(Deterministic / Idempotent in their two-run form: the depth lies beyond what the implementation descends to).',
    'C06': ' One sixteenth of the replayed graphs stand in a model with 320 unrelated formula cells (isolated nodes leave the outcome unchanged).',
    'C07': ' Concatenations whose operands are within the text limit of a cell and whose result is not, and arithmetic on text a date parser reads '
           'as a date with a time zone: the value is left open, a Python exception from an operator on two scalars is rejected (Trace_Local!TotalOp).',
    'C08': ' Every spelled-argument case again with the call in the chosen branch of an IF; operator chains a&b&..., a+b+..., a*b*... over '
           '3 - 300 referenced cells of every scalar type (TLC-judged).',
    'C09': ' Texts whose case mapping changes their length among the law values.',
    'C12': ' The text "Infinity" as a constant and inside a string literal of a formula.',
    'C13': ' A defined name spelt letters-then-digits beyond column XFD (GROWTH2024) in the extraction histories.',
    'C14': ' Texts that merely spell an error code among the cells; 16x16 / 17x17 numeric grids (more than 255 numbers in one call).',
    'C15': ' Keys and criteria whose doubles take 16 - 17 digits; zero operands ("=0", "<>0", "0"); approximate MATCH on ascending columns of '
           'mixed types, determined wherever the position holds a value of the key\'s own type.',
    'C16': ' Numbers of 1E+15 and more whose double is not the decimal they are written as, in every run of the driver.',
    'C19': ' The characters between "9" and "A" and after "Z" among the damaged digits.',
    'C20': ' IRR / XIRR flows in whole millions (a root is a root whatever the unit).',
}


ROUND7 = {
    'C01': ' IEEE environment around 1E+308.',
    'C03': ' Families name-like-cell (names such as YTD2024, A9999999) and cross-set (a range member whose precedent on another sheet is set after the '
           'range was read); random workbook driver, mix c03 (600 / 30000 workbooks).',
    'C04': ' Shape junction; wherever the specification leaves a response open the replay and the driver compare it with the response of a freshly '
           'compiled model holding the current contents (the relation the property states).',
    'C05': ' Shape crit (criteria that read alike as text).',
    'C06': ' Long sparse ranges on sheets whose names need quoting; references that occur only as the argument of an information function.',
    'C07': ' Big doubles under & and the comparisons, zone texts, error-history events (a range member turning into an error value and back).',
    'C08': ' numpy.float64 noisy doubles; zeros in variadic lists under the blank / None / FALSE spellings.',
    'C10': ' The reused-model pass also on a model that does not store the assignment cells; AND / OR over references to formula cells holding results of functions.',
    'C14': ' Scalars spelt with a negative exponent (1E-05).',
    'C15': ' FALSE as match type of MATCH.',
    'C16': ' CEILING / FLOOR with quotients of 1E+13 and more and almost-multiples, in every run.',
    'C17': ' The double -0.0 as text.',
    'C18': ' YEARFRAC actual/actual for periods longer than a year (average length of the years touched).',
    'C19': ' A deterministic block of digit strings with one punctuation character, as formula literals and direct arguments.',
    'C20': ' Financial-history events (PV over a PMT cell, NPV over growing flows, the input two levels below set).',
}


def claim(pid, technique, text, note, ref):
    CLAIMED[pid] = (technique, text + ROUND6.get(pid, '') + ROUND7.get(pid, ''), note, ref)


claim('C17',
      'TLA+ spec XlText; TLC enumerates all cases of MC_C17 + checks the property\'s laws as invariants; '
      'dump replayed into xl.FUNCTIONS and compiled formulas; seeded call traces validated by TLC (Trace_Calls)',
      'Every text over a 6-symbol alphabet (repeats, blank, quote, non-ASCII) up to length 3 (quick) / 4 (thorough), every '
      'position and count from below 1 to beyond the end, every replacement: expected results come from the TLA+ module '
      'XlText, whose algebraic laws (LEFT&RIGHT, MID=LEFT, LEN additivity, REPLACE decomposition, FIND minimality, TRIM '
      'idempotence) TLC checks as invariants; each case is replayed through native, wrapped and formula call paths; '
      'seeded longer texts (<= 40 code points incl. astral) are recorded and validated against the same spec by TLC.',
      COMMON_NOTE + ' Left open: fractional positions, case mapping outside Latin-1, text > 32767.',
      '§7 C17')

claim('C01',
      'TLA+ spec XlSyntax (Climb grammar, shunting-yard design, Render) + XlEval; TLC enumerates every ordered operator pair/triple, '
      'tree shapes with minimal/redundant parentheses, literal spellings and gaps, checks ShuntingYard = Climb and that wrong '
      'precedence tables are rejected; dump replayed through compiled models; the tree the specification assigns also evaluated in IEEE '
      'doubles on operands that separate every grouping (compared exactly); seeded deep formulas validated by TLC (Trace_Formula)',
      'Exhaustive over all 12x12 ordered operator pairs (x 8 unary-minus placements x 8 assignments incl. booleans so that every '
      'non-associative pair is discriminated - an ASSUME checked by TLC), all 12^3 triples, the 5 tree shapes of each triple with '
      'minimal and redundant parentheses, literal spellings (plain, decimal, percent, scientific) and blank/newline gaps; expected '
      'value = Eval of the tree the declarative grammar (rightmost lowest-precedence operator) assigns; the shunting-yard design is '
      'shown equal to that grammar and two wrong tables are shown to violate it. Seeded formulas with up to 8 operators are '
      'evaluated by the library and validated by TLC, which also re-renders each generated tree to hold the generator to the spec.',
      COMMON_NOTE + ' Left open: 0^0, fractional exponents, overflow, date-looking text in arithmetic, % after a non-literal (C02).',
      '§7 C01')

claim('C02',
      'TLA+ spec XlSyntax (AST, Render, MinParen, Erase); TLC enumerates AST families, renders the text and states the expected tree; '
      'dump replayed through FormulaParser.parse and XLFormula; seeded random ASTs validated by TLC (Trace_Parse); tokenizer and '
      'parser as explicit composed state machines (XlTokenizer: one action per branch of the character loop and per pass; XlParser: '
      'shunting yard with were_values / arg_count and the tree construction): TLC proves on the well-formed families that the '
      'machines refine the syntax spec (RefinesSyntax, RefinesTree, RpnIsPostOrder) and runs them on every short string over 6 '
      'alphabets; finished and failed states replayed into ExcelParser.getTokens / shunting_yard / build_ast (token list, reverse '
      'polish list with argument counts, tree); recorded parses validated by Trace_Parser, which reuses the actions of both machines; every '
      'text with string literals parsed again with a defined-name table made of the literal contents (the tree must not change)',
      'Exhaustive over: every atom kind (numbers in 5 spellings, strings, booleans, all 7 error literals, references in every $ / '
      'sheet-qualification spelling incl. quoted names, ranges, calls) in every one of 15 contexts nested two levels deep, every '
      'string of length <= 2 (thorough 3) over the tokenizer delimiter alphabet in 6 contexts, call arities 0..4 with nested calls '
      'and leading @, every gap class x gap kind (blank, two blanks, newline; leading and trailing included) and a missing "=". The '
      'parse tree is walked through public node attributes and must equal the AST with parentheses erased; seeded random ASTs of up '
      'to 14 nodes with random styles are parsed and validated by TLC, which also re-renders each tree (generator held to the spec). '
      'Front-end machines: every string of length <= 3-5 (thorough one more) over six 5-8 character alphabets '
      '(numbers/percent/scientific, calls, quoting modes, comparators, array constants, error literals) with and without "=", '
      'malformed text included (the machine fails exactly where the code raises IndexError); every formula of the fixture '
      'workbooks as the reader hands it to the tokenizer, generated formulas, and a one-character mutilation of each.',
      COMMON_NOTE + ' Left open: empty arguments, array constants, intersection/union, structured and external references, '
                    'numbers not in stored form, -x% association, double percent. Known finding F-C02-01 (% encoding precedence).',
      '§7 C02')

claim('C11',
      'TLA+ spec XlReader (storage forms, LoadCell, shared-formula Shift/Render, Load with ignore set); TLC enumerates abstract '
      'workbooks; each is written as .xlsx bytes by harness/xlsxwriter_min.py, loaded by read_and_parse_archive and compared clause '
      'by clause; the 65 fixture workbooks and seeded random workbooks are read by an independent stdlib XML reader and validated by TLC (Trace_C11)',
      'TLC enumerates workbooks over sheets with plain, blank-containing, apostrophe-containing and non-ASCII names: every '
      'SpreadsheetML storage form (n, s, str, inlineStr, b, e, date style, formula with/without cached value, shared master and '
      'members) pairwise as neighbours, shared formulas with the master at block corners and relative/mixed/absolute/cross-sheet '
      'references, every subset of ignored sheets, names bound to cells and ranges. Laws of Shift (identity, additivity, $ fixed, '
      'member-back) and of Load (ignore = restriction, one cell per stored cell) are TLC invariants. The loaded model is compared '
      'on cells, values, formula texts, formulae keys, names, get_cell_value before evaluation, and evaluation against both the spec '
      'and a read_and_parse_dict model of the same content.',
      COMMON_NOTE + ' Also trusted: harness/xlsxwriter_min.py and the check\'s own zipfile/ElementTree reader. Left open: array '
                    'formulas, data tables, hidden names, custom date-looking formats, times of day, rich text, ignore_hidden, 1904 system.',
      '§7 C11')
claim('C14',
      'TLA+ spec XlAgg (folds over argument lists and arrays); TLC enumerates fill patterns / splits / orders and checks the '
      'property\'s laws as invariants; dump replayed through direct Array calls and compiled formulas over real ranges; seeded '
      'rectangles validated by TLC (Trace_C14)',
      'All 3^9 fill patterns of a 3x3 block with number/blank/text (all for AVERAGE, hashed thirds/ninths for the rest in quick; all '
      'in thorough), all 2x3 patterns for every function, splits of ranges into sub-rectangles plus scalars in every argument '
      'order, overlapping sub-rectangles, SUMPRODUCT over equal and unequal shapes. Laws as TLC invariants on the spec: argument and '
      'cell permutation invariance, SUM additivity over every split, MIN <= AVERAGE <= MAX, COUNT <= COUNTA. Seeded rectangles up '
      'to 10x10 split into <= 4 arguments are evaluated by the library and validated by TLC.',
      COMMON_NOTE + ' Left open: no number at all for AVERAGE/MIN/MAX, non-number scalar arguments, booleans/dates/errors in ranges.',
      '§7 C14')
claim('C15',
      'TLA+ spec XlCrit (criterion parsing on code points, Matches, COUNTIF(S)/SUMIF(S) folds, MATCH, VLOOKUP, CHOOSE); TLC '
      'enumerates columns/tables x criteria x keys x indexes with 14 laws as invariants; dump replayed through direct calls and '
      'formulas over real ranges; seeded tables validated by TLC (Trace_C15)',
      'Columns of length <= 4 over numbers and texts (case variants) x every operator prefix with numeric (negative, decimal) and '
      'text operands and plain values; COUNTIFS with 2-3 criteria columns; 3x3 tables with the key at every position, absent and '
      'duplicated; every column index 0..4; ascending vectors with keys at, between, below and above; CHOOSE indexes -1..5. Laws '
      '(count = hit set, partition by = / <>, type restriction of ordering criteria, case-insensitivity, COUNTIFS conjunction, '
      'MATCH exact/approximate, VLOOKUP column) are TLC invariants. SUMIF/SUMIFS are compared only if the installed pandas '
      'supports them (start-up probe).',
      COMMON_NOTE + ' Left open: wildcards, blanks in criteria ranges, numeric-looking text cells, match_type -1, approximate VLOOKUP.',
      '§7 C15')
claim('C19',
      'TLA+ spec XlBits (two\'s-complement bit sequences, decimal<->bits on digit sequences, regrouping, padding and error rules); '
      'TLC enumerates the whole binary window x places x 12 functions with 8 laws as invariants; dump replayed through 5 call '
      'paths; BASES.xlsx (2741 Excel-computed conversions) anchors the spec; seeded 40-bit calls validated by TLC (Trace_C19)',
      'Exhaustive: every integer in -520..520 (superset of the binary window) x places in {omitted, 0..11} x all twelve functions '
      'in several source spellings; octal/hex window boundaries +-4 and powers of two +-1; 300 pseudo-random 30/40-bit patterns; '
      'every invalid digit class. Laws (there-and-back identity, alphabet/upper case/length, padding, error codes) are TLC '
      'invariants; the bit/digit machinery is shown equal to integer arithmetic where that fits. A sub-check evaluates =DEC2BIN(5) '
      'in a fresh process importing only the package.',
      COMMON_NOTE + ' Left open: places as text/fraction/blank, fractional or textual numbers for DEC2x, error arguments.',
      '§7 C19')
claim('C20',
      'TLA+ spec XlFin (NPV, PMT, PV, SLN, XNPV over guarded exact rationals; IsRoot for IRR/XIRR on constructed flows); 13 laws as '
      'TLC invariants; dump replayed through native/wrapped/mixed/formula paths; seeded vectors validated by TLC (Trace_C20) with '
      'harness-computed residuals where exponents are fractional',
      'Rates from a grid incl. negative and zero x flow vectors of length <= 4 (quick) x (rate, nper, pv, fv, type) and (cost, '
      'salvage, life) grids; IRR/XIRR flows constructed from a chosen root with one sign change so the root is unique. Laws on the '
      'spec: linearity of NPV/XNPV, PV(PMT)=pv and inverse with fv, rate-0 reductions, root uniqueness and monotonicity. Seeded '
      'vectors up to length 30 with increasing dates are validated by TLC; exact rational arithmetic wherever exponents are whole, '
      'Python floats (trusted) only for fractional exponents.',
      COMMON_NOTE + ' Left open: VDB, PMT type=1, guess, life <= 0, nper <= 0, IRR/XIRR outside the uniqueness condition. '
                    'F-C20-01 is fixed (b5687c8).',
      '§7 C20')

claim('C03',
      'TLA+ spec XlEval (sheet defaulting, ranges as row-major arrays, names) + XlSyntax rendering; TLC enumerates workbooks over '
      'three sheets and probe formulas; each workbook is built both by read_and_parse_dict and as an .xlsx (own writer) and the '
      'probe evaluated; resolve_ranges compared with the spec\'s Resolve; every formula cell of the fixture workbooks evaluated by the '
      'library under the local-consistency recorder and judged by TLC (Trace_Local)',
      'Exhaustive over a 3-sheet x 3x3 grid whose cells hold distinct powers of two (a sum reveals exactly which cells were read): '
      'every target cell x 4 $ spellings x qualified/unqualified x probe sheet, as a bare reference and inside arithmetic; all 36 '
      'rectangles x SUM/COUNTA x source/target sheets x $ spellings, dense and with all 15 sparse patterns of a 2x2 sub-block; '
      'blank reads; cross-sheet chains where qualified and unqualified references alternate and one cell is reached twice; 1xN and '
      'Nx1 strips (N up to 320) and a two-column block with long blank runs; columns AA..XFD; names bound to cells and to ranges, '
      'used in formulas and as the argument of evaluate; sheet names that are prefixes of one another; cells that come into being after '
      'compilation inside a range (`late`); resolve_ranges on 1920 rectangles. TLC checks the column-name bijection on '
      '1..18278 and the rows x columns / no-duplicate shape of Resolve.',
      COMMON_NOTE + ' Also trusted: harness/xlsxwriter_min.py, harness/syntax.py (held to the spec by Trace_Parse/Trace_Formula). '
                    'Left open: reversed ranges, whole rows/columns, unions, names bound to formulas, evaluate(name of a range). Known finding F-C03-01.',
      '§7 C03')
claim('C16',
      'TLA+ spec XlMath (decimals as digit sequences; rounding family, CEILING/FLOOR, MOD, powers, factorials exactly; domains, '
      'reference expressions and anchor points of the elementary functions); 18 laws as TLC invariants; dump replayed on four call '
      'paths; seeded 15-digit decimals validated by TLC (Trace_C16) with ulp distances measured against Python math under the '
      'spec-fixed reference expression',
      'Exact half decided by the specification alone: every sign x digit string of length <= 3 x exponent -3..2 plus tie families x '
      'digit counts, CEILING/FLOOR over all sign combinations and significances incl. 0.1 and 0.25, MOD over all sign combinations, '
      'integer powers, factorials. Analytic half: the spec fixes domain (outside it an Excel error value, never NaN/inf/exception), '
      'argument binding (RefExpr, e.g. ATAN2(x,y)=atan2(y,x)) and exact anchors; the ulp distance (<= 4) is computed by the harness '
      'with Python math and checked by the trace spec. Seeded decimals with up to 15 significant digits and exponents +-300.',
      COMMON_NOTE + ' Also trusted for the analytic half: CPython math/libm as IEEE oracle. Left open: which error code, ties between '
                    'doubles, FACT > 170, trig arguments >= 2^27, 0^0.',
      '§7 C16')
claim('C18',
      'TLA+ spec XlDate (1900-system calendar by integer arithmetic, DATE carry, EDATE/EOMONTH, DATEDIF, YEARFRAC as exact '
      'rationals); TLC sweeps serials (one state per serial with all calendar fields; every serial 1..2958465 in thorough) and '
      'enumerates calls, 20 laws as invariants; dump replayed through direct calls and formulas; seeded calls validated by TLC (Trace_C18)',
      'Quick: serials 1..1500, every 97th to 2958465, +-3 around century/leap boundaries, and ~87k enumerated calls (DATE with months '
      '-14..27 and days -40..70, month offsets -25..25, all WEEKDAY return types, DATEDIF D/M/Y and YEARFRAC bases over ordered '
      'pairs of sampled dates). Thorough: every whole serial. Laws on the spec: serial<->date bijection and monotonicity, weekday '
      'advance, month lengths and leap rule, DATE(YEAR,MONTH,DAY)=id, ISO week range. Library datetimes are projected through the '
      'harness\'s own calendar, so the library\'s serial conversion is itself under test.',
      COMMON_NOTE + ' Left open: serial 60/0, negatives, weekdays below 61, February 1900 crossings, dates as text, DATEDIF MD/YM/YD, '
                    '30/360 with days 29-31. Known finding F-C18-01 (time-of-day fraction, pinned by a test).',
      '§7 C18')

claim('C04',
      'TLA+ spec XlWorkbook (API-level state machine: inputs, stored values, evaluated set, mechanism switch); TLC checks NoStale / '
      'StoredInputs / GetIsStored / Deterministic / EvaluateFrame on all reachable states and shows the need_update and global-memo '
      'design variants violate NoStale; every history of length 4 (thorough 5) is replayed step by step into the real model; random workbook histories validated by TLC (Trace_Local); thorough: every evaluation of the repository\'s own tests validated likewise',
      'All interleavings of set_cell_value (by address and by defined name), evaluate and get_cell_value up to length 4 (quick) / 5 '
      '(thorough) on eleven model shapes (chain, diamond with a repeated reference, sum over a range with a formula member, named '
      'input, cross-sheet pair, overlapping ranges, twin formula texts, lazy arguments, names on quoted sheets, a name for a formula, and '
      '`sparse`: ranges reaching beyond the stored cells, a never-stored input, a stored -1 set to -2, a text set to another letter case): every history is a distinct TLC state carrying the expected response and the expected stored value '
      'of every cell after every step; the real model is driven along each history and compared after every step (and built from an '
      '.xlsx for a sample). Evaluate in the spec is defined by the caching mechanism a constant selects, the property against the '
      'big-step value on the current inputs; TLC proves the shipped mechanism satisfies it to depth 6 and the two caching variants do not.' +
      ' Random workbook driver (checks/wbdrive.py): seeded multi-sheet workbooks (quoted and prefix sheet names, every scalar kind, formulas over the modelled subset, names, repeated formula texts) under random histories of evaluate / set / persist+restore / deepcopy / extract; every evaluation is judged by TLC (Trace_Local) against Eval over the dependency closure with the constants as the driver set them.',
      COMMON_NOTE + ' Left open: get of a never-evaluated formula cell, setting a formula cell, stored values of lazily skipped cells.',
      '§7 C04')
claim('C05',
      'same XlWorkbook spec with two evaluators: TLC checks Deterministic / Idempotent / EvaluateFrame / Footprint and shows the '
      'leaky-memo and global-memo variants violate them; every schedule of length 4 (thorough 5) replayed; model snapshot before/after '
      'each evaluation and after evaluate() of things that are not cells; the schedules again with evaluator 2 holding its own function '
      'table (one response per content, cell and evaluator); process footprint measured in a fresh subprocess; random workbook '
      'histories validated by TLC (Trace_Local)',
      'All permutations-with-repetition of Evaluate(evaluator in {1,2}, cell) of length 4/5 on the five shapes, plus all length-3 '
      'interleavings with Set: responses compared with the spec (hence with each other), constants / formula texts / names / cell '
      'set compared before and after every evaluation. Footprint: gc-object and tracemalloc growth between the 1st and the 2nd batch '
      'of identical evaluations (3000 / 20000 per batch) in a fresh subprocess, with a single evaluator and with a fresh Evaluator '
      'every 50 calls; the spec bounds what an evaluation may leave behind (Footprint), the harness bounds the measured growth.' +
      ' Random workbook driver (checks/wbdrive.py): seeded multi-sheet workbooks (quoted and prefix sheet names, every scalar kind, formulas over the modelled subset, names, repeated formula texts) under random histories of evaluate / set / persist+restore / deepcopy / extract; every evaluation is judged by TLC (Trace_Local) against Eval over the dependency closure with the constants as the driver set them.',
      COMMON_NOTE + ' The footprint sub-clause uses quantities TLA+ has no notion of (gc objects, traced bytes), measured by the harness; '
                    'slack 200 objects / 128 KiB per batch. Left open: volatile functions, threads.',
      '§7 C05')

claim('C06',
      'TLA+ spec XlEvalMachine (small-step walk of the dependency graph: frame stack, per-context memo, cycle check selected by a '
      'constant); TLC checks termination (liveness under fairness), stack/step bounds, cycle-iff-cyclic, no-false-cycle and refinement '
      'of the big-step value on every digraph, and rejects the per-context and visited-set variants; every final state is replayed '
      'in a time/memory-limited evaluation; chains and seeded graphs are validated by TLC (Trace_C06); the machine is shown (TLC) to '
      'refine the path skeleton XlEvalPath, whose invariant is proved inductive for all graphs on 8 cells by Apalache',
      'Every digraph on 3 cells (quick; 4 cells sampled in thorough) with up to two possibly repeated references per cell, at most one '
      'failing cell, every entry point: 26 364 behaviours, each deterministic; the outcome class (value / cycle report / other '
      'failure) and the value of every behaviour are compared with the real evaluator on formulas that mention cells singly or through '
      'ranges. The graph-theoretic statement (reachable cycle <=> cycle report, unless a failing cell is reachable too) is checked by '
      'TLC both on the machine and, independently of it, on recorded outcomes of seeded graphs on 4-10 cells. Chains of depth up to '
      '200 (thorough 512) with valid, unknown-function and Python-error leaves bound message size (400k+400) and CPU time (5k^2+2000 ms). '
      'Dormant cycles: references guarded by a switch cell through IF - evaluate, set the switch, evaluate, and back - on 1500 graphs; '
      'every REGISTERED function with a lazily evaluated parameter is scanned: if a spy in the referenced cell fired, the cycle through '
      'that argument must be reported. Apalache: the stack of the path skeleton is a simple path of the reference graph (depth <= number '
      'of cells) and a cycle report carries a closed walk, inductively, for all 2^64 graphs on 8 cells; the variant without the path check is rejected.',
      COMMON_NOTE + ' Time is measured (process CPU time), not modelled. Left open: wording/class of exceptions beyond "mentions a cycle", '
                    'whether a very deep acyclic chain yields its value or a bounded failure.',
      '§7 C06')

claim('C07',
      'TLA+ specs XlValues (operators with leftmost-error propagation), XlErr (strict functions hand on the leftmost error among '
      'scalar arguments and range elements; inspectors), XlSig (witness table of every registered function); TLC enumerates operator '
      'x position x code x partner, the operand type matrix, every witness x every injection point x code, and checks the '
      'propagation laws; dump replayed through native / wrapped / literal-formula / referenced-cell-formula paths incl. stored values; '
      'seeded multi-error calls validated by TLC (Trace_C07); error chains validated by TLC (Trace_Formula)',
      'Exhaustive: 12 binary operators x both positions x 7 codes x 9 partner values, all 49 code pairs (leftmost wins), unary '
      'operators, the 9x9 operand matrix (value or Excel error, never a Python exception / NaN / infinity), 104 call shapes covering '
      'every registered function that is not error-opaque x every scalar and every range-element position x 7 codes plus pairs of '
      'positions, ISERROR/ISERR/ISNA on all codes and on non-errors, NA(), ISNUMBER/ISTEXT/ISBLANK on non-error values. Laws on the '
      'spec (leftmost, the result is one of the argument errors, ISERR/ISNA split ISERROR) are TLC invariants. Chains A1=error, '
      'B1=A1+1, C1=B1&"x" ... are read back through get_cell_value.',
      COMMON_NOTE + ' Left open: which error when another argument would fail on its own, error arguments of ISNUMBER/ISTEXT/ISBLANK, '
                    'unselected CHOOSE values, lookup tables containing errors, VDB. Known findings F-C07-01 (native OP_EQ/OP_NE), F-C07-02 (SUMPRODUCT #N/A).',
      '§7 C07')
claim('C09',
      'TLA+ spec XlValues (Cmp3 total order, blank equalities); TLC checks trichotomy, derived operators, antisymmetry, transitivity '
      '(all triples), rank order, case-insensitivity and blank equalities as invariants of the spec; every ordered pair x 6 operators '
      'replayed through native, wrapped and formula paths; seeded pairs validated by TLC (Trace_Calls)',
      'All 24^2 ordered pairs of a value set (ints, fractions, negative, zero, dates with and without a time, texts: empty, '
      'numeric-looking, case variants, prefixes of one another, "true"/"FALSE", a blank-only text, non-ASCII; booleans; blank) x 6 '
      'operators, and all 24^3 triples for transitivity on the specification. Formulas =X op Y use literals and cells, so blanks are '
      'real empty cells. Because every cell of the observed truth table is compared with a table TLC has shown to be a total order, '
      'an order law broken by the code shows as a disagreement.',
      COMMON_NOTE + ' Left open: ordering (not equality) with a blank operand, texts with code points outside the simple case table. '
                    'Known finding F-C09-01 (native-operand OP_EQ/OP_NE, pinned by a test).',
      '§7 C09')

claim('C08',
      'TLA+ specs XlValues (ToNum / ToText / arithmetic), MC_C08 (spelling tags with the law that every spelling denotes the same '
      'number), XlSig witnesses, XlRegistry (registry / evaluator namespace snapshots); TLC enumerates witness x numeric position x '
      'spelling, bad-text injections, the scalar type matrix, and all registry histories; replayed through direct calls and '
      'formulas (literal and referenced cell)',
      'Every witness of XlSig plus witnesses holding 0 and 1 x every numeric parameter position x 12 spellings (int, float, numpy '
      'scalar, Number object, decimal text, scientific text, Text object, boolean/Boolean, None/BLANK): the result must equal the '
      'native-spelling result; TLC shows (ASSUME) that every generated spelling denotes the same number under ToNum. Non-numeric text '
      'in every numeric position must give #VALUE!; the 11x11 scalar matrix x arithmetic operators and & is compared with the spec '
      'values ("3"+1=4, TRUE+1=2, blank+1=1, 1&TRUE="1TRUE"); numbers and booleans as text arguments; 365 function-name spellings '
      '(lower, capitalised, _xlfn. prefixes); all 1720 registry histories (Register / NewEvaluator / Call) of length <= 5 with user '
      'functions defined through xl.register + validate_args.',
      COMMON_NOTE + ' Left open: visibility of a function registered after the evaluator was created, text with surrounding blanks, '
                    'currency/percent/date-looking text, "true"/"false" text in numeric positions.',
      '§7 C08')

claim('C10',
      'TLA+ spec XlLogic: an evaluator returning the SET of admissible outcomes (value, spy-call log) for IF / AND / OR / NOT with '
      'explicit laziness; TLC enumerates conditions x branches x truth assignments x poisoned branches and AND/OR argument lists, and '
      'checks that IF is deterministic and ignores a poisoned unselected branch; every case is evaluated with a SPY function in the '
      'evaluator namespace and (value, log) must be an admissible outcome',
      '18 conditions (logical and numeric constants, a blank cell, references under 4 truth assignments, comparisons, nested '
      'AND/OR/NOT/IF, error values) x 6 branch expressions in both branches and in the two-argument form; branches poisoned by an '
      'unknown function, a circular reference or 1/0 on either side; AND/OR of arity 1-3 over 13 argument kinds (incl. ranges, errors, '
      'spies, an unknown function); NOT over all conditions. AND/OR may stop at any point where the result is decided: every such '
      'stopping point is an admissible outcome, an error among the evaluated arguments being the result.',
      COMMON_NOTE + ' Left open: text conditions, AND/OR with no non-blank element, text elements in AND/OR ranges.',
      '§7 C10')
claim('C12',
      'XlWorkbook spec with a Persist step closing each history: the entry carries the stored values and the fresh value of every cell; '
      'TLC enumerates all histories; each is replayed, persisted (.json/.gz/.gzip, also upper case; also before compilation), restored '
      'and compared; random workbook histories with persist+restore steps validated by TLC (Trace_Local)',
      'Every history of up to 2 (thorough 3) Set / Evaluate steps followed by Persist on 8 shapes (incl. `ghost`: references to never-stored cells and to a sheet the workbook lacks, `wide`: a range across the Z/AA column boundary), one of which holds every value kind '
      '(int, fraction, non-ASCII text, 1e300, 5e-324, boolean, date with a time, formulas yielding an error, a text and a logical, a '
      'defined name, a range, two sheets). The restored model is compared with the original on cells (address, value, formula text), '
      'formulae, defined names and range matrices, with the stored values of the specification state, and every cell is evaluated '
      'in both models against the fresh value the specification computes; the file encoding must follow the extension.' +
      ' Random workbook driver (checks/wbdrive.py): seeded multi-sheet workbooks (quoted and prefix sheet names, every scalar kind, formulas over the modelled subset, names, repeated formula texts) under random histories of evaluate / set / persist+restore / deepcopy / extract; every evaluation is judged by TLC (Trace_Local) against Eval over the dependency closure with the constants as the driver set them.',
      COMMON_NOTE + ' Left open: identity of token/uuid objects, the JSON text itself.',
      '§7 C12')
claim('C13',
      'XlWorkbook spec with an Extract(focus) step: Closure (through references, ranges and names, with its laws checked by TLC) and '
      'the fresh values of the focus before and after input changes; TLC enumerates every non-empty focus subset after every short '
      'history; each is replayed through ModelCompiler.extract; random workbook histories with extract steps validated by TLC (Trace_Local)',
      '6 acyclic shapes x every history of <= 1 (thorough 2) Set / Evaluate steps x EVERY non-empty subset of cells and names as '
      'focus (12.5k cases quick): the extract must contain the closure, leave the original (constants, formulas, names, stored values) '
      'unchanged, and evaluate every focused cell and name to the fresh value in both models - again after each input of the closure '
      'is set to another value in both. Closure is shown extensive, idempotent and reference-closed by TLC. Shapes incl. `ghost` and `wide`.' +
      ' Random workbook driver (checks/wbdrive.py): seeded multi-sheet workbooks (quoted and prefix sheet names, every scalar kind, formulas over the modelled subset, names, repeated formula texts) under random histories of evaluate / set / persist+restore / deepcopy / extract; every evaluation is judged by TLC (Trace_Local) against Eval over the dependency closure with the constants as the driver set them.',
      COMMON_NOTE + ' Left open: extra cells in the extract, its formulae/ranges bookkeeping beyond what evaluation needs.',
      '§7 C13')

ALL = ['C%02d' % i for i in range(1, 21)]


def main():
    checks = []
    for pid in ALL:
        if pid not in CLAIMED:
            continue
        technique, text, note, ref = CLAIMED[pid]
        checks.append({
            'property_id': pid,
            'quick_cmd': f'./check {pid} --tier quick',
            'thorough_cmd': f'./check {pid} --tier thorough',
            'evidence_file': f'evidence/{pid}.json',
            'replay_cmd_template': f'./check {pid} --replay {{path}}',
            'engine': 'tlc+replay',
            'level_claimed': {'category': 'model_checking', 'text': text, 'design_ref': ref},
            'level_note': note,
            'technique': technique,
        })
    na = [{'property_id': pid,
           'reason': NOT_BUILT.get(pid, 'check not built yet (planned with the same TLA+ technique, see DESIGN.md §7); not claimed until it exists')}
          for pid in ALL if pid not in CLAIMED]
    man = {
        'version': 1,
        'setup_cmd': './setup.sh',
        'hooks': {
            'guard': 'XLCALCULATOR_VERIF',
            'enable': 'no source hooks: recording wrappers are installed by the harness around public API calls; '
                      'checks import xlcalculator from /repo (or $XLCALC_REPO) on every run',
            'baseline_off_cmd': 'cd /repo && /venv/bin/python -m pytest -ra -q -p no:cacheprovider --timeout=900 --continue-on-collection-errors',
            'source_commits': [],
            'add_only': True,
        },
        'engines': [{'name': 'tlc+replay', 'path': 'check',
                     'serves_properties': [c['property_id'] for c in checks],
                     'kind_free_text': 'explicit TLA+ specification (spec/*.tla) model-checked by TLC; TLC-enumerated cases and '
                                       'behaviours replayed into the real library; recorded traces validated by TLC trace specs'}],
        'checks': checks,
        'not_applicable': na,
        'notes': 'See DESIGN.md. Known findings: findings/known_findings.json. Exit 2 = machinery failure.',
    }
    with open(os.path.join(VERIF, 'MANIFEST.json'), 'w') as fh:
        json.dump(man, fh, indent=1)
    print(f'{len(checks)} claimed, {len(na)} not claimed')


if __name__ == '__main__':
    main()

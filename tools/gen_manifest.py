#!/usr/bin/env python3
"""Generate /verif/MANIFEST.json from the table below (one entry per property)."""
import json
import os

VERIF = os.path.dirname(os.path.dirname(os.path.abspath(__file__)))

COMMON_NOTE = ('Trusted base: TLC 1.8.0 + CommunityModules (Json, IOUtils); harness/tlaval.py (dump parser), '
               'harness/xl.py (projection of implementation values to the abstract value universe), harness/agree.py. '
               'Bounded-exhaustive inside the stated instance; seeded traces beyond it are samples.')

# id -> (technique, level text, level note, design ref)
CLAIMED = {}
NOT_BUILT = {}


def claim(pid, technique, text, note, ref):
    CLAIMED[pid] = (technique, text, note, ref)


claim('C17',
      'TLA+ spec XlText; TLC enumerates all cases of MC_C17 + checks the property\'s laws as invariants; '
      'dump replayed into xl.FUNCTIONS and compiled formulas; seeded call traces validated by TLC (Trace_Calls)',
      'Every text over a 6-symbol alphabet (repeats, blank, quote, non-ASCII) up to length 3 (quick) / 4 (thorough), every '
      'position and count from below 1 to beyond the end, every replacement: expected results come from the TLA+ module '
      'XlText, whose algebraic laws (LEFT&RIGHT, MID=LEFT, LEN additivity, REPLACE decomposition, FIND minimality, TRIM '
      'idempotence) TLC checks as invariants; each case is replayed through native, wrapped and formula call paths; '
      'seeded longer texts (<= 40 code points incl. astral) are recorded and validated against the same spec by TLC.',
      COMMON_NOTE + ' Left open: fractional positions, case mapping outside Latin-1, text > 32767.',
      '§7 C17')

claim('C01',
      'TLA+ spec XlSyntax (Climb grammar, shunting-yard design, Render) + XlEval; TLC enumerates every ordered operator pair/triple, '
      'tree shapes with minimal/redundant parentheses, literal spellings and gaps, checks ShuntingYard = Climb and that wrong '
      'precedence tables are rejected; dump replayed through compiled models; seeded deep formulas validated by TLC (Trace_Formula)',
      'Exhaustive over all 12x12 ordered operator pairs (x 8 unary-minus placements x 8 assignments incl. booleans so that every '
      'non-associative pair is discriminated - an ASSUME checked by TLC), all 12^3 triples, the 5 tree shapes of each triple with '
      'minimal and redundant parentheses, literal spellings (plain, decimal, percent, scientific) and blank/newline gaps; expected '
      'value = Eval of the tree the declarative grammar (rightmost lowest-precedence operator) assigns; the shunting-yard design is '
      'shown equal to that grammar and two wrong tables are shown to violate it. Seeded formulas with up to 8 operators are '
      'evaluated by the library and validated by TLC, which also re-renders each generated tree to hold the generator to the spec.',
      COMMON_NOTE + ' Left open: 0^0, fractional exponents, overflow, date-looking text in arithmetic, % after a non-literal (C02).',
      '§7 C01')

claim('C02',
      'TLA+ spec XlSyntax (AST, Render, MinParen, Erase); TLC enumerates AST families, renders the text and states the expected tree; '
      'dump replayed through FormulaParser.parse and XLFormula; seeded random ASTs validated by TLC (Trace_Parse)',
      'Exhaustive over: every atom kind (numbers in 5 spellings, strings, booleans, all 7 error literals, references in every $ / '
      'sheet-qualification spelling incl. quoted names, ranges, calls) in every one of 15 contexts nested two levels deep, every '
      'string of length <= 2 (thorough 3) over the tokenizer delimiter alphabet in 6 contexts, call arities 0..4 with nested calls '
      'and leading @, every gap class x gap kind (blank, two blanks, newline; leading and trailing included) and a missing "=". The '
      'parse tree is walked through public node attributes and must equal the AST with parentheses erased; seeded random ASTs of up '
      'to 14 nodes with random styles are parsed and validated by TLC, which also re-renders each tree (generator held to the spec).',
      COMMON_NOTE + ' Left open: empty arguments, array constants, intersection/union, structured and external references, '
                    'numbers not in stored form, -x% association, double percent. Known finding F-C02-01 (% encoding precedence).',
      '§7 C02')

ALL = ['C%02d' % i for i in range(1, 21)]


def main():
    checks = []
    for pid in ALL:
        if pid not in CLAIMED:
            continue
        technique, text, note, ref = CLAIMED[pid]
        checks.append({
            'property_id': pid,
            'quick_cmd': f'./check {pid} --tier quick',
            'thorough_cmd': f'./check {pid} --tier thorough',
            'evidence_file': f'evidence/{pid}.json',
            'replay_cmd_template': f'./check {pid} --replay {{path}}',
            'engine': 'tlc+replay',
            'level_claimed': {'category': 'model_checking', 'text': text, 'design_ref': ref},
            'level_note': note,
            'technique': technique,
        })
    na = [{'property_id': pid,
           'reason': NOT_BUILT.get(pid, 'check not built yet (planned with the same TLA+ technique, see DESIGN.md §7); not claimed until it exists')}
          for pid in ALL if pid not in CLAIMED]
    man = {
        'version': 1,
        'setup_cmd': './setup.sh',
        'hooks': {
            'guard': 'XLCALCULATOR_VERIF',
            'enable': 'no source hooks: recording wrappers are installed by the harness around public API calls; '
                      'checks import xlcalculator from /repo (or $XLCALC_REPO) on every run',
            'baseline_off_cmd': 'cd /repo && /venv/bin/python -m pytest -ra -q -p no:cacheprovider --timeout=900 --continue-on-collection-errors',
            'source_commits': [],
            'add_only': True,
        },
        'engines': [{'name': 'tlc+replay', 'path': 'check',
                     'serves_properties': [c['property_id'] for c in checks],
                     'kind_free_text': 'explicit TLA+ specification (spec/*.tla) model-checked by TLC; TLC-enumerated cases and '
                                       'behaviours replayed into the real library; recorded traces validated by TLC trace specs'}],
        'checks': checks,
        'not_applicable': na,
        'notes': 'See DESIGN.md. Known findings: findings/known_findings.json. Exit 2 = machinery failure.',
    }
    with open(os.path.join(VERIF, 'MANIFEST.json'), 'w') as fh:
        json.dump(man, fh, indent=1)
    print(f'{len(checks)} claimed, {len(na)} not claimed')


if __name__ == '__main__':
    main()
